package main

import (
	"encoding/json"
	"fmt"
	"os"
	"os/exec"
	"path/filepath"
	"strings"
	"time"
)

// runBounded runs the bounded stand-ins of the property: exhaustive small-scope harnesses executed
// against the real code (in-package tests injected with go test -overlay, nothing written to the
// repository). They are labelled bounded in the evidence and never counted as proved.
func (r *checkRun) runBounded() int {
	exit := 0
	for _, b := range r.cfg.Bounded {
		bound := b.Quick
		if r.tier == "thorough" && b.Thorough != "" {
			bound = b.Thorough
		}
		start := time.Now()
		cmd := exec.Command(filepath.Join(verifDir, "tools", "overlay_test.sh"), r.repo, b.Package, filepath.Join(verifDir, "bounded", b.File), b.Test)
		cmd.Env = append(os.Environ(), "VERIF_BOUND="+bound, fmt.Sprintf("VERIF_SEED=%d", r.seed), "VERIF_PROPERTY="+r.cfg.Property)
		// deviation classes of recorded (not repaired) findings of this stand-in: the harness still runs those inputs and
		// counts them; anything not listed in the committed findings file is a failure
		name0 := "bounded:" + b.Name
		var knownPats []string
		for _, k := range loadKnown() {
			if k.Property == r.cfg.Property && k.Status == "known" && k.Obligation == name0 && k.Input != "" {
				knownPats = append(knownPats, strings.Split(k.Input, "|")...)
			}
		}
		cmd.Env = append(cmd.Env, "VERIF_KNOWN="+strings.Join(knownPats, "|"))
		if b.Tags != "" {
			cmd.Env = append(cmd.Env, "VERIF_TAGS="+b.Tags)
		}
		if b.Timeout != "" {
			cmd.Env = append(cmd.Env, "VERIF_TEST_TIMEOUT="+b.Timeout)
		} else if r.tier == "thorough" {
			// the thorough bounds run for minutes on an idle machine; a loaded one must not turn that into a "hang"
			cmd.Env = append(cmd.Env, "VERIF_TEST_TIMEOUT=3000s")
		}
		out, err := cmd.CombinedOutput()
		rec := map[string]any{"name": b.Name, "function": b.Test, "label": "bounded (exhaustive up to the stated bound; not a proof)", "bound_param": bound, "wall_s": round3(time.Since(start).Seconds())}
		var failures []string
		found := false
		for _, line := range strings.Split(string(out), "\n") {
			if i := strings.Index(line, "BOUNDED-RESULT "); i >= 0 {
				var res map[string]any
				if json.Unmarshal([]byte(line[i+len("BOUNDED-RESULT "):]), &res) == nil {
					found = true
					for k, v := range res {
						if k == "failures" {
							if fs, ok := v.([]any); ok {
								for _, f := range fs {
									failures = append(failures, fmt.Sprint(f))
								}
							}
							continue
						}
						rec[k] = v
					}
				}
			}
		}
		if !found {
			if why, isBuild := buildFailure(string(out)); isBuild {
				// the stand-in is Go code written against the package's current API: when it no longer compiles (or the
				// package itself does not), nothing was explored. That is not a verdict on the property.
				fmt.Printf("UNDECIDED %s [bounded] the stand-in does not build against this tree, nothing was explored: %s\n", name0, why)
				rec["failures"] = 0
				rec["undecided"] = "does not build: " + why
				r.bounded = append(r.bounded, rec)
				if exit == 0 {
					exit = 3
				}
				continue
			}
			failures = append(failures, crashSummary(string(out)))
		} else if err != nil && len(failures) == 0 {
			failures = append(failures, "harness failed: "+err.Error())
		}
		rec["failures"] = len(failures)
		r.bounded = append(r.bounded, rec)
		if hits, ok := rec["known_deviation_hits"].(map[string]any); ok {
			for _, k := range loadKnown() {
				if k.Property != r.cfg.Property || k.Status != "known" || k.Obligation != name0 {
					continue
				}
				n := 0.0
				for _, pat := range strings.Split(k.Input, "|") {
					if v, ok := hits[strings.TrimSpace(pat)].(float64); ok {
						n += v
					}
				}
				if n > 0 {
					fmt.Printf("KNOWN-FINDING: property=%s %s [%s] (%d inputs of this class in the run): %s\n", r.cfg.Property, name0, k.Input, int(n), k.What)
					r.knownHits = append(r.knownHits, name0+" "+k.Input)
				}
			}
		}
		if len(failures) == 0 {
			fmt.Printf("bounded %s: %v cases, bound %v, ok\n", b.Name, rec["cases"], rec["bound"])
			continue
		}
		name := "bounded:" + b.Name
		known := false
		for _, k := range loadKnown() {
			if k.Property == r.cfg.Property && k.Status == "known" && k.Obligation == name && k.Input == "" {
				known = true
				fmt.Printf("KNOWN-FINDING: property=%s %s: %s\n", r.cfg.Property, name, k.What)
				r.knownHits = append(r.knownHits, name)
			}
		}
		if known {
			continue
		}
		path := filepath.Join(verifDir, "replays", r.cfg.Property, "bounded_"+b.Name+".json")
		os.MkdirAll(filepath.Dir(path), 0o755)
		data, _ := json.MarshalIndent(map[string]any{"property": r.cfg.Property, "obligation": name, "kind": "bounded", "verdict": "confirmed",
			"failing_inputs": failures, "replay": fmt.Sprintf("tools/overlay_test.sh %s %s bounded/%s %s", r.repo, b.Package, b.File, b.Test)}, "", " ")
		os.WriteFile(path, data, 0o644)
		fmt.Printf("FAILED %s [bounded] %s\n", name, failures[0])
		fmt.Printf("VIOLATION property=%s replay=%s\n", r.cfg.Property, path)
		r.violations = append(r.violations, violation{obligation: name, status: "bounded-failure", replay: path, hasInput: true})
		exit = 1
	}
	return exit
}

// buildFailure recognises a go test run that ended before any test ran because something did not compile.
func buildFailure(out string) (string, bool) {
	if !strings.Contains(out, "[build failed]") && !strings.Contains(out, "[setup failed]") {
		return "", false
	}
	var first []string
	for _, line := range strings.Split(out, "\n") {
		if strings.Contains(line, ".go:") && len(first) < 3 {
			first = append(first, strings.TrimSpace(line))
		}
	}
	return strings.Join(first, "; "), true
}

// crashSummary describes a harness process that ended without a result line: the code under test brought the
// process down (panic outside the harness's recover, fatal error, timeout). The panic line and the first frames
// inside the repository are kept, then the tail of the output.
func crashSummary(out string) string {
	lines := strings.Split(out, "\n")
	var what string
	var frames []string
	for _, line := range lines {
		t := strings.TrimSpace(line)
		if what == "" && (strings.HasPrefix(t, "panic: ") || strings.HasPrefix(t, "fatal error: ")) {
			what = t
		}
		if what != "" && strings.HasPrefix(t, "github.com/specterops/dawgs/") && len(frames) < 4 {
			if i := strings.LastIndex(t, "("); i > 0 {
				t = t[:i]
			}
			frames = append(frames, t)
		}
	}
	tail := out
	if len(tail) > 1200 {
		tail = tail[len(tail)-1200:]
	}
	if what == "" {
		return "harness produced no result: " + tail
	}
	kind := "the code under test crashed the harness process"
	if strings.Contains(what, "test timed out") {
		kind = "the harness did not finish within its time limit (hang)"
	}
	return kind + ": " + what + " in " + strings.Join(frames, " <- ") + " | output tail: " + tail
}
