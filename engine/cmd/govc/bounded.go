package main

// runBounded runs the bounded stand-ins of the property (exhaustive small-scope harnesses against the
// real code). They are labelled bounded in the evidence and never counted as proved.
func (r *checkRun) runBounded() int {
	return 0
}
