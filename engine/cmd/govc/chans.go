package main

import (
	"fmt"
	"go/types"

	"golang.org/x/tools/go/ssa"
)

// Channels, from the point of view of ONE goroutine (the function under verification). Per channel reference c the
// ghost state records what this goroutine itself did on c:
//   sent(c)[0..sentlen(c))      the values it sent, in order
//   recv(c)[0..recvlen(c))      the values it received (ok receives only), in order
//   recvevents(c)               how many receive operations on c completed (including "closed" results)
//   closed(c)                   it closed c
//   recvoffers(c), sendoffers(c) in how many select statements it offered a receive / a send on c (non-nil operand)
// plus one global counter selects (number of select statements executed). A select picks any case whose channel
// operand is not nil (Go: operands and send values are evaluated first, a nil channel is never ready); no fairness,
// no liveness, nothing about what other goroutines do. This is enough for an invariant of one goroutine's loop; it is
// not a concurrency logic.

const (
	chSentLen    = "ghost:chan.sentlen"
	chSent       = "ghost:chan.sent"
	chRecvLen    = "ghost:chan.recvlen"
	chRecv       = "ghost:chan.recv"
	chRecvEvents = "ghost:chan.recvevents"
	chClosed     = "ghost:chan.closed"
	chRecvOffers = "ghost:chan.recvoffers"
	chSendOffers = "ghost:chan.sendoffers"
	chSelects    = "ghost:chan.selects"
)

func (vc *VC) chanComps() {
	for _, n := range []string{chSentLen, chRecvLen, chRecvEvents, chRecvOffers, chSendOffers, chSelects} {
		vc.registerComp(n, compInfo{Sort: ArrSort(SInt, SInt), Depth: 1, Ghost: true, NonNeg: true})
	}
	vc.registerComp(chSent, compInfo{Sort: ArrSort(SInt, ArrSort(SInt, SInt)), Depth: 1, Ghost: true})
	vc.registerComp(chRecv, compInfo{Sort: ArrSort(SInt, ArrSort(SInt, SInt)), Depth: 1, Ghost: true})
	vc.registerComp(chClosed, compInfo{Sort: ArrSort(SInt, SBool), Depth: 1, Ghost: true})
}

func (vc *VC) chGet(h *Heap, comp string, c Term) Term {
	vc.chanComps()
	return Select(vc.hget(h, comp), c)
}

func (vc *VC) chSet(st *State, comp string, c Term, v Term) {
	vc.hset(st, comp, Store(vc.hget(st.heap, comp), c, v))
	vc.noteWrite(comp, c)
}

// chanValueTerm converts a value sent on a channel to the Int-sorted term stored in the ghost sequence.
func (vc *VC) chanValueTerm(v Value, t SType) Term {
	if t.K == KUnit {
		return Zero
	}
	if !t.single() || t.SortOf() != SInt {
		vc.fail("channel of element type %s unsupported", t)
	}
	return vc.toTerm(v)
}

// effects of a send / a receive on c under condition cond (true for plain statements, idx==k inside a select)
func (vc *VC) applySend(st *State, cond, c, v Term) {
	n := vc.chGet(st.heap, chSentLen, c)
	seq := vc.chGet(st.heap, chSent, c)
	vc.chSet(st, chSent, c, Ite(cond, Store(seq, n, v), seq))
	vc.chSet(st, chSentLen, c, Ite(cond, Add(n, One), n))
}

func (vc *VC) applyRecv(st *State, cond, c, v, ok Term) {
	n := vc.chGet(st.heap, chRecvLen, c)
	seq := vc.chGet(st.heap, chRecv, c)
	ev := vc.chGet(st.heap, chRecvEvents, c)
	got := And(cond, ok)
	vc.chSet(st, chRecv, c, Ite(got, Store(seq, n, v), seq))
	vc.chSet(st, chRecvLen, c, Ite(got, Add(n, One), n))
	vc.chSet(st, chRecvEvents, c, Ite(cond, Add(ev, One), ev))
}

func (vc *VC) freshChanValue(hint string, t SType) (Value, Term) {
	if t.K == KUnit {
		return UnitVal{}, Zero
	}
	if !t.single() || t.SortOf() != SInt {
		vc.fail("channel of element type %s unsupported", t)
	}
	v := vc.freshValue(hint, t)
	return v, vc.toTerm(v)
}

func chanElem(t types.Type) SType {
	return FromGo(t.Underlying().(*types.Chan).Elem())
}

func (vc *VC) stepSend(fr *frame, st *State, in *ssa.Send) {
	c := vc.toTerm(vc.valueOf(fr, in.Chan))
	et := chanElem(in.Chan.Type())
	v := vc.chanValueTerm(vc.valueOf(fr, in.X), et)
	vc.oblige(st, "safe", "safe.send@"+vc.posHint(fr, in), vc.posString(in.Pos()), Not(vc.chGet(st.heap, chClosed, c)))
	// a send on a nil channel blocks forever: nothing after it is reachable
	vc.assume(st, Ne(c, Zero))
	vc.applySend(st, True, c, v)
}

func (vc *VC) stepRecv(fr *frame, st *State, in *ssa.UnOp) Value {
	c := vc.toTerm(vc.valueOf(fr, in.X))
	et := chanElem(in.X.Type())
	vc.assume(st, Ne(c, Zero))
	val, vt := vc.freshChanValue(in.Name()+":recv", et)
	ok := vc.script.Declare(in.Name()+":ok", SBool)
	vc.applyRecv(st, True, c, vt, ok)
	if et.K != KUnit {
		// a receive from a closed channel yields the zero value
		vc.assume(st, Implies(Not(ok), Eq(vt, vc.toTerm(vc.zeroValue(et)))))
	}
	if in.CommaOk {
		return TupleVal{val, ok}
	}
	return val
}

func (vc *VC) stepSelect(fr *frame, st *State, in *ssa.Select) Value {
	idx := vc.script.Declare(in.Name()+":index", SInt)
	ok := vc.script.Declare(in.Name()+":recvok", SBool)
	type caseInfo struct {
		c    Term
		send bool
		v    Term
		val  Value
	}
	var cases []caseInfo
	var enabled []Term
	for k, s := range in.States {
		c := vc.toTerm(vc.valueOf(fr, s.Chan))
		ci := caseInfo{c: c, send: s.Dir == types.SendOnly}
		et := chanElem(s.Chan.Type())
		if ci.send {
			ci.v = vc.chanValueTerm(vc.valueOf(fr, s.Send), et)
		} else {
			ci.val, ci.v = vc.freshChanValue(fmt.Sprintf("%s:recv%d", in.Name(), k), et)
		}
		cases = append(cases, ci)
		enabled = append(enabled, And(Eq(idx, IntLit(int64(k))), Ne(c, Zero)))
	}
	if !in.Blocking {
		enabled = append(enabled, Eq(idx, IntLit(-1)))
	}
	vc.assume(st, Or(enabled...))
	// bookkeeping of what was offered
	vc.chSet(st, chSelects, Zero, Add(vc.chGet(st.heap, chSelects, Zero), One))
	for _, ci := range cases {
		comp := chRecvOffers
		if ci.send {
			comp = chSendOffers
		}
		cur := vc.chGet(st.heap, comp, ci.c)
		vc.chSet(st, comp, ci.c, Ite(Ne(ci.c, Zero), Add(cur, One), cur))
	}
	var results []Value
	for k, ci := range cases {
		chosen := Eq(idx, IntLit(int64(k)))
		if ci.send {
			vc.oblige(st, "safe", fmt.Sprintf("safe.send@%s.case%d", vc.posHint(fr, in), k), vc.posString(in.Pos()), Implies(chosen, Not(vc.chGet(st.heap, chClosed, ci.c))))
			vc.applySend(st, chosen, ci.c, ci.v)
		} else {
			vc.applyRecv(st, chosen, ci.c, ci.v, ok)
			results = append(results, ci.val)
		}
	}
	return append(TupleVal{idx, ok}, results...)
}

func (vc *VC) builtinClose(fr *frame, st *State, site ssa.Instruction, c Term) {
	closed := vc.chGet(st.heap, chClosed, c)
	vc.oblige(st, "safe", "safe.close@"+vc.posHint(fr, site), vc.posString(site.Pos()), And(Ne(c, Zero), Not(closed)))
	vc.chSet(st, chClosed, c, True)
}

// stepGo: the spawned function runs as a goroutine of its own and is verified separately against its contract; at the
// go statement its precondition must hold (what the spawner hands over). Nothing is assumed about its effects.
func (vc *VC) stepGo(fr *frame, st *State, in *ssa.Go) {
	c := in.Common()
	var callee *ssa.Function
	var bindings []Value
	switch v := c.Value.(type) {
	case *ssa.Function:
		callee = v
	case *ssa.MakeClosure:
		callee = v.Fn.(*ssa.Function)
		for _, b := range v.Bindings {
			bindings = append(bindings, vc.valueOf(fr, b))
		}
	}
	if callee == nil {
		vc.note("goroutine started from a function value is not followed in " + fr.fn.Name())
		return
	}
	fc := vc.w.contracts[funcKey(callee)]
	if fc == nil {
		vc.note("goroutine body " + funcKey(callee) + " has no contract (spawned function verified separately, if at all)")
		return
	}
	var args []Value
	var ptypes []SType
	for i, a := range c.Args {
		args = append(args, vc.valueOf(fr, a))
		ptypes = append(ptypes, FromGo(callee.Params[i].Type()))
	}
	env := vc.contractEnv(st, st.heap, fc, args, ptypes)
	for i, fv := range callee.FreeVars {
		if i < len(bindings) {
			if p, ok := bindings[i].(PtrVal); ok {
				env.vars[fv.Name()] = TV{FreeCellVal{p}, p.Elem}
			} else {
				t := FromGo(fv.Type())
				env.vars[fv.Name()] = TV{vc.specValue(bindings[i], t), t}
			}
		}
	}
	name := fc.Key
	for i, cl := range fc.Requires {
		vc.obligeClause(env, st, "pre", clauseName("pre", i, cl), fmt.Sprintf("@go:%s", name), cl)
	}
}
