package main

import (
	"fmt"
	"strings"
	"go/token"
	"go/types"

	"golang.org/x/tools/go/ssa"
)

// execInstrs runs the non-phi, non-terminator instructions of b and returns its terminator.
func (vc *VC) execInstrs(fr *frame, b *ssa.BasicBlock, st *State) ssa.Instruction {
	for i, instr := range b.Instrs {
		fr.curIdx = i
		switch in := instr.(type) {
		case *ssa.Phi:
			continue
		case *ssa.If, *ssa.Jump, *ssa.Return, *ssa.Panic:
			return instr
		case *ssa.DebugRef:
			if obj := in.Object(); obj != nil {
				fr.debug = append(fr.debug, debugRec{name: obj.Name(), val: in.X, isAddr: in.IsAddr, block: b, idx: i})
			}
		default:
			vc.step(fr, st, instr)
		}
	}
	return nil
}

func (vc *VC) step(fr *frame, st *State, instr ssa.Instruction) {
	switch in := instr.(type) {
	case *ssa.Alloc:
		fr.env[in] = vc.doAlloc(st, in.Type().(*types.Pointer).Elem(), in.Name()+":"+in.Comment)
	case *ssa.FieldAddr:
		p, ok := vc.valueOf(fr, in.X).(PtrVal)
		if !ok {
			vc.fail("FieldAddr on non-pointer value")
		}
		vc.nilCheck(fr, st, p, in)
		s, _ := structOf(in.X.Type().Underlying().(*types.Pointer).Elem())
		f := s.Field(in.Field)
		fr.env[in] = PtrVal{Loc: Loc{p.Loc.Prefix + "." + f.Name(), p.Loc.Idx}, Elem: FromGo(f.Type())}
	case *ssa.Field:
		sv, ok := vc.valueOf(fr, in.X).(StructVal)
		if !ok {
			vc.fail("Field on non-struct value")
		}
		s, _ := structOf(in.X.Type())
		fr.env[in] = sv.F[s.Field(in.Field).Name()]
	case *ssa.UnOp:
		fr.env[in] = vc.unop(fr, st, in)
	case *ssa.Store:
		p, ok := vc.valueOf(fr, in.Addr).(PtrVal)
		if !ok {
			vc.fail("Store to non-pointer value")
		}
		vc.nilCheck(fr, st, p, in)
		vc.guardCheck(fr, st, p.Loc, true, in)
		vc.storeValue(st, p.Loc, p.Elem, vc.valueOf(fr, in.Val))
	case *ssa.BinOp:
		fr.env[in] = vc.binop(fr, st, in)
	case *ssa.Call:
		v := vc.call(fr, st, in, in.Common())
		if v != nil {
			fr.env[in] = v
		}
	case *ssa.Defer:
		fr.defers = append(fr.defers, deferRec{call: in, block: in.Block(), pc: st.pc})
		// evaluate arguments now (Go semantics): cache them in env under the Defer's operands
	case *ssa.RunDefers:
		for i := len(fr.defers) - 1; i >= 0; i-- {
			d := fr.defers[i]
			if d.block != fr.fn.Blocks[0] && !d.block.Dominates(in.Block()) {
				// a defer statement that is not executed on every path to this point: the deferred call runs
				// exactly on the paths that went through it (its path condition at registration). Defers inside
				// loops stay outside the subset.
				for _, b := range fr.fn.Blocks {
					if isLoopHeader(b) && loopBlocks(b)[d.block] {
						vc.fail("defer inside a loop unsupported")
					}
				}
				took := vc.script.Define("pc:defer.taken", And(st.pc, d.pc))
				skipped := vc.script.Define("pc:defer.skipped", And(st.pc, Not(d.pc)))
				sub := &State{pc: took, heap: st.heap.Clone()}
				vc.call(fr, sub, d.call, d.call.Common())
				st.heap = vc.mergeHeaps([]Term{sub.pc, skipped}, []*Heap{sub.heap, st.heap})
				continue
			}
			vc.call(fr, st, d.call, d.call.Common())
		}
	case *ssa.MakeInterface:
		xt := FromGo(in.X.Type())
		v := vc.valueOf(fr, in.X)
		if xt.K == KUnit {
			fr.env[in] = vc.box(Zero, xt)
		} else if xt.K == KStruct {
			fr.env[in] = vc.boxStruct(st, in.Name(), v, xt)
		} else if !xt.single() {
			vc.fail("boxing composite value of type %s", xt)
		} else {
			fr.env[in] = vc.script.Define(in.Name(), vc.box(vc.toTerm(v), xt))
		}
	case *ssa.ChangeInterface:
		fr.env[in] = vc.valueOf(fr, in.X)
	case *ssa.ChangeType:
		fr.env[in] = vc.retype(vc.valueOf(fr, in.X), FromGo(in.Type()))
	case *ssa.Convert:
		fr.env[in] = vc.convert(fr, st, in)
	case *ssa.TypeAssert:
		fr.env[in] = vc.typeAssert(fr, st, in)
	case *ssa.MakeMap:
		mt := FromGo(in.Type())
		m := vc.newRef(st, in.Name()+":map")
		vc.mapComp(st.heap, mt, "mapdom")
		k := mapKey(mt)
		vc.hset(st, "mapdom:"+k, Store(vc.hget(st.heap, "mapdom:"+k), m, ConstArr(ArrSort(SInt, SBool), False)))
		vc.hset(st, "maplen:"+k, Store(vc.hget(st.heap, "maplen:"+k), m, Zero))
		vc.noteWrite("mapdom:"+k, m)
		vc.noteWrite("maplen:"+k, m)
		fr.env[in] = m
	case *ssa.Lookup:
		fr.env[in] = vc.lookup(fr, st, in)
	case *ssa.MapUpdate:
		vc.mapUpdate(fr, st, in)
	case *ssa.Range:
		fr.env[in] = vc.rangeStart(fr, st, in)
	case *ssa.Next:
		fr.env[in] = vc.rangeNext(fr, st, in)
	case *ssa.Extract:
		tv, ok := vc.valueOf(fr, in.Tuple).(TupleVal)
		if !ok {
			vc.fail("Extract from non-tuple")
		}
		fr.env[in] = tv[in.Index]
	case *ssa.MakeSlice:
		el := FromGo(in.Type().Underlying().(*types.Slice).Elem())
		arr := vc.newRef(st, in.Name()+":arr")
		ln := vc.toTerm(vc.valueOf(fr, in.Len))
		cp := vc.toTerm(vc.valueOf(fr, in.Cap))
		vc.oblige(st, "safe", "safe.makeslice@"+vc.posHint(fr, in), vc.posString(in.Pos()), And(Ge(ln, Zero), Le(ln, cp)))
		if el.K != KUnit {
			func() {
				defer func() {
					if rr := recover(); rr != nil {
						if e2, isEval := rr.(evalError); isEval {
							vc.fail("%s", e2.msg)
						}
						panic(rr)
					}
				}()
				for _, ln := range vc.elemLanes(el) {
					vc.hset(st, ln.comp, Store(vc.hget(st.heap, ln.comp), arr, ZeroOf(ArrSort(SInt, ln.sort))))
					vc.noteWrite(ln.comp, arr)
				}
			}()
		}
		fr.env[in] = SliceVal{Arr: arr, Off: Zero, Len: ln, Cap: cp, Elem: el}
	case *ssa.Slice:
		fr.env[in] = vc.sliceOp(fr, st, in)
	case *ssa.IndexAddr:
		fr.env[in] = vc.indexAddr(fr, st, in)
	case *ssa.Index:
		fr.env[in] = vc.indexOp(fr, st, in)
	case *ssa.MakeClosure:
		cv := &ClosureVal{fn: in.Fn.(*ssa.Function), id: vc.script.Declare("closure:"+in.Name(), SInt)}
		for _, b := range in.Bindings {
			cv.bindings = append(cv.bindings, vc.valueOf(fr, b))
		}
		fr.env[in] = cv
	case *ssa.Go:
		vc.stepGo(fr, st, in)
	case *ssa.MakeChan:
		vc.chanComps()
		fr.env[in] = vc.newRef(st, in.Name()+":chan")
	case *ssa.Send:
		vc.stepSend(fr, st, in)
	case *ssa.Select:
		fr.env[in] = vc.stepSelect(fr, st, in)
	case *ssa.SliceToArrayPointer, *ssa.MultiConvert:
		vc.fail("instruction %T unsupported", in)
	default:
		vc.fail("instruction %T unsupported", in)
	}
}

func (vc *VC) retype(v Value, t SType) Value {
	switch x := v.(type) {
	case PtrVal:
		if t.K == KRef || t.K == KPtr {
			// pointer conversion between identical underlying types: keep location
			return x
		}
	case SliceVal:
		if t.K == KSlice {
			x.Elem = *t.Elem
			return x
		}
	case StructVal:
		x.T = t
		return x
	}
	return v
}

func (vc *VC) doAlloc(st *State, elemGo types.Type, hint string) Value {
	el := FromGo(elemGo)
	r := vc.newRef(st, hint)
	switch el.K {
	case KArray:
		ee := *el.Elem
		if ee.K != KUnit {
			func() {
				defer func() {
					if rr := recover(); rr != nil {
						if e2, isEval := rr.(evalError); isEval {
							vc.fail("%s", e2.msg)
						}
						panic(rr)
					}
				}()
				for _, ln := range vc.elemLanes(ee) {
					vc.hset(st, ln.comp, Store(vc.hget(st.heap, ln.comp), r, ZeroOf(ArrSort(SInt, ln.sort))))
					vc.noteWrite(ln.comp, r)
				}
			}()
		}
		return PtrVal{Loc: Loc{"elems:" + ee.String(), []Term{r}}, Elem: el}
	}
	loc := Loc{canonicalPrefix(el), []Term{r}}
	vc.zeroInit(st, loc, el)
	return PtrVal{Loc: loc, Elem: el}
}

func (vc *VC) nilCheck(fr *frame, st *State, p PtrVal, in ssa.Instruction) {
	if len(p.Loc.Idx) == 1 && (p.Loc.Prefix == canonicalPrefix(p.Elem) || p.Elem.K == KArray) {
		if strings.HasPrefix(p.Loc.Prefix, "global:") {
			return
		}
		vc.oblige(st, "safe", "safe.nil@"+vc.posHint(fr, in), vc.posString(in.Pos()), Ne(p.Loc.Idx[0], Zero))
	}
}

func (vc *VC) unop(fr *frame, st *State, in *ssa.UnOp) Value {
	x := vc.valueOf(fr, in.X)
	switch in.Op {
	case token.MUL:
		p, ok := x.(PtrVal)
		if !ok {
			vc.fail("load through non-pointer value")
		}
		vc.nilCheck(fr, st, p, in)
		vc.guardCheck(fr, st, p.Loc, false, in)
		v := vc.loadValue(st, p.Loc, p.Elem)
		vc.assumeAllocated(st, v, p.Elem)
		return vc.defineValue(in.Name(), v)
	case token.NOT:
		return Not(vc.toTerm(x))
	case token.SUB:
		return app(SInt, "-", vc.toTerm(x))
	case token.XOR:
		return vc.script.Declare(in.Name()+":bitnot", SInt)
	case token.ARROW:
		return vc.stepRecv(fr, st, in)
	}
	vc.fail("unary operator %s unsupported", in.Op)
	return nil
}

func truncDiv(x, y Term) Term {
	ax := Ite(Ge(x, Zero), x, app(SInt, "-", x))
	ay := Ite(Ge(y, Zero), y, app(SInt, "-", y))
	q := app(SInt, "div", ax, ay)
	return Ite(Eq(Ge(x, Zero), Ge(y, Zero)), q, app(SInt, "-", q))
}

func (vc *VC) binop(fr *frame, st *State, in *ssa.BinOp) Value {
	xv, yv := vc.valueOf(fr, in.X), vc.valueOf(fr, in.Y)
	xt := FromGo(in.X.Type())
	switch in.Op {
	case token.EQL, token.NEQ:
		var eq Term
		switch a := xv.(type) {
		case SliceVal: // comparison with nil
			eq = Eq(a.Arr, Zero)
		case StructVal:
			eq = vc.structEq(a, yv.(StructVal))
		case UnitVal:
			eq = True
		default:
			if _, ok := yv.(SliceVal); ok {
				eq = Eq(yv.(SliceVal).Arr, Zero)
			} else {
				eq = Eq(vc.toTerm(xv), vc.toTerm(yv))
			}
		}
		if in.Op == token.NEQ {
			eq = Not(eq)
		}
		return vc.script.Define(in.Name(), eq)
	}
	if xt.K == KBool {
		x, y := vc.toTerm(xv), vc.toTerm(yv)
		switch in.Op {
		case token.AND, token.LAND:
			return And(x, y)
		case token.OR, token.LOR:
			return Or(x, y)
		}
	}
	if xt.K == KStr {
		x, y := vc.toTerm(xv), vc.toTerm(yv)
		switch in.Op {
		case token.ADD:
			vc.declareOnce("strcat", "(declare-fun strcat (Int Int) Int)\n(assert (forall ((a! Int) (b! Int)) (! (= (strlen (strcat a! b!)) (+ (strlen a!) (strlen b!))) :pattern ((strcat a! b!)))))")
			vc.strLen(Zero)
			if la, oka := vc.litOf(x); oka {
				if lb, okb := vc.litOf(y); okb {
					return vc.strLit(la + lb)
				}
			}
			return app(SInt, "strcat", x, y)
		case token.LSS, token.LEQ, token.GTR, token.GEQ:
			vc.declareOnce("strlt", "(declare-fun strlt (Int Int) Bool)")
			switch in.Op {
			case token.LSS:
				return app(SBool, "strlt", x, y)
			case token.GTR:
				return app(SBool, "strlt", y, x)
			case token.LEQ:
				return Not(app(SBool, "strlt", y, x))
			default:
				return Not(app(SBool, "strlt", x, y))
			}
		}
	}
	x, y := vc.toTerm(xv), vc.toTerm(yv)
	isFloat := false
	if b, ok := in.X.Type().Underlying().(*types.Basic); ok && b.Info()&types.IsFloat != 0 {
		isFloat = true
	}
	if isFloat {
		switch in.Op {
		case token.LSS, token.LEQ, token.GTR, token.GEQ:
			return vc.script.Declare(in.Name()+":fcmp", SBool)
		}
		return vc.script.Declare(in.Name()+":fop", SInt)
	}
	switch in.Op {
	case token.ADD:
		vc.note("machine arithmetic treated as mathematical (+, *)")
		return vc.script.Define(in.Name(), Add(x, y))
	case token.SUB:
		if xt.Unsigned {
			w := vc.width(in.X.Type())
			return vc.script.Define(in.Name(), Ite(Ge(x, y), Sub(x, y), Add(Sub(x, y), w)))
		}
		return vc.script.Define(in.Name(), Sub(x, y))
	case token.MUL:
		vc.note("machine arithmetic treated as mathematical (+, *)")
		return vc.script.Define(in.Name(), Mul(x, y))
	case token.QUO:
		vc.oblige(st, "safe", "safe.div@"+vc.posHint(fr, in), vc.posString(in.Pos()), Ne(y, Zero))
		return vc.script.Define(in.Name(), truncDiv(x, y))
	case token.REM:
		vc.oblige(st, "safe", "safe.div@"+vc.posHint(fr, in), vc.posString(in.Pos()), Ne(y, Zero))
		return vc.script.Define(in.Name(), Sub(x, Mul(y, truncDiv(x, y))))
	case token.LSS:
		return Lt(x, y)
	case token.LEQ:
		return Le(x, y)
	case token.GTR:
		return Gt(x, y)
	case token.GEQ:
		return Ge(x, y)
	case token.AND, token.OR, token.XOR, token.SHL, token.SHR, token.AND_NOT:
		v := vc.script.Declare(in.Name()+":bits", SInt)
		if xt.Unsigned {
			vc.script.Assume(Ge(v, Zero))
		}
		return v
	}
	vc.fail("binary operator %s unsupported", in.Op)
	return nil
}

func (vc *VC) width(t types.Type) Term {
	b, _ := t.Underlying().(*types.Basic)
	if b != nil {
		switch b.Kind() {
		case types.Uint8:
			return IntLit(256)
		case types.Uint16:
			return IntLit(65536)
		case types.Uint32:
			return IntLit(4294967296)
		}
	}
	return BigLit("18446744073709551616")
}

func (vc *VC) structEq(a, b StructVal) Term {
	var parts []Term
	for _, k := range sortedKeys(a.F) {
		av := a.F[k]
		bv := b.F[k]
		switch x := av.(type) {
		case StructVal:
			parts = append(parts, vc.structEq(x, bv.(StructVal)))
		case UnitVal:
		default:
			parts = append(parts, Eq(vc.toTerm(av), vc.toTerm(bv)))
		}
	}
	return And(parts...)
}

func (vc *VC) convert(fr *frame, st *State, in *ssa.Convert) Value {
	from, to := FromGo(in.X.Type()), FromGo(in.Type())
	v := vc.valueOf(fr, in.X)
	switch {
	case from.K == KInt && to.K == KInt:
		fb, _ := in.X.Type().Underlying().(*types.Basic)
		tb, _ := in.Type().Underlying().(*types.Basic)
		if fb != nil && tb != nil && fb.Info()&types.IsFloat == 0 && tb.Info()&types.IsFloat == 0 {
			x := vc.toTerm(v)
			// conversion between integer types: value preserving when it fits; signed->unsigned of a
			// negative value wraps (modelled exactly for 64 bit), narrowing is left uninterpreted.
			if to.Unsigned && !from.Unsigned {
				return vc.script.Define(in.Name(), Ite(Ge(x, Zero), x, Add(x, vc.width(in.Type()))))
			}
			if sizeOf(tb) < sizeOf(fb) {
				r := vc.script.Declare(in.Name()+":narrow", SInt)
				lim := vc.width(in.Type())
				if to.Unsigned {
					vc.script.Assume(And(Ge(r, Zero), Lt(r, lim), Implies(And(Ge(x, Zero), Lt(x, lim)), Eq(r, x))))
				} else {
					vc.script.Assume(Implies(And(Ge(x, Zero), Lt(Mul(IntLit(2), x), lim)), Eq(r, x)))
				}
				return r
			}
			return x
		}
		return vc.script.Declare(in.Name()+":fconv", SInt)
	case from.K == KStr && to.K == KSlice, from.K == KSlice && to.K == KStr, from.K == KInt && to.K == KStr:
		vc.note("string/[]byte conversions are uninterpreted")
		return vc.freshValue(in.Name()+":conv", to)
	case from.K == to.K:
		return vc.retype(v, to)
	case (from.K == KPtr || from.K == KRef) && (to.K == KPtr || to.K == KRef):
		return v
	}
	vc.fail("conversion %s -> %s unsupported", from, to)
	return nil
}

func sizeOf(b *types.Basic) int {
	switch b.Kind() {
	case types.Int8, types.Uint8:
		return 1
	case types.Int16, types.Uint16:
		return 2
	case types.Int32, types.Uint32:
		return 4
	}
	return 8
}

func (vc *VC) typeAssert(fr *frame, st *State, in *ssa.TypeAssert) Value {
	x := vc.toTerm(vc.valueOf(fr, in.X))
	to := FromGo(in.AssertedType)
	var ok Term
	var val Value
	if to.K == KIface {
		vc.tagOf(Zero)
		name := quoteSym("impl:" + to.String())
		vc.declareOnce("impl:"+to.String(), fmt.Sprintf("(declare-fun %s (Int) Bool)", name))
		ok = And(Ne(x, Zero), app(SBool, name, vc.tagOf(x)))
		if isEmptyInterface(in.AssertedType) {
			ok = Ne(x, Zero)
		}
		val = x
	} else if to.K == KStruct {
		ok = Eq(vc.tagOf(x), vc.tagFor(to))
		func() {
			defer func() {
				if r := recover(); r != nil {
					if ee, isEval := r.(evalError); isEval {
						vc.fail("%s", ee.msg)
					}
					panic(r)
				}
			}()
			sv := vc.unboxStruct(st.heap, x, to)
			for k, f := range sv.F {
				s, _ := structOf(to.Go)
				for i := 0; i < s.NumFields(); i++ {
					if s.Field(i).Name() == k {
						sv.F[k] = vc.wrap(f.(Term), FromGo(s.Field(i).Type()))
					}
				}
			}
			val = sv
		}()
	} else if to.K == KSlice {
		// a slice held in an interface: the payload is not modelled (an arbitrary well-formed slice)
		ok = Eq(vc.tagOf(x), vc.tagFor(to))
		val = vc.freshValue(in.Name()+":unboxed", to)
		vc.note("slices held in interface values are opaque (unboxing yields an arbitrary slice)")
	} else {
		if !to.single() && to.K != KUnit {
			vc.fail("type assertion to composite type %s", to)
		}
		ok = Eq(vc.tagOf(x), vc.tagFor(to))
		if to.K == KUnit {
			val = UnitVal{}
		} else {
			ub := vc.script.Define(in.Name(), vc.unbox(x, to))
			// ground instance of "a value with tag T is the boxing of its payload" (no quantified axiom: matching loop)
			vc.script.Assume(Implies(ok, Eq(vc.box(ub, to), x)))
			val = vc.wrap(ub, to)
		}
	}
	ok = vc.script.Define(in.Name()+":ok", ok)
	if in.CommaOk {
		if to.single() && to.K != KStruct && to.K != KSlice {
			// the value component is the zero value when the assertion fails
			z := vc.toTerm(vc.zeroValue(to))
			val = vc.wrap(Ite(ok, vc.toTerm(val), z), to)
		}
		return TupleVal{val, ok}
	}
	vc.oblige(st, "safe", "safe.assert@"+vc.posHint(fr, in), vc.posString(in.Pos()), ok)
	vc.assume(st, ok)
	return val
}

func isEmptyInterface(t types.Type) bool {
	i, ok := t.Underlying().(*types.Interface)
	return ok && i.Empty()
}

// --- maps ---------------------------------------------------------------------------------------

func (vc *VC) lookup(fr *frame, st *State, in *ssa.Lookup) Value {
	xt := FromGo(in.X.Type())
	if xt.K == KStr {
		s := vc.toTerm(vc.valueOf(fr, in.X))
		i := vc.toTerm(vc.valueOf(fr, in.Index))
		vc.oblige(st, "safe", "safe.index@"+vc.posHint(fr, in), vc.posString(in.Pos()), And(Ge(i, Zero), Lt(i, vc.strLen(s))))
		vc.declareOnce("strat", "(declare-fun strat (Int Int) Int)\n(assert (forall ((s! Int) (i! Int)) (! (and (>= (strat s! i!) 0) (< (strat s! i!) 256)) :pattern ((strat s! i!)))))")
		return app(SInt, "strat", s, i)
	}
	m := vc.toTerm(vc.valueOf(fr, in.X))
	k := vc.toTerm(vc.valueOf(fr, in.Index))
	vc.guardCheckComp(fr, st, "mapdom:"+mapKey(xt), m, false, in)
	dom := Select(Select(vc.mapComp(st.heap, xt, "mapdom"), m), k)
	var val Value
	vt := *xt.Elem
	switch {
	case vt.K == KUnit:
		val = UnitVal{}
	case vt.single():
		raw := Select(Select(vc.mapComp(st.heap, xt, "mapval"), m), k)
		t := vc.script.Define(in.Name(), Ite(dom, raw, vc.toTerm(vc.zeroValue(vt))))
		val = vc.wrap(t, vt)
		vc.assumeAllocated(st, val, vt)
	default:
		// values of composite type are not modelled: a lookup yields an arbitrary value of the type
		vc.note("values of map type " + xt.String() + " are not modelled (lookups yield arbitrary values)")
		val = vc.freshValue(in.Name()+":opaque", vt)
		vc.assumeAllocated(st, val, vt)
	}
	if in.CommaOk {
		return TupleVal{val, vc.script.Define(in.Name()+":ok", dom)}
	}
	return val
}

func (vc *VC) mapUpdate(fr *frame, st *State, in *ssa.MapUpdate) {
	mt := FromGo(in.Map.Type())
	m := vc.toTerm(vc.valueOf(fr, in.Map))
	k := vc.toTerm(vc.valueOf(fr, in.Key))
	vc.oblige(st, "safe", "safe.mapwrite@"+vc.posHint(fr, in), vc.posString(in.Pos()), Ne(m, Zero))
	key := mapKey(mt)
	vc.guardCheckComp(fr, st, "mapdom:"+key, m, true, in)
	dom := vc.mapComp(st.heap, mt, "mapdom")
	ln := vc.mapComp(st.heap, mt, "maplen")
	present := Select(Select(dom, m), k)
	vc.hset(st, "maplen:"+key, Store(ln, m, Ite(present, Select(ln, m), Add(Select(ln, m), One))))
	vc.hset(st, "mapdom:"+key, Store(dom, m, Store(Select(dom, m), k, True)))
	vc.noteWrite("maplen:"+key, m)
	vc.noteWrite("mapdom:"+key, m)
	if mt.Elem.single() {
		val := vc.mapComp(st.heap, mt, "mapval")
		v := vc.toTerm(vc.valueOf(fr, in.Value))
		vc.hset(st, "mapval:"+key, Store(val, m, Store(Select(val, m), k, v)))
		vc.noteWrite("mapval:"+key, m)
	} else if mt.Elem.K != KUnit {
		vc.note("values of map type " + mt.String() + " are not modelled (lookups yield arbitrary values)")
	}
}

func (vc *VC) mapDelete(fr *frame, st *State, mt SType, m, k Term, in ssa.Instruction) {
	key := mapKey(mt)
	vc.guardCheckComp(fr, st, "mapdom:"+key, m, true, in)
	dom := vc.mapComp(st.heap, mt, "mapdom")
	ln := vc.mapComp(st.heap, mt, "maplen")
	present := Select(Select(dom, m), k)
	// delete on a nil map is a no-op; the nil map has an empty domain so the stores below change nothing
	vc.hset(st, "maplen:"+key, Store(ln, m, Ite(present, Sub(Select(ln, m), One), Select(ln, m))))
	vc.hset(st, "mapdom:"+key, Store(dom, m, Store(Select(dom, m), k, False)))
	vc.noteWrite("maplen:"+key, m)
	vc.noteWrite("mapdom:"+key, m)
}

const iterVisited = "ghost:iter.visited"

func (vc *VC) rangeStart(fr *frame, st *State, in *ssa.Range) Value {
	xt := FromGo(in.X.Type())
	if bt, ok := in.X.Type().Underlying().(*types.Basic); ok && bt.Info()&types.IsString != 0 {
		return vc.stringRangeStart(fr, st, in)
	}
	if xt.K != KMap {
		vc.fail("range over %s unsupported", xt)
	}
	m := vc.toTerm(vc.valueOf(fr, in.X))
	id := vc.newRef(st, in.Name()+":iter")
	vc.registerComp(iterVisited, compInfo{Sort: ArrSort(SInt, ArrSort(SInt, SBool)), Depth: 2, Ghost: true})
	vc.hset(st, iterVisited, Store(vc.hget(st.heap, iterVisited), id, ConstArr(ArrSort(SInt, SBool), False)))
	vc.noteWrite(iterVisited, id)
	snap := vc.script.Define(in.Name()+":snapdom", Select(vc.mapComp(st.heap, xt, "mapdom"), m))
	fr.iterOf[in] = &mapIter{m: m, mt: xt, id: id, snapDom: snap}
	return id
}

func (vc *VC) rangeNext(fr *frame, st *State, in *ssa.Next) Value {
	it := fr.iterOf[in.Iter]
	if it == nil {
		vc.fail("Next on unsupported iterator")
	}
	if !it.str.IsZero() {
		return vc.stringRangeNext(fr, st, in, it)
	}
	vc.guardCheckComp(fr, st, "mapdom:"+mapKey(it.mt), it.m, false, in)
	dom := Select(vc.mapComp(st.heap, it.mt, "mapdom"), it.m)
	visited := Select(vc.hget(st.heap, iterVisited), it.id)
	ok := vc.script.Declare(in.Name()+":ok", SBool)
	k := vc.script.Declare(in.Name()+":key", SInt)
	q := Term{"q!", SInt}
	// ok: the key is present now and not yet visited; !ok: every key that was present at the start and
	// is still present has been visited (keys inserted during iteration may or may not be produced).
	vc.assume(st, Implies(ok, And(Select(dom, k), Not(Select(visited, k)))))
	vc.assume(st, Implies(Not(ok), Forall([]Term{q}, Implies(And(Select(it.snapDom, q), Select(dom, q)), Select(visited, q)))))
	if it.mt.Key.K == KInt && it.mt.Key.Unsigned {
		vc.assume(st, Ge(k, Zero))
	}
	nv := Ite(ok, Store(visited, k, True), visited)
	vc.hset(st, iterVisited, Store(vc.hget(st.heap, iterVisited), it.id, nv))
	vc.noteWrite(iterVisited, it.id)
	var val Value
	vt := *it.mt.Elem
	switch {
	case vt.K == KUnit:
		val = UnitVal{}
	case vt.single():
		t := vc.script.Define(in.Name()+":val", Select(Select(vc.mapComp(st.heap, it.mt, "mapval"), it.m), k))
		val = vc.wrap(t, vt)
		vc.assumeAllocated(st, val, vt)
	default:
		vc.note("values of map type " + it.mt.String() + " are not modelled (lookups yield arbitrary values)")
		val = vc.freshValue(in.Name()+":opaque", vt)
		vc.assumeAllocated(st, val, vt)
	}
	return TupleVal{ok, vc.wrap(k, *it.mt.Key), val}
}

// Range over a string. The iterator is a byte position kept in a ghost component indexed by the iterator (so that it is
// loop-carried state like any heap location). Next yields ok == position < len, key == position, a rune and advances by
// the width of its encoding. What is specified of the decoding: a byte below 0x80 is its own rune and one byte wide;
// otherwise the rune is at least 0x80 (RuneError included) and 1 to 4 bytes wide; the position never passes the end.
const iterStrPos = "ghost:iter.strpos"

func (vc *VC) stringRangeStart(fr *frame, st *State, in *ssa.Range) Value {
	s := vc.toTerm(vc.valueOf(fr, in.X))
	id := vc.newRef(st, in.Name()+":iter")
	vc.registerComp(iterStrPos, compInfo{Sort: ArrSort(SInt, SInt), Depth: 1, Ghost: true})
	vc.hset(st, iterStrPos, Store(vc.hget(st.heap, iterStrPos), id, Zero))
	vc.noteWrite(iterStrPos, id)
	fr.iterOf[in] = &mapIter{id: id, str: s}
	return id
}

func (vc *VC) stringRangeNext(fr *frame, st *State, in *ssa.Next, it *mapIter) Value {
	pos := vc.script.Define(in.Name()+":pos", Select(vc.hget(st.heap, iterStrPos), it.id))
	n := vc.strLen(it.str)
	// facts of every execution: the position is a byte offset into the string
	vc.assume(st, And(Le(Zero, pos), Le(pos, n)))
	ok := vc.script.Define(in.Name()+":ok", Lt(pos, n))
	r := vc.script.Declare(in.Name()+":rune", SInt)
	w := vc.script.Declare(in.Name()+":width", SInt)
	b := vc.strAt(it.str, pos)
	ascii := Lt(b, IntLit(128))
	vc.assume(st, Implies(ok, And(Le(One, w), Le(w, IntLit(4)), Le(Add(pos, w), n), Le(Zero, r), Le(r, IntLit(0x10FFFF)))))
	vc.assume(st, Implies(And(ok, ascii), And(Eq(r, b), Eq(w, One))))
	vc.assume(st, Implies(And(ok, Not(ascii)), Ge(r, IntLit(128))))
	vc.hset(st, iterStrPos, Store(vc.hget(st.heap, iterStrPos), it.id, Ite(ok, Add(pos, w), pos)))
	vc.noteWrite(iterStrPos, it.id)
	return TupleVal{ok, vc.wrap(pos, FromGo(types.Typ[types.Int])), vc.wrap(r, FromGo(types.Typ[types.Int32]))}
}

// --- slices -------------------------------------------------------------------------------------

func (vc *VC) sliceOp(fr *frame, st *State, in *ssa.Slice) Value {
	x := vc.valueOf(fr, in.X)
	var lo, hi, mx Term
	if in.Low != nil {
		lo = vc.toTerm(vc.valueOf(fr, in.Low))
	} else {
		lo = Zero
	}
	switch b := x.(type) {
	case SliceVal:
		if in.High != nil {
			hi = vc.toTerm(vc.valueOf(fr, in.High))
		} else {
			hi = b.Len
		}
		if in.Max != nil {
			mx = vc.toTerm(vc.valueOf(fr, in.Max))
		} else {
			mx = b.Cap
		}
		vc.oblige(st, "safe", "safe.slice@"+vc.posHint(fr, in), vc.posString(in.Pos()), And(Le(Zero, lo), Le(lo, hi), Le(hi, mx), Le(mx, b.Cap)))
		return vc.defineValue(in.Name(), SliceVal{Arr: b.Arr, Off: Add(b.Off, lo), Len: Sub(hi, lo), Cap: Sub(mx, lo), Elem: b.Elem})
	case PtrVal:
		if b.Elem.K != KArray {
			vc.fail("slice of pointer to non-array")
		}
		n := IntLit(b.Elem.Go.Underlying().(*types.Array).Len())
		if in.High != nil {
			hi = vc.toTerm(vc.valueOf(fr, in.High))
		} else {
			hi = n
		}
		vc.oblige(st, "safe", "safe.slice@"+vc.posHint(fr, in), vc.posString(in.Pos()), And(Le(Zero, lo), Le(lo, hi), Le(hi, n)))
		return vc.defineValue(in.Name(), SliceVal{Arr: b.Loc.Idx[0], Off: lo, Len: Sub(hi, lo), Cap: Sub(n, lo), Elem: *b.Elem.Elem})
	case Term:
		// string slicing
		vc.note("string slicing is uninterpreted")
		if in.High != nil {
			hi = vc.toTerm(vc.valueOf(fr, in.High))
		} else {
			hi = vc.strLen(b)
		}
		vc.oblige(st, "safe", "safe.slice@"+vc.posHint(fr, in), vc.posString(in.Pos()), And(Le(Zero, lo), Le(lo, hi), Le(hi, vc.strLen(b))))
		vc.declareOnce("substr", "(declare-fun substr (Int Int Int) Int)\n(assert (forall ((s! Int) (a! Int) (b! Int)) (! (=> (and (<= 0 a!) (<= a! b!) (<= b! (strlen s!))) (= (strlen (substr s! a! b!)) (- b! a!))) :pattern ((substr s! a! b!)))))")
		return app(SInt, "substr", b, lo, hi)
	}
	vc.fail("slice of %T unsupported", x)
	return nil
}

func (vc *VC) indexAddr(fr *frame, st *State, in *ssa.IndexAddr) Value {
	x := vc.valueOf(fr, in.X)
	i := vc.toTerm(vc.valueOf(fr, in.Index))
	switch b := x.(type) {
	case SliceVal:
		vc.oblige(st, "safe", "safe.index@"+vc.posHint(fr, in), vc.posString(in.Pos()), And(Le(Zero, i), Lt(i, b.Len)))
		return PtrVal{Loc: Loc{"elems:" + b.Elem.String(), []Term{b.Arr, vc.sidx(b.Off, i)}}, Elem: b.Elem}
	case PtrVal:
		if b.Elem.K != KArray {
			vc.fail("IndexAddr on pointer to non-array")
		}
		n := IntLit(b.Elem.Go.Underlying().(*types.Array).Len())
		vc.oblige(st, "safe", "safe.index@"+vc.posHint(fr, in), vc.posString(in.Pos()), And(Le(Zero, i), Lt(i, n)))
		return PtrVal{Loc: Loc{b.Loc.Prefix, []Term{b.Loc.Idx[0], i}}, Elem: *b.Elem.Elem}
	}
	vc.fail("IndexAddr on %T", x)
	return nil
}

func (vc *VC) indexOp(fr *frame, st *State, in *ssa.Index) Value {
	xt := FromGo(in.X.Type())
	if xt.K == KStr {
		s := vc.toTerm(vc.valueOf(fr, in.X))
		i := vc.toTerm(vc.valueOf(fr, in.Index))
		vc.oblige(st, "safe", "safe.index@"+vc.posHint(fr, in), vc.posString(in.Pos()), And(Ge(i, Zero), Lt(i, vc.strLen(s))))
		vc.declareOnce("strat", "(declare-fun strat (Int Int) Int)\n(assert (forall ((s! Int) (i! Int)) (! (and (>= (strat s! i!) 0) (< (strat s! i!) 256)) :pattern ((strat s! i!)))))")
		return app(SInt, "strat", s, i)
	}
	vc.fail("Index on %s unsupported", xt)
	return nil
}


// boxStruct boxes a struct value into an interface value: an immutable box object whose payload is
// stored in "box:<type>.<field>" components.
func (vc *VC) boxStruct(st *State, hint string, v Value, t SType) Value {
	sv, ok := v.(StructVal)
	if !ok {
		vc.fail("boxing non-struct value as %s", t)
	}
	r := vc.newRef(st, hint+":box")
	s, _ := structOf(t.Go)
	for i := 0; i < s.NumFields(); i++ {
		if ft := FromGo(s.Field(i).Type()); !ft.single() && ft.K != KUnit {
			// a struct with nested composite fields held in an interface: the payload is not modelled (the box is
			// an opaque non-nil value of that dynamic type; unboxing it is outside the subset)
			vc.note("struct values of type " + t.String() + " held in interface values are opaque")
			vc.script.Assume(Eq(vc.tagOf(r), vc.tagFor(t)))
			return r
		}
	}
	for i := 0; i < s.NumFields(); i++ {
		f := s.Field(i)
		ft := FromGo(f.Type())
		if ft.K == KUnit {
			continue
		}
		if !ft.single() {
			vc.fail("boxing struct %s with composite field %s", t, f.Name())
		}
		loc := Loc{"box:" + typeKey(t.Go) + "." + f.Name(), []Term{r}}
		vc.readLoc(st.heap, loc, ft)
		vc.writeCell(st, loc, vc.toTerm(sv.F[f.Name()]))
	}
	vc.script.Assume(Eq(vc.tagOf(r), vc.tagFor(t)))
	vc.assumeStateAxioms(st) // definitional axioms over boxed payloads (cellof) for the new box
	return r
}
