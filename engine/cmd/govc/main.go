package main

import (
	"os/exec"
	"encoding/json"
	"flag"
	"fmt"
	"os"
	"path/filepath"
	"runtime"
	"sort"
	"strconv"
	"strings"
	"time"
)

// PropertyConfig describes one claimed property: which packages are loaded and which functions
// under contract carry it.
type PropertyConfig struct {
	Property    string   `json:"property"`
	Packages    []string `json:"packages"`
	Functions   []string `json:"functions"` // key prefixes; empty = every in-repo contract of the loaded contract files
	Exclude     []string `json:"exclude"`
	TrustedBase []string `json:"trusted_base"`
	NotDecided  []string `json:"not_decided"`
	Assumptions []string `json:"assumptions"`
	Bounded     []BoundedSpec `json:"bounded"`
	ReplayFamily string  `json:"replay_family"`
	Strings     string   `json:"strings"`
	Derive      string   `json:"derive"`
	Grammar     bool     `json:"grammar_lemma"`
}

type BoundedSpec struct {
	Name    string `json:"name"`
	Package string `json:"package"`
	Test    string `json:"test"`   // test function name inside the harness file
	File    string `json:"file"`   // harness source under /verif/bounded
	Quick   string `json:"quick"`  // bound description / env value for quick tier
	Thorough string `json:"thorough"`
	Tags    string `json:"tags"`   // build tags for the harness run (e.g. verif for the crash-point hook)
	Timeout string `json:"timeout"` // go test -timeout for the harness (default 600s)
}

type KnownFinding struct {
	Property   string `json:"property"`
	Status     string `json:"status"` // known | fixed
	Obligation string `json:"obligation"`
	Input      string `json:"input,omitempty"`
	What       string `json:"what"`
	Commit     string `json:"commit,omitempty"`
}

type knownFile struct {
	Findings []KnownFinding `json:"findings"`
}

var verifDir = "/verif"

func main() {
	if len(os.Args) < 2 {
		fmt.Fprintln(os.Stderr, "usage: govc check|list|dump ...")
		os.Exit(2)
	}
	if d := os.Getenv("VERIF_DIR"); d != "" {
		verifDir = d
	}
	switch os.Args[1] {
	case "check":
		os.Exit(cmdCheck(os.Args[2:]))
	case "dump":
		os.Exit(cmdDump(os.Args[2:]))
	case "replay":
		os.Exit(cmdReplay(os.Args[2:]))
	default:
		fmt.Fprintln(os.Stderr, "unknown command", os.Args[1])
		os.Exit(2)
	}
}

func loadConfig(id string) (*PropertyConfig, error) {
	data, err := os.ReadFile(filepath.Join(verifDir, "properties", id+".json"))
	if err != nil {
		return nil, err
	}
	var c PropertyConfig
	if err := json.Unmarshal(data, &c); err != nil {
		return nil, err
	}
	return &c, nil
}

func selectContracts(w *World, cfg *PropertyConfig) []*FuncContract {
	var out []*FuncContract
	for _, fc := range w.contracts {
		if fc.Extern || fc.Inline || fc.Interface || fc.Trusted {
			continue
		}
		if strings.HasPrefix(fc.Key, "interface:") {
			continue
		}
		ok := len(cfg.Functions) == 0
		for _, p := range cfg.Functions {
			if strings.HasPrefix(fc.Key, p) {
				ok = true
			}
		}
		for _, p := range cfg.Exclude {
			if strings.HasPrefix(fc.Key, p) {
				ok = false
			}
		}
		if ok {
			out = append(out, fc)
		}
	}
	sort.Slice(out, func(i, j int) bool { return out[i].Key < out[j].Key })
	return out
}

// cmdReplay re-runs the replay recorded in a replay file (the command under "replay": an in-package test injected
// with go test -overlay against the real code) and prints what it reports. Exit 1 when the failure shows again.
func cmdReplay(args []string) int {
	fs := flag.NewFlagSet("replay", flag.ExitOnError)
	fs.String("property", "", "property id")
	file := fs.String("file", "", "replay file")
	fs.Parse(args)
	data, err := os.ReadFile(*file)
	if err != nil {
		fmt.Fprintln(os.Stderr, err)
		return 2
	}
	var rec map[string]any
	if err := json.Unmarshal(data, &rec); err != nil {
		fmt.Fprintln(os.Stderr, err)
		return 2
	}
	fmt.Printf("obligation: %v\nverdict: %v\n", rec["obligation"], rec["verdict"])
	command, _ := rec["replay"].(string)
	if command == "" {
		fmt.Println("no replayable input was recorded for this obligation (solver output: ", rec["solver_status"], rec["solver_detail"], ")")
		return 0
	}
	cmd := exec.Command("sh", "-c", command)
	cmd.Dir = verifDir
	out, _ := cmd.CombinedOutput()
	failed := false
	for _, line := range strings.Split(string(out), "\n") {
		if strings.Contains(line, "REPLAY-RESULT ") || strings.Contains(line, "BOUNDED-RESULT ") {
			fmt.Println(line)
			if strings.Contains(line, "\"violated\":true") || (strings.Contains(line, "\"failures\":[") && !strings.Contains(line, "\"failures\":[]")) {
				failed = true
			}
		}
	}
	if failed {
		fmt.Println("the failure shows again on the real code")
		return 1
	}
	fmt.Println("the failure does not show")
	return 0
}

func cmdDump(args []string) int {
	fs := flag.NewFlagSet("dump", flag.ExitOnError)
	prop := fs.String("property", "", "property id")
	repo := fs.String("repo", "/repo", "repository")
	name := fs.String("obligation", "", "obligation name (substring)")
	fs.Parse(args)
	cfg, err := loadConfig(*prop)
	if err != nil {
		fmt.Fprintln(os.Stderr, err)
		return 2
	}
	w, err := LoadWorld(*repo, filepath.Join(verifDir, "specs"), cfg.Packages)
	if err != nil {
		fmt.Fprintln(os.Stderr, err)
		return 2
	}
	if err := resolveGhosts(w); err != nil {
		fmt.Fprintln(os.Stderr, err)
		return 2
	}
	for _, fc := range selectContracts(w, cfg) {
		fn := w.funcs[fc.Key]
		if fn == nil {
			continue
		}
		rep := VerifyFunction(w, fn, fc)
		if rep.Unsupported != "" {
			fmt.Printf("; %s UNSUPPORTED: %s\n", fc.Key, rep.Unsupported)
		}
		for _, o := range rep.Obligations {
			if *name == "" {
				fmt.Println(o.Name)
			} else if strings.Contains(o.Name, *name) {
				fmt.Println(queryText(rep.vc, o, nil))
				return 0
			}
		}
	}
	return 0
}

func cmdCheck(args []string) int {
	fs := flag.NewFlagSet("check", flag.ExitOnError)
	prop := fs.String("property", "", "property id")
	tier := fs.String("tier", "quick", "quick|thorough")
	repo := fs.String("repo", "/repo", "repository")
	seed := fs.Int("seed", 0, "seed")
	verbose := fs.Bool("v", false, "verbose")
	noEvidence := fs.Bool("no-evidence", false, "do not write the evidence file (selftests)")
	ff := fs.Bool("failfast", false, "selftests: stop discharging once an obligation has failed, skip the bounded stand-ins when a proof obligation failed")
	fs.Parse(args)
	if s := os.Getenv("VERIF_SEED"); s != "" {
		if n, err := strconv.Atoi(s); err == nil {
			*seed = n
		}
	}
	start := time.Now()
	cfg, err := loadConfig(*prop)
	if err != nil {
		fmt.Fprintln(os.Stderr, "config:", err)
		return 2
	}
	failFast = *ff && *noEvidence // only ever together with -no-evidence: a run that skips obligations writes no evidence
	run := &checkRun{cfg: cfg, tier: *tier, seed: *seed, repo: *repo, verbose: *verbose, start: start, writeEvidence: !*noEvidence}
	return run.run()
}

type checkRun struct {
	cfg           *PropertyConfig
	tier          string
	seed          int
	repo          string
	verbose       bool
	start         time.Time
	writeEvidence bool
	reports       []*FuncReport
	violations    []violation
	knownHits     []string
	bounded       []map[string]any
	staleContracts []string
}

type violation struct {
	obligation string
	status     string
	detail     string
	replay     string
	hasInput   bool
}

func (r *checkRun) run() int {
	id := r.cfg.Property
	w, err := LoadWorld(r.repo, filepath.Join(verifDir, "specs"), r.cfg.Packages)
	if err != nil {
		// the tree does not load (or a contract does not parse): this is a broken check input, reported as a violation
		return r.fatalViolation("load", err.Error())
	}
	if err := resolveGhosts(w); err != nil {
		return r.fatalViolation("contracts", err.Error())
	}
	if r.cfg.Derive == "cypher-copy" {
		info, err := deriveCopyContracts(w)
		if err != nil {
			return r.fatalViolation("derive", err.Error())
		}
		path := writeDerived(id, info)
		cf, err := ParseContractFile(path, cypherModelPkg, info.Text)
		if err != nil {
			return r.fatalViolation("derive", err.Error())
		}
		w.addFile(cf)
		if _, has := w.cfByPkg[cypherModelPkg]; !has {
			w.cfByPkg[cypherModelPkg] = cf
		}
		w.copyBuiltin = true
		w.derived = info
		if len(w.loadErrs) > 0 {
			return r.fatalViolation("derive", strings.Join(w.loadErrs, "; "))
		}
	}
	contracts := selectContracts(w, r.cfg)
	w.verifiedHere = map[string]bool{}
	for _, fc := range contracts {
		w.verifiedHere[fc.Key] = true
	}
	if len(contracts) == 0 {
		return r.fatalViolation("contracts", "no function under contract found (vacuous check)")
	}
	for _, fc := range contracts {
		fn := w.funcs[fc.Key]
		if fn == nil {
			rep := &FuncReport{Key: fc.Key}
			rep.Obligations = []*Obligation{{Name: fc.Key + "#target.missing", Kind: "target", Func: fc.Key, Result: "missing", Detail: "function under contract no longer exists"}}
			r.reports = append(r.reports, rep)
			continue
		}
		rep := VerifyFunction(w, fn, fc)
		if strings.Contains(rep.Unsupported, "unknown identifier") {
			// the contract names a local variable (or parameter) the function no longer has: the contract is out of
			// date with respect to the code (a rename is enough). Nothing is decided about the property by that.
			fmt.Printf("UNDECIDED %s: the contract is out of date with the code (%s); nothing was proved or refuted for this function\n", fc.Key, rep.Unsupported)
			r.staleContracts = append(r.staleContracts, fc.Key+": "+rep.Unsupported)
			rep.Unsupported = "" // obligations generated before the unreadable clause stay: each is about the real code
		}
		if rep.Unsupported != "" {
			// the function (as it is now) is outside what the generator can turn into obligations, or its contract can
			// no longer be read against it (a changed signature): no obligation of this function was decided. On the
			// committed tree every function under contract is inside the subset, so this can only follow a change to the
			// code; whether that change breaks the property is for the other obligations and the stand-ins to say.
			fmt.Printf("UNDECIDED %s: outside the verifier's reach as the code stands (%s); nothing was proved or refuted for this function\n", fc.Key, rep.Unsupported)
			r.staleContracts = append(r.staleContracts, fc.Key+": unsupported: "+rep.Unsupported)
			rep.Unsupported = "" // obligations generated before the generator stopped stay: each is about the real code
		}
		r.reports = append(r.reports, rep)
	}
	if r.cfg.Derive == "frontend-unsupported" {
		ov, checked := unsupportedOverrides(w)
		rep := &FuncReport{Key: "cypher/frontend"}
		if len(ov) == 0 {
			rep.Obligations = append(rep.Obligations, &Obligation{Name: "cypher/frontend#derive.unsupported.not-overridden", Kind: "derive", Func: rep.Key, Result: "unsat", Solver: "structural", Src: fmt.Sprintf("%d declarations of unsupported-rule Enter methods, all on BaseVisitor", checked)})
		}
		for _, o := range ov {
			rep.Obligations = append(rep.Obligations, &Obligation{Name: "cypher/frontend#derive.unsupported.overridden[" + o + "]", Kind: "derive", Func: rep.Key, Result: "refuted", Detail: o + " overrides (or removes) the error-reporting Enter method of an unsupported grammar rule"})
		}
		r.reports = append(r.reports, rep)
		un, summary := ruleCoverage(w, r.repo)
		rep2 := &FuncReport{Key: "cypher/grammar/Cypher.g4"}
		if len(un) == 0 {
			rep2.Obligations = append(rep2.Obligations, &Obligation{Name: "cypher/grammar/Cypher.g4#derive.rule-coverage", Kind: "derive", Func: rep2.Key, Result: "unsat", Solver: "structural", Src: summary})
		}
		for _, u := range un {
			rep2.Obligations = append(rep2.Obligations, &Obligation{Name: "cypher/grammar/Cypher.g4#derive.rule-coverage[" + u + "]", Kind: "derive", Func: rep2.Key, Result: "refuted", Detail: "grammar rule oC_" + u + " has no visitor, reports no error and is not a reviewed transparent rule: its content would be dropped silently"})
		}
		r.reports = append(r.reports, rep2)
	}
	if r.cfg.Grammar {
		g := checkGrammarLemma(r.repo)
		rep := &FuncReport{Key: "cypher/grammar/Cypher.g4"}
		if len(g.Violations) == 0 {
			rep.Obligations = append(rep.Obligations, &Obligation{Name: "cypher/grammar/Cypher.g4#grammar.lemma", Kind: "derive", Func: rep.Key, Result: "unsat", Solver: "structural", Src: fmt.Sprintf("%d rules, %d reachable from oC_Cypher without the guard rules, none mentions a data-modifying keyword; CALL and $ are confined", g.Rules, g.Reachable)})
		}
		for i, v := range g.Violations {
			rep.Obligations = append(rep.Obligations, &Obligation{Name: fmt.Sprintf("cypher/grammar/Cypher.g4#grammar.lemma.%d", i), Kind: "derive", Func: rep.Key, Result: "refuted", Detail: v})
		}
		r.reports = append(r.reports, rep)
	}
	if r.cfg.Derive == "cypher-copy" {
		missing, arms := copyArmObligations(w)
		rep := &FuncReport{Key: cypherModelPkg + ".Copy"}
		rep.Obligations = append(rep.Obligations, &Obligation{Name: cypherModelPkg + ".Copy#derive.arms", Kind: "derive", Func: rep.Key, Result: "unsat", Solver: "structural", Src: fmt.Sprintf("%d type-switch arms cover every type with a copy() method and every model slice field type", arms)})
		for _, m := range missing {
			rep.Obligations = append(rep.Obligations, &Obligation{Name: cypherModelPkg + ".Copy#derive.arm.missing[" + m + "]", Kind: "derive", Func: rep.Key, Result: "missing", Detail: "Copy has no case for " + m + " (falls through to the panicking default)"})
		}
		r.reports = append(r.reports, rep)
	}
	sc := solveConfig{workDir: filepath.Join(verifDir, "work", fmt.Sprintf("%s-%d", id, os.Getpid())), quickT: 4, slowT: 20, workers: max(2, runtime.NumCPU()/2)}
	if r.tier == "thorough" {
		sc.quickT, sc.slowT, sc.allAgree = 20, 60, true
	}
	os.RemoveAll(sc.workDir)
	if r.writeEvidence {
		os.RemoveAll(filepath.Join(verifDir, "replays", id))
	}
	var solvable []*FuncReport
	for _, rep := range r.reports {
		if rep.vc != nil {
			solvable = append(solvable, rep)
		}
	}
	solveAll(solvable, sc)
	rc := r.finish(w)
	if rc == 0 {
		os.RemoveAll(sc.workDir) // query files are only kept for failed obligations
	}
	return rc
}

func (r *checkRun) fatalViolation(stage, msg string) int {
	id := r.cfg.Property
	path := filepath.Join(verifDir, "replays", id, stage+".json")
	os.MkdirAll(filepath.Dir(path), 0o755)
	data, _ := json.MarshalIndent(map[string]any{"property": id, "obligation": stage, "verdict": "no-failing-input-found", "detail": msg}, "", " ")
	os.WriteFile(path, data, 0o644)
	fmt.Printf("FAILED %s: %s\n", stage, msg)
	fmt.Printf("VIOLATION property=%s replay=%s no-failing-input-found\n", id, path)
	r.writeEvidenceFile(nil, 1)
	return 1
}

func loadKnown() []KnownFinding {
	data, err := os.ReadFile(filepath.Join(verifDir, "known_findings.json"))
	if err != nil {
		return nil
	}
	var kf knownFile
	json.Unmarshal(data, &kf)
	return kf.Findings
}

func (r *checkRun) finish(w *World) int {
	id := r.cfg.Property
	known := loadKnown()
	total, discharged, covers, coverOK := 0, 0, 0, 0
	bySolver := map[string]int{}
	var maxT, sumT float64
	var samples []map[string]any
	var funcs []map[string]any
	notes := map[string]bool{}
	exit := 0
	knownSeen := map[string]bool{}
	for _, rep := range r.reports {
		fobl, fmax := 0, 0.0
		for _, n := range rep.Notes {
			notes[n] = true
		}
		for _, o := range rep.Obligations {
			sumT += o.TimeS
			if o.TimeS > maxT {
				maxT = o.TimeS
			}
			if o.TimeS > fmax {
				fmax = o.TimeS
			}
			if o.Result == "skipped" {
				continue
			}
			if o.Cover {
				covers++
				if o.Result != "vacuous" {
					coverOK++
					continue
				}
			} else {
				total++
				fobl++
				if o.Result == "unsat" {
					discharged++
					bySolver[o.Solver]++
					if len(samples) < 6 && (total%7 == 1) {
						samples = append(samples, map[string]any{"obligation": o.Name, "result": o.Result, "solver": o.Solver, "time_s": round3(o.TimeS), "smt_bytes": o.Bytes, "clause": o.Src})
					}
					continue
				}
			}
			if o.Result == "error" {
				// the query could not be written or run at all (file system, solver start): nothing is known about
				// the obligation. Not a verdict on the property: reported as undecided (exit 2), never as a violation.
				fmt.Printf("UNDECIDED %s: the obligation could not be submitted to the solvers (%s)\n", o.Name, o.Detail)
				r.staleContracts = append(r.staleContracts, o.Name+": solver infrastructure error: "+o.Detail)
				total--
				fobl--
				continue
			}
			// failed obligation
			isKnown := false
			for _, k := range known {
				if k.Property == id && k.Status == "known" && k.Obligation == o.Name {
					isKnown = true
					if !knownSeen[k.Obligation] {
						knownSeen[k.Obligation] = true
						fmt.Printf("KNOWN-FINDING: property=%s %s: %s\n", id, k.Obligation, k.What)
						r.knownHits = append(r.knownHits, k.Obligation)
					}
				}
			}
			if isKnown {
				total--
				fobl--
				continue
			}
			v := r.reportViolation(w, rep, o)
			r.violations = append(r.violations, v)
			exit = 1
		}
		if rep.vc != nil {
			funcs = append(funcs, map[string]any{"name": rep.Key, "ssa_sha256": rep.SSAHash, "ssa_instrs": rep.Instrs, "obligations": fobl, "max_solver_s": round3(fmax), "script_bytes": rep.ScriptBytes})
		}
		if r.verbose {
			for _, o := range rep.Obligations {
				fmt.Printf("  %-8s %-90s %s %.2fs %s\n", o.Result, o.Name, o.Solver, o.TimeS, o.Detail)
			}
		}
	}
	// bounded stand-ins
	bexit := 0
	if !(failFast && exit == 1) {
		bexit = r.runBounded()
	}
	if bexit == 1 {
		exit = 1
	}
	undecided := bexit == 3
	if total == 0 && exit == 0 {
		fmt.Println("FAILED: zero obligations generated (vacuous check)")
		return r.fatalViolation("vacuity", "zero obligations generated")
	}
	fmt.Printf("%s %s: functions=%d obligations=%d discharged=%d cover=%d/%d known_findings=%d violations=%d wall=%.1fs\n",
		id, r.tier, len(funcs), total, discharged, coverOK, covers, len(r.knownHits), len(r.violations), time.Since(r.start).Seconds())
	cov := map[string]any{
		"obligations": total, "discharged": discharged,
		"checker_cmd":  fmt.Sprintf("./bin/check %s %s", id, r.tier),
		"trusted_base": append([]string{"Go type/memory safety (good-heap axioms)", "z3 4.8.12 | z3 5.1.0 | cvc5 1.0.3", "go/ssa translation of the source (x/tools v0.50.0)"}, r.cfg.TrustedBase...),
		"functions_under_contract": funcs,
		"by_solver":                bySolver,
		"solver_time_s":            map[string]any{"total": round3(sumT), "max": round3(maxT)},
		"cover_checks":             map[string]any{"expected_not_unsat": covers, "ok": coverOK},
		"samples":                  samples,
		"bounded_standins":         r.bounded,
		"not_decided":              r.cfg.NotDecided,
		"known_findings_reported":  r.knownHits,
		"stale_contracts":          r.staleContracts,
		"violations":               r.violationNames(),
	}
	var assumptions []string
	assumptions = append(assumptions, r.cfg.Assumptions...)
	for n := range notes {
		assumptions = append(assumptions, n)
	}
	sort.Strings(assumptions)
	cov["assumption_scan"] = len(assumptions)
	r.writeEvidenceFileFull(cov, assumptions, len(r.violations))
	if len(r.staleContracts) > 0 {
		undecided = true
	}
	if undecided && exit == 0 {
		// neither held nor violated: a stand-in could not be built. Exit 2 (tool error), no VIOLATION line.
		return 2
	}
	return exit
}

func (r *checkRun) violationNames() []string {
	var out []string
	for _, v := range r.violations {
		out = append(out, v.obligation)
	}
	return out
}

func round3(f float64) float64 { return float64(int(f*1000+0.5)) / 1000 }

func (r *checkRun) reportViolation(w *World, rep *FuncReport, o *Obligation) violation {
	id := r.cfg.Property
	v := violation{obligation: o.Name, status: o.Result, detail: o.Detail}
	safe := strings.NewReplacer("/", "_", "*", "", "(", "", ")", "", "[", "_", "]", "_", " ", "", "$", "_", ">", "_", ":", "_").Replace(o.Name)
	path := filepath.Join(verifDir, "replays", id, safe+".json")
	os.MkdirAll(filepath.Dir(path), 0o755)
	rec := map[string]any{
		"property": id, "obligation": o.Name, "kind": o.Kind, "function": o.Func, "clause": o.Src,
		"solver_status": o.Result, "solver_detail": o.Detail, "verdict": "no-failing-input-found",
	}
	if o.Model != "" {
		rec["query_file"] = o.Model
	}
	// try to obtain and replay a counterexample
	if rep.vc != nil && (o.Result == "sat" || o.Result == "unknown" || o.Result == "timeout") && !o.Cover {
		if rp := tryReplay(r, w, rep, o); rp != nil {
			for k, val := range rp {
				rec[k] = val
			}
			if rp["verdict"] == "confirmed" {
				v.hasInput = true
			}
		}
	}
	data, _ := json.MarshalIndent(rec, "", " ")
	os.WriteFile(path, data, 0o644)
	v.replay = path
	suffix := " no-failing-input-found"
	if v.hasInput {
		suffix = ""
	}
	fmt.Printf("FAILED %s [%s] %s %s\n", o.Name, o.Result, o.Src, o.Detail)
	fmt.Printf("VIOLATION property=%s replay=%s%s\n", id, path, suffix)
	return v
}

func (r *checkRun) writeEvidenceFile(cov map[string]any, violations int) {
	if cov == nil {
		cov = map[string]any{"obligations": 1, "discharged": 0, "checker_cmd": "./bin/check " + r.cfg.Property + " " + r.tier, "trusted_base": []string{}, "explanation": "check aborted before obligations were generated"}
	}
	r.writeEvidenceFileFull(cov, r.cfg.Assumptions, violations)
}

func (r *checkRun) writeEvidenceFileFull(cov map[string]any, assumptions []string, violations int) {
	if !r.writeEvidence {
		return
	}
	if assumptions == nil {
		assumptions = []string{}
	}
	level := "proof"
	if data, err := os.ReadFile(filepath.Join(verifDir, "tools", "claims.json")); err == nil {
		var claims struct {
			Claims map[string]struct {
				Category string `json:"category"`
			} `json:"claims"`
		}
		if json.Unmarshal(data, &claims) == nil {
			if c, ok := claims.Claims[r.cfg.Property]; ok && c.Category != "" {
				level = c.Category // the level claimed in MANIFEST.json (generated from the same file)
			}
		}
	}
	if _, has := cov["explanation"]; !has {
		nb := 0
		if bs, ok := cov["bounded_standins"].([]map[string]any); ok {
			nb = len(bs)
		}
		cov["explanation"] = fmt.Sprintf("contract obligations generated from the go/ssa of the functions under contract and discharged by SMT (obligations/discharged above; every function, its SSA hash and obligation count under functions_under_contract), plus %d bounded stand-in(s) run against the real code (bounded_standins: name, stated bound, cases; labelled bounded, never counted as proved); what is not decided is listed under not_decided", nb)
	}
	ev := map[string]any{
		"property_id": r.cfg.Property, "tier": r.tier, "seed": r.seed, "level": level,
		"coverage": cov, "assumptions": assumptions, "wall_s": round3(time.Since(r.start).Seconds()), "violations": violations,
	}
	data, _ := json.MarshalIndent(ev, "", " ")
	os.MkdirAll(filepath.Join(verifDir, "evidence"), 0o755)
	os.WriteFile(filepath.Join(verifDir, "evidence", r.cfg.Property+".json"), data, 0o644)
}
