package main

import (
	"fmt"
	"golang.org/x/tools/go/packages"
	"golang.org/x/tools/go/ssa"
	"golang.org/x/tools/go/ssa/ssautil"
)

func main() {
	cfg := &packages.Config{Mode: packages.LoadAllSyntax, Dir: "/repo", BuildFlags: []string{"-tags=verif"}}
	pkgs, err := packages.Load(cfg, "./cache")
	if err != nil {
		panic(err)
	}
	prog, spkgs := ssautil.AllPackages(pkgs, ssa.GlobalDebug)
	prog.Build()
	fmt.Println(len(spkgs), spkgs[0])
}
