package main

import (
	"fmt"
	"sort"
	"strings"
)

// The heap is a set of named components, each an SMT array indexed by object reference (Burstall /
// Boogie style): one component per flattened struct field path, per map type (dom/val/len), per
// slice element type, per scalar cell type, plus ghost components.

const allocComp = "$alloc"

// compInfo records the static facts about a component.
type compInfo struct {
	Sort    Sort
	RefVals bool // values are object references (subject to the good-heap axiom)
	Depth   int  // number of indices (1 or 2)
	NonNeg  bool // values are unsigned integers / lengths
	Ghost   bool
}

// HeapBase is an arbitrary heap: components never written since it was created resolve to per-base
// constants, declared lazily on first use.
type HeapBase struct {
	id      int
	m       map[string]Term
	alloc   Term
	parents []baseEdge
}

type baseEdge struct {
	cond Term
	base *HeapBase
}

type Heap struct {
	base *HeapBase
	c    map[string]Term
}

func (h *Heap) Clone() *Heap {
	n := &Heap{base: h.base, c: make(map[string]Term, len(h.c))}
	for k, v := range h.c {
		n.c[k] = v
	}
	return n
}

func (vc *VC) newBase(alloc Term) *HeapBase {
	vc.baseSeq++
	return &HeapBase{id: vc.baseSeq, m: map[string]Term{}, alloc: alloc}
}

func (vc *VC) registerComp(name string, info compInfo) compInfo {
	if vc.havocedUnregistered[name] {
		// a callee's modifies clause named this component before the function under verification ever touched it: its
		// first use would read the entry value although it may have changed (engine limitation, reported, never ignored)
		panic(unsupported{"component " + name + " is modified by a callee before its first use in this function"})
	}
	if old, ok := vc.comps[name]; ok {
		if old.Sort != info.Sort {
			panic(fmt.Sprintf("component %s registered with sorts %s and %s", name, old.Sort, info.Sort))
		}
		return old
	}
	vc.comps[name] = info
	return info
}

func (vc *VC) baseGet(b *HeapBase, name string) Term {
	if t, ok := b.m[name]; ok {
		return t
	}
	info, ok := vc.comps[name]
	if !ok {
		panic("unregistered component " + name)
	}
	var t Term
	if len(b.parents) > 0 {
		t = vc.baseGet(b.parents[len(b.parents)-1].base, name)
		for i := len(b.parents) - 2; i >= 0; i-- {
			t = Ite(b.parents[i].cond, vc.baseGet(b.parents[i].base, name), t)
		}
		t = vc.script.Define(fmt.Sprintf("%s@m%d", name, b.id), t)
		b.m[name] = t
		return t
	}
	t = vc.script.Declare(fmt.Sprintf("%s@%d", name, b.id), info.Sort)
	b.m[name] = t
	vc.goodHeapAxioms(name, info, t, b.alloc)
	if strings.HasPrefix(name, "mapdom:") {
		l := vc.baseGet(b, "maplen:"+strings.TrimPrefix(name, "mapdom:"))
		r, k := Term{"r!", SInt}, Term{"k!", SInt}
		f := Forall([]Term{r, k}, Implies(Select(Select(t, r), k), Ge(Select(l, r), One)), []Term{Select(Select(t, r), k)})
		vc.script.lines = append(vc.script.lines, scriptLine{lkDecl, "(assert " + f.S + ")"})
	}
	return t
}

// goodHeapAxioms are facts that hold of every reachable Go heap (type safety), assumed for each
// arbitrary component when it is introduced. They are part of the trusted base.
func (vc *VC) goodHeapAxioms(name string, info compInfo, t Term, alloc Term) {
	ax := func(f Term) { vc.script.lines = append(vc.script.lines, scriptLine{lkDecl, "(assert " + f.S + ")"}) }
	r := Term{"r!", SInt}
	k := Term{"k!", SInt}
	if name == allocComp {
		ax(Not(Select(t, Zero)))
		return
	}
	if !alloc.IsZero() && !strings.HasPrefix(name, "ghost:g.") {
		// convention: components are zero on references that are not allocated (memory of a new object is zeroed);
		// declared ghost components are indexed by arbitrary values (strings, ...), not by references
		ax(Forall([]Term{r}, Implies(Not(Select(alloc, r)), Eq(Select(t, r), ZeroOf(ArrElem(info.Sort)))), []Term{Select(t, r)}))
	}
	switch {
	case strings.HasPrefix(name, "maplen:"):
		ax(Forall([]Term{r}, Ge(Select(t, r), Zero), []Term{Select(t, r)}))
		ax(Eq(Select(t, Zero), Zero))
		return
	case strings.HasPrefix(name, "mapdom:"):
		// nil map is empty; a present key implies len >= 1
		ax(Forall([]Term{k}, Not(Select(Select(t, Zero), k)), []Term{Select(Select(t, Zero), k)}))
		return
	}
	if info.NonNeg {
		if info.Depth == 1 {
			ax(Forall([]Term{r}, Ge(Select(t, r), Zero), []Term{Select(t, r)}))
		} else {
			ax(Forall([]Term{r, k}, Ge(Select(Select(t, r), k), Zero), []Term{Select(Select(t, r), k)}))
		}
	}
	if info.RefVals && !alloc.IsZero() {
		if info.Depth == 1 {
			v := Select(t, r)
			ax(Forall([]Term{r}, Or(Eq(v, Zero), Select(alloc, v)), []Term{v}))
		} else {
			v := Select(Select(t, r), k)
			ax(Forall([]Term{r, k}, Or(Eq(v, Zero), Select(alloc, v)), []Term{v}))
		}
	}
}

func (vc *VC) hget(h *Heap, name string) Term {
	if t, ok := h.c[name]; ok {
		return t
	}
	return vc.baseGet(h.base, name)
}

func (vc *VC) hset(st *State, name string, t Term) {
	st.heap.c[name] = vc.script.Define(name, t)
	if vc.written != nil {
		vc.written[name] = true
	}
}

func (vc *VC) allocOf(h *Heap) Term {
	vc.registerComp(allocComp, compInfo{Sort: ArrSort(SInt, SBool), Depth: 1})
	return vc.hget(h, allocComp)
}

// readLoc reads a single-term cell.
func (vc *VC) readCell(h *Heap, loc Loc) Term {
	t := vc.hget(h, loc.Prefix)
	for _, i := range loc.Idx {
		t = Select(t, i)
	}
	return t
}

func (vc *VC) writeCell(st *State, loc Loc, v Term) {
	cur := vc.hget(st.heap, loc.Prefix)
	var nt Term
	switch len(loc.Idx) {
	case 1:
		nt = Store(cur, loc.Idx[0], v)
	case 2:
		nt = Store(cur, loc.Idx[0], Store(Select(cur, loc.Idx[0]), loc.Idx[1], v))
	default:
		panic("writeCell: bad index depth")
	}
	vc.hset(st, loc.Prefix, nt)
	vc.noteWrite(loc.Prefix, loc.Idx[0])
}

// noteWrite records a write for loop/call frame computation (dry runs).
func (vc *VC) noteWrite(comp string, idx Term) {
	if vc.writes == nil {
		return
	}
	w := vc.writes[comp]
	if w == nil {
		w = &writeSet{}
		vc.writes[comp] = w
	}
	if idx.IsZero() {
		w.whole = true
		return
	}
	for _, t := range w.idxs {
		if t.S == idx.S {
			return
		}
	}
	w.idxs = append(w.idxs, idx)
}

type writeSet struct {
	whole bool
	fresh bool // written on objects allocated after the point of interest only
	idxs  []Term
}

func (vc *VC) noteWriteFresh(comp string) {
	if vc.writes == nil {
		return
	}
	w := vc.writes[comp]
	if w == nil {
		w = &writeSet{}
		vc.writes[comp] = w
	}
	w.fresh = true
}

func sortedKeys[V any](m map[string]V) []string {
	out := make([]string, 0, len(m))
	for k := range m {
		out = append(out, k)
	}
	sort.Strings(out)
	return out
}

// mergeHeaps builds the heap at a join point.
func (vc *VC) mergeHeaps(conds []Term, heaps []*Heap) *Heap {
	if len(heaps) == 1 {
		return heaps[0].Clone()
	}
	sameBase := true
	for _, h := range heaps[1:] {
		if h.base != heaps[0].base {
			sameBase = false
		}
	}
	out := &Heap{c: map[string]Term{}}
	names := map[string]bool{}
	for _, h := range heaps {
		for n := range h.c {
			names[n] = true
		}
	}
	if sameBase {
		out.base = heaps[0].base
	} else {
		nb := vc.newBase(Term{})
		for i, h := range heaps {
			nb.parents = append(nb.parents, baseEdge{conds[i], h.base})
		}
		out.base = nb
	}
	for _, n := range sortedKeys(names) {
		t := vc.hget(heaps[len(heaps)-1], n)
		same := true
		for i := len(heaps) - 2; i >= 0; i-- {
			ti := vc.hget(heaps[i], n)
			if ti.S != t.S {
				same = false
			}
			t = Ite(conds[i], ti, t)
		}
		if same {
			out.c[n] = vc.hget(heaps[0], n)
		} else {
			out.c[n] = vc.script.Define(n+"@phi", t)
		}
	}
	return out
}
