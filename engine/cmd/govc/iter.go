package main

import (
	"fmt"

	"golang.org/x/tools/go/ssa"
)

// Iteration primitives. A callee whose contract says
//     iterates [ascending] <set expression> with <closure parameter>
// is expanded at the call site into a loop over the abstract set: the closure body is inlined as the
// loop body with its captured cells, "return false" leaves the loop, and the enclosing function's
// contract supplies the loop invariant under "iter <ordinal>". The primitive's contract carries an
// iterator-validity frame: the body must not change the set being iterated (frame.iter obligation).

func (vc *VC) iterContract(fr *frame, ord int) *LoopContract {
	var fc *FuncContract
	if fr.top {
		fc = vc.contract
	} else {
		fc = vc.w.contracts[funcKey(fr.fn)]
	}
	if fc == nil {
		return nil
	}
	for _, l := range fc.Iters {
		if l.Ordinal == ord {
			return l
		}
	}
	return nil
}

// iterOrdinal numbers the calls that pass a closure literal, in block/instruction order.
func iterOrdinal(fn *ssa.Function, site ssa.Instruction) int {
	n := 0
	for _, b := range fn.Blocks {
		for _, in := range b.Instrs {
			ci, ok := in.(ssa.CallInstruction)
			if !ok {
				continue
			}
			hasClosure := false
			for _, a := range ci.Common().Args {
				if _, isMC := a.(*ssa.MakeClosure); isMC {
					hasClosure = true
				}
				if _, isFn := a.(*ssa.Function); isFn {
					hasClosure = true
				}
			}
			if !hasClosure {
				continue
			}
			if in == site {
				return n
			}
			n++
		}
	}
	return -1
}

func (vc *VC) iterCall(fr *frame, st *State, site ssa.Instruction, fc *FuncContract, args []Value, ptypes []SType) {
	spec := fc.Iterates
	cv, ok := args[spec.ParamIdx].(*ClosureVal)
	if !ok || cv.fn.Blocks == nil {
		vc.forwardIter(fr, st, site, fc, args, ptypes)
		return
	}
	name := fc.Key
	ord := iterOrdinal(fr.fn, site)
	tag := fmt.Sprintf("iter%d", ord)
	if fr.hint != "" {
		tag = fr.hint + ":" + tag
	}
	pre := vc.contractEnv(st, st.heap, fc, args, ptypes)
	for i, c := range fc.Requires {
		vc.obligeClause(pre, st, "pre", clauseName("pre", i, c), fmt.Sprintf("@%s:%s", tag, name), c)
		t, err := pre.EvalBool(c.E)
		if err != nil {
			vc.fail("requires of %s: %v", fc.Key, err)
		}
		vc.assume(st, t)
	}
	// the set being iterated, as a function of a heap
	setIn := func(h *Heap) SetVal {
		env := vc.contractEnv(&State{pc: st.pc, heap: h}, h, fc, args, ptypes)
		var sv SetVal
		func() {
			defer func() {
				if r := recover(); r != nil {
					if ee, isEval := r.(evalError); isEval {
						vc.fail("iterates clause of %s: %s", fc.Key, ee.msg)
					}
					panic(r)
				}
			}()
			sv = env.asSet(env.eval(spec.Over))
		}()
		return sv
	}
	s0 := setIn(st.heap)
	sameAs := func(sv SetVal, arr Term) Term {
		if sv.Arr != nil {
			return Eq(*sv.Arr, arr)
		}
		y := Term{"y!", SInt}
		return Forall([]Term{y}, Eq(sv.Mem(y), Select(arr, y)), []Term{Select(arr, y)})
	}
	var snap Term
	if s0.Arr != nil {
		snap = vc.script.Define("iter:set", *s0.Arr)
	} else {
		snap = vc.script.Declare("iter:set", ArrSort(SInt, SBool))
		vc.assume(st, sameAs(s0, snap))
	}
	// ghost visited set
	id := vc.newRef(st, "iter:id")
	vc.registerComp(iterVisited, compInfo{Sort: ArrSort(SInt, ArrSort(SInt, SBool)), Depth: 2, Ghost: true})
	vc.hset(st, iterVisited, Store(vc.hget(st.heap, iterVisited), id, ConstArr(ArrSort(SInt, SBool), False)))
	vc.noteWrite(iterVisited, id)
	lc := vc.iterContract(fr, ord)
	block := site.Block()
	mkEnv := func(s *State) *Env {
		env := &Env{vc: vc, heap: s.heap, old: vc.entry, vars: vc.nameEnv(fr, block, s, nil)}
		efc := vc.contract
		if !fr.top {
			efc = vc.w.contracts[funcKey(fr.fn)]
		}
		if efc != nil {
			env.cf, env.pkgPath = vc.fileOf(efc), vc.pkgOf(efc)
		}
		env.vars["visited"] = TV{Select(vc.hget(s.heap, iterVisited), id), setOf(s0.Elem)}
		env.vars["iterset"] = TV{snap, setOf(s0.Elem)}
		return env
	}
	// 1. invariants on entry
	if lc != nil && vc.dry == 0 {
		env := mkEnv(st)
		for i, c := range lc.Invariants {
			vc.obligeClause(env, st, "inv", clauseName("inv.entry", i, c), "@"+tag, c)
		}
	}
	if fr.top && vc.contract != nil && vc.contract.HasModifies && vc.dry == 0 {
		for _, f := range vc.frameFormulas(fr, st, nil) {
			if !f.havoc {
				vc.oblige(st, "frame", fmt.Sprintf("frame[%s]@%s.entry", f.short, tag), "modifies clause (iteration entry)", f.t)
			}
		}
	}
	// 2. dry run of the body to find what it writes
	checkpoint := vc.script.nextID
	runBody := func(s *State) (cont Term, out *State) {
		x := vc.script.Declare("iter:x", s0.Elem.SortOf())
		if s0.Elem.K == KInt && s0.Elem.Unsigned {
			vc.script.Assume(Ge(x, Zero))
		}
		visited := Select(vc.hget(s.heap, iterVisited), id)
		vc.assume(s, And(Select(snap, x), Not(Select(visited, x))))
		if spec.Ascending {
			q := Term{"q!", SInt}
			vc.assume(s, Forall([]Term{q}, Implies(Select(visited, q), Lt(q, x))))
		}
		vc.hset(s, iterVisited, Store(vc.hget(s.heap, iterVisited), id, Store(visited, x, True)))
		vc.noteWrite(iterVisited, id)
		hint := tag + ":" + cv.fn.Name()
		var arg Value = Term(x)
		if spec.Yield != nil {
			env := vc.contractEnv(s, s.heap, fc, args, ptypes)
			env.vars["it"] = TV{x, s0.Elem}
			func() {
				defer func() {
					if r := recover(); r != nil {
						if ee, isEval := r.(evalError); isEval {
							vc.fail("yielding clause of %s: %s", fc.Key, ee.msg)
						}
						panic(r)
					}
				}()
				tv := env.eval(spec.Yield)
				arg = vc.execValue(s, tv)
			}()
		}
		vals, o := vc.exec(cv.fn, append([]Value{arg}, cv.bindings...), s, fr.depth+1, hint, false)
		if o == nil {
			return False, nil
		}
		if len(vals) != 1 {
			vc.fail("iteration delegate must return one bool")
		}
		return vc.toTerm(vals[0]), o
	}
	writes := func() map[string]*writeSet {
		saved := vc.writes
		vc.writes = map[string]*writeSet{}
		vc.dry++
		pos := vc.script.Pos()
		func() {
			defer func() {
				if r := recover(); r != nil {
					if _, isUn := r.(unsupported); isUn {
						vc.writes["*"] = &writeSet{whole: true}
						return
					}
					panic(r)
				}
			}()
			runBody(st.clone())
		}()
		vc.script.DropAssumesSince(pos)
		vc.dry--
		w := vc.writes
		vc.writes = saved
		vc.normalizeWrites(w, checkpoint)
		if saved != nil {
			for _, comp := range sortedKeys(w) {
				ws := w[comp]
				if ws.whole {
					vc.noteWrite(comp, Term{})
				}
				if ws.fresh {
					vc.noteWriteFresh(comp)
				}
				for _, i := range ws.idxs {
					vc.noteWrite(comp, i)
				}
			}
		}
		return w
	}()
	// 3. arbitrary iteration: forget, assume invariants and iterator validity
	vc.havocWrites(st, writes)
	vc.assumeStateAxioms(st)
	if fr.top && vc.contract != nil && vc.contract.HasModifies {
		for _, f := range vc.frameFormulas(fr, st, nil) {
			if !f.havoc {
				vc.assume(st, f.t)
			}
		}
	}
	sHead := setIn(st.heap)
	vc.assume(st, sameAs(sHead, snap))
	{
		q := Term{"q!", SInt}
		visited := Select(vc.hget(st.heap, iterVisited), id)
		vc.assume(st, Forall([]Term{q}, Implies(Select(visited, q), Select(snap, q))))
	}
	if lc != nil {
		env := mkEnv(st)
		for _, c := range lc.Invariants {
			t, err := env.EvalBool(c.E)
			if err != nil {
				vc.fail("invariant of %s %s: %v", fr.fn.Name(), tag, err)
			}
			vc.assume(st, t)
		}
	} else if vc.dry == 0 {
		vc.note(fmt.Sprintf("iteration %d of %s has no invariant (everything the body writes is forgotten)", ord, fr.fn.Name()))
	}
	// 4. more elements?
	more := vc.script.Declare("iter:more", SBool)
	{
		q := Term{"q!", SInt}
		visited := Select(vc.hget(st.heap, iterVisited), id)
		vc.assume(st, Implies(Not(more), Forall([]Term{q}, Implies(Select(snap, q), Select(visited, q)))))
	}
	done := &State{pc: vc.script.Define("pc:"+tag+".done", And(st.pc, Not(more))), heap: st.heap.Clone()}
	body := &State{pc: vc.script.Define("pc:"+tag+".body", And(st.pc, more)), heap: st.heap.Clone()}
	cont, after := runBody(body)
	exits := []*State{done}
	if after != nil {
		// iterator validity: the body must not have changed the set being iterated
		sAfter := setIn(after.heap)
		vc.oblige(after, "frame", "frame.iter@"+tag, "the set being iterated must not be modified by the loop body", sameAs(sAfter, snap))
		// back edge
		back := &State{pc: vc.script.Define("pc:"+tag+".back", And(after.pc, cont)), heap: after.heap}
		if vc.dry == 0 {
			if fr.top && vc.contract != nil && vc.contract.HasModifies {
				for _, f := range vc.frameFormulas(fr, back, nil) {
					if !f.havoc {
						vc.oblige(back, "frame", fmt.Sprintf("frame[%s]@%s.preserve", f.short, tag), "modifies clause (iteration back edge)", f.t)
					}
				}
			}
			if lc != nil {
				env := mkEnv(back)
				for i, c := range lc.Invariants {
					vc.obligeClause(env, back, "inv", clauseName("inv.preserve", i, c), "@"+tag, c)
				}
			}
		}
		exits = append(exits, &State{pc: vc.script.Define("pc:"+tag+".break", And(after.pc, Not(cont))), heap: after.heap})
	}
	// 5. merge exits
	var conds []Term
	var heaps []*Heap
	for _, e := range exits {
		conds = append(conds, e.pc)
		heaps = append(heaps, e.heap)
	}
	st.pc = vc.script.Define("pc:"+tag+".exit", Or(conds...))
	st.heap = vc.mergeHeaps(conds, heaps)
}

// ---------------------------------------------------------------------------------------------
// Forwarders: a function whose own contract says "iterates S with delegate" receives an opaque
// delegate. It is verified against the delivery protocol with two ghost cells: the set D of elements
// delivered so far and the flag "stopped" (the delegate returned false):
//   * a direct call delegate(x) requires x in S, x not in D, not stopped; then D := D + {x};
//   * handing the delegate to another iteration primitive over S' requires S' within S, disjoint
//     from D, not stopped; afterwards D grew by a subset of S', by all of S' unless stopped;
//   * at return: stopped or D == S.
// The delegate is assumed not to modify the state of the structure being iterated (iterator validity
// is the callers' obligation, frame.iter).

const (
	deliveredComp = "ghost:iter.delivered"
	stoppedComp   = "ghost:iter.stopped"
)

func (vc *VC) declaredIterSet(fr *frame) (SetVal, bool) {
	fc := vc.contract
	if fc == nil || fc.Iterates == nil {
		return SetVal{}, false
	}
	env := &Env{vc: vc, heap: vc.entry, old: vc.entry, vars: vc.topParams, cf: vc.fileOf(fc), pkgPath: vc.pkgOf(fc)}
	var sv SetVal
	func() {
		defer func() {
			if r := recover(); r != nil {
				if ee, isEval := r.(evalError); isEval {
					vc.fail("iterates clause: %s", ee.msg)
				}
				panic(r)
			}
		}()
		sv = env.asSet(env.eval(fc.Iterates.Over))
	}()
	return sv, true
}

func (vc *VC) deliveryState(st *State) (d Term, stopped Term) {
	vc.registerComp(deliveredComp, compInfo{Sort: ArrSort(SInt, ArrSort(SInt, SBool)), Depth: 1, Ghost: true})
	vc.registerComp(stoppedComp, compInfo{Sort: ArrSort(SInt, SBool), Depth: 1, Ghost: true})
	return Select(vc.hget(st.heap, deliveredComp), Zero), Select(vc.hget(st.heap, stoppedComp), Zero)
}

func (vc *VC) setDelivery(st *State, d, stopped Term) {
	vc.hset(st, deliveredComp, Store(vc.hget(st.heap, deliveredComp), Zero, d))
	vc.hset(st, stoppedComp, Store(vc.hget(st.heap, stoppedComp), Zero, stopped))
	vc.noteWrite(deliveredComp, Zero)
	vc.noteWrite(stoppedComp, Zero)
}

// delegateCall: a direct call of the opaque delegate.
func (vc *VC) delegateCall(fr *frame, st *State, site ssa.Instruction, args []Value) Value {
	decl, ok := vc.declaredIterSet(fr)
	if !ok {
		vc.fail("call of an opaque function value")
	}
	hint := vc.posHint(fr, site)
	d, stopped := vc.deliveryState(st)
	vc.oblige(st, "iter", "iter.deliver.afterstop@"+hint, vc.posString(site.Pos()), Not(stopped))
	r := vc.script.Declare("delegate:r", SBool)
	if vc.contract.Iterates.Yield == nil {
		x := vc.toTerm(args[0])
		vc.oblige(st, "iter", "iter.deliver.member@"+hint, vc.posString(site.Pos()), decl.Mem(x))
		vc.oblige(st, "iter", "iter.deliver.once@"+hint, vc.posString(site.Pos()), Not(Select(d, x)))
		vc.setDelivery(st, Store(d, x, True), Or(stopped, Not(r)))
	} else {
		vc.note("delivery protocol of " + vc.topKey + " checked for stop/forwarding only (yielded values are not elements)")
		vc.setDelivery(st, d, Or(stopped, Not(r)))
	}
	vc.note("opaque delegates are assumed not to modify the structure being iterated")
	return r
}

// forwardIter: the opaque delegate is handed to another iteration primitive.
func (vc *VC) forwardIter(fr *frame, st *State, site ssa.Instruction, fc *FuncContract, args []Value, ptypes []SType) {
	decl, ok := vc.declaredIterSet(fr)
	if !ok {
		vc.fail("iteration primitive %s called with an opaque delegate", fc.Key)
	}
	hint := vc.posHint(fr, site)
	pre := vc.contractEnv(st, st.heap, fc, args, ptypes)
	for i, c := range fc.Requires {
		vc.obligeClause(pre, st, "pre", clauseName("pre", i, c), fmt.Sprintf("@%s:%s", hint, fc.Key), c)
		t, err := pre.EvalBool(c.E)
		if err != nil {
			vc.fail("requires of %s: %v", fc.Key, err)
		}
		vc.assume(st, t)
	}
	var inner SetVal
	func() {
		defer func() {
			if r := recover(); r != nil {
				if ee, isEval := r.(evalError); isEval {
					vc.fail("iterates clause of %s: %s", fc.Key, ee.msg)
				}
				panic(r)
			}
		}()
		inner = pre.asSet(pre.eval(fc.Iterates.Over))
	}()
	d, stopped := vc.deliveryState(st)
	y := Term{"y!", SInt}
	vc.oblige(st, "iter", "iter.forward.afterstop@"+hint, vc.posString(site.Pos()), Not(stopped))
	if vc.contract.Iterates.Yield == nil && fc.Iterates.Yield == nil {
		vc.oblige(st, "iter", "iter.forward.subset@"+hint, vc.posString(site.Pos()), Forall([]Term{y}, Implies(inner.Mem(y), And(decl.Mem(y), Not(Select(d, y))))))
	} else {
		vc.note("delivery protocol of " + vc.topKey + " checked for stop/forwarding only (yielded values are not elements)")
	}
	nd := vc.script.Declare("iter:delivered", ArrSort(SInt, SBool))
	ns := vc.script.Declare("iter:stopped", SBool)
	vc.assume(st, Forall([]Term{y}, And(Implies(Select(d, y), Select(nd, y)), Implies(Select(nd, y), Or(Select(d, y), inner.Mem(y)))), []Term{Select(nd, y)}))
	vc.assume(st, Implies(Not(ns), Forall([]Term{y}, Eq(Select(nd, y), Or(Select(d, y), inner.Mem(y))), []Term{Select(nd, y)})))
	vc.assume(st, Implies(stopped, ns))
	vc.setDelivery(st, nd, ns)
	vc.note("opaque delegates are assumed not to modify the structure being iterated")
}

// deliveryAtReturn: the protocol obligation of a forwarder at each return.
func (vc *VC) deliveryAtReturn(fr *frame, st *State, rn string) {
	decl, ok := vc.declaredIterSet(fr)
	if !ok || vc.contract.Iterates.Yield != nil {
		return
	}
	d, stopped := vc.deliveryState(st)
	y := Term{"y!", SInt}
	vc.oblige(st, "iter", "iter.complete"+rn, "every element of the declared set is delivered unless the delegate stopped", Or(stopped, Forall([]Term{y}, Eq(Select(d, y), decl.Mem(y)))))
}
