package main

import (
	"fmt"
	"regexp"
	"strconv"
	"strings"
)

// Sort is an SMT-LIB sort in concrete syntax.
type Sort string

const (
	SInt  Sort = "Int"
	SBool Sort = "Bool"
)

func ArrSort(idx, elem Sort) Sort { return Sort("(Array " + string(idx) + " " + string(elem) + ")") }

// ArrElem returns the element sort of an array sort (index sort is always Int here).
func ArrElem(s Sort) Sort {
	str := string(s)
	if !strings.HasPrefix(str, "(Array Int ") {
		panic("ArrElem of non-array sort " + str)
	}
	return Sort(str[len("(Array Int ") : len(str)-1])
}

func IsArr(s Sort) bool { return strings.HasPrefix(string(s), "(Array ") }

// Term is an SMT term in concrete syntax together with its sort.
type Term struct {
	S    string
	Sort Sort
}

func (t Term) String() string { return t.S }
func (t Term) IsZero() bool   { return t.S == "" }

var (
	True  = Term{"true", SBool}
	False = Term{"false", SBool}
	Zero  = Term{"0", SInt}
	One   = Term{"1", SInt}
)

func IntLit(v int64) Term {
	if v < 0 {
		return Term{"(- " + strconv.FormatInt(-v, 10) + ")", SInt}
	}
	return Term{strconv.FormatInt(v, 10), SInt}
}

func BigLit(s string) Term {
	if strings.HasPrefix(s, "-") {
		return Term{"(- " + s[1:] + ")", SInt}
	}
	return Term{s, SInt}
}

func app(sort Sort, op string, args ...Term) Term {
	var b strings.Builder
	b.WriteString("(")
	b.WriteString(op)
	for _, a := range args {
		b.WriteString(" ")
		b.WriteString(a.S)
	}
	b.WriteString(")")
	return Term{b.String(), sort}
}

func Not(a Term) Term {
	switch a.S {
	case "true":
		return False
	case "false":
		return True
	}
	if strings.HasPrefix(a.S, "(not ") {
		// strip one level: (not X) -> X  (X is balanced because a is a well formed term)
		return Term{a.S[5 : len(a.S)-1], SBool}
	}
	return app(SBool, "not", a)
}

func And(ts ...Term) Term {
	var keep []Term
	for _, t := range ts {
		if t.S == "true" {
			continue
		}
		if t.S == "false" {
			return False
		}
		keep = append(keep, t)
	}
	switch len(keep) {
	case 0:
		return True
	case 1:
		return keep[0]
	}
	return app(SBool, "and", keep...)
}

func Or(ts ...Term) Term {
	var keep []Term
	for _, t := range ts {
		if t.S == "false" {
			continue
		}
		if t.S == "true" {
			return True
		}
		keep = append(keep, t)
	}
	switch len(keep) {
	case 0:
		return False
	case 1:
		return keep[0]
	}
	return app(SBool, "or", keep...)
}

func Implies(a, b Term) Term {
	if a.S == "true" {
		return b
	}
	if a.S == "false" || b.S == "true" {
		return True
	}
	return app(SBool, "=>", a, b)
}

func Eq(a, b Term) Term {
	if a.Sort != b.Sort {
		panic(fmt.Sprintf("Eq sort mismatch: %s:%s vs %s:%s", a.S, a.Sort, b.S, b.Sort))
	}
	if a.S == b.S {
		return True
	}
	return app(SBool, "=", a, b)
}

func Ne(a, b Term) Term { return Not(Eq(a, b)) }

func Ite(c, a, b Term) Term {
	if a.Sort != b.Sort {
		panic(fmt.Sprintf("Ite sort mismatch: %s:%s vs %s:%s", a.S, a.Sort, b.S, b.Sort))
	}
	if c.S == "true" {
		return a
	}
	if c.S == "false" {
		return b
	}
	if a.S == b.S {
		return a
	}
	return app(a.Sort, "ite", c, a, b)
}

func Select(arr, idx Term) Term {
	return app(ArrElem(arr.Sort), "select", arr, idx)
}

func Store(arr, idx, v Term) Term {
	if ArrElem(arr.Sort) != v.Sort {
		panic(fmt.Sprintf("Store sort mismatch: %s:%s <- %s:%s", arr.S, arr.Sort, v.S, v.Sort))
	}
	return app(arr.Sort, "store", arr, idx, v)
}

func isLit(t Term) (int64, bool) {
	if len(t.S) == 0 || len(t.S) > 15 {
		return 0, false
	}
	n, err := strconv.ParseInt(t.S, 10, 64)
	return n, err == nil
}

func Add(a, b Term) Term {
	x, ok1 := isLit(a)
	y, ok2 := isLit(b)
	switch {
	case ok1 && ok2:
		return IntLit(x + y)
	case ok1 && x == 0:
		return b
	case ok2 && y == 0:
		return a
	}
	return app(SInt, "+", a, b)
}

func Sub(a, b Term) Term {
	x, ok1 := isLit(a)
	y, ok2 := isLit(b)
	switch {
	case ok1 && ok2:
		return IntLit(x - y)
	case ok2 && y == 0:
		return a
	}
	return app(SInt, "-", a, b)
}
func Mul(a, b Term) Term { return app(SInt, "*", a, b) }
func Lt(a, b Term) Term  { return app(SBool, "<", a, b) }
func Le(a, b Term) Term  { return app(SBool, "<=", a, b) }
func Gt(a, b Term) Term  { return app(SBool, ">", a, b) }
func Ge(a, b Term) Term  { return app(SBool, ">=", a, b) }

// ConstArr builds a constant array term.
func ConstArr(sort Sort, v Term) Term {
	return Term{"((as const " + string(sort) + ") " + v.S + ")", sort}
}

func Forall(vars []Term, body Term, patterns ...[]Term) Term {
	return quant("forall", vars, body, patterns)
}
func Exists(vars []Term, body Term, patterns ...[]Term) Term {
	return quant("exists", vars, body, patterns)
}

func quant(q string, vars []Term, body Term, patterns [][]Term) Term {
	if len(vars) == 0 {
		return body
	}
	var b strings.Builder
	b.WriteString("(" + q + " (")
	for _, v := range vars {
		fmt.Fprintf(&b, "(%s %s)", v.S, v.Sort)
	}
	b.WriteString(") ")
	// a trigger must be built from uninterpreted symbols only: drop triggers that mention a defined name
	// (define-fun macros expand to store/ite terms, which solvers reject or ignore in patterns)
	// Defined names inside a trigger are therefore abstracted: each is replaced (in the trigger only) by a fresh
	// constant asserted equal to it, so that E-matching modulo equalities still finds the instances.
	var usable [][]Term
	for _, p := range patterns {
		var np []Term
		for _, t := range p {
			text := nameRe.ReplaceAllStringFunc(t.S, func(name string) string {
				if _, isDef := currentDefs[name]; !isDef {
					return name
				}
				sort, known := currentDefSorts[name]
				if !known {
					return name
				}
				if c, ok := patConstOf[name]; ok {
					return c
				}
				c := fmt.Sprintf("|pat!%d|", len(patConstOf))
				patConstOf[name] = c
				pendingPatConsts = append(pendingPatConsts, fmt.Sprintf("(declare-fun %s () %s)\n(assert (= %s %s))", c, sort, c, name))
				return c
			})
			np = append(np, Term{text, t.Sort})
		}
		stillDefined := false
		for _, t := range np {
			for _, name := range nameRe.FindAllString(t.S, -1) {
				if _, isDef := currentDefs[name]; isDef {
					stillDefined = true
				}
			}
		}
		if !stillDefined {
			usable = append(usable, np)
		}
	}
	patterns = usable
	if len(patterns) > 0 {
		b.WriteString("(! ")
		b.WriteString(body.S)
		for _, p := range patterns {
			b.WriteString(" :pattern (")
			for i, t := range p {
				if i > 0 {
					b.WriteString(" ")
				}
				b.WriteString(t.S)
			}
			b.WriteString(")")
		}
		b.WriteString(")")
	} else {
		b.WriteString(body.S)
	}
	b.WriteString(")")
	return Term{b.String(), SBool}
}

// ZeroOf returns the zero term of a sort.
func ZeroOf(s Sort) Term {
	switch {
	case s == SInt:
		return Zero
	case s == SBool:
		return False
	case IsArr(s):
		return ConstArr(s, ZeroOf(ArrElem(s)))
	}
	panic("ZeroOf: unknown sort " + string(s))
}

var idRe = regexp.MustCompile(`\$(\d+)\|`)

// MaxID returns the largest generated-name id mentioned in the term (names are |hint$N|), or -1.
func MaxID(t Term) int {
	m := -1
	for _, sub := range idRe.FindAllStringSubmatch(t.S, -1) {
		if n, err := strconv.Atoi(sub[1]); err == nil && n > m {
			m = n
		}
	}
	return m
}

func quoteSym(s string) string {
	s = strings.ReplaceAll(s, "|", "!")
	s = strings.ReplaceAll(s, "\\", "!")
	return "|" + s + "|"
}

// ---------------------------------------------------------------------------------------------
// Script: the linear passive-form program. Obligations are discharged against a prefix of it.

type lineKind int

const (
	lkDecl lineKind = iota
	lkDefine
	lkAssume
)

type scriptLine struct {
	kind lineKind
	text string
}

type Script struct {
	lines  []scriptLine
	nextID int
	defs   map[string]string
}

// currentDefs is the definition table of the script being generated (generation is single threaded).
var currentDefs = map[string]string{}

// sorts of the defined names, the trigger constants introduced for them, and their not yet emitted declarations
var currentDefSorts = map[string]Sort{}
var patConstOf = map[string]string{}
var pendingPatConsts []string

// flushPatConsts emits the declarations of trigger constants created since the last call (called before any line
// that may mention them is appended, and before an obligation records its position in the script).
func (s *Script) flushPatConsts() {
	for _, d := range pendingPatConsts {
		s.lines = append(s.lines, scriptLine{lkDecl, d})
	}
	pendingPatConsts = nil
}

var nameRe = regexp.MustCompile(`\|[^|]*\|`)

func (s *Script) defText(name string) (string, bool) {
	t, ok := s.defs[name]
	return t, ok
}

func (s *Script) fresh(hint string) string {
	s.nextID++
	return quoteSym(fmt.Sprintf("%s$%d", hint, s.nextID))
}

// Declare introduces an unconstrained constant.
func (s *Script) Declare(hint string, sort Sort) Term {
	n := s.fresh(hint)
	s.lines = append(s.lines, scriptLine{lkDecl, fmt.Sprintf("(declare-fun %s () %s)", n, sort)})
	return Term{n, sort}
}

// DeclareFun introduces an uninterpreted function with a fixed (non-fresh) name.
func (s *Script) DeclareRaw(text string) {
	s.lines = append(s.lines, scriptLine{lkDecl, text})
}

// Define names a term.
func (s *Script) Define(hint string, t Term) Term {
	if len(t.S) < 24 && !strings.Contains(t.S, " ") {
		return t // atoms need no name
	}
	s.flushPatConsts()
	n := s.fresh(hint)
	s.lines = append(s.lines, scriptLine{lkDefine, fmt.Sprintf("(define-fun %s () %s %s)", n, t.Sort, t.S)})
	currentDefSorts[n] = t.Sort
	if s.defs == nil {
		s.defs = map[string]string{}
	}
	s.defs[n] = t.S
	currentDefs = s.defs
	return Term{n, t.Sort}
}

func (s *Script) Assume(t Term) {
	if t.S == "true" {
		return
	}
	s.flushPatConsts()
	s.lines = append(s.lines, scriptLine{lkAssume, "(assert " + t.S + ")"})
}

func (s *Script) Pos() int { return len(s.lines) }

// DropAssumesSince removes the assumptions recorded since pos (used to roll back dry runs); declarations
// and definitions stay because later text may mention them.
func (s *Script) DropAssumesSince(pos int) {
	out := s.lines[:pos]
	for _, l := range s.lines[pos:] {
		if l.kind != lkAssume {
			out = append(out, l)
		}
	}
	s.lines = out
}

func (s *Script) Prefix(pos int) string {
	var b strings.Builder
	for _, l := range s.lines[:pos] {
		b.WriteString(l.text)
		b.WriteString("\n")
	}
	return b.String()
}


// ExpandTo rewrites a term so that it only mentions names introduced up to checkpoint, by unfolding
// the definitions of later names. It fails if a later name is a declared (unconstrained) constant.
func (s *Script) ExpandTo(t Term, checkpoint int) (Term, bool) {
	ok := true
	var expand func(text string, depth int) string
	expand = func(text string, depth int) string {
		if depth > 50 {
			ok = false
			return text
		}
		return nameRe.ReplaceAllStringFunc(text, func(name string) string {
			m := idRe.FindStringSubmatch(name)
			if m == nil {
				return name
			}
			id, _ := strconv.Atoi(m[1])
			if id <= checkpoint {
				return name
			}
			def, has := s.defs[name]
			if !has {
				ok = false
				return name
			}
			return expand(def, depth+1)
		})
	}
	out := expand(t.S, 0)
	return Term{out, t.Sort}, ok
}


// DeclareEq introduces a constant constrained to equal t. Unlike Define the name is an uninterpreted
// symbol, so it may appear in quantifier triggers.
func (s *Script) DeclareEq(hint string, t Term) Term {
	if len(t.S) < 24 && !strings.Contains(t.S, " ") {
		return t
	}
	n := s.fresh(hint)
	s.lines = append(s.lines, scriptLine{lkDecl, fmt.Sprintf("(declare-fun %s () %s)\n(assert (= %s %s))", n, t.Sort, n, t.S)})
	return Term{n, t.Sort}
}
