package main

import (
	"fmt"
	"os"
	"path/filepath"
	"regexp"
	"sort"
	"strings"
)

// The grammar lemma of C09: a closed syntactic fact about cypher/grammar/Cypher.g4, checked mechanically on
// every run. With the guard rules removed from the rule graph, no parser rule reachable from oC_Cypher
// mentions a data-modifying keyword; every rule that mentions CALL contains a procedure-invocation rule
// outside any optional group; '$' occurs only in the two parameter rules. The guard rules are exactly the
// ones the default parse context filters on or the base visitor rejects as unsupported.

var (
	ruleHeadRe = regexp.MustCompile(`(?m)^(oC_[A-Za-z_0-9]+)\s*$`)
	identRe    = regexp.MustCompile(`[A-Za-z_][A-Za-z_0-9]*`)
)

type grammarResult struct {
	Rules      int
	Reachable  int
	Violations []string
}

// parseGrammar splits Cypher.g4 into rules "name : body ;".
func parseGrammar(repo string) (map[string]string, error) {
	data, err := os.ReadFile(filepath.Join(repo, "cypher", "grammar", "Cypher.g4"))
	if err != nil {
		return nil, err
	}
	text := string(data)
	// split into rules "name : body ;" (string literals may contain ';' only as ';' token: handled by quote scan)
	rules := map[string]string{}
	var name string
	var body strings.Builder
	inQuote := false
	started := false
	flush := func() {
		if name != "" {
			rules[name] = body.String()
		}
		name = ""
		body.Reset()
		started = false
	}
	lines := strings.Split(text, "\n")
	for _, ln := range lines {
		trim := strings.TrimSpace(ln)
		if !started && name == "" {
			if m := regexp.MustCompile(`^([A-Za-z_][A-Za-z_0-9]*)\s*(:.*)?$`).FindStringSubmatch(trim); m != nil && trim != "" && !strings.HasPrefix(trim, "//") && !strings.HasPrefix(trim, "grammar") && !strings.HasPrefix(trim, "fragment") {
				name = m[1]
				trim = strings.TrimSpace(m[2])
			} else if strings.HasPrefix(trim, "fragment") {
				parts := strings.Fields(trim)
				if len(parts) >= 2 {
					name = parts[1]
					if i := strings.Index(trim, ":"); i >= 0 {
						trim = trim[i:]
					} else {
						trim = ""
					}
				}
			} else {
				continue
			}
		}
		for i := 0; i < len(trim); i++ {
			c := trim[i]
			if c == '\'' && (i == 0 || trim[i-1] != '\\') {
				inQuote = !inQuote
			}
			if !started {
				if c == ':' && !inQuote {
					started = true
				}
				continue
			}
			if c == ';' && !inQuote {
				flush()
				break
			}
			body.WriteByte(c)
		}
		if started {
			body.WriteByte(' ')
		}
	}
	return rules, nil
}

func stripLits(s string) string { return regexp.MustCompile(`'(\\.|[^'])*'`).ReplaceAllString(s, " ") }

func grammarRefs(b string) []string {
	var out []string
	for _, id := range identRe.FindAllString(stripLits(b), -1) {
		out = append(out, id)
	}
	return out
}

func checkGrammarLemma(repo string) grammarResult {
	var res grammarResult
	rules, err := parseGrammar(repo)
	if err != nil {
		res.Violations = append(res.Violations, "cannot read grammar: "+err.Error())
		return res
	}
	res.Rules = len(rules)
	refs := grammarRefs
	guards := map[string]bool{"oC_UpdatingClause": true, "oC_Command": true, "oC_BulkImportQuery": true}
	modifying := map[string]bool{"CREATE": true, "MERGE": true, "SET": true, "DELETE": true, "DETACH": true, "REMOVE": true, "DROP": true, "FOREACH": true}
	if _, ok := rules["oC_Cypher"]; !ok {
		res.Violations = append(res.Violations, "rule oC_Cypher not found")
		return res
	}
	seen := map[string]bool{}
	var visit func(r string)
	visit = func(r string) {
		if seen[r] || guards[r] {
			return
		}
		seen[r] = true
		for _, id := range refs(rules[r]) {
			if strings.HasPrefix(id, "oC_") {
				if _, ok := rules[id]; ok {
					visit(id)
				}
			}
		}
	}
	visit("oC_Cypher")
	res.Reachable = len(seen)
	var names []string
	for r := range seen {
		names = append(names, r)
	}
	sort.Strings(names)
	pureAlternation := regexp.MustCompile(`^(\s*[A-Za-z_0-9]+\s*\|)*\s*[A-Za-z_0-9]+\s*$`)
	for _, r := range names {
		if pureAlternation.MatchString(stripLits(rules[r])) {
			continue // a keyword used as a name (oC_ReservedWord, oC_SymbolicName): one token per alternative, no clause structure
		}
		for _, id := range refs(rules[r]) {
			if modifying[id] {
				res.Violations = append(res.Violations, fmt.Sprintf("rule %s mentions %s and is reachable from oC_Cypher without passing oC_UpdatingClause / oC_Command / oC_BulkImportQuery", r, id))
			}
		}
	}
	// CALL only together with a mandatory procedure-invocation rule
	for r, b := range rules {
		if !strings.HasPrefix(r, "oC_") {
			continue
		}
		mentions := false
		for _, id := range refs(b) {
			if id == "CALL" {
				mentions = true
			}
		}
		if !mentions {
			continue
		}
		// remove optional groups "( ... )?" and "( ... )*" then look for an invocation rule
		mandatory := stripLits(b)
		for {
			next := regexp.MustCompile(`\([^()]*\)\s*[?*]`).ReplaceAllString(mandatory, " ")
			if next == mandatory {
				break
			}
			mandatory = next
		}
		if !strings.Contains(mandatory, "oC_ExplicitProcedureInvocation") && !strings.Contains(mandatory, "oC_ImplicitProcedureInvocation") {
			res.Violations = append(res.Violations, fmt.Sprintf("rule %s mentions CALL without a mandatory procedure-invocation rule", r))
		}
	}
	// '$' only in the parameter rules
	for r, b := range rules {
		if strings.Contains(b, "'$'") && r != "oC_Parameter" && r != "oC_LegacyParameter" {
			res.Violations = append(res.Violations, fmt.Sprintf("rule %s mentions '$' outside the parameter rules", r))
		}
	}
	sort.Strings(res.Violations)
	return res
}
