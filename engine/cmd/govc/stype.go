package main

import (
	"fmt"
	"go/types"
	"strings"
)

// Kind classifies the logical representation of a Go (or spec-only) type.
type Kind int

const (
	KUnknown Kind = iota
	KInt          // all integer types, floats (opaque), type parameters, strings (opaque ids)
	KBool
	KStr
	KRef    // pointer to a named struct type (Elem = the struct)
	KPtr    // pointer to anything else (Elem = pointee)
	KStruct // struct value
	KMap
	KSlice
	KSet // spec only
	KSeq // spec only
	KIface
	KTParam
	KTuple
	KFunc
	KChan
	KArray
	KUnit // struct{}
)

type SType struct {
	K        Kind
	Go       types.Type // may be nil for spec-only types
	Elem     *SType
	Key      *SType
	Fields   []SType // tuple
	Unsigned bool
	Name     string // canonical name for named types ("pkgpath.Name")
}

func (t SType) String() string {
	switch t.K {
	case KSet:
		return "set[" + t.Elem.String() + "]"
	case KSeq:
		return "seq[" + t.Elem.String() + "]"
	case KTuple:
		var parts []string
		for _, f := range t.Fields {
			parts = append(parts, f.String())
		}
		return "(" + strings.Join(parts, ", ") + ")"
	}
	if t.K == KTParam && t.Name != "" {
		return t.Name
	}
	if t.Go != nil {
		return typeKey(t.Go)
	}
	if t.K == KRef || t.K == KPtr {
		return "*" + t.Elem.String()
	}
	return fmt.Sprintf("kind%d", t.K)
}

// typeKey gives a canonical, instantiation-independent string for a Go type: named types are
// printed as pkgpath.Name without type arguments, type parameters by name.
func typeKey(t types.Type) string {
	switch t := types.Unalias(t).(type) {
	case *types.Named:
		obj := t.Obj()
		if obj.Pkg() == nil {
			return obj.Name()
		}
		return obj.Pkg().Path() + "." + obj.Name()
	case *types.Pointer:
		return "*" + typeKey(t.Elem())
	case *types.Slice:
		return "[]" + typeKey(t.Elem())
	case *types.Array:
		return fmt.Sprintf("[%d]%s", t.Len(), typeKey(t.Elem()))
	case *types.Map:
		return "map[" + typeKey(t.Key()) + "]" + typeKey(t.Elem())
	case *types.Chan:
		return "chan " + typeKey(t.Elem())
	case *types.TypeParam:
		return t.Obj().Name()
	case *types.Basic:
		return t.Name()
	case *types.Interface:
		if t.Empty() {
			return "any"
		}
		return "interface{" + fmt.Sprint(t.NumMethods()) + "}"
	case *types.Struct:
		if t.NumFields() == 0 {
			return "struct{}"
		}
		var parts []string
		for i := 0; i < t.NumFields(); i++ {
			parts = append(parts, t.Field(i).Name()+" "+typeKey(t.Field(i).Type()))
		}
		return "struct{" + strings.Join(parts, ";") + "}"
	case *types.Tuple:
		var parts []string
		for i := 0; i < t.Len(); i++ {
			parts = append(parts, typeKey(t.At(i).Type()))
		}
		return "(" + strings.Join(parts, ",") + ")"
	case *types.Signature:
		return "func"
	}
	return t.String()
}

func structOf(t types.Type) (*types.Struct, bool) {
	s, ok := types.Unalias(t).Underlying().(*types.Struct)
	return s, ok
}

// FromGo converts a Go type to its logical representation.
func FromGo(t types.Type) SType {
	t = types.Unalias(t)
	switch u := t.(type) {
	case *types.TypeParam:
		return SType{K: KTParam, Go: t, Name: u.Obj().Name()}
	case *types.Tuple:
		st := SType{K: KTuple, Go: t}
		for i := 0; i < u.Len(); i++ {
			st.Fields = append(st.Fields, FromGo(u.At(i).Type()))
		}
		return st
	}
	name := ""
	if n, ok := t.(*types.Named); ok {
		name = typeKey(n)
	}
	switch u := t.Underlying().(type) {
	case *types.Basic:
		info := u.Info()
		switch {
		case info&types.IsBoolean != 0:
			return SType{K: KBool, Go: t, Name: name}
		case info&types.IsString != 0:
			return SType{K: KStr, Go: t, Name: name}
		case info&types.IsInteger != 0:
			return SType{K: KInt, Go: t, Unsigned: info&types.IsUnsigned != 0, Name: name}
		case u.Kind() == types.UnsafePointer:
			return SType{K: KInt, Go: t, Name: name}
		case u.Kind() == types.UntypedNil:
			return SType{K: KInt, Go: t, Name: name}
		default: // floats, complex: opaque
			return SType{K: KInt, Go: t, Name: name}
		}
	case *types.Pointer:
		el := FromGo(u.Elem())
		if el.K == KStruct || el.K == KUnit {
			return SType{K: KRef, Go: t, Elem: &el, Name: name}
		}
		return SType{K: KPtr, Go: t, Elem: &el, Name: name}
	case *types.Struct:
		if u.NumFields() == 0 {
			return SType{K: KUnit, Go: t, Name: name}
		}
		return SType{K: KStruct, Go: t, Name: name}
	case *types.Map:
		k, v := FromGo(u.Key()), FromGo(u.Elem())
		return SType{K: KMap, Go: t, Key: &k, Elem: &v, Name: name}
	case *types.Slice:
		el := FromGo(u.Elem())
		return SType{K: KSlice, Go: t, Elem: &el, Name: name}
	case *types.Array:
		if u.Len() == 0 {
			return SType{K: KUnit, Go: t, Name: name} // [0]T carries no data (no-copy / no-compare markers)
		}
		el := FromGo(u.Elem())
		return SType{K: KArray, Go: t, Elem: &el, Name: name}
	case *types.Interface:
		return SType{K: KIface, Go: t, Name: name}
	case *types.Signature:
		return SType{K: KFunc, Go: t, Name: name}
	case *types.Chan:
		el := FromGo(u.Elem())
		return SType{K: KChan, Go: t, Elem: &el, Name: name}
	}
	return SType{K: KUnknown, Go: t, Name: name}
}

// SortOf gives the SMT sort of single-term kinds.
func (t SType) SortOf() Sort {
	switch t.K {
	case KBool:
		return SBool
	case KSet:
		return ArrSort(SInt, SBool)
	case KSeq:
		return ArrSort(SInt, t.Elem.SortOf())
	case KStruct, KSlice, KTuple:
		panic("SortOf composite type " + t.String())
	}
	return SInt
}

// single reports whether values of the type are a single SMT term.
func (t SType) single() bool {
	switch t.K {
	case KStruct, KSlice, KTuple, KArray:
		return false
	}
	return true
}

var (
	tInt  = SType{K: KInt, Go: types.Typ[types.Int]}
	tBool = SType{K: KBool, Go: types.Typ[types.Bool]}
)

func setOf(el SType) SType { return SType{K: KSet, Elem: &el} }
func seqOf(el SType) SType { return SType{K: KSeq, Elem: &el} }

// ---------------------------------------------------------------------------------------------
// Values

type Value interface{}

// Loc is a heap location: a component (flattened field path) and the index terms selecting the cell.
type Loc struct {
	Prefix string
	Idx    []Term
}

// PtrVal is a pointer. A "simple" pointer (to a named struct or a scalar cell) is Idx=[ref] with
// the canonical prefix of its pointee type and can be converted to an Int term.
type PtrVal struct {
	Loc  Loc
	Elem SType
}

type StructVal struct {
	T SType
	F map[string]Value
}

type SliceVal struct {
	Arr, Off, Len, Cap Term
	Elem               SType
}

type TupleVal []Value

type UnitVal struct{}

// SetVal is a spec-level set given by its membership predicate (and optionally an array term).
type SetVal struct {
	Mem  func(x Term) Term
	Arr  *Term
	Elem SType
}

// MapView is a spec-level finite map given by domain and value functions.
type MapView struct {
	Dom func(k Term) Term
	Val func(k Term) Term
	Key SType
	El  SType
}

func canonicalPrefix(elem SType) string {
	switch elem.K {
	case KStruct, KUnit:
		return typeKey(elem.Go)
	}
	return "cell:" + elem.String()
}
