package main

import (
	"fmt"
	"go/types"
	"os"
	"path/filepath"
	"sort"
	"strings"

	"golang.org/x/tools/go/ssa"
)

// Contracts derived from the type definitions (C11). For every method `func (s *T) copy() *T` of a model
// struct T in package cypher a one-level deep-copy contract is generated from go/types on every run:
//
//   * the result is a freshly allocated T,
//   * every scalar / opaque field equals the original's,
//   * every child field (pointer to a model struct, model interface, map) is a copy of the original's
//     child: iscopy(result.f, s.f), and is not the same object,
//   * every slice field has a fresh backing array of the same length whose elements are copies (or equal,
//     for scalar elements) of the original's.
//
// iscopy is the uninterpreted "is a deep copy of" relation produced by the generic Copy function (its
// built-in specification, see copyBuiltin); because each copy() method is checked against the same
// one-level shape, structural equality and freshness at every depth follow by induction on the model.
// A field added to a struct without a line in copy() leaves the field zero and fails the field's
// clause; a shallow alias fails the "not the same object / fresh backing array" conjunct.

const cypherModelPkg = repoModule + "/cypher/models/cypher"

type derivedInfo struct {
	Text      string
	Functions []string
	Skipped   []string
}

func isModelChild(t types.Type) bool {
	switch u := types.Unalias(t).Underlying().(type) {
	case *types.Pointer:
		if n, ok := types.Unalias(u.Elem()).(*types.Named); ok && n.Obj().Pkg() != nil && n.Obj().Pkg().Path() == cypherModelPkg {
			return true
		}
		return false
	case *types.Interface:
		if n, ok := types.Unalias(t).(*types.Named); ok && n.Obj().Pkg() != nil && n.Obj().Pkg().Path() == cypherModelPkg {
			return true
		}
		return false
	case *types.Map:
		return true
	}
	return false
}

// deriveCopyContracts generates GoCL text for the copy() methods of the cypher model package.
func deriveCopyContracts(w *World) (*derivedInfo, error) {
	pkg := w.typesPkgs[cypherModelPkg]
	if pkg == nil {
		return nil, fmt.Errorf("package %s not loaded", cypherModelPkg)
	}
	info := &derivedInfo{}
	var b strings.Builder
	b.WriteString("// generated from go/types on every run; do not edit\n")
	names := pkg.Scope().Names()
	sort.Strings(names)
	for _, name := range names {
		tn, ok := pkg.Scope().Lookup(name).(*types.TypeName)
		if !ok {
			continue
		}
		named, ok := tn.Type().(*types.Named)
		if !ok {
			continue
		}
		var copyFn *types.Func
		for i := 0; i < named.NumMethods(); i++ {
			if named.Method(i).Name() == "copy" {
				copyFn = named.Method(i)
			}
		}
		if copyFn == nil {
			continue
		}
		key := cypherModelPkg + "." + name + ".copy"
		sig := copyFn.Type().(*types.Signature)
		st, isStruct := named.Underlying().(*types.Struct)
		_, ptrRecv := sig.Recv().Type().(*types.Pointer)
		resPtr := false
		if sig.Results().Len() == 1 {
			if p, ok := sig.Results().At(0).Type().(*types.Pointer); ok && types.Identical(p.Elem(), named) {
				resPtr = true
			}
		}
		if !isStruct || !ptrRecv || !resPtr {
			info.Skipped = append(info.Skipped, key+" (receiver/result is not a pointer to a struct; covered by the bounded stand-in)")
			continue
		}
		fmt.Fprintf(&b, "//@ func (s *%s) copy() *%s\n", name, name)
		b.WriteString("//@   requires s != nil\n//@   nomod\n")
		b.WriteString("//@   ensures fresh: result != nil && fresh(result)\n")
		var emit func(prefixR, prefixS string, s *types.Struct, label string)
		emit = func(prefixR, prefixS string, s *types.Struct, label string) {
			for i := 0; i < s.NumFields(); i++ {
				f := s.Field(i)
				r, o := prefixR+"."+f.Name(), prefixS+"."+f.Name()
				lbl := label + f.Name()
				ft := f.Type()
				switch u := types.Unalias(ft).Underlying().(type) {
				case *types.Struct:
					emit(r, o, u, lbl+"_")
				case *types.Slice:
					elemChild := isModelChild(u.Elem())
					rel := fmt.Sprintf("%s[i] == %s[i]", r, o)
					if elemChild {
						rel = fmt.Sprintf("iscopy(%s[i], %s[i]) && (%s[i] != nil ==> %s[i] != %s[i])", r, o, o, r, o)
					}
					fmt.Fprintf(&b, "//@   ensures %s: len(%s) == len(%s) && (len(%s) > 0 ==> %s.arr != nil && %s.arr != %s.arr && fresh(%s.arr)) && (forall i int :: 0 <= i && i < len(%s) ==> %s)\n",
						lbl, r, o, o, r, r, o, r, o, rel)
				case *types.Pointer:
					if isModelChild(ft) {
						fmt.Fprintf(&b, "//@   ensures %s: iscopy(%s, %s) && (%s != nil ==> %s != %s && fresh(%s))\n", lbl, r, o, o, r, o, r)
					} else {
						// pointer to a scalar (e.g. *int64): a fresh cell with the same content
						fmt.Fprintf(&b, "//@   ensures %s: (%s == nil ==> %s == nil) && (%s != nil ==> %s != nil && %s != %s && fresh(%s) && deref(%s) == deref(%s))\n", lbl, o, r, o, r, r, o, r, r, o)
					}
				case *types.Interface:
					if isModelChild(ft) {
						fmt.Fprintf(&b, "//@   ensures %s: iscopy(%s, %s) && (%s != nil ==> %s != %s)\n", lbl, r, o, o, r, o)
					} else {
						fmt.Fprintf(&b, "//@   ensures %s: %s == %s\n", lbl, r, o) // opaque payloads (any, graph.Kind) are shared
					}
				case *types.Map:
					fmt.Fprintf(&b, "//@   ensures %s: iscopy(%s, %s) && (%s != nil ==> %s != %s)\n", lbl, r, o, o, r, o)
				default:
					fmt.Fprintf(&b, "//@   ensures %s: %s == %s\n", lbl, r, o)
				}
			}
		}
		emit("result", "s", st, "")
		b.WriteString("\n")
		info.Functions = append(info.Functions, key)
	}
	info.Text = b.String()
	return info, nil
}

// copyArmObligations: Copy must have a type-switch arm for every type that has a copy() method, and for
// every slice type of such types that occurs as a field in the model (derived, structural).
func copyArmObligations(w *World) (missing []string, arms int) {
	fn := w.funcs[cypherModelPkg+".Copy"]
	pkg := w.typesPkgs[cypherModelPkg]
	if fn == nil || pkg == nil {
		return []string{"Copy not found"}, 0
	}
	have := map[string]bool{}
	for _, blk := range fn.Blocks {
		for _, in := range blk.Instrs {
			if ta, ok := in.(*ssa.TypeAssert); ok && ta.CommaOk {
				have[typeKey(ta.AssertedType)] = true
			}
		}
	}
	arms = len(have)
	need := map[string]bool{}
	names := pkg.Scope().Names()
	for _, name := range names {
		tn, ok := pkg.Scope().Lookup(name).(*types.TypeName)
		if !ok {
			continue
		}
		named, ok := tn.Type().(*types.Named)
		if !ok {
			continue
		}
		hasCopy := false
		ptr := false
		for i := 0; i < named.NumMethods(); i++ {
			if named.Method(i).Name() == "copy" {
				hasCopy = true
				_, ptr = named.Method(i).Type().(*types.Signature).Recv().Type().(*types.Pointer)
			}
		}
		if !hasCopy {
			continue
		}
		if ptr {
			if _, isStruct := named.Underlying().(*types.Struct); isStruct && name == "expressionList" {
				need[typeKey(named)] = true // handled by value in Copy
			} else {
				need["*"+typeKey(named)] = true
			}
		} else {
			need[typeKey(named)] = true
		}
		// field types that are slices / pointers of model types must be copyable too
		if st, ok := named.Underlying().(*types.Struct); ok {
			for i := 0; i < st.NumFields(); i++ {
				ft := st.Field(i).Type()
				if sl, ok := types.Unalias(ft).Underlying().(*types.Slice); ok && isModelChild(sl.Elem()) {
					need[typeKey(ft)] = true
				}
			}
		}
	}
	for k := range need {
		if !have[k] {
			missing = append(missing, k)
		}
	}
	sort.Strings(missing)
	return missing, arms
}

func writeDerived(id string, info *derivedInfo) string {
	dir := filepath.Join(verifDir, "work", id)
	os.MkdirAll(dir, 0o755)
	p := filepath.Join(dir, "derived_contracts.gocl")
	os.WriteFile(p, []byte(info.Text), 0o644)
	return p
}


// unsupportedRules are the grammar rules the query model cannot represent; BaseVisitor reports each with an
// error (C07 kernel contracts). A visitor type that overrides one of these Enter methods would silently
// accept the construct for the part of the tree it handles, so no other type in package frontend may declare
// them (derived, structural obligation over the method sets of the package).
var unsupportedRules = []string{"Profile", "BulkImportQuery", "PeriodicCommitHint", "Union", "Command", "Foreach", "Start", "CaseExpression", "LegacyListExpression", "Reduce", "ExistentialSubquery", "LegacyParameter", "Explain", "LoadCSV", "InQueryCall", "StandaloneCall", "ListOperatorExpression", "ListComprehension", "PatternComprehension", "CreateUnique", "Hint", "CypherOption"}

func unsupportedOverrides(w *World) (overrides []string, checked int) {
	pkg := w.typesPkgs[repoModule+"/cypher/frontend"]
	if pkg == nil {
		return []string{"package cypher/frontend not loaded"}, 0
	}
	want := map[string]bool{}
	for _, r := range unsupportedRules {
		want["EnterOC_"+r] = true
	}
	for _, name := range pkg.Scope().Names() {
		tn, ok := pkg.Scope().Lookup(name).(*types.TypeName)
		if !ok {
			continue
		}
		named, ok := tn.Type().(*types.Named)
		if !ok {
			continue
		}
		for i := 0; i < named.NumMethods(); i++ {
			m := named.Method(i)
			if want[m.Name()] {
				checked++
				if name != "BaseVisitor" {
					overrides = append(overrides, name+"."+m.Name())
				}
			}
		}
	}
	// every rule must still be declared on BaseVisitor
	for _, r := range unsupportedRules {
		if _, ok := w.funcs[repoModule+"/cypher/frontend.BaseVisitor.EnterOC_"+r]; !ok {
			overrides = append(overrides, "BaseVisitor.EnterOC_"+r+" is missing")
		}
	}
	sort.Strings(overrides)
	return overrides, checked
}

// Rule coverage (C07, derived structural obligation). Every parser rule of the grammar must be accounted for:
//   handled     - some visitor type other than BaseVisitor declares EnterOC_R or ExitOC_R (its content goes into
//                 the model; whether it goes there correctly is what the bounded emit/parse stand-in checks),
//   reported    - R is on the unsupported list, whose Enter methods are proved to append an error,
//   dominated   - every derivation of R from oC_Cypher passes through a reported rule (computed on the grammar),
//   transparent - R is on the reviewed list below: it has no tokens of its own that carry meaning (pure structure:
//                 its content is entirely in child rules or is read by the parent's visitor through the rule
//                 context), or it is a planner hint / query option, which openCypher defines to have no effect
//                 on results.
// A rule that is none of these is skipped silently by BaseVisitor's empty methods while its children are still
// visited - the defect class of 'RETURN n.list[1..2]' being modelled as 'RETURN 2'. The obligation fails for a
// grammar rule added without a visitor, a visitor method that is removed, or an error method that is emptied.
var transparentRules = map[string]string{
	"Cypher": "start rule", "Statement": "pure alternation", "Query": "pure alternation",
	"QueryOptions": "pure structure (a possibly empty list of options)", "AnyCypherOption": "pure alternation",
	"SortItem": "read by the order visitor through the rule context (ASC/DESC tokens)",
	"AnonymousPatternPart": "pure structure", "PatternElement": "pure structure", "PatternElementChain": "pure structure",
	"RelationshipsPattern": "pure structure (pattern predicate)", "RelationshipDetail": "read by the relationship pattern visitor", "RelationshipTypes": "pure structure", "RelType": "read by the parent", "Dash": "punctuation",
	"FunctionName": "read by the function invocation visitor", "NumberLiteral": "pure alternation",
	"YieldItems": "children of procedure calls", "YieldItem": "children of procedure calls", "ProcedureResultField": "children of procedure calls", "ProcedureName": "children of procedure calls",
}

func ruleCoverage(w *World, repo string) (uncovered []string, summary string) {
	rules, err := parseGrammar(repo)
	if err != nil {
		return []string{"cannot read grammar: " + err.Error()}, ""
	}
	pkg := w.typesPkgs[repoModule+"/cypher/frontend"]
	if pkg == nil {
		return []string{"package cypher/frontend not loaded"}, ""
	}
	handled := map[string]bool{}
	for _, name := range pkg.Scope().Names() {
		tn, ok := pkg.Scope().Lookup(name).(*types.TypeName)
		if !ok || name == "BaseVisitor" {
			continue
		}
		named, ok := tn.Type().(*types.Named)
		if !ok {
			continue
		}
		for i := 0; i < named.NumMethods(); i++ {
			m := named.Method(i).Name()
			if strings.HasPrefix(m, "EnterOC_") {
				handled[m[len("EnterOC_"):]] = true
			} else if strings.HasPrefix(m, "ExitOC_") {
				handled[m[len("ExitOC_"):]] = true
			}
		}
	}
	reported := map[string]bool{}
	for _, r := range unsupportedRules {
		reported[r] = true
	}
	// reachability from oC_Cypher with the reported rules cut out
	seen := map[string]bool{}
	var visit func(r string)
	visit = func(r string) {
		if seen[r] || reported[strings.TrimPrefix(r, "oC_")] {
			return
		}
		seen[r] = true
		for _, id := range grammarRefs(rules[r]) {
			if strings.HasPrefix(id, "oC_") {
				if _, ok := rules[id]; ok {
					visit(id)
				}
			}
		}
	}
	visit("oC_Cypher")
	nH, nR, nD, nT, total := 0, 0, 0, 0, 0
	for _, r := range sortedKeys(rules) {
		if !strings.HasPrefix(r, "oC_") {
			continue
		}
		total++
		short := strings.TrimPrefix(r, "oC_")
		switch {
		case reported[short]:
			nR++
		case handled[short]:
			nH++
		case !seen[r]:
			nD++
		case transparentRules[short] != "":
			nT++
		default:
			uncovered = append(uncovered, short)
		}
	}
	return uncovered, fmt.Sprintf("%d parser rules: %d handled by a visitor, %d reported as unsupported, %d only derivable below a reported rule, %d on the reviewed transparent list", total, nH, nR, nD, nT)
}
