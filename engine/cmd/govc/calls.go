package main

import (
	"fmt"
	"go/types"
	"os"
	"strconv"
	"strings"

	"golang.org/x/tools/go/ssa"
)

const maxInlineDepth = 8

// setViewComp is the single ghost component holding the abstract view of every set-like object
// (roaring bitmaps and, through cellof, every Duplex implementation).
const setViewComp = "ghost:set.V"

func (vc *VC) call(fr *frame, st *State, site ssa.Instruction, c *ssa.CallCommon) Value {
	var args []Value
	for _, a := range c.Args {
		args = append(args, vc.valueOf(fr, a))
	}
	resT := FromGo(c.Signature().Results())
	mkResult := func(vals []Value) Value {
		switch c.Signature().Results().Len() {
		case 0:
			return nil
		case 1:
			return vals[0]
		}
		return TupleVal(vals)
	}
	vc.panicSafeCheck(fr, st, site, c)
	if c.IsInvoke() {
		recv := vc.valueOf(fr, c.Value)
		it := c.Value.Type()
		key := typeKey(it) + "." + c.Method.Name()
		if n, ok := types.Unalias(it).(*types.Named); ok {
			key = typeKey(n) + "." + c.Method.Name()
		}
		all := append([]Value{recv}, args...)
		if fc, ok := vc.w.contracts[key]; ok {
			ptypes := []SType{FromGo(it)}
			sig := c.Signature()
			for i := 0; i < sig.Params().Len(); i++ {
				ptypes = append(ptypes, FromGo(sig.Params().At(i).Type()))
			}
			vc.oblige(st, "safe", "safe.nil@"+vc.posHint(fr, site), vc.posString(site.Pos()), Ne(vc.toTerm(recv), Zero))
			vc.callsViaCheck(fr, st, site, vc.toTerm(recv))
			return mkResult(vc.contractCall(fr, st, site, fc, nil, all, ptypes, resT))
		}
		if vc.isHeapPure(key) {
			vc.note("heap-pure external: " + key)
			return mkResult(vc.freshResults(st, site, resT))
		}
		return mkResult(vc.unknownCall(fr, st, site, key, resT))
	}
	switch callee := c.Value.(type) {
	case *ssa.Builtin:
		return vc.builtin(fr, st, site, callee, c, args)
	case *ssa.Function:
		return mkResult(vc.staticCall(fr, st, site, callee, args, resT))
	case *ssa.MakeClosure:
		cv := vc.valueOf(fr, callee).(*ClosureVal)
		return mkResult(vc.inlineCall(fr, st, site, cv.fn, append(args, cv.bindings...), resT))
	}
	if cv, ok := vc.valueOf(fr, c.Value).(*ClosureVal); ok && cv.fn.Blocks != nil {
		return mkResult(vc.inlineCall(fr, st, site, cv.fn, append(args, cv.bindings...), resT))
	}
	if p, isParam := c.Value.(*ssa.Parameter); isParam && fr.top && vc.contract != nil && vc.contract.FParams != nil {
		if fpc, ok := vc.contract.FParams[p.Name()]; ok {
			var ptypes []SType
			sig := c.Signature()
			for i := 0; i < sig.Params().Len(); i++ {
				ptypes = append(ptypes, FromGo(sig.Params().At(i).Type()))
			}
			return mkResult(vc.contractCall(fr, st, site, fpc, nil, args, ptypes, resT))
		}
	}
	if ld, isLoad := c.Value.(*ssa.UnOp); isLoad && fr.top && vc.contract != nil && vc.contract.FParams != nil {
		// a function value read from a captured variable of the closure under verification: its contract is given
		// as an fparam of that name (and the function stored there is verified against the same clauses separately)
		if fv, isFree := ld.X.(*ssa.FreeVar); isFree {
			if fpc, ok := vc.contract.FParams[fv.Name()]; ok {
				var ptypes []SType
				sig := c.Signature()
				for i := 0; i < sig.Params().Len(); i++ {
					ptypes = append(ptypes, FromGo(sig.Params().At(i).Type()))
				}
				return mkResult(vc.contractCall(fr, st, site, fpc, nil, args, ptypes, resT))
			}
		}
	}
	if vc.contract != nil && vc.contract.Iterates != nil && c.Signature().Results().Len() == 1 {
		// the only opaque function value a forwarder can call is its delegate
		return vc.delegateCall(fr, st, site, args)
	}
	return mkResult(vc.unknownCall(fr, st, site, "func value", resT))
}

func (vc *VC) staticCall(fr *frame, st *State, site ssa.Instruction, callee *ssa.Function, args []Value, resT SType) []Value {
	key := funcKey(callee)
	if key == cypherModelPkg+".Copy" && vc.w.copyBuiltin && vc.topKey != key {
		return []Value{vc.copyBuiltin(fr, st, site, args[0], FromGo(callee.Params[0].Type()))}
	}
	body := callee
	if o := callee.Origin(); o != nil {
		body = o
	}
	if fc, ok := vc.w.contracts[key]; ok && !fc.Inline {
		var ptypes []SType
		for _, p := range callee.Params {
			ptypes = append(ptypes, FromGo(p.Type()))
		}
		if callee.Signature.Recv() != nil && len(callee.Params) > 0 {
			vc.nilRecvCheck(fr, st, site, callee, args)
		}
		if fc.Extern || fc.Opaque {
			body = nil // trusted spec: the real body of an external is never looked at
		}
		return vc.contractCall(fr, st, site, fc, body, args, ptypes, resT)
	}
	if vc.isHeapPure(key) {
		vc.note("heap-pure external: " + key)
		return vc.freshResults(st, site, resT)
	}
	if body.Blocks != nil && inRepo(body) && !noInline(body) {
		return vc.inlineCall(fr, st, site, body, args, resT)
	}
	return vc.unknownCall(fr, st, site, key, resT)
}

func (vc *VC) nilRecvCheck(fr *frame, st *State, site ssa.Instruction, callee *ssa.Function, args []Value) {
	if p, ok := args[0].(PtrVal); ok && len(p.Loc.Idx) == 1 && p.Loc.Prefix == canonicalPrefix(p.Elem) {
		if fc := vc.w.contracts[funcKey(callee)]; fc != nil && fc.Extern {
			vc.oblige(st, "safe", "safe.nil@"+vc.posHint(fr, site), vc.posString(site.Pos()), Ne(p.Loc.Idx[0], Zero))
		}
	}
}

func (vc *VC) isHeapPure(key string) bool {
	for _, p := range vc.w.heapPure {
		if p == key {
			return true
		}
		if strings.HasSuffix(p, "*") && strings.HasPrefix(key, strings.TrimSuffix(p, "*")) {
			return true
		}
	}
	return false
}

func (vc *VC) freshResults(st *State, site ssa.Instruction, resT SType) []Value {
	var out []Value
	name := "call"
	if v, ok := site.(ssa.Value); ok {
		name = v.Name()
	}
	for i, f := range resT.Fields {
		v := vc.freshValue(fmt.Sprintf("%s.r%d", name, i), f)
		out = append(out, v)
	}
	return out
}

func (vc *VC) inlineCall(fr *frame, st *State, site ssa.Instruction, callee *ssa.Function, args []Value, resT SType) []Value {
	for _, f := range vc.stack {
		if f == callee {
			vc.fail("recursive call to %s without a contract", callee.Name())
		}
	}
	if fr.depth >= maxInlineDepth {
		vc.fail("inlining depth exceeded at %s", callee.Name())
	}
	hint := callee.Name()
	if fr.hint != "" {
		hint = fr.hint + ">" + callee.Name()
	}
	vals, out := vc.exec(callee, args, st, fr.depth+1, hint, false)
	if out == nil {
		// callee never returns on this path
		st.pc = False
		return vc.freshResults(st, site, resT)
	}
	st.pc, st.heap = out.pc, out.heap
	return vals
}

// unknownCall: nothing is known about the callee; every real heap component is forgotten.
func (vc *VC) unknownCall(fr *frame, st *State, site ssa.Instruction, what string, resT SType) []Value {
	vc.note("unspecified callee treated as havoc of the whole heap: " + what)
	vc.havocAll(st)
	res := vc.freshResults(st, site, resT)
	for i, f := range resT.Fields {
		vc.assumeAllocated(st, res[i], f)
	}
	return res
}

func (vc *VC) havocAll(st *State) {
	oldAlloc := vc.allocOf(st.heap)
	na := vc.script.Declare("$alloc@havoc", ArrSort(SInt, SBool))
	r := Term{"r!", SInt}
	vc.script.Assume(And(Not(Select(na, Zero)), Forall([]Term{r}, Implies(Select(oldAlloc, r), Select(na, r)), []Term{Select(oldAlloc, r)})))
	nb := vc.newBase(na)
	nh := &Heap{base: nb, c: map[string]Term{allocComp: na}}
	for _, name := range sortedKeys(vc.comps) {
		info := vc.comps[name]
		if info.Ghost && strings.HasPrefix(name, "ghost:") {
			nh.c[name] = vc.hget(st.heap, name)
		}
	}
	st.heap = nh
	if vc.writes != nil {
		vc.writes["*"] = &writeSet{whole: true}
	}
	vc.assumeStateAxioms(st)
}

// --- builtins -----------------------------------------------------------------------------------

func (vc *VC) builtin(fr *frame, st *State, site ssa.Instruction, b *ssa.Builtin, c *ssa.CallCommon, args []Value) Value {
	switch b.Name() {
	case "len":
		switch x := args[0].(type) {
		case SliceVal:
			return x.Len
		case Term:
			t := FromGo(c.Args[0].Type())
			switch t.K {
			case KMap:
				vc.guardCheckComp(fr, st, "mapdom:"+mapKey(t), x, false, site)
				return Select(vc.mapComp(st.heap, t, "maplen"), x)
			case KStr:
				return vc.strLen(x)
			}
		}
		vc.fail("len of %T", args[0])
	case "cap":
		if x, ok := args[0].(SliceVal); ok {
			return x.Cap
		}
		vc.fail("cap of %T", args[0])
	case "delete":
		mt := FromGo(c.Args[0].Type())
		vc.mapDelete(fr, st, mt, vc.toTerm(args[0]), vc.toTerm(args[1]), site)
		return nil
	case "append":
		return vc.appendOp(fr, st, site, c, args)
	case "copy":
		return vc.copyOp(fr, st, site, c, args)
	case "min", "max":
		t := vc.toTerm(args[0])
		for _, a := range args[1:] {
			y := vc.toTerm(a)
			if b.Name() == "min" {
				t = Ite(Le(t, y), t, y)
			} else {
				t = Ite(Ge(t, y), t, y)
			}
		}
		return t
	case "clear":
		mt := FromGo(c.Args[0].Type())
		if mt.K == KMap {
			m := vc.toTerm(args[0])
			key := mapKey(mt)
			vc.hset(st, "mapdom:"+key, Store(vc.mapComp(st.heap, mt, "mapdom"), m, ConstArr(ArrSort(SInt, SBool), False)))
			vc.hset(st, "maplen:"+key, Store(vc.mapComp(st.heap, mt, "maplen"), m, Zero))
			vc.noteWrite("mapdom:"+key, m)
			vc.noteWrite("maplen:"+key, m)
			return nil
		}
	case "close":
		vc.builtinClose(fr, st, site, vc.toTerm(args[0]))
		return nil
	case "print", "println":
		return nil
	}
	vc.fail("builtin %s unsupported", b.Name())
	return nil
}

// appendOp models append with Go's aliasing semantics: in place when capacity allows, a fresh array
// otherwise. The new capacity is unspecified (>= needed length).
func (vc *VC) appendOp(fr *frame, st *State, site ssa.Instruction, c *ssa.CallCommon, args []Value) Value {
	s, ok := args[0].(SliceVal)
	if !ok {
		vc.fail("append to %T", args[0])
	}
	add, ok := args[1].(SliceVal)
	if !ok {
		// append([]byte, string...)
		vc.note("append of string bytes is uninterpreted")
		return vc.freshValue("append", FromGo(c.Args[0].Type()))
	}
	el := s.Elem
	name := "append"
	if v, ok := site.(ssa.Value); ok {
		name = v.Name()
	}
	newLen := vc.script.DeclareEq(name+":len", Add(s.Len, add.Len))
	if el.K == KUnit {
		return SliceVal{Arr: s.Arr, Off: s.Off, Len: newLen, Cap: Ite(Le(newLen, s.Cap), s.Cap, newLen), Elem: el}
	}
	var lanes []lane
	func() {
		defer func() {
			if r := recover(); r != nil {
				if ee, isEval := r.(evalError); isEval {
					vc.fail("%s", ee.msg)
				}
				panic(r)
			}
		}()
		lanes = vc.elemLanes(el)
	}()
	fits := vc.script.Define(name+":fits", Le(newLen, s.Cap))
	fresh := vc.script.Declare(name+":arr", SInt)
	if vc.freshRefs == nil {
		vc.freshRefs = map[string]bool{}
	}
	vc.freshRefs[fresh.S] = true
	alloc := vc.allocOf(st.heap)
	vc.script.Assume(Implies(st.pc, And(Gt(fresh, Zero), Not(Select(alloc, fresh)))))
	ncap := vc.script.Declare(name+":cap", SInt)
	vc.script.Assume(Ge(ncap, newLen))
	p := Term{"p!", SInt}
	arr := vc.script.DeclareEq(name+":arr", Ite(fits, s.Arr, fresh))
	off := vc.script.DeclareEq(name+":off", Ite(fits, s.Off, Zero))
	for _, ln := range lanes {
		elems := vc.hget(st.heap, ln.comp)
		// resulting array contents: [off, off+len) keep s, [off+len, off+newLen) take add
		res := vc.script.Declare(name+":elems", ArrSort(SInt, ln.sort))
		// absolute positions (no arithmetic inside the trigger)
		srcOld := Select(Select(elems, s.Arr), Add(Sub(p, off), s.Off))
		srcAdd := Select(Select(elems, add.Arr), Add(add.Off, Sub(Sub(p, off), s.Len)))
		vc.script.Assume(Implies(st.pc, Forall([]Term{p}, And(
			Implies(And(Le(off, p), Lt(p, Add(off, s.Len))), Eq(Select(res, p), srcOld)),
			Implies(And(Le(Add(off, s.Len), p), Lt(p, Add(off, newLen))), Eq(Select(res, p), srcAdd)),
			// in place: everything outside the appended window is unchanged
			Implies(And(fits, Or(Lt(p, Add(off, s.Len)), Ge(p, Add(off, newLen)))), Eq(Select(res, p), Select(Select(elems, s.Arr), p))),
		), []Term{Select(res, p)})))
		// the same facts by relative position (so that "s[i]"-shaped terms on both sides line up syntactically)
		j := Term{"j!", SInt}
		vc.script.Assume(Implies(st.pc, Forall([]Term{j}, And(
			Implies(And(Le(Zero, j), Lt(j, s.Len)), Eq(Select(res, vc.sidx(off, j)), Select(Select(elems, s.Arr), vc.sidx(s.Off, j)))),
			Implies(And(Le(s.Len, j), Lt(j, newLen)), Eq(Select(res, vc.sidx(off, j)), Select(Select(elems, add.Arr), vc.sidx(add.Off, Sub(j, s.Len))))),
		), []Term{Select(res, vc.sidx(off, j))})))
		if ln.sort == SInt && len(lanes) == 1 {
			// append lemma for the set view of slices
			y := Term{"y!", SInt}
			oldA := Select(elems, s.Arr)
			addA := Select(elems, add.Arr)
			addMem := vc.inseq(addA, add.Off, add.Len, y)
			if n, err := strconv.Atoi(add.Len.S); err == nil && n >= 0 && n <= 4 {
				var alts []Term
				for i := 0; i < n; i++ {
					alts = append(alts, Eq(Select(addA, vc.sidx(add.Off, IntLit(int64(i)))), y))
				}
				addMem = Or(alts...)
			}
			vc.script.Assume(Implies(st.pc, Forall([]Term{y},
				Eq(vc.inseq(res, off, newLen, y), Or(vc.inseq(oldA, s.Off, s.Len, y), addMem)),
				[]Term{vc.inseq(res, off, newLen, y)})))
		}
		vc.hset(st, ln.comp, Store(elems, arr, res))
		vc.noteWrite(ln.comp, Term{})
	}
	vc.hset(st, allocComp, Store(alloc, fresh, True))
	vc.noteWrite(allocComp, Term{})
	return SliceVal{Arr: arr, Off: off, Len: newLen, Cap: vc.script.Define(name+":cap", Ite(fits, s.Cap, ncap)), Elem: el}
}

func (vc *VC) copyOp(fr *frame, st *State, site ssa.Instruction, c *ssa.CallCommon, args []Value) Value {
	dst, ok1 := args[0].(SliceVal)
	src, ok2 := args[1].(SliceVal)
	if !ok1 || !ok2 {
		vc.note("copy from string is uninterpreted")
		vc.fail("copy with non-slice operand")
	}
	n := vc.script.Define("copy:n", Ite(Le(dst.Len, src.Len), dst.Len, src.Len))
	if dst.Elem.K == KUnit {
		return n
	}
	comp := vc.elemsComp(dst.Elem)
	elems := vc.hget(st.heap, comp)
	res := vc.script.Declare("copy:elems", ArrSort(SInt, dst.Elem.SortOf()))
	p := Term{"p!", SInt}
	old := Select(elems, dst.Arr)
	vc.script.Assume(Implies(st.pc, Forall([]Term{p}, And(
		Implies(And(Le(dst.Off, p), Lt(p, Add(dst.Off, n))), Eq(Select(res, p), Select(Select(elems, src.Arr), Add(src.Off, Sub(p, dst.Off))))),
		Implies(Or(Lt(p, dst.Off), Ge(p, Add(dst.Off, n))), Eq(Select(res, p), Select(old, p))),
	), []Term{Select(res, p)})))
	vc.hset(st, comp, Store(elems, dst.Arr, res))
	vc.noteWrite(comp, dst.Arr)
	return n
}

// --- contract calls --------------------------------------------------------------------------------

// modTarget is one evaluated modifies entry.
type modTarget struct {
	comp  string
	idx   Term // zero Term = whole component
	whole bool
}

// evalModifies evaluates the modifies clause of fc in env (pre-state).
func (vc *VC) evalModifies(env *Env, fc *FuncContract) (targets []modTarget, err error) {
	defer func() {
		if r := recover(); r != nil {
			if ee, ok := r.(evalError); ok {
				err = ee
				return
			}
			panic(r)
		}
	}()
	for _, ml := range fc.Modifies {
		switch ml.Kind {
		case "all":
			if strings.HasPrefix(ml.Comp, "ghost:g.") {
				env.ghostCompTerm(strings.TrimPrefix(ml.Comp, "ghost:g.")) // registers the component
			}
			comp := vc.resolveCompName(env, ml.Comp)
			for _, c := range comp {
				targets = append(targets, modTarget{comp: c, whole: true})
			}
		case "loc":
			targets = append(targets, vc.locTargets(env, ml.E)...)
		case "setview":
			vc.registerComp(setViewComp, compInfo{Sort: ArrSort(SInt, ArrSort(SInt, SBool)), Depth: 1, Ghost: true})
			targets = append(targets, modTarget{comp: setViewComp, idx: env.asInt(env.eval(ml.E))})
		case "contents":
			tv := env.eval(ml.E)
			switch tv.T.K {
			case KMap:
				m := env.asInt(tv)
				vc.mapComp(env.heap, tv.T, "mapdom")
				k := mapKey(tv.T)
				for _, p := range []string{"mapdom:", "mapval:", "maplen:"} {
					targets = append(targets, modTarget{comp: p + k, idx: m})
				}
			case KSlice:
				sv := tv.V.(SliceVal)
				targets = append(targets, modTarget{comp: vc.elemsComp(sv.Elem), idx: sv.Arr})
			default:
				efail("contents(%s): not a map or slice", ml.Src)
			}
		}
	}
	return targets, nil
}

// locTargets resolves an lvalue expression x.f (possibly nested) to components.
func (vc *VC) locTargets(env *Env, e Expr) []modTarget {
	if ix, ok := e.(EIndex); ok {
		if id, isID := ix.X.(EIdent); isID {
			if _, _, isGhost := env.ghostCompTerm(id.Name); isGhost {
				return []modTarget{{comp: "ghost:g." + id.Name, idx: env.asInt(env.eval(ix.I))}}
			}
		}
	}
	sel, ok := e.(ESel)
	if !ok {
		efail("modifies: field selector expected")
	}
	base := env.eval(sel.X)
	var loc Loc
	var structT SType
	pv, isPtr := base.V.(PtrVal)
	switch {
	case isPtr && (pv.Elem.K == KStruct || pv.Elem.K == KUnit):
		loc, structT = pv.Loc, pv.Elem
	case base.T.K == KRef:
		loc = Loc{canonicalPrefix(*base.T.Elem), []Term{env.asInt(base)}}
		structT = *base.T.Elem
	default:
		efail("modifies: selector on %s", base.T)
	}
	ft, _, ok := vc.lookupField(structT, sel.Name)
	if !ok {
		efail("modifies: no field %s", sel.Name)
	}
	return vc.flattenTargets(Loc{vc.fieldComp(loc.Prefix, structT, sel.Name), loc.Idx}, ft)
}

func (vc *VC) flattenTargets(loc Loc, ft SType) []modTarget {
	switch ft.K {
	case KStruct:
		var out []modTarget
		s, _ := structOf(ft.Go)
		for i := 0; i < s.NumFields(); i++ {
			f := s.Field(i)
			out = append(out, vc.flattenTargets(Loc{loc.Prefix + "." + f.Name(), loc.Idx}, FromGo(f.Type()))...)
		}
		// ghost fields of the struct type
		for _, k := range sortedKeys(vc.w.ghosts) {
			g := vc.w.ghosts[k]
			pre := typeKey(ft.Go) + "."
			if strings.HasPrefix(k, pre) && !strings.Contains(k[len(pre):], ".") {
				out = append(out, vc.flattenTargets(Loc{loc.Prefix + "." + k[len(pre):], loc.Idx}, g)...)
			}
		}
		return out
	case KSlice:
		var out []modTarget
		for _, s := range []string{"#arr", "#off", "#len", "#cap"} {
			vc.registerComp(loc.Prefix+s, compInfo{Sort: ArrSort(SInt, SInt), Depth: 1, NonNeg: s != "#arr", RefVals: s == "#arr"})
			out = append(out, modTarget{comp: loc.Prefix + s, idx: loc.Idx[0]})
		}
		return out
	case KUnit:
		return nil
	}
	if len(loc.Idx) != 1 {
		efail("modifies: nested location %s", loc.Prefix)
	}
	vc.registerComp(loc.Prefix, compInfo{Sort: ArrSort(SInt, ft.SortOf()), Depth: 1, RefVals: isRefKind(ft), NonNeg: ft.K == KInt && ft.Unsigned})
	return []modTarget{{comp: loc.Prefix, idx: loc.Idx[0]}}
}

// resolveCompName maps "Type.field" (or a full component name) to component names.
func (vc *VC) resolveCompName(env *Env, name string) []string {
	if strings.Contains(name, ":") || strings.Contains(name, "/") {
		return []string{name}
	}
	parts := strings.Split(name, ".")
	// [pkgalias.]Type.field...
	var tname, rest string
	var owner *SType
	if len(parts) >= 3 {
		if st := vc.tryType(env, parts[0], parts[1]); st != nil {
			tname, rest, owner = typeKey(st.Go), strings.Join(parts[2:], "."), st
		}
	}
	if tname == "" && len(parts) >= 2 {
		if st := vc.tryType(env, "", parts[0]); st != nil {
			tname, rest, owner = typeKey(st.Go), strings.Join(parts[1:], "."), st
		}
	}
	if tname == "" {
		efail("cannot resolve component %s", name)
	}
	full := tname + "." + rest
	// make sure the named field's components exist (a havoc of a component this function has not touched yet must
	// still take effect on its later uses)
	if owner != nil {
		cur := *owner
		okPath := true
		for _, fname := range strings.Split(rest, ".") {
			ft, _, ok := vc.lookupField(cur, fname)
			if !ok {
				okPath = false
				break
			}
			cur = ft
		}
		if okPath {
			switch cur.K {
			case KStruct:
				vc.registerStructComps(full, cur)
			case KSlice:
				for _, suf := range []string{"#arr", "#off", "#len", "#cap"} {
					vc.registerComp(full+suf, compInfo{Sort: ArrSort(SInt, SInt), Depth: 1, NonNeg: suf != "#arr", RefVals: suf == "#arr"})
				}
			case KUnit, KArray, KTuple:
			default:
				vc.registerComp(full, compInfo{Sort: ArrSort(SInt, cur.SortOf()), Depth: 1, RefVals: isRefKind(cur), NonNeg: cur.K == KInt && cur.Unsigned})
			}
		}
	}
	// flatten if the named field is a struct or slice
	var out []string
	for _, c := range sortedKeys(vc.comps) {
		if c == full || strings.HasPrefix(c, full+".") || strings.HasPrefix(c, full+"#") {
			out = append(out, c)
		}
	}
	if len(out) == 0 {
		out = []string{full}
	}
	return out
}

func (vc *VC) tryType(env *Env, pkg, name string) (st *SType) {
	defer func() {
		if r := recover(); r != nil {
			st = nil
		}
	}()
	t := env.resolveType(&TypeExpr{Kind: "name", Pkg: pkg, Name: name})
	if t.Go == nil || t.K == KTParam {
		return nil
	}
	return &t
}

func (vc *VC) contractEnv(st *State, old *Heap, fc *FuncContract, args []Value, ptypes []SType) *Env {
	env := &Env{vc: vc, heap: st.heap, old: old, vars: map[string]TV{}, cf: vc.fileOf(fc), pkgPath: vc.pkgOf(fc)}
	for i, a := range args {
		if i >= len(ptypes) {
			break
		}
		name := fmt.Sprintf("arg%d", i)
		if i < len(fc.ParamNames) {
			name = fc.ParamNames[i]
		}
		env.vars[name] = TV{vc.specValue(a, ptypes[i]), ptypes[i]}
	}
	if strings.Contains(fc.Key, "$fparam:") {
		// the contract of a function-typed parameter may mention the enclosing function's parameters and captured variables
		for k, v := range vc.topParams {
			if _, taken := env.vars[k]; !taken {
				env.vars[k] = v
			}
		}
	}
	return env
}

// specValue converts an executor value to the representation the evaluator expects.
func (vc *VC) specValue(v Value, t SType) Value {
	switch x := v.(type) {
	case PtrVal:
		if t.K == KRef || t.K == KPtr {
			if len(x.Loc.Idx) == 1 && x.Loc.Prefix == canonicalPrefix(x.Elem) {
				return x.Loc.Idx[0]
			}
			return x // interior pointer: usable for field selection in specs
		}
	}
	return v
}

func (vc *VC) fileOf(fc *FuncContract) *ContractFile {
	for _, f := range vc.w.files {
		if f.Path == fc.File {
			return f
		}
	}
	return nil
}

func (vc *VC) pkgOf(fc *FuncContract) string {
	if f := vc.fileOf(fc); f != nil && f.PkgPath != "" {
		return f.PkgPath
	}
	// extern: package of the key
	if i := strings.LastIndex(fc.Key, "."); i >= 0 {
		k := fc.Key[:i]
		if _, ok := vc.w.typesPkgs[k]; ok {
			return k
		}
		if j := strings.LastIndex(k, "."); j >= 0 {
			return k[:j]
		}
	}
	return ""
}

func clauseName(prefix string, i int, c Clause) string {
	if c.Label != "" {
		return prefix + "." + c.Label
	}
	return fmt.Sprintf("%s.%d", prefix, i)
}

func (vc *VC) contractCall(fr *frame, st *State, site ssa.Instruction, fc *FuncContract, body *ssa.Function, args []Value, ptypes []SType, resT SType) []Value {
	if fc.Iterates != nil {
		vc.iterCall(fr, st, site, fc, args, ptypes)
		return vc.freshResults(st, site, resT)
	}
	name := fc.Key[strings.LastIndex(fc.Key, "/")+1:]
	siteHint := vc.posHint(fr, site)
	if vc.monitor != nil {
		switch fc.Key {
		case "sync.RWMutex.Lock", "sync.RWMutex.RLock", "sync.Mutex.Lock":
			if vc.lockReleased {
				vc.monitorReacquire(st)
			}
		case "sync.RWMutex.Unlock", "sync.RWMutex.RUnlock", "sync.Mutex.Unlock":
			if vc.dry == 0 {
				vc.lockReleased = true
			}
		}
	}
	pre := vc.contractEnv(st, st.heap, fc, args, ptypes)
	// interior-pointer receivers of externs (embedded mutexes, atomics) are addressed by location
	for i, c := range fc.Requires {
		vc.obligeClause(pre, st, "pre", clauseName("pre", i, c), fmt.Sprintf("@%s:%s", siteHint, name), c)
		t, err := pre.EvalBool(c.E)
		if err != nil {
			vc.fail("requires of %s: %v", fc.Key, err)
		}
		vc.assume(st, t)
	}
	// monitor discipline: calls that mutate guarded state need the write lock
	targets, err := vc.evalModifies(pre, fc)
	if err != nil {
		vc.fail("modifies of %s: %v", fc.Key, err)
	}
	if !fc.HasModifies && body != nil && !fc.Pure {
		// no modifies clause: fall back to the syntactic write summary of the body (whole components)
		sum := vc.summarize(body)
		for _, c := range sortedKeys(sum.writes) {
			if c == allocComp {
				continue
			}
			targets = append(targets, modTarget{comp: c, whole: true})
		}
	}
	for _, t := range targets {
		vc.guardCheckComp(fr, st, t.comp, t.idx, true, site)
	}
	oldHeap := st.heap.Clone()
	// an opaque callee may hand back objects it allocated: only then is the allocation set forgotten
	allocates := len(fc.Allocates) > 0 || (fc.Opaque && typeHasRefs(resT))
	for _, c := range fc.Ensures {
		if exprMentionsCall(c.E, "fresh") {
			allocates = true // a postcondition that promises a fresh object implies the callee allocates
		}
	}
	var freshComps []string
	if body != nil {
		sum := vc.summarize(body)
		if sum.allocs {
			allocates = true
		}
		for _, c := range sortedKeys(sum.writes) {
			freshComps = append(freshComps, c)
		}
	}
	for _, a := range fc.Allocates {
		freshComps = append(freshComps, vc.compsWithPrefix(pre, a)...)
	}
	// ghost assignments at return may touch ghost fields of objects the callee allocated
	for _, gs := range fc.GhostSets {
		if sel, ok := gs.Lhs.(ESel); ok {
			for _, g := range sortedKeys(vc.w.ghosts) {
				if strings.HasSuffix(g, "."+sel.Name) {
					vc.registerComp(g, compInfo{Sort: ArrSort(SInt, vc.w.ghosts[g].SortOf()), Depth: 1, Ghost: true})
					freshComps = append(freshComps, g)
					allocates = true
				}
			}
		}
	}
	if os.Getenv("GOVC_DEBUG") != "" {
		fmt.Fprintf(os.Stderr, "call %s in %s: allocates=%v fresh=%v targets=%v\n", fc.Key, vc.topKey, allocates, freshComps, targets)
	}
	if fc.HavocAll {
		vc.havocAll(st)
	} else {
		vc.applyHavoc(st, targets, allocates, freshComps)
	}
	// results
	res := vc.freshResults(st, site, resT)
	post := vc.contractEnv(st, oldHeap, fc, args, ptypes)
	for i, f := range resT.Fields {
		vc.assumeAllocated(st, res[i], f)
		tv := TV{vc.specValue(res[i], f), f}
		post.vars[fmt.Sprintf("result.%d", i)] = tv
		if i < len(fc.ResultNames) && fc.ResultNames[i] != "" {
			post.vars[fc.ResultNames[i]] = tv
		}
	}
	if len(resT.Fields) == 1 {
		post.vars["result"] = post.vars["result.0"]
	}
	for _, c := range fc.Ensures {
		t, err := post.EvalBool(c.E)
		if err != nil {
			vc.fail("ensures of %s: %v", fc.Key, err)
		}
		vc.assume(st, t)
	}
	vc.assumeStateAxioms(st)
	if fc.Trusted {
		vc.note("trusted contract: " + fc.Key)
	} else if fc.Modular && !vc.w.verifiedHere[fc.Key] {
		vc.note("trusted contract: " + fc.Key + " (verified where it is listed, not in this check)")
	}
	return res
}

func (vc *VC) compsWithPrefix(env *Env, tname string) []string {
	st := vc.tryTypeDotted(env, tname)
	if st == nil {
		efail("allocates: unknown type %s", tname)
	}
	// make sure every field component of the type is registered
	vc.registerStructComps(canonicalPrefix(*st), *st)
	pre := canonicalPrefix(*st) + "."
	var out []string
	for _, c := range sortedKeys(vc.comps) {
		if strings.HasPrefix(c, pre) {
			out = append(out, c)
		}
	}
	for _, k := range sortedKeys(vc.w.ghostAlias) {
		a := vc.w.ghostAlias[k]
		if strings.HasPrefix(k, pre) {
			if g, ok := vc.w.ghosts[k]; ok {
				vc.registerComp(a, compInfo{Sort: ArrSort(SInt, g.SortOf()), Depth: 1, Ghost: true})
				out = append(out, a)
			}
		}
	}
	return out
}

func (vc *VC) tryTypeDotted(env *Env, name string) *SType {
	if i := strings.LastIndex(name, "."); i >= 0 {
		return vc.tryType(env, name[:i], name[i+1:])
	}
	return vc.tryType(env, "", name)
}

func (vc *VC) registerStructComps(prefix string, st SType) {
	s, ok := structOf(st.Go)
	if !ok {
		return
	}
	reg := func(name string, ft SType) {
		switch ft.K {
		case KStruct:
			vc.registerStructComps(prefix+"."+name, ft)
		case KSlice:
			for _, suf := range []string{"#arr", "#off", "#len", "#cap"} {
				vc.registerComp(prefix+"."+name+suf, compInfo{Sort: ArrSort(SInt, SInt), Depth: 1, NonNeg: suf != "#arr", RefVals: suf == "#arr"})
			}
		case KUnit, KArray, KTuple:
		default:
			vc.registerComp(prefix+"."+name, compInfo{Sort: ArrSort(SInt, ft.SortOf()), Depth: 1, RefVals: isRefKind(ft), NonNeg: ft.K == KInt && ft.Unsigned})
		}
	}
	for i := 0; i < s.NumFields(); i++ {
		reg(s.Field(i).Name(), FromGo(s.Field(i).Type()))
	}
	pre := typeKey(st.Go) + "."
	for _, k := range sortedKeys(vc.w.ghosts) {
		g := vc.w.ghosts[k]
		if strings.HasPrefix(k, pre) && !strings.Contains(k[len(pre):], ".") {
			reg(k[len(pre):], g)
		}
	}
}

// applyHavoc forgets the listed locations. freshComps are components the callee may initialise on
// objects it allocates: they keep their values on every previously allocated object.
func (vc *VC) applyHavoc(st *State, targets []modTarget, allocates bool, freshComps []string) {
	oldAlloc := vc.allocOf(st.heap)
	newAlloc := oldAlloc
	r := Term{"r!", SInt}
	k := Term{"k!", SInt}
	if allocates {
		newAlloc = vc.script.Declare("$alloc@call", ArrSort(SInt, SBool))
		vc.script.Assume(And(Not(Select(newAlloc, Zero)), Forall([]Term{r}, Implies(Select(oldAlloc, r), Select(newAlloc, r)), []Term{Select(oldAlloc, r)})))
		vc.hset(st, allocComp, newAlloc)
		vc.noteWrite(allocComp, Term{})
	}
	byComp := map[string]*writeSet{}
	for _, t := range targets {
		ws := byComp[t.comp]
		if ws == nil {
			ws = &writeSet{}
			byComp[t.comp] = ws
		}
		if t.whole || t.idx.IsZero() {
			ws.whole = true
		} else {
			ws.idxs = append(ws.idxs, t.idx)
		}
	}
	fresh := map[string]bool{}
	if allocates {
		for _, c := range freshComps {
			if c != allocComp {
				fresh[c] = true
			}
		}
	}
	names := map[string]bool{}
	for c := range byComp {
		names[c] = true
	}
	for c := range fresh {
		names[c] = true
	}
	for _, c := range sortedKeys(names) {
		info, ok := vc.comps[c]
		if !ok {
			// never used by this VC so far: remember it, a later first use must not see the entry value
			if vc.havocedUnregistered == nil {
				vc.havocedUnregistered = map[string]bool{}
			}
			if vc.dry == 0 {
				vc.havocedUnregistered[c] = true
			}
			continue
		}
		ws := byComp[c]
		cur := vc.hget(st.heap, c)
		switch {
		case ws != nil && ws.whole:
			nt := vc.script.Declare(c+"@havoc", info.Sort)
			vc.goodHeapAxioms(c, info, nt, newAlloc)
			vc.hset(st, c, nt)
			vc.noteWrite(c, Term{})
		case fresh[c]:
			nt := vc.script.Declare(c+"@call", info.Sort)
			var keep []Term
			keep = append(keep, Select(oldAlloc, r))
			if ws != nil {
				for _, i := range ws.idxs {
					keep = append(keep, Ne(r, i))
				}
			}
			vc.script.Assume(Forall([]Term{r}, Implies(And(keep...), Eq(Select(nt, r), Select(cur, r))), []Term{Select(nt, r)}))
			vc.goodHeapAxioms(c, info, nt, newAlloc)
			vc.hset(st, c, nt)
			vc.noteWriteFresh(c)
			if ws != nil {
				for _, i := range ws.idxs {
					vc.noteWrite(c, i)
				}
			}
		default:
			nt := cur
			for _, i := range ws.idxs {
				fv := vc.script.Declare(c+"@at", ArrElem(info.Sort))
				vc.cellAxioms(c, info, fv, newAlloc, k)
				nt = Store(nt, i, fv)
				vc.noteWrite(c, i)
			}
			vc.hset(st, c, nt)
		}
	}
	// relate dom/len of havocked maps
	for _, c := range sortedKeys(names) {
		if strings.HasPrefix(c, "mapdom:") {
			ln := "maplen:" + strings.TrimPrefix(c, "mapdom:")
			if _, ok := vc.comps[ln]; !ok {
				continue
			}
			d, l := vc.hget(st.heap, c), vc.hget(st.heap, ln)
			vc.script.Assume(Forall([]Term{r, k}, Implies(Select(Select(d, r), k), Ge(Select(l, r), One)), []Term{Select(Select(d, r), k)}))
		}
	}
}

// cellAxioms: type-safety facts about a single havocked cell value.
func (vc *VC) cellAxioms(comp string, info compInfo, v Term, alloc Term, k Term) {
	if info.Depth == 1 {
		if info.NonNeg || strings.HasPrefix(comp, "maplen:") {
			vc.script.Assume(Ge(v, Zero))
		}
		if info.RefVals {
			vc.script.Assume(Or(Eq(v, Zero), Select(alloc, v)))
		}
		return
	}
	if info.NonNeg {
		vc.script.Assume(Forall([]Term{k}, Ge(Select(v, k), Zero), []Term{Select(v, k)}))
	}
	if info.RefVals {
		vc.script.Assume(Forall([]Term{k}, Or(Eq(Select(v, k), Zero), Select(alloc, Select(v, k))), []Term{Select(v, k)}))
	}
}

// summarize computes which components a function body may write (dry run on arbitrary inputs).
func (vc *VC) summarize(fn *ssa.Function) *fnSummary {
	if s, ok := vc.summary[fn]; ok {
		if s.busy {
			return &fnSummary{writes: map[string]bool{"*": true}, allocs: true}
		}
		return s
	}
	s := &fnSummary{writes: map[string]bool{}, busy: true}
	vc.summary[fn] = s
	savedWrites, savedStack := vc.writes, vc.stack
	vc.writes = map[string]*writeSet{}
	vc.stack = nil
	vc.dry++
	pos := vc.script.Pos()
	func() {
		defer func() {
			if r := recover(); r != nil {
				if _, ok := r.(unsupported); ok {
					s.writes["*"] = true
					s.allocs = true
					return
				}
				panic(r)
			}
		}()
		st := &State{pc: True, heap: &Heap{base: vc.newBase(vc.base0.alloc), c: map[string]Term{}}}
		var args []Value
		for _, p := range fn.Params {
			args = append(args, vc.freshValue("sum:"+p.Name(), FromGo(p.Type())))
		}
		for _, fv := range fn.FreeVars {
			args = append(args, vc.freshValue("sum:"+fv.Name(), FromGo(fv.Type())))
		}
		vc.exec(fn, args, st, 1, "summary:"+fn.Name(), false)
	}()
	for c := range vc.writes {
		if c == allocComp {
			s.allocs = true
			continue
		}
		s.writes[c] = true
	}
	vc.script.DropAssumesSince(pos)
	vc.dry--
	vc.writes, vc.stack = savedWrites, savedStack
	s.busy = false
	return s
}

// assumeStateAxioms re-states the trusted global invariants of external libraries for the current heap.
func (vc *VC) assumeStateAxioms(st *State) {
	for _, ax := range vc.w.axioms {
		env := &Env{vc: vc, heap: st.heap, old: st.heap, vars: map[string]TV{}, cf: ax.cf, pkgPath: ax.cf.PkgPath}
		if !vc.axiomRelevant(ax) {
			continue
		}
		t, err := env.EvalBool(ax.c.E)
		if err != nil {
			vc.fail("axiom %s: %v", ax.c.Src, err)
		}
		vc.script.Assume(Implies(st.pc, t))
	}
}

// axiomRelevant: an axiom is instantiated only when the function under verification mentions one of
// the components it talks about (keeps queries small).
func (vc *VC) axiomRelevant(ax axiomDecl) bool {
	// axioms of a repository package are instantiated only when the function under verification lives in
	// that package or already touches state of that package (keeps unrelated definitions out of the query)
	if ax.cf.PkgPath != "" {
		top := vc.top
		for top.Parent() != nil {
			top = top.Parent()
		}
		if top.Pkg != nil && top.Pkg.Pkg.Path() == ax.cf.PkgPath {
			return true
		}
		for c := range vc.comps {
			if strings.Contains(c, ax.cf.PkgPath+".") {
				return true
			}
		}
		return false
	}
	if ax.c.Label == "" || !strings.Contains(ax.c.Label, ".") {
		return true
	}
	for c := range vc.comps {
		if strings.Contains(c, ax.c.Label) {
			return true
		}
	}
	return false
}


// copyBuiltin is the built-in specification of cypher.Copy at its call sites: the result is a copy of
// the argument in the sense of the uninterpreted relation iscopy (pointers, model interfaces, maps), a
// fresh backing array holding copies (slices), or the value itself (scalars). It is what the one-level
// contracts of the copy() methods are checked against; Copy's own dispatch is covered by the derived
// arm obligations.
func (vc *VC) copyBuiltin(fr *frame, st *State, site ssa.Instruction, v Value, t SType) Value {
	name := "copy"
	if sv, ok := site.(ssa.Value); ok {
		name = sv.Name()
	}
	vc.note("cypher.Copy is replaced at call sites by its built-in specification (iscopy / fresh backing arrays)")
	switch t.K {
	case KRef, KPtr, KMap, KIface:
		x := vc.toTerm(v)
		var r Term
		if t.K == KIface {
			r = vc.script.Declare(name+":copy", SInt)
			vc.script.Assume(Ge(r, Zero))
			vc.assume(st, Implies(Ne(x, Zero), Ne(r, x)))
		} else {
			fresh := vc.newRef(st, name+":copy")
			r = vc.script.Define(name+":copy", Ite(Eq(x, Zero), Zero, fresh))
			if t.K == KPtr && t.Elem.single() {
				// pointer to a scalar: the fresh cell holds the same value
				loc := Loc{canonicalPrefix(*t.Elem), []Term{fresh}}
				vc.readLoc(st.heap, loc, *t.Elem)
				vc.writeCell(st, loc, vc.readCell(st.heap, Loc{canonicalPrefix(*t.Elem), []Term{x}}))
			}
		}
		vc.assume(st, vc.isCopy(r, x))
		return vc.wrap(r, t)
	case KSlice:
		sv, ok := v.(SliceVal)
		if !ok {
			vc.fail("Copy of non-slice value as %s", t)
		}
		el := *t.Elem
		if !el.single() {
			vc.fail("Copy of slice with composite elements %s", t)
		}
		fresh := vc.newRef(st, name+":arr")
		arr := vc.script.Define(name+":arr", Ite(Eq(sv.Arr, Zero), Zero, fresh))
		comp := vc.elemsComp(el)
		elems := vc.hget(st.heap, comp)
		res := vc.script.Declare(name+":elems", ArrSort(SInt, el.SortOf()))
		i := Term{"i!", SInt}
		src := Select(Select(elems, sv.Arr), vc.sidx(sv.Off, i))
		var rel Term
		if isRefKind(el) || el.K == KIface && vc.modelIface(el) {
			rel = And(vc.isCopy(Select(res, i), src), Implies(Ne(src, Zero), Ne(Select(res, i), src)))
		} else {
			rel = Eq(Select(res, i), src)
		}
		vc.assume(st, Forall([]Term{i}, Implies(And(Le(Zero, i), Lt(i, sv.Len)), rel), []Term{Select(res, i)}))
		vc.hset(st, comp, Store(elems, fresh, res))
		vc.noteWrite(comp, fresh)
		ln := vc.script.Define(name+":len", Ite(Eq(sv.Arr, Zero), Zero, sv.Len))
		return SliceVal{Arr: arr, Off: Zero, Len: ln, Cap: ln, Elem: el}
	}
	if t.K == KStruct {
		// a struct handed to Copy by value (expressionList): copied field by field
		if sv, ok := v.(StructVal); ok {
			out := StructVal{T: sv.T, F: map[string]Value{}}
			st2, _ := structOf(t.Go)
			for i := 0; i < st2.NumFields(); i++ {
				f := st2.Field(i)
				out.F[f.Name()] = vc.copyBuiltin(fr, st, site, sv.F[f.Name()], FromGo(f.Type()))
			}
			return out
		}
	}
	return v
}

func (vc *VC) modelIface(t SType) bool {
	return t.Go != nil && isModelChild(t.Go)
}


// noInline: generated code (the ANTLR recogniser) is never inlined; calls into it without a contract are
// treated like calls to unspecified externals.
func noInline(f *ssa.Function) bool {
	for f.Parent() != nil {
		f = f.Parent()
	}
	if f.Pkg != nil && f.Pkg.Pkg.Path() == repoModule+"/cypher/parser" {
		return true
	}
	return false
}


// monitorReacquire: the monitor's lock is taken again after it was released earlier in the same function.
// Between the two critical sections other goroutines may have changed everything the lock guards, so the
// guarded state is forgotten and only the monitor invariant (the function's own precondition, minus its
// lock-state conjuncts) is known of it. Whatever was read under the earlier critical section is stale.
func (vc *VC) monitorReacquire(st *State) {
	var targets []modTarget
	for _, g := range vc.monitor.Guards {
		if _, ok := vc.comps[g]; ok {
			targets = append(targets, modTarget{comp: g, whole: true})
		}
	}
	vc.applyHavoc(st, targets, true, nil)
	vc.assumeStateAxioms(st)
	vc.note("guarded state is forgotten when a monitor lock is re-acquired after a release (only the monitor invariant is kept)")
	fc := vc.contract
	if fc == nil {
		return
	}
	env := &Env{vc: vc, heap: st.heap, old: vc.entry, vars: vc.topParams, cf: vc.fileOf(fc), pkgPath: vc.pkgOf(fc)}
	for _, c := range fc.Requires {
		for _, cj := range env.conjuncts(c.E, "", 0) {
			if exprMentionsCall(cj.e, "held") {
				continue
			}
			t, err := cj.env.EvalBool(cj.e)
			if err != nil {
				vc.fail("monitor invariant: %v", err)
			}
			vc.assume(st, t)
		}
	}
}

func exprMentionsCall(x Expr, fn string) bool {
	found := false
	var walk func(e Expr)
	walk = func(e Expr) {
		if found || e == nil {
			return
		}
		switch v := e.(type) {
		case ECall:
			if v.Fn == fn {
				found = true
				return
			}
			for _, a := range v.Args {
				walk(a)
			}
		case EUnary:
			walk(v.X)
		case EBinary:
			walk(v.X)
			walk(v.Y)
		case ESel:
			walk(v.X)
		case EIndex:
			walk(v.X)
			walk(v.I)
		case EQuant:
			walk(v.Body)
		case ECond:
			walk(v.C)
			walk(v.A)
			walk(v.B)
		case EAssert:
			walk(v.X)
		case ETypeIs:
			walk(v.X)
		}
	}
	walk(x)
	return found
}


// typeHasRefs reports whether a value of the type can carry a reference to a heap object.
func typeHasRefs(t SType) bool {
	switch t.K {
	case KRef, KPtr, KMap, KChan, KSlice, KFunc:
		return true
	case KTuple:
		for _, f := range t.Fields {
			if typeHasRefs(f) {
				return true
			}
		}
	case KStruct:
		if s, ok := structOf(t.Go); ok {
			for i := 0; i < s.NumFields(); i++ {
				if typeHasRefs(FromGo(s.Field(i).Type())) {
					return true
				}
			}
		}
	case KArray:
		if t.Elem != nil {
			return typeHasRefs(*t.Elem)
		}
	}
	return false
}
