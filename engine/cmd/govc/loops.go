package main

import (
	"os"
	"fmt"
	"go/types"
	"strings"

	"golang.org/x/tools/go/ssa"
)

// ---------------------------------------------------------------------------------------------
// Loops: cut at the header. Invariants are asserted on entry and on every back edge, everything the
// loop may write is forgotten at the header and the invariants are assumed.

func (vc *VC) loopContract(fr *frame, ord int) *LoopContract {
	var fc *FuncContract
	if fr.top {
		fc = vc.contract
	} else {
		fc = vc.w.contracts[funcKey(fr.fn)]
	}
	if fc == nil {
		return nil
	}
	for _, l := range fc.Loops {
		if l.Ordinal == ord {
			return l
		}
	}
	return nil
}

func (vc *VC) headerPhis(b *ssa.BasicBlock) []*ssa.Phi {
	var out []*ssa.Phi
	for _, in := range b.Instrs {
		if p, ok := in.(*ssa.Phi); ok {
			out = append(out, p)
		} else {
			break
		}
	}
	return out
}

// nameEnv resolves source-level names at block b: parameters, phis of dominating blocks (by their
// variable comment), and the latest dominating debug reference of other locals.
func (vc *VC) nameEnv(fr *frame, b *ssa.BasicBlock, st *State, phiOverride map[*ssa.Phi]Value) map[string]TV {
	vars := map[string]TV{}
	for k, v := range fr.params {
		vars[k] = v
	}
	for _, p := range fr.fn.Params {
		if _, ok := vars[p.Name()]; !ok {
			t := FromGo(p.Type())
			vars[p.Name()] = TV{vc.specValue(fr.env[p], t), t}
		}
	}
	for _, fv := range fr.fn.FreeVars {
		// captured variables are pointers to cells: expose the current content under the variable name
		if p, ok := fr.env[fv].(PtrVal); ok {
			func() {
				defer func() { recover() }()
				vars[fv.Name()] = vc.cellContent(st.heap, p)
			}()
		}
	}
	// debug refs (executed so far) whose block dominates b; later ones win
	for _, d := range fr.debug {
		if !(d.block == b || d.block.Dominates(b)) {
			continue
		}
		val, ok := fr.env[d.val]
		if !ok {
			if c, isConst := d.val.(*ssa.Const); isConst {
				val = vc.constValue(c)
			} else if _, isParam := d.val.(*ssa.Parameter); isParam {
				val = fr.env[d.val]
			} else {
				continue
			}
		}
		if d.isAddr {
			p, ok := val.(PtrVal)
			if !ok {
				continue
			}
			func() {
				defer func() { recover() }()
				vars[d.name] = vc.cellContent(st.heap, p)
			}()
			continue
		}
		t := FromGo(d.val.Type())
		vars[d.name] = TV{vc.specValue(val, t), t}
	}
	// phis of b and of dominating headers override (they are the current values of loop-carried variables)
	phiNames := map[string]bool{}
	var chain []*ssa.BasicBlock
	for blk := b; blk != nil; blk = blk.Idom() {
		chain = append(chain, blk)
	}
	for i := len(chain) - 1; i >= 0; i-- {
		for _, p := range vc.headerPhis(chain[i]) {
			if p.Comment == "" {
				continue
			}
			val, ok := fr.env[p]
			if ov, has := phiOverride[p]; has {
				val, ok = ov, true
			}
			if !ok {
				continue
			}
			t := FromGo(p.Type())
			if prev, shadow := vars[p.Comment]; shadow && phiNames[p.Comment] {
				// the same source name in an enclosing loop (e.g. the hidden index of a range loop): the outer one
				// stays reachable as <name>$outer
				vars[p.Comment+"$outer"] = prev
			}
			phiNames[p.Comment] = true
			vars[p.Comment] = TV{vc.specValue(val, t), t}
		}
	}
	return vars
}

func (vc *VC) loopEnv(fr *frame, b *ssa.BasicBlock, st *State, phiOverride map[*ssa.Phi]Value) *Env {
	env := &Env{vc: vc, heap: st.heap, old: vc.entry, vars: vc.nameEnv(fr, b, st, phiOverride)}
	fc := vc.contract
	if !fr.top {
		fc = vc.w.contracts[funcKey(fr.fn)]
	}
	if fc != nil {
		env.cf, env.pkgPath = vc.fileOf(fc), vc.pkgOf(fc)
	}
	// delivery protocol state of a function that drives an opaque delegate itself: "delivered" (the elements handed to
	// the delegate so far) and "stopped" (the delegate has returned false) can be named in its loop invariants
	if fr.top && vc.contract != nil && vc.contract.Iterates != nil {
		if decl, ok := vc.declaredIterSet(fr); ok {
			d, stopped := vc.deliveryState(st)
			env.vars["delivered"] = TV{d, setOf(decl.Elem)}
			env.vars["stopped"] = TV{stopped, FromGo(types.Typ[types.Bool])}
		}
	}
	// iterator of a map range whose Next is in this header
	for _, in := range b.Instrs {
		if nx, ok := in.(*ssa.Next); ok {
			if it := fr.iterOf[nx.Iter]; it != nil && !it.str.IsZero() {
				// range over a string: the byte position the next rune is decoded at
				env.vars["rangepos"] = TV{Select(vc.hget(st.heap, iterStrPos), it.id), FromGo(types.Typ[types.Int])}
			} else if it != nil {
				vis := Select(vc.hget(st.heap, iterVisited), it.id)
				env.vars["visited"] = TV{vis, setOf(*it.mt.Key)}
			}
		}
	}
	return env
}

func (vc *VC) loopHeader(fr *frame, b *ssa.BasicBlock, st *State) {
	ord := fr.loopOrd[b]
	lc := vc.loopContract(fr, ord)
	tag := fmt.Sprintf("loop%d", ord)
	if fr.hint != "" {
		tag = fr.hint + ":" + tag
	}
	// 1. invariants hold on entry
	if lc != nil && vc.dry == 0 {
		env := vc.loopEnv(fr, b, st, nil)
		for i, c := range lc.Invariants {
			vc.obligeClause(env, st, "inv", clauseName("inv.entry", i, c), "@"+tag, c)
		}
	}
	// the enclosing function's frame is an implicit loop invariant (established here, re-established on every back edge)
	if fr.top && vc.contract != nil && vc.contract.HasModifies && vc.dry == 0 {
		for _, f := range vc.frameFormulas(fr, st, nil) {
			if f.havoc {
				vc.oblige(st, "frame", "frame.havoc@"+tag, "an unspecified callee may modify anything", False)
				continue
			}
			vc.oblige(st, "frame", fmt.Sprintf("frame[%s]@%s.entry", f.short, tag), "modifies clause (loop entry)", f.t)
		}
	}
	// 2. forget the loop-carried SSA values first (so that the dry run below sees arbitrary iterations),
	//    then find out what the loop writes (dry run of the loop region)
	checkpoint := vc.script.nextID
	for _, p := range vc.headerPhis(b) {
		t := FromGo(p.Type())
		v := vc.freshValue(p.Name()+":"+p.Comment+"@"+tag, t)
		fr.env[p] = v
	}
	writes := vc.dryRunLoop(fr, b, st, checkpoint)
	// 3. forget the heap locations written
	vc.havocWrites(st, writes)
	for _, p := range vc.headerPhis(b) {
		vc.assumeAllocated(st, fr.env[p], FromGo(p.Type()))
	}
	vc.assumeStateAxioms(st)
	if fr.top && vc.contract != nil && vc.contract.HasModifies {
		for _, f := range vc.frameFormulas(fr, st, nil) {
			if !f.havoc {
				vc.assume(st, f.t)
			}
		}
	}
	// 4. assume invariants
	if lc != nil {
		env := vc.loopEnv(fr, b, st, nil)
		for _, c := range lc.Invariants {
			t, err := env.EvalBool(c.E)
			if err != nil {
				vc.fail("invariant of %s %s: %v", fr.fn.Name(), tag, err)
			}
			vc.assume(st, t)
		}
	} else if vc.dry == 0 {
		vc.note(fmt.Sprintf("loop %d of %s has no invariant (everything it writes is forgotten)", ord, fr.fn.Name()))
	}
}

func (vc *VC) loopBackEdge(fr *frame, from, header *ssa.BasicBlock, st *State) {
	if vc.dry > 0 {
		return
	}
	ord := fr.loopOrd[header]
	lc := vc.loopContract(fr, ord)
	tag := fmt.Sprintf("loop%d", ord)
	if fr.hint != "" {
		tag = fr.hint + ":" + tag
	}
	if fr.top && vc.contract != nil && vc.contract.HasModifies {
		for _, f := range vc.frameFormulas(fr, st, nil) {
			if f.havoc {
				vc.oblige(st, "frame", "frame.havoc@"+tag, "an unspecified callee may modify anything", False)
				continue
			}
			vc.oblige(st, "frame", fmt.Sprintf("frame[%s]@%s.preserve", f.short, tag), "modifies clause (loop back edge)", f.t)
		}
	}
	if lc == nil {
		return
	}
	pi := predIndex(header, from)
	over := map[*ssa.Phi]Value{}
	for _, p := range vc.headerPhis(header) {
		over[p] = vc.valueOf(fr, p.Edges[pi])
	}
	env := vc.loopEnv(fr, header, st, over)
	for i, c := range lc.Invariants {
		vc.obligeClause(env, st, "inv", clauseName("inv.preserve", i, c), "@"+tag, c)
	}
}

// dryRunLoop executes the loop region once from the header with obligations and assumptions
// discarded, and returns the set of heap locations it writes.
func (vc *VC) dryRunLoop(fr *frame, header *ssa.BasicBlock, st *State, checkpoint int) map[string]*writeSet {
	saved := vc.writes
	vc.writes = map[string]*writeSet{}
	vc.dry++
	pos := vc.script.Pos()
	savedDefers := len(fr.defers)
	savedDebug := len(fr.debug)
	func() {
		defer func() {
			if r := recover(); r != nil {
				if _, ok := r.(unsupported); ok {
					vc.writes["*"] = &writeSet{whole: true}
					return
				}
				panic(r)
			}
		}()
		vc.execRegion(fr, header, loopBlocks(header), st.clone())
	}()
	fr.defers = fr.defers[:savedDefers]
	fr.debug = fr.debug[:savedDebug]
	vc.script.DropAssumesSince(pos)
	vc.dry--
	w := vc.writes
	vc.writes = saved
	// an index term is usable only if it was defined before the loop and does not depend on a
	// component the loop writes
	vc.normalizeWrites(w, checkpoint)
	// propagate to an enclosing dry run
	if saved != nil {
		for _, comp := range sortedKeys(w) {
			ws := w[comp]
			if ws.whole {
				vc.noteWrite(comp, Term{})
			}
			if ws.fresh {
				vc.noteWriteFresh(comp)
			}
			for _, i := range ws.idxs {
				vc.noteWrite(comp, i)
			}
		}
	}
	return w
}

// normalizeWrites turns the raw write set of a dry run into one usable at the cut point: index
// terms are rewritten to names that exist before the checkpoint; writes to objects allocated during
// the dry run become "fresh only"; anything else makes the component wholly written.
func (vc *VC) normalizeWrites(w map[string]*writeSet, checkpoint int) {
	for _, ws := range w {
		if ws.whole {
			continue
		}
		var keep []Term
		for _, idx := range ws.idxs {
			if vc.freshRefs[idx.S] && MaxID(idx) > checkpoint {
				ws.fresh = true
				continue
			}
			exp, ok := vc.script.ExpandTo(idx, checkpoint)
			if !ok || vc.dependsOnWritten(exp, w) {
				ws.whole = true
				keep = nil
				break
			}
			dup := false
			for _, k := range keep {
				if k.S == exp.S {
					dup = true
				}
			}
			if !dup {
				keep = append(keep, exp)
			}
		}
		ws.idxs = keep
	}
}

// dependsOnWritten reports whether the term (transitively through definitions) mentions a heap
// component in the write set.
func (vc *VC) dependsOnWritten(t Term, w map[string]*writeSet) bool {
	if _, all := w["*"]; all {
		return true
	}
	seen := map[string]bool{}
	var visit func(text string) bool
	visit = func(text string) bool {
		for _, name := range nameRe.FindAllString(text, -1) {
			if seen[name] {
				continue
			}
			seen[name] = true
			inner := name[1 : len(name)-1]
			if i := strings.LastIndex(inner, "$"); i >= 0 {
				inner = inner[:i]
			}
			base := inner
			if i := strings.LastIndex(base, "@"); i >= 0 {
				base = base[:i]
			}
			if _, ok := w[base]; ok {
				if _, isComp := vc.comps[base]; isComp {
					return true
				}
			}
			if def, ok := vc.script.defText(name); ok {
				if visit(def) {
					return true
				}
			}
		}
		return false
	}
	return visit(t.S)
}

func (vc *VC) havocWrites(st *State, w map[string]*writeSet) {
	if _, all := w["*"]; all {
		vc.havocAll(st)
		return
	}
	var targets []modTarget
	var freshComps []string
	allocates := false
	for _, comp := range sortedKeys(w) {
		ws := w[comp]
		if comp == allocComp {
			allocates = true
			continue
		}
		if ws.whole {
			targets = append(targets, modTarget{comp: comp, whole: true})
			continue
		}
		if ws.fresh {
			freshComps = append(freshComps, comp)
			allocates = true
		}
		for _, i := range ws.idxs {
			targets = append(targets, modTarget{comp: comp, idx: i})
		}
	}
	vc.applyHavoc(st, targets, allocates, freshComps)
}

// execRegion runs the blocks of region starting at start (whose phis/header handling are skipped).
func (vc *VC) execRegion(fr *frame, start *ssa.BasicBlock, region map[*ssa.BasicBlock]bool, st0 *State) []retRec {
	return vc.execRegionX(fr, start, region, st0, nil)
}

// dominatedRegion: the blocks dominated by b (restricted to region, if any).
func dominatedRegion(fn *ssa.Function, b *ssa.BasicBlock, region map[*ssa.BasicBlock]bool) map[*ssa.BasicBlock]bool {
	out := map[*ssa.BasicBlock]bool{}
	for _, x := range fn.Blocks {
		if region != nil && !region[x] {
			continue
		}
		if b.Dominates(x) {
			out[x] = true
		}
	}
	return out
}

const maxJoinSplits = 8

// execRegionX runs the blocks of region (nil = whole function) starting at start, whose phis and loop
// header handling are assumed done by the caller. Edges that leave the region are appended to exits.
func (vc *VC) execRegionX(fr *frame, start *ssa.BasicBlock, region map[*ssa.BasicBlock]bool, st0 *State, exits *[]edgeIn) []retRec {
	fn := fr.fn
	order := topoOrder(fn)
	incoming := map[*ssa.BasicBlock][]edgeIn{}
	handled := map[*ssa.BasicBlock]bool{}
	var rets []retRec
	started := false
	setPhis := func(b *ssa.BasicBlock, in edgeIn) {
		for _, instr := range b.Instrs {
			phi, ok := instr.(*ssa.Phi)
			if !ok {
				break
			}
			fr.env[phi] = in.phis[phi]
		}
	}
	for _, b := range order {
		if region != nil && !region[b] {
			continue
		}
		if handled[b] {
			continue
		}
		var st *State
		var ins []edgeIn
		if b == start {
			st = st0
			started = true
		} else {
			if !started {
				continue
			}
			ins = incoming[b]
			if len(ins) == 0 {
				continue
			}
			_, isRet := b.Instrs[len(b.Instrs)-1].(*ssa.Return)
			split := fr.top && vc.dry == 0 && len(ins) > 1 && !isLoopHeader(b) && os.Getenv("GOVC_NOSPLIT") == "" && !(vc.contract != nil && vc.contract.NoSplit)
			// a return block reached over several edges is executed once per edge, and a join block is
			// split the same way while the budget lasts (bounded path splitting): obligations are then
			// checked against each incoming state instead of an ite-merged heap, which keeps the incoming
			// heap versions visible to quantifier instantiation.
			if split && isRet && len(ins) <= 16 {
				for _, in := range ins {
					est := &State{pc: in.cond, heap: in.st.heap.Clone()}
					setPhis(b, in)
					term := vc.execInstrs(fr, b, est)
					if t, ok := term.(*ssa.Return); ok {
						var vals []Value
						for _, r := range t.Results {
							vals = append(vals, vc.valueOf(fr, r))
						}
						vc.atReturn(fr, est, vals, t)
						rets = append(rets, retRec{est, vals})
					}
				}
				continue
			}
			if split && len(ins) <= 4 && fr.splits+len(ins) <= maxJoinSplits {
				sub := dominatedRegion(fn, b, region)
				simple := len(sub) <= 24
				for blk := range sub {
					if isLoopHeader(blk) {
						simple = false // loops are not duplicated
					}
					for _, in := range blk.Instrs {
						if ci, ok := in.(ssa.CallInstruction); ok {
							for _, a := range ci.Common().Args {
								if _, isMC := a.(*ssa.MakeClosure); isMC {
									simple = false // nor are expanded iterations
								}
							}
						}
					}
				}
				if simple {
					fr.splits += len(ins)
					for blk := range sub {
						handled[blk] = true
					}
					for _, in := range ins {
						est := &State{pc: in.cond, heap: in.st.heap.Clone()}
						setPhis(b, in)
						var out []edgeIn
						rets = append(rets, vc.execRegionX(fr, b, sub, est, &out)...)
						for _, e := range out {
							if region != nil && !region[e.to] {
								if exits != nil {
									*exits = append(*exits, e)
								}
								continue
							}
							incoming[e.to] = append(incoming[e.to], e)
						}
					}
					continue
				}
			}
			var conds []Term
			var heaps []*Heap
			for _, in := range ins {
				conds = append(conds, in.cond)
				heaps = append(heaps, in.st.heap)
			}
			pc := vc.script.Define(fmt.Sprintf("pc:%s.b%d", fn.Name(), b.Index), Or(conds...))
			st = &State{pc: pc, heap: vc.mergeHeaps(conds, heaps)}
			for _, instr := range b.Instrs {
				phi, ok := instr.(*ssa.Phi)
				if !ok {
					break
				}
				var v Value
				first := true
				for i := len(ins) - 1; i >= 0; i-- {
					ev := ins[i].phis[phi]
					if first {
						v, first = ev, false
					} else {
						v = vc.iteValue(ins[i].cond, ev, v)
					}
				}
				fr.env[phi] = vc.defineValue(phi.Name()+":"+phi.Comment, v)
			}
			if isLoopHeader(b) {
				vc.loopHeader(fr, b, st)
			}
		}
		term := vc.execInstrs(fr, b, st)
		follow := func(to *ssa.BasicBlock, cond Term) {
			if region != nil && to == start && isBackEdge(b, to) && exits == nil {
				return // back edge of the loop being dry-run
			}
			if region != nil && !region[to] {
				if exits != nil && !isBackEdge(b, to) {
					e := vc.mkEdge(fr, b, to, st, cond)
					*exits = append(*exits, e)
				} else if exits != nil {
					vc.flow(fr, b, to, st, cond, incoming) // back edge to an enclosing loop header: checked right here
				}
				return
			}
			vc.flow(fr, b, to, st, cond, incoming)
		}
		switch t := term.(type) {
		case *ssa.If:
			c := vc.toTerm(vc.valueOf(fr, t.Cond))
			follow(b.Succs[0], And(st.pc, c))
			follow(b.Succs[1], And(st.pc, Not(c)))
		case *ssa.Jump:
			follow(b.Succs[0], st.pc)
		case *ssa.Return:
			var vals []Value
			for _, r := range t.Results {
				vals = append(vals, vc.valueOf(fr, r))
			}
			if fr.top && vc.dry == 0 {
				vc.atReturn(fr, st, vals, t)
			}
			rets = append(rets, retRec{st, vals})
		case *ssa.Panic:
			vc.oblige(st, "safe", "safe.panic@"+vc.posHint(fr, t), vc.posString(t.Pos()), False)
		}
	}
	return rets
}

// ---------------------------------------------------------------------------------------------
// Monitors (lock discipline)

func (vc *VC) setupMonitor() {
	recv := vc.top.Signature.Recv()
	root := vc.top
	for root.Parent() != nil {
		root = root.Parent()
	}
	recv = root.Signature.Recv()
	if recv == nil {
		return
	}
	t := recv.Type()
	if p, ok := types.Unalias(t).(*types.Pointer); ok {
		t = p.Elem()
	}
	tk := typeKey(t)
	for _, m := range vc.w.monitors {
		if m.Pkg+"."+m.TypeName == tk {
			vc.monitor = m
			vc.lockComp = tk + "." + m.LockField + ".state"
			vc.registerComp(vc.lockComp, compInfo{Sort: ArrSort(SInt, SInt), Depth: 1, Ghost: true})
		}
	}
}

// callsViaCheck: interface methods of a guarded field of a struct-valued receiver (a wrapper such as
// threadSafeDuplex) may only be invoked while the wrapper's mutex is held.
func (vc *VC) callsViaCheck(fr *frame, st *State, site ssa.Instruction, recv Term) {
	if vc.monitor == nil || len(vc.monitor.CallsVia) == 0 || vc.recvStruct == nil {
		return
	}
	for _, f := range vc.monitor.CallsVia {
		fv, ok := vc.recvStruct.F[f].(Term)
		if !ok {
			continue
		}
		lockPtr, ok := vc.recvStruct.F[vc.monitor.LockField]
		if !ok {
			continue
		}
		lt, isPtr := lockPtr.(PtrVal)
		if !isPtr {
			continue
		}
		loc := vc.lockStateLoc(Loc{canonicalPrefix(lt.Elem), lt.Loc.Idx})
		state := vc.readCell(st.heap, loc)
		// semantic: if the receiver of this call is the guarded field, the mutex must be held
		vc.oblige(st, "lock", fmt.Sprintf("lock.held[%s]@%s", f, vc.posHint(fr, site)), vc.posString(site.Pos()), Implies(Eq(recv, fv), Eq(state, IntLit(2))))
	}
}

// monitorLockState: the state term of the monitor's lock for the receiver of the function under verification.
func (vc *VC) monitorLockState(st *State) (Term, bool) {
	if vc.monitor == nil {
		return Term{}, false
	}
	if vc.recvStruct != nil {
		if lockPtr, ok := vc.recvStruct.F[vc.monitor.LockField]; ok {
			if lt, isPtr := lockPtr.(PtrVal); isPtr {
				return vc.readCell(st.heap, vc.lockStateLoc(Loc{canonicalPrefix(lt.Elem), lt.Loc.Idx})), true
			}
		}
		return Term{}, false
	}
	if vc.recvTerm.IsZero() || vc.lockComp == "" {
		return Term{}, false
	}
	return Select(vc.hget(st.heap, vc.lockComp), vc.recvTerm), true
}

// panicSafeCheck: code the CALLER supplied (a function-typed parameter of the function under verification, invoked
// here or handed on to a callee that will invoke it) may panic or end its goroutine. If the monitor's lock is held at
// such a call, its release has to be a deferred call - an Unlock that is an ordinary statement after the call is never
// reached, and every later operation on the object blocks for ever.
func (vc *VC) panicSafeCheck(fr *frame, st *State, site ssa.Instruction, c *ssa.CallCommon) {
	if vc.monitor == nil || !fr.top || vc.dry != 0 {
		return
	}
	isFuncParam := func(v ssa.Value) bool {
		p, ok := v.(*ssa.Parameter)
		if !ok {
			return false
		}
		_, isSig := types.Unalias(p.Type()).Underlying().(*types.Signature)
		return isSig
	}
	supplied := isFuncParam(c.Value)
	for _, a := range c.Args {
		supplied = supplied || isFuncParam(a)
	}
	if !supplied {
		return
	}
	for _, d := range fr.defers {
		if callee := d.call.Call.StaticCallee(); callee != nil {
			switch callee.Name() {
			case "Unlock", "RUnlock":
				return
			}
		}
	}
	state, ok := vc.monitorLockState(st)
	if !ok {
		return
	}
	vc.oblige(st, "lock", "lock.panicsafe@"+vc.posHint(fr, site), vc.posString(site.Pos()), Eq(state, Zero))
}

func (vc *VC) guardedComp(comp string) bool {
	if vc.monitor == nil {
		return false
	}
	for _, g := range vc.monitor.Guards {
		if g == comp {
			return true
		}
	}
	return false
}

func (vc *VC) guardCheck(fr *frame, st *State, loc Loc, write bool, in ssa.Instruction) {
	if vc.monitor == nil || !vc.guardedComp(loc.Prefix) {
		return
	}
	vc.guardOblige(fr, st, loc.Prefix, write, in)
}

func (vc *VC) guardCheckComp(fr *frame, st *State, comp string, idx Term, write bool, in ssa.Instruction) {
	if vc.monitor == nil || !vc.guardedComp(comp) {
		return
	}
	vc.guardOblige(fr, st, comp, write, in)
}

func (vc *VC) guardOblige(fr *frame, st *State, comp string, write bool, in ssa.Instruction) {
	if vc.recvTerm.IsZero() {
		return
	}
	state := Select(vc.hget(st.heap, vc.lockComp), vc.recvTerm)
	short := comp[strings.LastIndex(comp, "/")+1:]
	if write {
		vc.oblige(st, "lock", fmt.Sprintf("lock.write[%s]@%s", short, vc.posHint(fr, in)), vc.posString(in.Pos()), Eq(state, IntLit(2)))
	} else {
		vc.oblige(st, "lock", fmt.Sprintf("lock.read[%s]@%s", short, vc.posHint(fr, in)), vc.posString(in.Pos()), Ge(state, One))
	}
}

func (vc *VC) lockStateLoc(l Loc) Loc {
	name := l.Prefix + ".state"
	vc.registerComp(name, compInfo{Sort: nestSort(SInt, len(l.Idx)), Depth: len(l.Idx), Ghost: true})
	return Loc{name, l.Idx}
}
