package main

import (
	"fmt"
	"strconv"
	"strings"
	"unicode"
)

// ---------------------------------------------------------------------------------------------
// GoCL: the contract language. Contracts are //@ comment lines in <pkg>/verif_contracts.go
// (build tag verif, comments only) and in /verif/specs/*.gocl (trusted specs of externals).

type Expr interface{}

type (
	EIdent struct{ Name string }
	EInt   struct{ V string }
	EBool  struct{ V bool }
	ENil   struct{}
	EStr   struct{ V string }
	EUnary struct {
		Op string
		X  Expr
	}
	EBinary struct {
		Op   string
		X, Y Expr
	}
	ECall struct {
		Fn   string
		Args []Expr
	}
	ESel struct {
		X    Expr
		Name string
	}
	EIndex  struct{ X, I Expr }
	EUpdate struct{ X, K, V Expr }
	ESlice  struct{ X, Lo, Hi Expr }
	EAssert struct {
		X Expr
		T *TypeExpr
	}
	EQuant struct {
		Forall    bool
		Vars      []QVar
		Body      Expr
		Patterns  [][]Expr
		Witnesses []Expr // candidate witnesses for the (single) variable of an existential
	}
	ESetLit struct{ Elems []Expr }
	ECond   struct{ C, A, B Expr }
	ETypeIs struct { // typeof(x) == T
		X Expr
		T *TypeExpr
	}
	ESetComp struct { // setof v T :: P(v)
		Var  QVar
		Body Expr
	}
)

type QVar struct {
	Name string
	T    *TypeExpr
}

type TypeExpr struct {
	Kind string // ptr slice map set seq name
	Pkg  string
	Name string
	Elem *TypeExpr
	Key  *TypeExpr
}

func (t *TypeExpr) String() string {
	if t == nil {
		return "<nil>"
	}
	switch t.Kind {
	case "ptr":
		return "*" + t.Elem.String()
	case "slice":
		return "[]" + t.Elem.String()
	case "map":
		return "map[" + t.Key.String() + "]" + t.Elem.String()
	case "set", "seq":
		return t.Kind + "[" + t.Elem.String() + "]"
	case "chan":
		return "chan " + t.Elem.String()
	case "array":
		return "[" + t.Name + "]" + t.Elem.String()
	}
	if t.Pkg != "" {
		return t.Pkg + "." + t.Name
	}
	return t.Name
}

// ---------------------------------------------------------------------------------------------
// Lexer

type tok struct {
	kind string // id int str op eof
	text string
	pos  int
}

type lexer struct {
	src  string
	toks []tok
	p    int
}

var ops3 = []string{"<==>", "==>", "...", ":=", "::", "==", "!=", "<=", ">=", "&&", "||", ".."}

func lex(src string) ([]tok, error) {
	var toks []tok
	i := 0
	for i < len(src) {
		c := rune(src[i])
		switch {
		case unicode.IsSpace(c):
			i++
		case unicode.IsLetter(c) || c == '_':
			j := i
			for j < len(src) && (unicode.IsLetter(rune(src[j])) || unicode.IsDigit(rune(src[j])) || src[j] == '_' || src[j] == '$') {
				j++
			}
			toks = append(toks, tok{"id", src[i:j], i})
			i = j
		case unicode.IsDigit(c):
			j := i
			for j < len(src) && unicode.IsDigit(rune(src[j])) {
				j++
			}
			toks = append(toks, tok{"int", src[i:j], i})
			i = j
		case c == '"':
			j := i + 1
			for j < len(src) && src[j] != '"' {
				if src[j] == '\\' {
					j++
				}
				j++
			}
			if j >= len(src) {
				return nil, fmt.Errorf("unterminated string at %d", i)
			}
			lit := src[i+1 : j]
			if strings.Contains(lit, "\\") {
				if u, err := strconv.Unquote(src[i : j+1]); err == nil {
					lit = u
				}
			}
			toks = append(toks, tok{"str", lit, i})
			i = j + 1
		default:
			matched := false
			for _, op := range ops3 {
				if strings.HasPrefix(src[i:], op) {
					toks = append(toks, tok{"op", op, i})
					i += len(op)
					matched = true
					break
				}
			}
			if !matched {
				toks = append(toks, tok{"op", string(c), i})
				i++
			}
		}
	}
	toks = append(toks, tok{"eof", "", len(src)})
	return toks, nil
}

type parser struct {
	toks []tok
	p    int
	src  string
}

func (p *parser) peek() tok { return p.toks[p.p] }
func (p *parser) next() tok {
	t := p.toks[p.p]
	if p.p < len(p.toks)-1 {
		p.p++
	}
	return t
}
func (p *parser) isOp(s string) bool { t := p.peek(); return t.kind == "op" && t.text == s }
func (p *parser) isID(s string) bool { t := p.peek(); return t.kind == "id" && t.text == s }
func (p *parser) accept(s string) bool {
	if p.isOp(s) {
		p.next()
		return true
	}
	return false
}
func (p *parser) expect(s string) {
	if !p.accept(s) {
		panic(fmt.Errorf("expected %q at %d in %q (got %q)", s, p.peek().pos, p.src, p.peek().text))
	}
}

func parseExprString(src string) (e Expr, err error) {
	defer func() {
		if r := recover(); r != nil {
			if er, ok := r.(error); ok {
				err = er
				return
			}
			panic(r)
		}
	}()
	toks, err := lex(src)
	if err != nil {
		return nil, err
	}
	p := &parser{toks: toks, src: src}
	e = p.parseExpr(0)
	if p.peek().kind != "eof" {
		return nil, fmt.Errorf("trailing input at %d in %q", p.peek().pos, src)
	}
	return e, nil
}

// binary operator precedences (higher binds tighter)
func binPrec(t tok) (int, bool) {
	if t.kind == "op" {
		switch t.text {
		case "<==>":
			return 1, true
		case "==>":
			return 2, true
		case "||":
			return 3, true
		case "&&":
			return 4, true
		case "==", "!=", "<", "<=", ">", ">=":
			return 5, true
		case "+", "-":
			return 7, true
		case "*", "/", "%":
			return 8, true
		}
	}
	if t.kind == "id" {
		switch t.text {
		case "in", "subset":
			return 5, true
		case "union", "minus", "inter":
			return 6, true
		}
	}
	return 0, false
}

func (p *parser) parseExpr(minPrec int) Expr {
	// quantifiers extend as far as possible
	if p.isID("forall") || p.isID("exists") {
		return p.parseQuant()
	}
	if p.isID("setof") {
		p.next()
		name := p.next()
		ty := p.parseType()
		p.expect("::")
		body := p.parseExpr(0)
		return ESetComp{Var: QVar{name.text, ty}, Body: body}
	}
	lhs := p.parseUnary()
	for {
		t := p.peek()
		if t.kind == "op" && t.text == "?" && minPrec <= 0 {
			p.next()
			a := p.parseExpr(0)
			p.expect(":")
			b := p.parseExpr(0)
			lhs = ECond{lhs, a, b}
			continue
		}
		prec, ok := binPrec(t)
		if !ok || prec < minPrec {
			return lhs
		}
		p.next()
		var rhs Expr
		if t.text == "==>" { // right associative
			rhs = p.parseExpr(prec)
		} else {
			rhs = p.parseExpr(prec + 1)
		}
		lhs = EBinary{t.text, lhs, rhs}
	}
}

func (p *parser) parseQuant() Expr {
	q := p.next()
	var vars []QVar
	for {
		name := p.next()
		if name.kind != "id" {
			panic(fmt.Errorf("quantifier variable expected at %d in %q", name.pos, p.src))
		}
		// allow "x, y T"
		names := []string{name.text}
		for p.isOp(",") {
			// lookahead: "x, y T ::" vs "x T, y U ::" — a comma directly after a name means shared type
			p.next()
			n2 := p.next()
			names = append(names, n2.text)
		}
		ty := p.parseType()
		for _, n := range names {
			vars = append(vars, QVar{n, ty})
		}
		if p.accept(";") {
			continue
		}
		break
	}
	p.expect("::")
	var pats [][]Expr
	var witnesses []Expr
	for p.isOp("{") && p.toks[p.p+1].kind == "op" && p.toks[p.p+1].text == ":" {
		// {:pattern e1, e2}
		p.next()
		p.next()
		kw := p.next()
		if kw.text != "pattern" && kw.text != "witness" {
			panic(fmt.Errorf("expected pattern or witness at %d", kw.pos))
		}
		var pat []Expr
		for {
			pat = append(pat, p.parseExpr(0))
			if !p.accept(",") {
				break
			}
		}
		p.expect("}")
		if kw.text == "witness" {
			witnesses = append(witnesses, pat...)
		} else {
			pats = append(pats, pat)
		}
	}
	body := p.parseExpr(0)
	return EQuant{Forall: q.text == "forall", Vars: vars, Body: body, Patterns: pats, Witnesses: witnesses}
}

func (p *parser) parseType() *TypeExpr {
	t := p.peek()
	switch {
	case t.kind == "op" && t.text == "*":
		p.next()
		return &TypeExpr{Kind: "ptr", Elem: p.parseType()}
	case t.kind == "op" && t.text == "[":
		p.next()
		if p.peek().kind == "int" { // [N]T
			n := p.next().text
			p.expect("]")
			return &TypeExpr{Kind: "array", Name: n, Elem: p.parseType()}
		}
		p.expect("]")
		return &TypeExpr{Kind: "slice", Elem: p.parseType()}
	case t.kind == "op" && t.text == "...":
		p.next()
		return &TypeExpr{Kind: "slice", Elem: p.parseType()}
	case t.kind == "id" && t.text == "map":
		p.next()
		p.expect("[")
		k := p.parseType()
		p.expect("]")
		return &TypeExpr{Kind: "map", Key: k, Elem: p.parseType()}
	case t.kind == "id" && (t.text == "set" || t.text == "seq"):
		p.next()
		p.expect("[")
		e := p.parseType()
		p.expect("]")
		return &TypeExpr{Kind: t.text, Elem: e}
	case t.kind == "id" && t.text == "chan":
		p.next()
		if p.isOp("<") { // chan<- T
			p.next()
			p.expect("-")
		}
		return &TypeExpr{Kind: "chan", Elem: p.parseType()}
	case t.kind == "op" && t.text == "<": // <-chan T
		p.next()
		p.expect("-")
		if !p.isID("chan") {
			panic(fmt.Errorf("chan expected at %d in %q", p.peek().pos, p.src))
		}
		p.next()
		return &TypeExpr{Kind: "chan", Elem: p.parseType()}
	case t.kind == "id" && t.text == "func":
		p.next()
		p.skipBalanced("(", ")")
		// optional result type: a parenthesised list or a single type
		if p.isOp("(") {
			p.skipBalanced("(", ")")
		} else if tt := p.peek(); (tt.kind == "id" && tt.text != "requires") || (tt.kind == "op" && (tt.text == "*" || tt.text == "[")) {
			p.parseType()
		}
		return &TypeExpr{Kind: "name", Name: "func"}
	case t.kind == "id":
		p.next()
		te := &TypeExpr{Kind: "name", Name: t.text}
		if p.isOp(".") {
			p.next()
			n := p.next()
			te.Pkg, te.Name = t.text, n.text
		}
		if p.isOp("[") { // type arguments: skip
			p.skipBalanced("[", "]")
		}
		if te.Name == "struct" && p.isOp("{") {
			p.skipBalanced("{", "}")
		}
		return te
	}
	panic(fmt.Errorf("type expected at %d in %q", t.pos, p.src))
}

func (p *parser) skipBalanced(open, close string) {
	p.expect(open)
	depth := 1
	for depth > 0 {
		t := p.next()
		if t.kind == "eof" {
			panic(fmt.Errorf("unbalanced %s in %q", open, p.src))
		}
		if t.kind == "op" && t.text == open {
			depth++
		}
		if t.kind == "op" && t.text == close {
			depth--
		}
	}
}

func (p *parser) parseUnary() Expr {
	t := p.peek()
	if t.kind == "op" && (t.text == "!" || t.text == "-") {
		p.next()
		return EUnary{t.text, p.parseUnary()}
	}
	return p.parsePostfix(p.parsePrimary())
}

func (p *parser) parsePrimary() Expr {
	t := p.next()
	switch t.kind {
	case "int":
		return EInt{t.text}
	case "str":
		return EStr{t.text}
	case "id":
		switch t.text {
		case "true":
			return EBool{true}
		case "false":
			return EBool{false}
		case "nil":
			return ENil{}
		case "typeof":
			p.expect("(")
			x := p.parseExpr(0)
			p.expect(")")
			neg := false
			if p.accept("!=") {
				neg = true
			} else {
				p.expect("==")
			}
			ty := p.parseType()
			if neg {
				return EUnary{"!", ETypeIs{x, ty}}
			}
			return ETypeIs{x, ty}
		}
		if p.isOp("(") {
			p.next()
			var args []Expr
			if !p.isOp(")") {
				for {
					args = append(args, p.parseExpr(0))
					if !p.accept(",") {
						break
					}
				}
			}
			p.expect(")")
			return ECall{t.text, args}
		}
		return EIdent{t.text}
	case "op":
		switch t.text {
		case "(":
			e := p.parseExpr(0)
			p.expect(")")
			return e
		case "{":
			var elems []Expr
			if !p.isOp("}") {
				for {
					elems = append(elems, p.parseExpr(0))
					if !p.accept(",") {
						break
					}
				}
			}
			p.expect("}")
			return ESetLit{elems}
		}
	}
	panic(fmt.Errorf("unexpected %q at %d in %q", t.text, t.pos, p.src))
}

func (p *parser) parsePostfix(e Expr) Expr {
	for {
		switch {
		case p.isOp("."):
			p.next()
			if p.isOp("(") { // type assertion
				p.next()
				ty := p.parseType()
				p.expect(")")
				e = EAssert{e, ty}
				continue
			}
			n := p.next()
			if n.kind != "id" && n.kind != "int" {
				panic(fmt.Errorf("selector expected at %d in %q", n.pos, p.src))
			}
			// method-style spec call x.f(args) is sugar for f(x, args)
			if p.isOp("(") && n.kind == "id" {
				p.next()
				args := []Expr{e}
				if !p.isOp(")") {
					for {
						args = append(args, p.parseExpr(0))
						if !p.accept(",") {
							break
						}
					}
				}
				p.expect(")")
				e = ECall{n.text, args}
				continue
			}
			e = ESel{e, n.text}
		case p.isOp("["):
			p.next()
			if p.isOp("..") {
				p.next()
				hi := p.parseExpr(0)
				p.expect("]")
				e = ESlice{e, nil, hi}
				continue
			}
			i := p.parseExpr(0)
			switch {
			case p.accept(":="):
				v := p.parseExpr(0)
				p.expect("]")
				e = EUpdate{e, i, v}
			case p.accept(".."):
				var hi Expr
				if !p.isOp("]") {
					hi = p.parseExpr(0)
				}
				p.expect("]")
				e = ESlice{e, i, hi}
			default:
				p.expect("]")
				e = EIndex{e, i}
			}
		default:
			return e
		}
	}
}

// ---------------------------------------------------------------------------------------------
// Declarations

type Clause struct {
	Label string
	E     Expr
	Src   string
}

type ModLoc struct {
	Kind string // "loc" (lvalue expression), "contents" (map/slice contents of expr), "all" (whole component by name)
	E    Expr
	Comp string
	Src  string
}

type LoopContract struct {
	Ordinal    int
	Hint       string
	Invariants []Clause
}

type Param struct {
	Name string
	T    *TypeExpr
}

type FuncContract struct {
	Key         string // canonical: pkgpath.[Type.]Name
	File        string
	Extern      bool
	Interface   bool // contract of an interface method (used at invoke sites; nothing to verify)
	Trusted     bool
	Inline      bool
	Pure        bool // no heap effect at all
	NoSafety    bool // the zero-annotation safety sweep is not claimed for this function
	Opaque      bool // trusted contract whose body is never examined (not even for its write/allocation summary)
	Modular     bool // like Opaque at call sites, but verified against its body where it is listed
	NoSplit     bool // join blocks are merged instead of executed once per incoming edge (fewer, larger obligations)
	HavocAll    bool // "modifies everything": the callee may change any real heap location (ghost state is kept)
	RecvName    string
	ParamNames  []string // including receiver first, if any
	ResultNames []string
	Requires    []Clause
	Ensures     []Clause
	Modifies    []ModLoc
	HasModifies bool
	Allocates   []string // component prefixes the callee may initialise on fresh objects
	Loops       []*LoopContract
	Iters       []*LoopContract // invariants of expanded iteration-primitive calls, by ordinal
	Asserts     []Clause // extra call-site/at-exit assertions (unused for now)
	SigSrc      string
	GhostSets   []GhostSet // ghost assignments performed at every return
	FParams     map[string]*FuncContract // contracts of function-typed parameters, by parameter name
	// closures expanded at iteration primitives: invariants keyed by ordinal
	Iterates *IterSpec
}

// GhostSet is a ghost assignment "lhs := rhs" executed when the function returns.
type GhostSet struct {
	Lhs, Rhs Expr
	Src      string
}

// IterSpec marks a function as an iteration primitive: calling it with a closure runs the closure
// for each element of an abstract set, in unspecified or ascending order.
type IterSpec struct {
	Over      Expr // set-valued expression over the formals
	Ascending bool
	ParamIdx  int  // index of the closure parameter
	Yield     Expr // optional: the value handed to the delegate for element "it" (default: the element itself)
}

type PureFunc struct {
	Name   string
	Params []Param
	Ret    *TypeExpr
	Body   Expr
	Src    string
	Pkg    string
}

type GhostField struct {
	Alias string // explicit component name shared by several ghost fields ("as <comp>")
	Owner *TypeExpr
	Name  string
	T     *TypeExpr
	Pkg   string
	CF    *ContractFile
}

type MonitorDecl struct {
	Pkg       string
	TypeName  string // struct owning the lock
	LockField string
	CallsVia  []string // fields of the receiver struct whose interface methods may only be invoked with the lock held
	Guards    []string // component names (resolved later)
	GuardsSrc []string
	Atomics   []string
}

type GhostComp struct {
	Name string
	T    *TypeExpr
	Pkg  string
}

type ContractFile struct {
	GhostComps []GhostComp
	Path      string
	PkgPath   string            // package the file belongs to ("" for spec files)
	Imports   map[string]string // alias -> import path
	Ghosts    []GhostField
	Pures     []*PureFunc
	Axioms    []Clause
	Funcs     []*FuncContract
	Monitors  []*MonitorDecl
	PureCalls []string // extern functions declared heap-pure: "pkgpath.Name" or "pkgpath.Type.Name" (prefix match with *)
}

var declKeywords = map[string]bool{
	"import": true, "ghost": true, "pure": true, "axiom": true, "func": true, "extern": true,
	"requires": true, "ensures": true, "modifies": true, "allocates": true, "loop": true, "invariant": true,
	"inline": true, "trusted": true, "monitor": true, "guards": true, "atomics": true, "heappure": true,
	"iterates": true, "nomod": true, "ghostset": true, "iface": true, "iter": true, "callsvia": true, "fparam": true, "endfparam": true, "nosafety": true, "opaque": true, "modular": true, "nosplit": true,
}

// logicalLines extracts //@ lines and joins continuation lines (those not starting with a keyword).
func logicalLines(text string) []string {
	var out []string
	for _, raw := range strings.Split(text, "\n") {
		l := strings.TrimSpace(raw)
		if !strings.HasPrefix(l, "//@") {
			continue
		}
		l = strings.TrimSpace(l[3:])
		if l == "" {
			continue
		}
		if i := strings.Index(l, " //"); i >= 0 { // trailing comment
			l = strings.TrimSpace(l[:i])
		}
		first := l
		if i := strings.IndexAny(l, " \t("); i >= 0 {
			first = l[:i]
		}
		if declKeywords[first] || len(out) == 0 {
			out = append(out, l)
		} else {
			out[len(out)-1] += " " + l
		}
	}
	return out
}

func splitLabel(src string) (label, rest string) {
	// "name: expr" where name is an identifier and the colon is a single colon
	i := 0
	for i < len(src) && (unicode.IsLetter(rune(src[i])) || unicode.IsDigit(rune(src[i])) || src[i] == '_' || src[i] == '.') {
		i++
	}
	if i > 0 && i < len(src)-1 && src[i] == ':' && src[i+1] != ':' && src[i+1] != '=' {
		return src[:i], strings.TrimSpace(src[i+1:])
	}
	return "", src
}

func parseClause(src string) (Clause, error) {
	label, rest := splitLabel(src)
	e, err := parseExprString(rest)
	if err != nil {
		return Clause{}, err
	}
	return Clause{Label: label, E: e, Src: rest}, nil
}

// parseSignature parses "(recv T) Name(params) results" or "Name(params) results" or "Name$1(...)".
func parseSignature(src string, fc *FuncContract) (recvType *TypeExpr, name string, err error) {
	defer func() {
		if r := recover(); r != nil {
			if er, ok := r.(error); ok {
				err = er
				return
			}
			panic(r)
		}
	}()
	toks, lerr := lex(src)
	if lerr != nil {
		return nil, "", lerr
	}
	p := &parser{toks: toks, src: src}
	if p.isOp("(") {
		p.next()
		rn := p.next()
		fc.RecvName = rn.text
		if p.isOp(")") { // "(T)" without a name
			recvType = &TypeExpr{Kind: "name", Name: rn.text}
			fc.RecvName = "recv"
		} else {
			recvType = p.parseType()
		}
		p.expect(")")
		fc.ParamNames = append(fc.ParamNames, fc.RecvName)
	}
	n := p.next()
	name = n.text
	for p.isOp(".") { // pkg.Name or Type.Name
		p.next()
		name += "." + p.next().text
	}
	if p.isOp("[") {
		p.skipBalanced("[", "]")
	}
	if !p.isOp("(") {
		return recvType, name, nil
	}
	p.next()
	for !p.isOp(")") {
		pn := p.next()
		if pn.kind != "id" {
			return nil, "", fmt.Errorf("parameter name expected in %q", src)
		}
		names := []string{pn.text}
		for p.isOp(",") {
			p.next()
			names = append(names, p.next().text)
		}
		p.parseType()
		fc.ParamNames = append(fc.ParamNames, names...)
		if !p.accept(",") {
			break
		}
	}
	p.expect(")")
	// results
	if p.isOp("(") {
		p.next()
		for !p.isOp(")") {
			// either "name T" or "T"
			save := p.p
			first := p.next()
			isTypeKw := first.kind == "id" && (first.text == "map" || first.text == "func" || first.text == "chan" || first.text == "set" || first.text == "seq")
			if !isTypeKw && (first.kind == "id" && p.peek().kind != "op" || (first.kind == "id" && (p.isOp("*") || p.isOp("[")))) {
				// named result
				fc.ResultNames = append(fc.ResultNames, first.text)
				p.parseType()
			} else {
				p.p = save
				p.parseType()
				fc.ResultNames = append(fc.ResultNames, "")
			}
			if !p.accept(",") {
				break
			}
		}
		p.expect(")")
	} else if p.peek().kind != "eof" {
		p.parseType()
		fc.ResultNames = append(fc.ResultNames, "")
	}
	return recvType, name, nil
}

func ParseContractFile(path, pkgPath, text string) (*ContractFile, error) {
	cf := &ContractFile{Path: path, PkgPath: pkgPath, Imports: map[string]string{}}
	var cur *FuncContract
	var outerFn *FuncContract
	var curLoop *LoopContract
	var curMon *MonitorDecl
	lines := logicalLines(text)
	fail := func(l string, err error) error { return fmt.Errorf("%s: %q: %v", path, l, err) }
	for i := 0; i < len(lines); i++ {
		l := lines[i]
		kw := l
		rest := ""
		if j := strings.IndexAny(l, " \t("); j >= 0 {
			kw = l[:j]
			rest = strings.TrimSpace(l[j:])
		}
		switch kw {
		case "import":
			parts := strings.Fields(rest)
			if len(parts) != 2 {
				return nil, fail(l, fmt.Errorf("import alias \"path\""))
			}
			cf.Imports[parts[0]] = strings.Trim(parts[1], `"`)
		case "ghost":
			if strings.HasPrefix(rest, "comp ") {
				// ghost comp name type: a ghost component indexed by any reference-like value
				parts := strings.SplitN(strings.TrimSpace(rest[5:]), " ", 2)
				if len(parts) != 2 {
					return nil, fail(l, fmt.Errorf("ghost comp name type"))
				}
				ty, err := parseTypeString(strings.TrimSpace(parts[1]))
				if err != nil {
					return nil, fail(l, err)
				}
				cf.GhostComps = append(cf.GhostComps, GhostComp{Name: parts[0], T: ty, Pkg: pkgPath})
				continue
			}
			// ghost field T.name type
			r := strings.TrimSpace(strings.TrimPrefix(rest, "field"))
			sp := strings.IndexAny(r, " \t")
			if sp < 0 {
				return nil, fail(l, fmt.Errorf("ghost field T.name type"))
			}
			full := r[:sp]
			dot := strings.LastIndex(full, ".")
			ownerT, err := parseTypeString(full[:dot])
			if err != nil {
				return nil, fail(l, err)
			}
			tsrc := strings.TrimSpace(r[sp:])
			alias := ""
			if i := strings.Index(tsrc, " as "); i >= 0 {
				alias = strings.TrimSpace(tsrc[i+4:])
				tsrc = strings.TrimSpace(tsrc[:i])
			}
			ft, err := parseTypeString(tsrc)
			if err != nil {
				return nil, fail(l, err)
			}
			cf.Ghosts = append(cf.Ghosts, GhostField{Owner: ownerT, Name: full[dot+1:], T: ft, Pkg: pkgPath, Alias: alias})
		case "pure":
			// pure func name(params) type { body }
			r := strings.TrimSpace(strings.TrimPrefix(rest, "func"))
			ob := strings.Index(r, "{")
			cb := strings.LastIndex(r, "}")
			if ob < 0 || cb < ob {
				// no body: an uninterpreted (heap independent) specification function
				pf := &PureFunc{Pkg: pkgPath}
				if err := parsePureHead(strings.TrimSpace(r), pf); err != nil {
					return nil, fail(l, err)
				}
				if pf.Ret == nil {
					return nil, fail(l, fmt.Errorf("uninterpreted spec function needs a result type"))
				}
				cf.Pures = append(cf.Pures, pf)
				continue
			}
			head, body := strings.TrimSpace(r[:ob]), strings.TrimSpace(r[ob+1:cb])
			body = strings.TrimPrefix(body, "return ")
			pf := &PureFunc{Src: body, Pkg: pkgPath}
			if err := parsePureHead(head, pf); err != nil {
				return nil, fail(l, err)
			}
			e, err := parseExprString(body)
			if err != nil {
				return nil, fail(l, err)
			}
			pf.Body = e
			cf.Pures = append(cf.Pures, pf)
		case "axiom":
			c, err := parseClause(rest)
			if err != nil {
				return nil, fail(l, err)
			}
			cf.Axioms = append(cf.Axioms, c)
		case "heappure":
			for _, n := range strings.Split(rest, ",") {
				cf.PureCalls = append(cf.PureCalls, strings.TrimSpace(n))
			}
		case "func", "extern", "iface":
			sig := rest
			ext := kw == "extern"
			if ext || kw == "iface" {
				sig = strings.TrimSpace(strings.TrimPrefix(sig, "func"))
			}
			fc := &FuncContract{Extern: ext, Trusted: ext, Interface: kw == "iface", File: path, SigSrc: sig}
			recvT, name, err := parseSignature(sig, fc)
			if err != nil {
				return nil, fail(l, err)
			}
			fc.Key = contractKey(cf, recvT, name)
			cf.Funcs = append(cf.Funcs, fc)
			cur, curLoop, curMon, outerFn = fc, nil, nil, nil
		case "fparam":
			if cur == nil {
				return nil, fail(l, fmt.Errorf("fparam outside func"))
			}
			owner := cur
			if outerFn != nil {
				owner = outerFn
			}
			fc := &FuncContract{File: path, SigSrc: rest, Trusted: true}
			_, name, err := parseSignature(rest, fc)
			if err != nil {
				return nil, fail(l, err)
			}
			fc.Key = owner.Key + "$fparam:" + name
			if owner.FParams == nil {
				owner.FParams = map[string]*FuncContract{}
			}
			owner.FParams[name] = fc
			outerFn = owner
			cur, curLoop = fc, nil
		case "endfparam":
			if outerFn != nil {
				cur, outerFn, curLoop = outerFn, nil, nil
			}
		case "requires", "ensures", "invariant":
			c, err := parseClause(rest)
			if err != nil {
				return nil, fail(l, err)
			}
			switch {
			case kw == "invariant" && curLoop != nil:
				curLoop.Invariants = append(curLoop.Invariants, c)
			case kw == "invariant":
				return nil, fail(l, fmt.Errorf("invariant outside loop"))
			case cur == nil:
				return nil, fail(l, fmt.Errorf("clause outside func"))
			case kw == "requires":
				cur.Requires = append(cur.Requires, c)
			default:
				cur.Ensures = append(cur.Ensures, c)
			}
		case "modifies":
			if cur == nil {
				return nil, fail(l, fmt.Errorf("modifies outside func"))
			}
			cur.HasModifies = true
			for _, part := range splitTop(rest, ',') {
				part = strings.TrimSpace(part)
				if part == "" || part == "nothing" {
					continue
				}
				if part == "everything" {
					cur.HavocAll = true
					continue
				}
				ml := ModLoc{Src: part}
				switch {
				case strings.HasPrefix(part, "all(") && strings.HasSuffix(part, ")"):
					ml.Kind, ml.Comp = "all", strings.TrimSpace(part[4:len(part)-1])
				case strings.HasPrefix(part, "setview(") && strings.HasSuffix(part, ")"):
					e, err := parseExprString(part[8 : len(part)-1])
					if err != nil {
						return nil, fail(l, err)
					}
					ml.Kind, ml.E = "setview", e
				case strings.HasPrefix(part, "contents(") && strings.HasSuffix(part, ")"):
					e, err := parseExprString(part[9 : len(part)-1])
					if err != nil {
						return nil, fail(l, err)
					}
					ml.Kind, ml.E = "contents", e
				default:
					e, err := parseExprString(part)
					if err != nil {
						return nil, fail(l, err)
					}
					ml.Kind, ml.E = "loc", e
				}
				cur.Modifies = append(cur.Modifies, ml)
			}
		case "nomod":
			if cur != nil {
				cur.HasModifies = true
			}
		case "ghostset":
			if cur == nil {
				return nil, fail(l, fmt.Errorf("ghostset outside func"))
			}
			parts := strings.SplitN(rest, ":=", 2)
			if len(parts) != 2 {
				return nil, fail(l, fmt.Errorf("ghostset lhs := rhs"))
			}
			lhs, err := parseExprString(strings.TrimSpace(parts[0]))
			if err != nil {
				return nil, fail(l, err)
			}
			rhs, err := parseExprString(strings.TrimSpace(parts[1]))
			if err != nil {
				return nil, fail(l, err)
			}
			cur.GhostSets = append(cur.GhostSets, GhostSet{lhs, rhs, rest})
		case "allocates":
			if cur == nil {
				return nil, fail(l, fmt.Errorf("allocates outside func"))
			}
			for _, part := range strings.Split(rest, ",") {
				cur.Allocates = append(cur.Allocates, strings.TrimSpace(part))
			}
		case "loop", "iter":
			if cur == nil {
				return nil, fail(l, fmt.Errorf("loop outside func"))
			}
			lc := &LoopContract{}
			parts := strings.SplitN(rest, " ", 2)
			fmt.Sscanf(parts[0], "%d", &lc.Ordinal)
			if len(parts) > 1 {
				lc.Hint = strings.Trim(strings.TrimSpace(parts[1]), `"`)
			}
			if kw == "iter" {
				cur.Iters = append(cur.Iters, lc)
			} else {
				cur.Loops = append(cur.Loops, lc)
			}
			curLoop = lc
		case "inline":
			if cur != nil {
				cur.Inline = true
			}
		case "nosafety":
			if cur != nil {
				cur.NoSafety = true
			}
		case "trusted":
			if cur != nil {
				cur.Trusted = true
			}
		case "nosplit":
			if cur != nil {
				cur.NoSplit = true
			}
		case "opaque":
			if cur != nil {
				cur.Trusted, cur.Opaque = true, true
				cur.HasModifies = true
			}
		case "modular":
			// at call sites only the contract is used (as for opaque: the body is not examined for a write or
			// allocation summary), but the function is verified against it like any other function under contract.
			// A use in a check that does not verify the function is listed as a trusted contract in that check.
			if cur != nil {
				cur.Opaque, cur.Modular = true, true
				cur.HasModifies = true
			}
		case "iterates":
			if cur == nil {
				return nil, fail(l, fmt.Errorf("iterates outside func"))
			}
			// iterates [ascending] <setexpr> with <param>
			asc := false
			r := rest
			if strings.HasPrefix(r, "ascending ") {
				asc = true
				r = strings.TrimSpace(r[len("ascending "):])
			}
			w := strings.LastIndex(r, " with ")
			if w < 0 {
				return nil, fail(l, fmt.Errorf("iterates <set> with <param>"))
			}
			e, err := parseExprString(strings.TrimSpace(r[:w]))
			if err != nil {
				return nil, fail(l, err)
			}
			pn := strings.TrimSpace(r[w+6:])
			var yield Expr
			if y := strings.Index(pn, " yielding "); y >= 0 {
				ye, err := parseExprString(strings.TrimSpace(pn[y+10:]))
				if err != nil {
					return nil, fail(l, err)
				}
				yield = ye
				pn = strings.TrimSpace(pn[:y])
			}
			idx := -1
			for k, n := range cur.ParamNames {
				if n == pn {
					idx = k
				}
			}
			if idx < 0 {
				return nil, fail(l, fmt.Errorf("iterates: unknown parameter %s", pn))
			}
			cur.Iterates = &IterSpec{Over: e, Ascending: asc, ParamIdx: idx, Yield: yield}
		case "monitor":
			// monitor Type.lockField
			dot := strings.LastIndex(rest, ".")
			if dot < 0 {
				return nil, fail(l, fmt.Errorf("monitor Type.field"))
			}
			curMon = &MonitorDecl{Pkg: pkgPath, TypeName: rest[:dot], LockField: rest[dot+1:]}
			cf.Monitors = append(cf.Monitors, curMon)
			cur = nil
		case "guards":
			if curMon == nil {
				return nil, fail(l, fmt.Errorf("guards outside monitor"))
			}
			for _, g := range strings.Split(rest, ",") {
				curMon.GuardsSrc = append(curMon.GuardsSrc, strings.TrimSpace(g))
			}
		case "callsvia":
			if curMon == nil {
				return nil, fail(l, fmt.Errorf("callsvia outside monitor"))
			}
			for _, g := range strings.Split(rest, ",") {
				curMon.CallsVia = append(curMon.CallsVia, strings.TrimSpace(g))
			}
		case "atomics":
			if curMon == nil {
				return nil, fail(l, fmt.Errorf("atomics outside monitor"))
			}
			for _, g := range strings.Split(rest, ",") {
				curMon.Atomics = append(curMon.Atomics, strings.TrimSpace(g))
			}
		default:
			return nil, fail(l, fmt.Errorf("unknown keyword %q", kw))
		}
	}
	return cf, nil
}

func splitTop(s string, sep rune) []string {
	var out []string
	depth := 0
	start := 0
	for i, c := range s {
		switch c {
		case '(', '[', '{':
			depth++
		case ')', ']', '}':
			depth--
		default:
			if c == sep && depth == 0 {
				out = append(out, s[start:i])
				start = i + 1
			}
		}
	}
	return append(out, s[start:])
}

func parseTypeString(s string) (t *TypeExpr, err error) {
	defer func() {
		if r := recover(); r != nil {
			if er, ok := r.(error); ok {
				err = er
				return
			}
			panic(r)
		}
	}()
	toks, lerr := lex(s)
	if lerr != nil {
		return nil, lerr
	}
	p := &parser{toks: toks, src: s}
	t = p.parseType()
	return t, nil
}

func parsePureHead(head string, pf *PureFunc) (err error) {
	defer func() {
		if r := recover(); r != nil {
			if er, ok := r.(error); ok {
				err = er
				return
			}
			panic(r)
		}
	}()
	toks, lerr := lex(head)
	if lerr != nil {
		return lerr
	}
	p := &parser{toks: toks, src: head}
	pf.Name = p.next().text
	if p.isOp("[") {
		p.skipBalanced("[", "]")
	}
	p.expect("(")
	for !p.isOp(")") {
		names := []string{p.next().text}
		for p.isOp(",") {
			p.next()
			names = append(names, p.next().text)
		}
		ty := p.parseType()
		for _, n := range names {
			pf.Params = append(pf.Params, Param{n, ty})
		}
		if !p.accept(",") {
			break
		}
	}
	p.expect(")")
	if p.peek().kind != "eof" {
		pf.Ret = p.parseType()
	}
	return nil
}

// contractKey canonicalises the function name of a contract.
func contractKey(cf *ContractFile, recv *TypeExpr, name string) string {
	resolvePkg := func(alias string) string {
		if p, ok := cf.Imports[alias]; ok {
			return p
		}
		return alias
	}
	if recv != nil {
		t := recv
		for t.Kind == "ptr" {
			t = t.Elem
		}
		pkg := cf.PkgPath
		if t.Pkg != "" {
			pkg = resolvePkg(t.Pkg)
		}
		return pkg + "." + t.Name + "." + name
	}
	if i := strings.Index(name, "."); i >= 0 {
		head := name[:i]
		if p, ok := cf.Imports[head]; ok {
			return p + "." + name[i+1:]
		}
		// Type.Method$1 style inside own package
		return cf.PkgPath + "." + name
	}
	return cf.PkgPath + "." + name
}
