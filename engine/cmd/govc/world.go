package main

import (
	"crypto/sha256"
	"fmt"
	"go/types"
	"os"
	"path/filepath"
	"sort"
	"strings"

	"golang.org/x/tools/go/packages"
	"golang.org/x/tools/go/ssa"
	"golang.org/x/tools/go/ssa/ssautil"
)

const repoModule = "github.com/specterops/dawgs"

// World is the loaded program plus all contracts.
type World struct {
	repoDir   string
	pkgs      []*packages.Package
	prog      *ssa.Program
	typesPkgs map[string]*types.Package
	funcs     map[string]*ssa.Function
	contracts map[string]*FuncContract
	pures     map[string]*PureFunc
	verifiedHere map[string]bool // functions verified in this run (modular contracts used elsewhere are trusted there)
	ghosts    map[string]SType
	ghostSrc  map[string]GhostField
	ghostAlias map[string]string
	axioms    []axiomDecl
	monitors  []*MonitorDecl
	heapPure  []string
	cfByPkg   map[string]*ContractFile
	files     []*ContractFile
	loadErrs  []string
	ghostComps  map[string]GhostComp
	copyBuiltin bool
	derived     *derivedInfo
}

type axiomDecl struct {
	c  Clause
	cf *ContractFile
}

func LoadWorld(repoDir string, specDir string, patterns []string) (*World, error) {
	cfg := &packages.Config{
		Mode:       packages.LoadAllSyntax,
		Dir:        repoDir,
		BuildFlags: []string{"-tags=verif"},
		Env:        append(os.Environ(), "GOFLAGS=-mod=mod", "GOPROXY=off", "GOSUMDB=off", "GOTOOLCHAIN=local"),
	}
	pkgs, err := packages.Load(cfg, patterns...)
	if err != nil {
		return nil, err
	}
	w := &World{repoDir: repoDir, pkgs: pkgs, typesPkgs: map[string]*types.Package{}, funcs: map[string]*ssa.Function{},
		contracts: map[string]*FuncContract{}, pures: map[string]*PureFunc{}, ghosts: map[string]SType{}, ghostSrc: map[string]GhostField{}, ghostAlias: map[string]string{},
		cfByPkg: map[string]*ContractFile{}}
	for _, p := range pkgs {
		for _, e := range p.Errors {
			w.loadErrs = append(w.loadErrs, e.Error())
		}
	}
	if len(w.loadErrs) > 0 {
		return nil, fmt.Errorf("package load errors: %s", strings.Join(w.loadErrs, "; "))
	}
	prog, _ := ssautil.AllPackages(pkgs, ssa.GlobalDebug)
	prog.Build()
	w.prog = prog
	packages.Visit(pkgs, nil, func(p *packages.Package) {
		if p.Types != nil {
			w.typesPkgs[p.PkgPath] = p.Types
		}
	})
	// index functions of the repository module (and keep externals addressable by key)
	for _, sp := range prog.AllPackages() {
		for _, m := range sp.Members {
			switch m := m.(type) {
			case *ssa.Function:
				w.indexFunc(m)
			case *ssa.Type:
				w.indexMethods(m.Type())
			}
		}
	}
	// contract files of the loaded repo packages
	packages.Visit(pkgs, nil, func(p *packages.Package) {
		if !strings.HasPrefix(p.PkgPath, repoModule) {
			return
		}
		for _, f := range p.GoFiles {
			if filepath.Base(f) != "verif_contracts.go" {
				continue
			}
			text, err := os.ReadFile(f)
			if err != nil {
				w.loadErrs = append(w.loadErrs, err.Error())
				continue
			}
			cf, err := ParseContractFile(f, p.PkgPath, string(text))
			if err != nil {
				w.loadErrs = append(w.loadErrs, err.Error())
				continue
			}
			w.addFile(cf)
			w.cfByPkg[p.PkgPath] = cf
		}
	})
	// trusted specs of externals
	specs, _ := filepath.Glob(filepath.Join(specDir, "*.gocl"))
	sort.Strings(specs)
	for _, f := range specs {
		text, err := os.ReadFile(f)
		if err != nil {
			return nil, err
		}
		cf, err := ParseContractFile(f, "", string(text))
		if err != nil {
			w.loadErrs = append(w.loadErrs, err.Error())
			continue
		}
		for _, fc := range cf.Funcs {
			fc.Extern, fc.Trusted = true, true
		}
		w.addFile(cf)
	}
	// an extern contract written in a repository contract file must name a function that exists (a missing import
	// line would otherwise silently turn it into a contract for nothing, and its callee into an unspecified call)
	for _, cf := range w.files {
		if cf.PkgPath == "" {
			continue
		}
		for _, fc := range cf.Funcs {
			if fc.Extern && !fc.Interface && w.funcs[fc.Key] == nil {
				w.loadErrs = append(w.loadErrs, fmt.Sprintf("%s: extern contract for unknown function %s (missing import line?)", cf.Path, fc.Key))
			}
		}
	}
	if len(w.loadErrs) > 0 {
		return nil, fmt.Errorf("contract errors: %s", strings.Join(w.loadErrs, "; "))
	}
	return w, nil
}

func (w *World) addFile(cf *ContractFile) {
	w.files = append(w.files, cf)
	for _, fc := range cf.Funcs {
		if _, dup := w.contracts[fc.Key]; dup {
			w.loadErrs = append(w.loadErrs, "duplicate contract for "+fc.Key)
		}
		w.contracts[fc.Key] = fc
	}
	for _, pf := range cf.Pures {
		w.pures[cf.PkgPath+"."+pf.Name] = pf
		if cf.PkgPath == "" {
			w.pures[pf.Name] = pf
		}
	}
	for _, ax := range cf.Axioms {
		w.axioms = append(w.axioms, axiomDecl{ax, cf})
	}
	w.monitors = append(w.monitors, cf.Monitors...)
	if w.ghostComps == nil {
		w.ghostComps = map[string]GhostComp{}
	}
	for _, g := range cf.GhostComps {
		w.ghostComps[g.Name] = g
	}
	w.heapPure = append(w.heapPure, cf.PureCalls...)
	for _, g := range cf.Ghosts {
		t := g.Owner
		for t.Kind == "ptr" {
			t = t.Elem
		}
		pkg := cf.PkgPath
		if t.Pkg != "" {
			pkg = t.Pkg
			if p, ok := cf.Imports[t.Pkg]; ok {
				pkg = p
			}
		}
		key := pkg + "." + t.Name + "." + g.Name
		g.Pkg = cf.PkgPath
		g.CF = cf
		if _, loaded := w.typesPkgs[pkg]; !loaded {
			continue // the owning package is not part of this load: the ghost field cannot be referenced
		}
		w.ghostSrc[key] = g
		if g.Alias != "" {
			w.ghostAlias[key] = g.Alias
		}
	}
}

func (w *World) lookupPure(pkgPath, name string) *PureFunc {
	if pf, ok := w.pures[pkgPath+"."+name]; ok {
		return pf
	}
	if pf, ok := w.pures[name]; ok {
		return pf
	}
	return nil
}

func (w *World) indexFunc(f *ssa.Function) {
	if f == nil {
		return
	}
	k := funcKey(f)
	if _, ok := w.funcs[k]; ok {
		return
	}
	w.funcs[k] = f
	for _, anon := range f.AnonFuncs {
		w.indexFunc(anon)
	}
}

func (w *World) indexMethods(t types.Type) {
	for _, tt := range []types.Type{t, types.NewPointer(t)} {
		ms := w.prog.MethodSets.MethodSet(tt)
		for i := 0; i < ms.Len(); i++ {
			sel := ms.At(i)
			if fn, ok := sel.Obj().(*types.Func); ok {
				if f := w.prog.FuncValue(fn); f != nil {
					w.indexFunc(f)
				}
			}
		}
	}
}

// funcKey gives the canonical key of an SSA function: pkgpath.[Type.]Name, generic origin,
// anonymous functions as Parent$N with the parent's type prefix.
func funcKey(f *ssa.Function) string {
	if o := f.Origin(); o != nil {
		f = o
	}
	if f.Parent() != nil {
		root := f
		for root.Parent() != nil {
			root = root.Parent()
		}
		rk := funcKey(root)
		// replace the last segment of the root key by the anonymous function's name
		i := strings.LastIndex(rk, ".")
		return rk[:i+1] + f.Name()
	}
	if recv := f.Signature.Recv(); recv != nil {
		t := recv.Type()
		if p, ok := types.Unalias(t).(*types.Pointer); ok {
			t = p.Elem()
		}
		return typeKey(t) + "." + f.Name()
	}
	if f.Pkg != nil {
		return f.Pkg.Pkg.Path() + "." + f.Name()
	}
	if f.Object() != nil && f.Object().Pkg() != nil {
		return f.Object().Pkg().Path() + "." + f.Name()
	}
	return f.Name()
}

func inRepo(f *ssa.Function) bool {
	if o := f.Origin(); o != nil {
		f = o
	}
	for f.Parent() != nil {
		f = f.Parent()
	}
	var p *types.Package
	if f.Pkg != nil {
		p = f.Pkg.Pkg
	} else if f.Object() != nil {
		p = f.Object().Pkg()
	}
	return p != nil && strings.HasPrefix(p.Path(), repoModule)
}

// ssaHash is a digest of the SSA text of a function: the object the conditions are generated from.
func ssaHash(f *ssa.Function) string {
	var b strings.Builder
	f.WriteTo(&b)
	return fmt.Sprintf("%x", sha256.Sum256([]byte(b.String())))[:16]
}
