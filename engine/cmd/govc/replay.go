package main

import (
	"encoding/json"
	"fmt"
	"go/types"
	"os"
	"os/exec"
	"path/filepath"
	"regexp"
	"strconv"
	"strings"
)

// Replay of a solver counterexample against the real code.
//
// Scope (stated in DESIGN.md I.3): a failed obligation whose solver verdict is `sat`, on a package-level function
// without receiver whose parameters are strings, integers and booleans (named types included) and whose results are
// strings, integers, booleans or errors. The parameter values are read from the solver's model (get-value on the
// parameter terms; a string is its length and its bytes), the real function is called with them in a test injected
// into its package with `go test -overlay`, and
//   - for a safety obligation the replay confirms the violation when the call panics;
//   - for a postcondition the clause is compiled to Go (identifiers, literals, comparison, boolean connectives,
//     integer arithmetic, string concatenation/indexing/len, bounded integer quantifiers, pure spec functions with
//     bodies, and the uninterpreted spec functions whose meaning is a standard-library function, see goBuiltins)
//     and evaluated on the real arguments and results inside the same test; the replay confirms the violation when
//     it evaluates to false.
// Everything else (heap-dependent contracts, quantified models the solvers answer with unknown/timeout) is reported
// without a failing input, as before.

type replayArg struct {
	Name  string `json:"name"`
	GoLit string `json:"go_literal"`
}

var goBuiltins = map[string]string{
	"replaceAll": "strings.ReplaceAll",
	"strcat2":    "verifCat",
	"trimmed":    "strings.TrimSpace",
	"itoa":       "strconv.Itoa",
	// specs/paths.gocl: each symbol names the result of the standard-library function on its arguments
	"strContains":   "strings.Contains",
	"strHasPrefix":  "strings.HasPrefix",
	"strHasSuffix":  "strings.HasSuffix",
	"pathClean":     "path.Clean",
	"isCleanPath":   "verifIsClean",
	"pathIsAbs":     "path.IsAbs",
	"filepathIsAbs": "filepath.IsAbs",
	"splitCount":    "verifSplitCount",
	"splitPart":     "verifSplitPart",
	"joinPath":      "verifJoin",
	"fromSlash":     "filepath.FromSlash",
	"dirOf":         "filepath.Dir",
}

const goBuiltinHelpers = `
var _ = strconv.Itoa
var _ = strings.TrimSpace
var _ = path.Clean
var _ = filepath.Join

var verifBound = int64(1)

func verifCat(a, b string) string { return a + b }
func verifIf(c bool, a, b func() any) any {
	if c {
		return a()
	}
	return b()
}
func verifIsClean(p string) bool               { return path.Clean(p) == p }
func verifSplitCount(s, sep string) int64      { return int64(len(strings.Split(s, sep))) }
func verifSplitPart(s, sep string, i int64) string { return strings.Split(s, sep)[i] }
func verifJoin(a, b string) string              { return filepath.Join(a, b) }
`

type goCompiler struct {
	w       *World
	pkgPath string
	vars    map[string]string // spec identifier -> Go expression
	kinds   map[string]string // spec identifier -> "string" | "int" | "bool" | "error"
	maxLen  string            // Go expression: bound for integer quantifiers
	helpers map[string]string // pure function name -> Go source of its definition
	err     error
	strBytes map[byte]bool // bytes of the string literals seen by collectLiterals
}

func (c *goCompiler) fail(format string, args ...any) string {
	if c.err == nil {
		c.err = fmt.Errorf(format, args...)
	}
	return "false"
}

func specKind(t *TypeExpr) string {
	if t == nil {
		return ""
	}
	switch t.Kind {
	case "name", "":
		switch t.Name {
		case "string":
			return "string"
		case "bool":
			return "bool"
		case "int", "int8", "int16", "int32", "int64", "uint", "uint8", "uint16", "uint32", "uint64", "uintptr", "byte", "rune":
			return "int"
		}
	}
	return ""
}

// expr compiles a GoCL expression to a Go expression. Integers are int64 throughout, strings are string.
func (c *goCompiler) expr(e Expr) string {
	switch x := e.(type) {
	case EIdent:
		if g, ok := c.vars[x.Name]; ok {
			return g
		}
		return c.fail("identifier %s is not a parameter or result", x.Name)
	case ESel:
		if id, ok := x.X.(EIdent); ok {
			if g, ok := c.vars[id.Name+"."+x.Name]; ok {
				return g
			}
		}
		return c.fail("selector .%s", x.Name)
	case EInt:
		return "int64(" + x.V + ")"
	case EBool:
		return strconv.FormatBool(x.V)
	case EStr:
		return strconv.Quote(x.V)
	case ENil:
		return "nil"
	case EUnary:
		switch x.Op {
		case "!":
			return "(!" + c.expr(x.X) + ")"
		case "-":
			return "(-" + c.expr(x.X) + ")"
		}
		return c.fail("unary %s", x.Op)
	case EBinary:
		l, r := c.expr(x.X), c.expr(x.Y)
		switch x.Op {
		case "==>":
			return "(!(" + l + ") || (" + r + "))"
		case "<==>":
			return "((" + l + ") == (" + r + "))"
		case "&&", "||", "==", "!=", "<", "<=", ">", ">=", "+", "-", "*":
			return "(" + l + " " + x.Op + " " + r + ")"
		}
		return c.fail("operator %s", x.Op)
	case ECond:
		return "verifIf(" + c.expr(x.C) + ", func() any { return " + c.expr(x.A) + " }, func() any { return " + c.expr(x.B) + " })"
	case EIndex:
		return "int64(" + c.expr(x.X) + "[" + c.expr(x.I) + "])"
	case ECall:
		switch x.Fn {
		case "len":
			return "int64(len(" + c.expr(x.Args[0]) + "))"
		case "substr":
			if len(x.Args) == 3 {
				return "(" + c.expr(x.Args[0]) + ")[" + c.expr(x.Args[1]) + ":" + c.expr(x.Args[2]) + "]"
			}
		case "old":
			// the functions in scope have no heap effect and parameters are values: old(e) == e
			return c.expr(x.Args[0])
		}
		var args []string
		for _, a := range x.Args {
			args = append(args, c.expr(a))
		}
		if pf := c.w.lookupPure(c.pkgPath, x.Fn); pf != nil && pf.Body != nil {
			c.pure(pf)
			return "verifPure_" + pf.Name + "(" + strings.Join(args, ", ") + ")"
		}
		if g, ok := goBuiltins[x.Fn]; ok {
			if x.Fn == "itoa" && len(args) == 1 {
				return "strconv.Itoa(int(" + args[0] + "))"
			}
			return g + "(" + strings.Join(args, ", ") + ")"
		}
		return c.fail("spec function %s has no executable meaning", x.Fn)
	case EQuant:
		// integer variables range over -1 .. bound (every index of every string in sight and one beyond either end)
		body := c.exprWith(x.Vars, x.Body)
		var b strings.Builder
		b.WriteString("func() bool {\n")
		for _, v := range x.Vars {
			if specKind(v.T) != "int" {
				return c.fail("quantifier over %s", v.T)
			}
			fmt.Fprintf(&b, "for %s := int64(-1); %s <= %s; %s++ {\n", "q_"+v.Name, "q_"+v.Name, c.maxLen, "q_"+v.Name)
		}
		if x.Forall {
			b.WriteString("if !(" + body + ") {\nreturn false\n}\n")
		} else {
			b.WriteString("if " + body + " {\nreturn true\n}\n")
		}
		for range x.Vars {
			b.WriteString("}\n")
		}
		if x.Forall {
			b.WriteString("return true\n}()")
		} else {
			b.WriteString("return false\n}()")
		}
		return b.String()
	}
	return c.fail("expression form %T", e)
}

func (c *goCompiler) exprWith(vars []QVar, body Expr) string {
	saved := map[string]string{}
	for _, v := range vars {
		saved[v.Name] = c.vars[v.Name]
		c.vars[v.Name] = "q_" + v.Name
	}
	out := c.expr(body)
	for _, v := range vars {
		if saved[v.Name] == "" {
			delete(c.vars, v.Name)
		} else {
			c.vars[v.Name] = saved[v.Name]
		}
	}
	return out
}

func (c *goCompiler) pure(pf *PureFunc) {
	if _, done := c.helpers[pf.Name]; done {
		return
	}
	c.helpers[pf.Name] = "" // recursion guard
	goT := map[string]string{"string": "string", "int": "int64", "bool": "bool"}
	var ps []string
	savedVars := c.vars
	c.vars = map[string]string{}
	for _, p := range pf.Params {
		k := specKind(p.T)
		if k == "" {
			// named types of the repository whose underlying type is a string or an integer are written as such
			k = "string"
			if p.T != nil && p.T.Kind != "name" && p.T.Kind != "" {
				c.fail("pure function %s: parameter type %s", pf.Name, p.T)
			}
		}
		ps = append(ps, "p_"+p.Name+" "+goT[k])
		c.vars[p.Name] = "p_" + p.Name
	}
	rk := specKind(pf.Ret)
	if rk == "" {
		rk = "string"
	}
	body := c.expr(pf.Body)
	c.vars = savedVars
	c.helpers[pf.Name] = fmt.Sprintf("func verifPure_%s(%s) %s { return %s }\n", pf.Name, strings.Join(ps, ", "), goT[rk], body)
}

func basicKindOf(t types.Type) string {
	if t.String() == "error" {
		return "error"
	}
	b, ok := t.Underlying().(*types.Basic)
	if !ok {
		return ""
	}
	switch {
	case b.Info()&types.IsString != 0:
		return "string"
	case b.Info()&types.IsBoolean != 0:
		return "bool"
	case b.Info()&types.IsInteger != 0:
		return "int"
	}
	return ""
}

var getValuePair = regexp.MustCompile(`\(\s*(\|[^|]*\||\([^()]*\)|[^\s()]+)\s+(\(-\s*\d+\)|-?\d+|true|false)\s*\)`)

// modelValues runs the winning solver again with get-value on the given terms and returns their values in order.
func modelValues(r *checkRun, vc *VC, o *Obligation, terms []string) ([]string, error) {
	text := queryText(vc, o, terms)
	dir := filepath.Join(verifDir, "work", fmt.Sprintf("%s-%d", r.cfg.Property, os.Getpid()))
	os.MkdirAll(dir, 0o755)
	file := filepath.Join(dir, "replay-model.smt2")
	if err := os.WriteFile(file, []byte(text), 0o644); err != nil {
		return nil, err
	}
	defer os.Remove(file)
	for _, sp := range solvers {
		if !strings.HasPrefix(sp.name, "z3") {
			continue // cvc5 needs its own option order for models; the z3 versions suffice here
		}
		res := runSolver(sp, 30, file)
		if res.status != "sat" {
			continue
		}
		i := strings.Index(res.out, "sat")
		ms := getValuePair.FindAllStringSubmatch(res.out[i+3:], -1)
		if len(ms) < len(terms) {
			continue
		}
		var vals []string
		for _, m := range ms[:len(terms)] {
			v := strings.NewReplacer("(", "", ")", "", " ", "").Replace(m[2])
			vals = append(vals, v)
		}
		return vals, nil
	}
	return nil, fmt.Errorf("no model")
}

// collectLiterals gathers the bytes of the string literals of an expression (pure function bodies included): the
// alphabet of the enumeration used when the solvers give no model.
func (c *goCompiler) collectLiterals(e Expr, into map[byte]bool, seen map[string]bool) {
	switch x := e.(type) {
	case EStr:
		for i := 0; i < len(x.V); i++ {
			into[x.V[i]] = true
			c.strBytes[x.V[i]] = true
		}
	case EInt:
		if n, err := strconv.Atoi(x.V); err == nil && n >= 32 && n < 127 {
			into[byte(n)] = true // byte values compared with s[i]
		}
	case EUnary:
		c.collectLiterals(x.X, into, seen)
	case EBinary:
		c.collectLiterals(x.X, into, seen)
		c.collectLiterals(x.Y, into, seen)
	case ECond:
		c.collectLiterals(x.C, into, seen)
		c.collectLiterals(x.A, into, seen)
		c.collectLiterals(x.B, into, seen)
	case EIndex:
		c.collectLiterals(x.X, into, seen)
		c.collectLiterals(x.I, into, seen)
	case EQuant:
		c.collectLiterals(x.Body, into, seen)
	case ECall:
		for _, a := range x.Args {
			c.collectLiterals(a, into, seen)
		}
		if pf := c.w.lookupPure(c.pkgPath, x.Fn); pf != nil && pf.Body != nil && !seen[pf.Name] {
			seen[pf.Name] = true
			c.collectLiterals(pf.Body, into, seen)
		}
	}
}

func tryReplay(r *checkRun, w *World, rep *FuncReport, o *Obligation) map[string]any {
	if o.Kind != "post" && o.Kind != "safe" {
		return nil
	}
	vc := rep.vc
	fn, fc := vc.top, vc.contract
	if fn == nil || fc == nil || fn.Signature.Recv() != nil || fn.Pkg == nil || len(fn.FreeVars) > 0 {
		return nil
	}
	sig := fn.Signature
	const maxStr = 48
	imports := map[string]string{} // path -> name
	qual := func(p *types.Package) string {
		if p == fn.Pkg.Pkg {
			return ""
		}
		imports[p.Path()] = p.Name()
		return p.Name()
	}
	var terms []string
	type pinfo struct {
		name, kind, goType string
		first              int
	}
	var ps []pinfo
	for i := 0; i < sig.Params().Len(); i++ {
		p := sig.Params().At(i)
		k := basicKindOf(p.Type())
		if k == "" || k == "error" {
			return nil
		}
		cname := p.Name()
		if i < len(fc.ParamNames) {
			cname = fc.ParamNames[i]
		}
		tv, ok := vc.topParams[cname]
		if !ok {
			return nil
		}
		t, isTerm := tv.V.(Term)
		if !isTerm {
			return nil
		}
		ps = append(ps, pinfo{cname, k, types.TypeString(p.Type(), qual), len(terms)})
		if k == "string" {
			terms = append(terms, vc.strLen(t).S)
			for j := 0; j < maxStr; j++ {
				terms = append(terms, vc.strAt(t, IntLit(int64(j))).S)
			}
		} else {
			terms = append(terms, t.S)
		}
	}
	var rkinds []string
	for i := 0; i < sig.Results().Len(); i++ {
		k := basicKindOf(sig.Results().At(i).Type())
		if k == "" {
			return nil
		}
		rkinds = append(rkinds, k)
	}
	// 1. the solver's model, when there is one
	var args []replayArg
	note := ""
	if o.Result == "sat" {
		vals, err := modelValues(r, vc, o, terms)
		if err != nil {
			note = "no model could be read back from the solver: " + err.Error()
		} else {
			for _, p := range ps {
				switch p.kind {
				case "string":
					n, _ := strconv.Atoi(vals[p.first])
					if n > maxStr {
						note = fmt.Sprintf("the model's value of %s is %d bytes long (limit %d)", p.name, n, maxStr)
						break
					}
					bs := make([]byte, n)
					for j := 0; j < n; j++ {
						b, _ := strconv.Atoi(vals[p.first+1+j])
						bs[j] = byte(b)
					}
					args = append(args, replayArg{p.name, strconv.Quote(string(bs))})
				default:
					args = append(args, replayArg{p.name, vals[p.first]})
				}
			}
			if note != "" {
				args = nil
			}
		}
	}
	// 2. the clause and the preconditions, compiled to Go
	comp := &goCompiler{w: w, pkgPath: vc.pkgOf(fc), vars: map[string]string{}, helpers: map[string]string{}, maxLen: "verifBound", strBytes: map[byte]bool{'a': true}}
	for i, p := range ps {
		comp.vars[p.name] = fmt.Sprintf("a%d", i)
	}
	pre := "true"
	for _, c := range fc.Requires {
		pre += " && " + comp.expr(c.E)
	}
	if comp.err != nil {
		return map[string]any{"replay_note": "a precondition cannot be evaluated on concrete values: " + comp.err.Error()}
	}
	for i, k := range rkinds {
		g := fmt.Sprintf("r%d", i)
		switch k {
		case "string":
			g = "string(" + g + ")"
		case "int":
			g = "int64(" + g + ")"
		}
		comp.vars[fmt.Sprintf("result.%d", i)] = g
		if i < len(fc.ResultNames) && fc.ResultNames[i] != "" {
			comp.vars[fc.ResultNames[i]] = g
		}
		if len(rkinds) == 1 {
			comp.vars["result"] = g
		}
	}
	check, checked := "true", ""
	alphabet := map[byte]bool{'a': true, '0': true}
	if o.Kind == "post" {
		var clause *Clause
		for i := range fc.Ensures {
			n := clauseName("post", i, fc.Ensures[i])
			if strings.Contains(o.Name, "#"+n+"@") || strings.HasSuffix(o.Name, "#"+n) || strings.Contains(o.Name, "#"+n+"~") {
				clause = &fc.Ensures[i]
			}
		}
		if clause == nil {
			return map[string]any{"replay_note": "clause of the obligation not found"}
		}
		check = comp.expr(clause.E)
		checked = clause.Src
		if comp.err != nil {
			return map[string]any{"replay_note": "the clause cannot be evaluated on concrete values: " + comp.err.Error(), "model_input": args}
		}
	}
	seen := map[string]bool{}
	for _, c := range fc.Ensures {
		comp.collectLiterals(c.E, alphabet, seen)
	}
	for _, c := range fc.Requires {
		comp.collectLiterals(c.E, alphabet, seen)
	}
	// two alphabets: the bytes of the string literals (longer words), then those plus the byte values the contract
	// compares with (shorter words)
	var alpha, small []byte
	for b := byte(0); b < 255; b++ {
		if alphabet[b] && len(alpha) < 9 {
			alpha = append(alpha, b)
		}
		if comp.strBytes[b] && len(small) < 5 {
			small = append(small, b)
		}
	}
	// 3. the test: one input (the model's) or, without a model, every combination of short values
	var b strings.Builder
	fmt.Fprintf(&b, "package %s\n\nimport (\n\t\"encoding/json\"\n\t\"fmt\"\n\t\"path\"\n\t\"path/filepath\"\n\t\"strconv\"\n\t\"strings\"\n\t\"testing\"\n", fn.Pkg.Pkg.Name())
	var paramCalls []string
	for i, p := range ps {
		if p.kind == "int" {
			paramCalls = append(paramCalls, fmt.Sprintf("%s(a%d)", p.goType, i))
		} else {
			paramCalls = append(paramCalls, fmt.Sprintf("%s(a%d)", p.goType, i))
		}
	}
	for path, name := range imports {
		fmt.Fprintf(&b, "\t%s %q\n", name, path)
	}
	b.WriteString(")\n")
	b.WriteString(goBuiltinHelpers)
	for _, h := range comp.helpers {
		b.WriteString(h)
	}
	goT := map[string]string{"string": "string", "int": "int64", "bool": "bool"}
	var formal, actual, lens []string
	for i, p := range ps {
		formal = append(formal, fmt.Sprintf("a%d %s", i, goT[p.kind]))
		actual = append(actual, fmt.Sprintf("a%d", i))
		if p.kind == "string" {
			lens = append(lens, fmt.Sprintf("len(a%d)", i))
		}
	}
	// verifTry: runs the real function on one input; reports whether the obligation is violated on it
	fmt.Fprintf(&b, "\nfunc verifTry(%s) (violated bool, out map[string]any) {\n\tout = map[string]any{}\n", strings.Join(formal, ", "))
	b.WriteString("\tverifBound = int64(1)\n")
	for _, l := range lens {
		fmt.Fprintf(&b, "\tif int64(%s) > verifBound {\n\t\tverifBound = int64(%s)\n\t}\n", l, l)
	}
	fmt.Fprintf(&b, "\tif !(%s) {\n\t\tout[\"precondition\"] = false\n\t\treturn false, out\n\t}\n", pre)
	fmt.Fprintf(&b, "\tdefer func() {\n\t\tif p := recover(); p != nil {\n\t\t\tout[\"panic\"] = fmt.Sprint(p)\n\t\t\tviolated = %v\n\t\t}\n\t}()\n", o.Kind == "safe")
	var rs []string
	for i := range rkinds {
		rs = append(rs, fmt.Sprintf("r%d", i))
	}
	call := fn.Name() + "(" + strings.Join(paramCalls, ", ") + ")"
	if len(rs) > 0 {
		fmt.Fprintf(&b, "\t%s := %s\n", strings.Join(rs, ", "), call)
	} else {
		fmt.Fprintf(&b, "\t%s\n", call)
	}
	for i, k := range rkinds {
		switch k {
		case "error":
			fmt.Fprintf(&b, "\tif r%d != nil {\n\t\tout[\"result.%d\"] = \"error: \" + r%d.Error()\n\t} else {\n\t\tout[\"result.%d\"] = nil\n\t}\n", i, i, i, i)
		case "string":
			fmt.Fprintf(&b, "\tout[\"result.%d\"] = string(r%d)\n\tif int64(len(r%d)) > verifBound {\n\t\tverifBound = int64(len(r%d))\n\t}\n", i, i, i, i)
		default:
			fmt.Fprintf(&b, "\tout[\"result.%d\"] = r%d\n", i, i)
		}
	}
	if o.Kind == "post" {
		fmt.Fprintf(&b, "\tholds := %s\n\tout[\"clause_holds\"] = holds\n\treturn !holds, out\n}\n", check)
	} else {
		b.WriteString("\treturn false, out\n}\n")
	}
	b.WriteString("\nfunc TestVerifReplay(t *testing.T) {\n\treport := func(found bool, input []any, out map[string]any, tried int) {\n\t\tdata, _ := json.Marshal(map[string]any{\"violated\": found, \"input\": input, \"output\": out, \"inputs_tried\": tried})\n\t\tfmt.Println(\"REPLAY-RESULT \" + string(data))\n\t}\n")
	if args != nil {
		var lits []string
		for _, a := range args {
			lits = append(lits, a.GoLit)
		}
		fmt.Fprintf(&b, "\tfound, out := verifTry(%s)\n\treport(found, []any{%s}, out, 1)\n}\n", strings.Join(lits, ", "), strings.Join(lits, ", "))
	} else {
		// enumeration: strings over the alphabet up to a length that keeps the product of the domains near 300 000
		nStr := 0
		for _, p := range ps {
			if p.kind == "string" {
				nStr++
			}
		}
		lengthFor := func(n int, budget float64) int {
			best := 0
			for L := 1; L <= 10; L++ {
				count, pow := 0.0, 1.0
				for l := 0; l <= L; l++ {
					count += pow
					pow *= float64(n)
				}
				total := 1.0
				for k := 0; k < nStr; k++ {
					total *= count
				}
				if total <= budget {
					best = L
				}
			}
			return best
		}
		lenSmall, lenAll := 0, 0
		if nStr > 0 {
			lenSmall, lenAll = lengthFor(len(small), 150000), lengthFor(len(alpha), 150000)
		}
		fmt.Fprintf(&b, "\tvar words []string\n\tseen := map[string]bool{}\n\tvar gen func(alphabet []byte, prefix string, left int)\n\tgen = func(alphabet []byte, prefix string, left int) {\n\t\tif !seen[prefix] {\n\t\t\tseen[prefix] = true\n\t\t\twords = append(words, prefix)\n\t\t}\n\t\tif left == 0 {\n\t\t\treturn\n\t\t}\n\t\tfor _, c := range alphabet {\n\t\t\tgen(alphabet, prefix+string(rune(c)), left-1)\n\t\t}\n\t}\n\tgen(%#v, \"\", %d)\n\tgen(%#v, \"\", %d)\n\t_ = words\n\ttried := 0\n", small, lenSmall, alpha, lenAll)
		for i, p := range ps {
			switch p.kind {
			case "string":
				fmt.Fprintf(&b, "\tfor _, a%d := range words {\n", i)
			case "int":
				fmt.Fprintf(&b, "\tfor _, a%d := range []int64{-1, 0, 1, 2, 3} {\n", i)
			case "bool":
				fmt.Fprintf(&b, "\tfor _, a%d := range []bool{false, true} {\n", i)
			}
		}
		var anys []string
		for i := range ps {
			anys = append(anys, fmt.Sprintf("a%d", i))
		}
		fmt.Fprintf(&b, "\ttried++\n\tif found, out := verifTry(%s); found {\n\t\treport(true, []any{%s}, out, tried)\n\t\treturn\n\t}\n", strings.Join(actual, ", "), strings.Join(anys, ", "))
		for range ps {
			b.WriteString("\t}\n")
		}
		b.WriteString("\treport(false, nil, nil, tried)\n}\n")
	}
	safe := strings.NewReplacer("/", "_", "*", "", "(", "", ")", "", "[", "_", "]", "_", " ", "", "$", "_", ">", "_", ":", "_", "#", "_", "@", "_", "~", "_").Replace(o.Name)
	dir := filepath.Join(verifDir, "replays", r.cfg.Property)
	os.MkdirAll(dir, 0o755)
	testFile := filepath.Join(dir, safe+"_replay_test.go")
	if err := os.WriteFile(testFile, []byte(b.String()), 0o644); err != nil {
		return nil
	}
	pkgDir := strings.TrimPrefix(fn.Pkg.Pkg.Path(), "github.com/specterops/dawgs/")
	cmd := exec.Command(filepath.Join(verifDir, "tools", "overlay_test.sh"), r.repo, pkgDir, testFile, "TestVerifReplay")
	cmd.Env = append(os.Environ(), "VERIF_TEST_TIMEOUT=120s")
	outb, _ := cmd.CombinedOutput()
	rec := map[string]any{
		"replay_test": testFile,
		"replay":      fmt.Sprintf("tools/overlay_test.sh %s %s %s TestVerifReplay", r.repo, pkgDir, testFile),
	}
	if args != nil {
		rec["model_input"] = args
		rec["input_source"] = "the solver's model (get-value on the parameter terms)"
	} else {
		rec["input_source"] = fmt.Sprintf("no model from the solvers (%s); inputs enumerated: strings over the bytes %q of the contract's string literals and, shorter, over %q (with the byte values it compares with), lengths chosen to keep the run near 300000 calls; integers -1..3; both booleans", o.Result, string(small), string(alpha))
		if note != "" {
			rec["replay_note"] = note
		}
	}
	if checked != "" {
		rec["clause_evaluated_in_go"] = checked
	}
	var res map[string]any
	for _, line := range strings.Split(string(outb), "\n") {
		if i := strings.Index(line, "REPLAY-RESULT "); i >= 0 {
			json.Unmarshal([]byte(line[i+len("REPLAY-RESULT "):]), &res)
		}
	}
	if res == nil {
		tail := string(outb)
		if len(tail) > 600 {
			tail = tail[len(tail)-600:]
		}
		rec["replay_note"] = "the replay test produced no result: " + tail
		return rec
	}
	rec["real_code_run"] = res
	if res["violated"] == true {
		rec["verdict"] = "confirmed"
		rec["failing_input"] = res["input"]
		if o.Kind == "safe" {
			rec["confirmed_by"] = "the real function panics on this input"
		} else {
			rec["confirmed_by"] = "the postcondition, compiled to Go, evaluates to false on the real function's output for this input"
		}
	} else if args != nil {
		rec["replay_note"] = "the real code does not fail on the model's input: the model is an artefact of the abstraction (uninterpreted strings and functions); the obligation stays undischarged"
	} else {
		rec["replay_note"] = "no failing input among the enumerated ones; the obligation stays undischarged"
	}
	return rec
}
