package main

// tryReplay attempts to turn a failed obligation into a concrete input and run it against the real
// code. Returns extra fields for the replay record, or nil.
func tryReplay(r *checkRun, w *World, rep *FuncReport, o *Obligation) map[string]any {
	return nil
}
