package main

import (
	"fmt"
	"go/constant"
	"go/token"
	"go/types"
	"sort"
	"strings"

	"golang.org/x/tools/go/ssa"
)

// Obligation is one named proof obligation: script prefix ∧ pc ∧ ¬goal must be unsat
// (or, for cover obligations, script prefix ∧ pc must not be unsat).
type Obligation struct {
	Name   string
	Kind   string
	Func   string
	Pos    int
	PC     Term
	Goal   Term
	Cover  bool
	Src    string // source position or clause text
	Result string
	Solver string
	TimeS  float64
	Bytes  int
	Model  string
	Detail string
}

type State struct {
	pc   Term
	heap *Heap
}

func (s *State) clone() *State { return &State{pc: s.pc, heap: s.heap.Clone()} }

// VC is the verification-condition generator for one top-level function.
type VC struct {
	w        *World
	top      *ssa.Function
	topKey   string
	script   *Script
	comps    map[string]compInfo
	baseSeq  int
	base0    *HeapBase
	writes   map[string]*writeSet
	written  map[string]bool
	dry      int
	obls     []*Obligation
	oblNames map[string]int
	tags     map[string]int
	declared map[string]bool
	strLits  map[string]Term
	notes    map[string]bool // assumptions / abstractions actually used
	unsup    []string
	stack    []*ssa.Function
	contract *FuncContract
	monitor  *MonitorDecl
	recvTerm Term
	summary  map[*ssa.Function]*fnSummary
	lockComp string
	entry    *Heap
	recvStruct *StructVal
	topParams  map[string]TV
	globals    Term
	freshRefs  map[string]bool
	havocedUnregistered map[string]bool
	lockReleased bool // a monitor lock was released earlier in the symbolic run (a later acquire starts a new critical section)
}

type fnSummary struct {
	writes map[string]bool
	allocs bool
	busy   bool
}

type debugRec struct {
	name   string
	val    ssa.Value
	isAddr bool
	block  *ssa.BasicBlock
	idx    int
}

type deferRec struct {
	call  *ssa.Defer
	block *ssa.BasicBlock
	pc    Term
}

type frame struct {
	fn      *ssa.Function
	env     map[ssa.Value]Value
	debug   []debugRec
	defers  []deferRec
	depth   int
	top     bool
	hint    string
	params  map[string]TV
	results []SType
	loopOrd map[*ssa.BasicBlock]int
	curIdx  int
	splits  int
	iterOf  map[ssa.Value]*mapIter
}

type mapIter struct {
	m       Term
	mt      SType
	visited string // component name holding the visited set (depth-1 comp indexed by iterator id)
	id      Term
	snapDom Term
	str     Term // range over a string: the string (nil for a map range)
}

type unsupported struct{ msg string }

func (vc *VC) fail(format string, args ...any) {
	panic(unsupported{fmt.Sprintf(format, args...)})
}

func NewVC(w *World, fn *ssa.Function) *VC {
	vc := &VC{w: w, top: fn, topKey: funcKey(fn), script: &Script{}, comps: map[string]compInfo{}, oblNames: map[string]int{},
		tags: map[string]int{}, declared: map[string]bool{}, strLits: map[string]Term{}, notes: map[string]bool{},
		summary: map[*ssa.Function]*fnSummary{}}
	vc.script.defs = map[string]string{}
	currentDefs = vc.script.defs
	currentDefSorts, patConstOf, pendingPatConsts = map[string]Sort{}, map[string]string{}, nil
	vc.registerComp(allocComp, compInfo{Sort: ArrSort(SInt, SBool), Depth: 1})
	vc.base0 = vc.newBase(Term{})
	a0 := vc.baseGet(vc.base0, allocComp)
	vc.base0.alloc = a0
	return vc
}

func (vc *VC) note(s string) {
	if vc.dry > 0 {
		return // dry runs (write summaries) are not part of the verified text
	}
	vc.notes[s] = true
}

func (vc *VC) oblige(st *State, kind, name, src string, goal Term) {
	if vc.dry > 0 {
		return
	}
	if goal.S == "true" {
		return
	}
	if kind == "safe" && vc.contract != nil && vc.contract.NoSafety {
		vc.note("run-time panic freedom is not claimed for " + vc.topKey + " (calls unspecified externals)")
		return
	}
	vc.script.flushPatConsts()
	full := vc.topKey + "#" + name
	vc.oblNames[full]++
	if n := vc.oblNames[full]; n > 1 {
		full = fmt.Sprintf("%s~%d", full, n)
	}
	vc.obls = append(vc.obls, &Obligation{Name: full, Kind: kind, Func: vc.topKey, Pos: vc.script.Pos(), PC: st.pc, Goal: goal, Src: src})
}

func (vc *VC) cover(st *State, name string) {
	if vc.dry > 0 {
		return
	}
	vc.obls = append(vc.obls, &Obligation{Name: vc.topKey + "#" + name, Kind: "cover", Func: vc.topKey, Pos: vc.script.Pos(), PC: st.pc, Goal: False, Cover: true})
}

func (vc *VC) assume(st *State, f Term) {
	vc.script.Assume(Implies(st.pc, f))
}

// ---------------------------------------------------------------------------------------------
// fresh values and typing assumptions

func (vc *VC) freshValue(hint string, t SType) Value {
	switch t.K {
	case KUnit:
		return UnitVal{}
	case KStruct:
		sv := StructVal{T: t, F: map[string]Value{}}
		s, _ := structOf(t.Go)
		for i := 0; i < s.NumFields(); i++ {
			f := s.Field(i)
			sv.F[f.Name()] = vc.freshValue(hint+"."+f.Name(), FromGo(f.Type()))
		}
		return sv
	case KSlice:
		sv := SliceVal{Arr: vc.script.Declare(hint+"#arr", SInt), Off: vc.script.Declare(hint+"#off", SInt),
			Len: vc.script.Declare(hint+"#len", SInt), Cap: vc.script.Declare(hint+"#cap", SInt), Elem: *t.Elem}
		vc.script.Assume(And(Ge(sv.Off, Zero), Ge(sv.Len, Zero), Le(sv.Len, sv.Cap), Ge(sv.Arr, Zero),
			Implies(Eq(sv.Arr, Zero), And(Eq(sv.Len, Zero), Eq(sv.Cap, Zero), Eq(sv.Off, Zero)))))
		return sv
	case KTuple:
		var tv TupleVal
		for i, f := range t.Fields {
			tv = append(tv, vc.freshValue(fmt.Sprintf("%s.%d", hint, i), f))
		}
		return tv
	case KRef, KPtr:
		r := vc.script.Declare(hint, SInt)
		vc.script.Assume(Ge(r, Zero))
		return vc.wrap(r, t)
	case KArray:
		// an array VALUE is an opaque identifier (its elements are only modelled behind a pointer)
		return vc.script.Declare(hint+":arrayval", SInt)
	case KFunc:
		return vc.script.Declare(hint, SInt)
	}
	v := vc.script.Declare(hint, t.SortOf())
	if t.K == KInt && t.Unsigned {
		vc.script.Assume(Ge(v, Zero))
	}
	if t.K == KMap || t.K == KChan || t.K == KIface || t.K == KStr {
		vc.script.Assume(Ge(v, Zero))
	}
	return v
}

// assumeAllocated states that reference-typed parts of v are nil or allocated in st's heap.
func (vc *VC) assumeAllocated(st *State, v Value, t SType) {
	alloc := vc.allocOf(st.heap)
	switch t.K {
	case KRef, KPtr, KMap, KChan:
		var r Term
		switch x := v.(type) {
		case Term:
			r = x
		case PtrVal:
			if len(x.Loc.Idx) != 1 || x.Loc.Prefix != canonicalPrefix(x.Elem) {
				return
			}
			r = x.Loc.Idx[0]
		default:
			return
		}
		vc.script.Assume(Implies(st.pc, Or(Eq(r, Zero), Select(alloc, r))))
	case KIface:
		// a non-nil value of static interface type I implements I
		if t.Go != nil && !isEmptyInterface(t.Go) {
			if x, ok := v.(Term); ok {
				vc.script.Assume(Implies(st.pc, Or(Eq(x, Zero), vc.implementsTerm(x, t))))
			}
		}
	case KSlice:
		sv := v.(SliceVal)
		vc.script.Assume(Implies(st.pc, Or(Eq(sv.Arr, Zero), Select(alloc, sv.Arr))))
		// well-formed slice header (type safety): nil has no elements, 0 <= len <= cap
		vc.script.Assume(Implies(st.pc, And(Ge(sv.Off, Zero), Ge(sv.Len, Zero), Le(sv.Len, sv.Cap), Implies(Eq(sv.Arr, Zero), Eq(sv.Cap, Zero)))))
	case KStruct:
		if sv, ok := v.(StructVal); ok {
			s, _ := structOf(t.Go)
			for i := 0; i < s.NumFields(); i++ {
				f := s.Field(i)
				vc.assumeAllocated(st, sv.F[f.Name()], FromGo(f.Type()))
			}
		}
	case KTuple:
		if tv, ok := v.(TupleVal); ok {
			for i, f := range t.Fields {
				vc.assumeAllocated(st, tv[i], f)
			}
		}
	}
}

func (vc *VC) wrap(t Term, ty SType) Value {
	switch ty.K {
	case KRef, KPtr:
		if ty.Elem.K == KArray {
			return PtrVal{Loc: Loc{"elems:" + ty.Elem.Elem.String(), []Term{t}}, Elem: *ty.Elem}
		}
		return PtrVal{Loc: Loc{canonicalPrefix(*ty.Elem), []Term{t}}, Elem: *ty.Elem}
	}
	return t
}

func (vc *VC) toTerm(v Value) Term {
	switch x := v.(type) {
	case Term:
		return x
	case PtrVal:
		if x.Elem.K == KArray && len(x.Loc.Idx) == 1 {
			return x.Loc.Idx[0]
		}
		if len(x.Loc.Idx) == 1 && x.Loc.Prefix == canonicalPrefix(x.Elem) {
			return x.Loc.Idx[0]
		}
		vc.fail("interior pointer into %s used as a first-class value", x.Loc.Prefix)
	case UnitVal:
		return Zero
	case *ClosureVal:
		return x.id
	}
	vc.fail("value %T is not a single term", v)
	return Term{}
}

type ClosureVal struct {
	fn       *ssa.Function
	bindings []Value
	id       Term
}

// ---------------------------------------------------------------------------------------------
// value lookup

func (vc *VC) valueOf(fr *frame, v ssa.Value) Value {
	switch x := v.(type) {
	case *ssa.Const:
		return vc.constValue(x)
	case *ssa.Function:
		return &ClosureVal{fn: x, id: vc.script.Declare("fn:"+x.Name(), SInt)}
	case *ssa.Global:
		el := FromGo(x.Type().(*types.Pointer).Elem())
		name := "global:" + x.Pkg.Pkg.Path() + "." + x.Name()
		return PtrVal{Loc: Loc{name, []Term{vc.globalsRef()}}, Elem: el}
	case *ssa.Builtin:
		return x
	}
	if val, ok := fr.env[v]; ok {
		return val
	}
	vc.fail("value %s (%T) used before definition in %s", v.Name(), v, fr.fn.Name())
	return nil
}

func (vc *VC) constValue(c *ssa.Const) Value {
	t := FromGo(c.Type())
	if c.Value == nil { // zero value / nil
		return vc.zeroValue(t)
	}
	switch c.Value.Kind() {
	case constant.Bool:
		if constant.BoolVal(c.Value) {
			return True
		}
		return False
	case constant.Int:
		return BigLit(c.Value.ExactString())
	case constant.String:
		return vc.strLit(constant.StringVal(c.Value))
	case constant.Float:
		// opaque but deterministic per literal
		return vc.strLit("float:" + c.Value.ExactString())
	}
	vc.fail("constant %s unsupported", c)
	return nil
}

func (vc *VC) zeroValue(t SType) Value {
	switch t.K {
	case KUnit:
		return UnitVal{}
	case KStruct:
		sv := StructVal{T: t, F: map[string]Value{}}
		s, _ := structOf(t.Go)
		for i := 0; i < s.NumFields(); i++ {
			f := s.Field(i)
			sv.F[f.Name()] = vc.zeroValue(FromGo(f.Type()))
		}
		return sv
	case KSlice:
		return SliceVal{Arr: Zero, Off: Zero, Len: Zero, Cap: Zero, Elem: *t.Elem}
	case KTuple:
		var tv TupleVal
		for _, f := range t.Fields {
			tv = append(tv, vc.zeroValue(f))
		}
		return tv
	case KRef, KPtr:
		return vc.wrap(Zero, t)
	case KBool:
		return False
	case KSet, KSeq:
		return ZeroOf(t.SortOf())
	}
	return Zero
}

// ---------------------------------------------------------------------------------------------
// loads and stores of typed values

func (vc *VC) loadValue(st *State, loc Loc, t SType) Value {
	switch t.K {
	case KUnit:
		return UnitVal{}
	case KStruct:
		sv := StructVal{T: t, F: map[string]Value{}}
		s, _ := structOf(t.Go)
		for i := 0; i < s.NumFields(); i++ {
			f := s.Field(i)
			sv.F[f.Name()] = vc.loadValue(st, Loc{loc.Prefix + "." + f.Name(), loc.Idx}, FromGo(f.Type()))
		}
		return sv
	case KSlice:
		return vc.readLoc(st.heap, loc, t)
	case KTuple:
		vc.fail("load of %s unsupported", t)
	case KArray:
		// whole-array load: an opaque array value. For an array field the value is kept in a cell of its own
		// ("#val"); for an array object addressed by reference (a local whose address was taken) the value is
		// unrelated to the element contents (sound over-approximation).
		vc.note("array values are opaque (whole-array loads and stores are not related to element accesses)")
		if strings.HasPrefix(loc.Prefix, "elems:") {
			return vc.script.Declare("arrayval", SInt)
		}
		vloc := Loc{loc.Prefix + "#val", loc.Idx}
		vc.registerComp(vloc.Prefix, compInfo{Sort: nestSort(SInt, len(loc.Idx)), Depth: len(loc.Idx)})
		return vc.readCell(st.heap, vloc)
	}
	v := vc.readLoc(st.heap, loc, t).(Term)
	return vc.wrap(v, t)
}

func (vc *VC) storeValue(st *State, loc Loc, t SType, v Value) {
	switch t.K {
	case KUnit:
		return
	case KStruct:
		sv, ok := v.(StructVal)
		if !ok {
			vc.fail("store of non-struct value into struct location %s", loc.Prefix)
		}
		s, _ := structOf(t.Go)
		for i := 0; i < s.NumFields(); i++ {
			f := s.Field(i)
			vc.storeValue(st, Loc{loc.Prefix + "." + f.Name(), loc.Idx}, FromGo(f.Type()), sv.F[f.Name()])
		}
		return
	case KSlice:
		sv := v.(SliceVal)
		vc.readLoc(st.heap, loc, t) // registers components
		vc.writeCell(st, Loc{loc.Prefix + "#arr", loc.Idx}, sv.Arr)
		vc.writeCell(st, Loc{loc.Prefix + "#off", loc.Idx}, sv.Off)
		vc.writeCell(st, Loc{loc.Prefix + "#len", loc.Idx}, sv.Len)
		vc.writeCell(st, Loc{loc.Prefix + "#cap", loc.Idx}, sv.Cap)
		return
	case KTuple:
		vc.fail("store of %s unsupported", t)
	case KArray:
		vc.note("array values are opaque (whole-array loads and stores are not related to element accesses)")
		if t.Elem.K != KUnit {
			func() {
				defer func() {
					if rr := recover(); rr != nil {
						if e2, isEval := rr.(evalError); isEval {
							vc.fail("%s", e2.msg)
						}
						panic(rr)
					}
				}()
				if strings.HasPrefix(loc.Prefix, "elems:") && len(loc.Idx) == 1 {
					// the element contents of the target array object become unknown
					for _, ln := range vc.elemLanes(*t.Elem) {
						vc.hset(st, ln.comp, Store(vc.hget(st.heap, ln.comp), loc.Idx[0], vc.script.Declare("arraystore", ArrSort(SInt, ln.sort))))
						vc.noteWrite(ln.comp, loc.Idx[0])
					}
					return
				}
				if len(loc.Idx) == 1 && t.Elem.single() {
					// element view of an array field (used by &s.f[i]): forget it
					vc.registerComp(loc.Prefix, compInfo{Sort: ArrSort(SInt, ArrSort(SInt, t.Elem.SortOf())), Depth: 2})
					vc.hset(st, loc.Prefix, Store(vc.hget(st.heap, loc.Prefix), loc.Idx[0], vc.script.Declare("arraystore", ArrSort(SInt, t.Elem.SortOf()))))
					vc.noteWrite(loc.Prefix, loc.Idx[0])
				}
			}()
		}
		if strings.HasPrefix(loc.Prefix, "elems:") {
			return
		}
		vloc := Loc{loc.Prefix + "#val", loc.Idx}
		vc.registerComp(vloc.Prefix, compInfo{Sort: nestSort(SInt, len(loc.Idx)), Depth: len(loc.Idx)})
		vc.writeCell(st, vloc, vc.toTerm(v))
		return
	}
	vc.readLoc(st.heap, loc, t) // registers component
	vc.writeCell(st, loc, vc.toTerm(v))
}

// newRef allocates a fresh reference.
func (vc *VC) newRef(st *State, hint string) Term {
	r := vc.script.Declare(hint, SInt)
	if vc.freshRefs == nil {
		vc.freshRefs = map[string]bool{}
	}
	vc.freshRefs[r.S] = true
	alloc := vc.allocOf(st.heap)
	vc.script.Assume(Implies(st.pc, And(Gt(r, Zero), Not(Select(alloc, r)))))
	vc.hset(st, allocComp, Store(alloc, r, True))
	vc.noteWrite(allocComp, Term{})
	return r
}

func (vc *VC) zeroInit(st *State, loc Loc, t SType) {
	vc.storeValue(st, loc, t, vc.zeroValue(t))
	vc.zeroGhosts(st, loc, t)
}

// zeroGhosts initialises the ghost fields of a freshly allocated struct (and of embedded structs).
func (vc *VC) zeroGhosts(st *State, loc Loc, t SType) {
	if t.K != KStruct && t.K != KUnit {
		return
	}
	if t.Go == nil {
		return
	}
	pre := typeKey(t.Go) + "."
	for _, k := range sortedKeys(vc.w.ghosts) {
		g := vc.w.ghosts[k]
		if strings.HasPrefix(k, pre) && !strings.Contains(k[len(pre):], ".") {
			vc.storeValue(st, Loc{vc.fieldComp(loc.Prefix, t, k[len(pre):]), loc.Idx}, g, vc.zeroValue(g))
		}
	}
	if s, ok := structOf(t.Go); ok {
		for i := 0; i < s.NumFields(); i++ {
			f := s.Field(i)
			ft := FromGo(f.Type())
			if ft.K == KStruct {
				vc.zeroGhosts(st, Loc{loc.Prefix + "." + f.Name(), loc.Idx}, ft)
			}
		}
	}
}

// ---------------------------------------------------------------------------------------------
// CFG driver

type edgeIn struct {
	cond Term
	st   *State
	from *ssa.BasicBlock
	to   *ssa.BasicBlock
	phis map[*ssa.Phi]Value // values of the target's phis along this edge, captured when the edge is taken
}

type retRec struct {
	st   *State
	vals []Value
}

func isBackEdge(from, to *ssa.BasicBlock) bool { return to.Dominates(from) }

func topoOrder(fn *ssa.Function) []*ssa.BasicBlock {
	var order []*ssa.BasicBlock
	seen := map[*ssa.BasicBlock]bool{}
	var visit func(b *ssa.BasicBlock)
	visit = func(b *ssa.BasicBlock) {
		seen[b] = true
		for _, s := range b.Succs {
			if !seen[s] && !isBackEdge(b, s) {
				visit(s)
			}
		}
		order = append(order, b)
	}
	visit(fn.Blocks[0])
	for i, j := 0, len(order)-1; i < j; i, j = i+1, j-1 {
		order[i], order[j] = order[j], order[i]
	}
	return order
}

// loopBlocks returns the natural loop of header h.
func loopBlocks(h *ssa.BasicBlock) map[*ssa.BasicBlock]bool {
	in := map[*ssa.BasicBlock]bool{h: true}
	var work []*ssa.BasicBlock
	for _, p := range h.Preds {
		if isBackEdge(p, h) && !in[p] {
			in[p] = true
			work = append(work, p)
		}
	}
	for len(work) > 0 {
		b := work[len(work)-1]
		work = work[:len(work)-1]
		for _, p := range b.Preds {
			if !in[p] {
				in[p] = true
				work = append(work, p)
			}
		}
	}
	return in
}

func isLoopHeader(b *ssa.BasicBlock) bool {
	for _, p := range b.Preds {
		if isBackEdge(p, b) {
			return true
		}
	}
	return false
}

// loopOrdinals numbers loop headers in source order.
func loopOrdinals(fn *ssa.Function) map[*ssa.BasicBlock]int {
	var hs []*ssa.BasicBlock
	for _, b := range fn.Blocks {
		if isLoopHeader(b) {
			hs = append(hs, b)
		}
	}
	pos := func(b *ssa.BasicBlock) token.Pos {
		var best token.Pos
		for blk := range loopBlocks(b) {
			for _, in := range blk.Instrs {
				if p := in.Pos(); p.IsValid() && (best == 0 || p < best) {
					best = p
				}
			}
		}
		return best
	}
	sort.SliceStable(hs, func(i, j int) bool { return pos(hs[i]) < pos(hs[j]) })
	out := map[*ssa.BasicBlock]int{}
	for i, h := range hs {
		out[h] = i
	}
	return out
}

// exec symbolically executes fn from state st with the given arguments and returns the merged
// return values and state (nil state if no return is reachable).
func (vc *VC) exec(fn *ssa.Function, args []Value, st *State, depth int, hint string, top bool) ([]Value, *State) {
	if fn.Blocks == nil {
		vc.fail("function %s has no body", fn.Name())
	}
	fr := &frame{fn: fn, env: map[ssa.Value]Value{}, depth: depth, top: top, hint: hint, loopOrd: loopOrdinals(fn), iterOf: map[ssa.Value]*mapIter{}}
	for i, p := range fn.Params {
		fr.env[p] = args[i]
	}
	for i, fv := range fn.FreeVars {
		fr.env[fv] = args[len(fn.Params)+i]
	}
	vc.stack = append(vc.stack, fn)
	defer func() { vc.stack = vc.stack[:len(vc.stack)-1] }()
	rets := vc.execBlocks(fr, st)
	if len(rets) == 0 {
		return nil, nil
	}
	return vc.mergeReturns(fr, rets)
}

func (vc *VC) mergeReturns(fr *frame, rets []retRec) ([]Value, *State) {
	if len(rets) == 1 {
		return rets[0].vals, rets[0].st
	}
	var conds []Term
	var heaps []*Heap
	for _, r := range rets {
		conds = append(conds, r.st.pc)
		heaps = append(heaps, r.st.heap)
	}
	out := &State{pc: vc.script.Define("pc:ret", Or(conds...)), heap: vc.mergeHeaps(conds, heaps)}
	n := len(rets[0].vals)
	vals := make([]Value, n)
	for i := 0; i < n; i++ {
		v := rets[len(rets)-1].vals[i]
		for j := len(rets) - 2; j >= 0; j-- {
			v = vc.iteValue(rets[j].st.pc, rets[j].vals[i], v)
		}
		vals[i] = vc.defineValue("ret", v)
	}
	return vals, out
}

func (vc *VC) iteValue(c Term, a, b Value) Value {
	switch x := a.(type) {
	case Term:
		return Ite(c, x, vc.toTerm(b))
	case PtrVal:
		y, ok := b.(PtrVal)
		if ok && y.Loc.Prefix == x.Loc.Prefix && len(y.Loc.Idx) == len(x.Loc.Idx) {
			idx := make([]Term, len(x.Loc.Idx))
			for i := range idx {
				idx[i] = Ite(c, x.Loc.Idx[i], y.Loc.Idx[i])
			}
			return PtrVal{Loc: Loc{x.Loc.Prefix, idx}, Elem: x.Elem}
		}
		vc.fail("merge of pointers into different components (%s)", x.Loc.Prefix)
	case StructVal:
		y := b.(StructVal)
		out := StructVal{T: x.T, F: map[string]Value{}}
		for k, v := range x.F {
			out.F[k] = vc.iteValue(c, v, y.F[k])
		}
		return out
	case SliceVal:
		y := b.(SliceVal)
		return SliceVal{Arr: Ite(c, x.Arr, y.Arr), Off: Ite(c, x.Off, y.Off), Len: Ite(c, x.Len, y.Len), Cap: Ite(c, x.Cap, y.Cap), Elem: x.Elem}
	case TupleVal:
		y := b.(TupleVal)
		out := make(TupleVal, len(x))
		for i := range x {
			out[i] = vc.iteValue(c, x[i], y[i])
		}
		return out
	case UnitVal:
		return x
	case *ClosureVal:
		if y, ok := b.(*ClosureVal); ok && y.fn == x.fn {
			return x
		}
		vc.fail("merge of different closures")
	case nil:
		return b
	}
	vc.fail("merge of %T values unsupported", a)
	return nil
}

func (vc *VC) defineValue(hint string, v Value) Value {
	switch x := v.(type) {
	case Term:
		return vc.script.Define(hint, x)
	case PtrVal:
		idx := make([]Term, len(x.Loc.Idx))
		for i := range idx {
			idx[i] = vc.script.Define(hint, x.Loc.Idx[i])
		}
		return PtrVal{Loc: Loc{x.Loc.Prefix, idx}, Elem: x.Elem}
	case SliceVal:
		return SliceVal{Arr: vc.script.Define(hint+"#arr", x.Arr), Off: vc.script.Define(hint+"#off", x.Off),
			Len: vc.script.Define(hint+"#len", x.Len), Cap: vc.script.Define(hint+"#cap", x.Cap), Elem: x.Elem}
	case StructVal:
		out := StructVal{T: x.T, F: map[string]Value{}}
		for _, k := range sortedKeys(x.F) {
			out.F[k] = vc.defineValue(hint+"."+k, x.F[k])
		}
		return out
	case TupleVal:
		out := make(TupleVal, len(x))
		for i := range x {
			out[i] = vc.defineValue(fmt.Sprintf("%s.%d", hint, i), x[i])
		}
		return out
	}
	return v
}

func (vc *VC) execBlocks(fr *frame, st0 *State) []retRec {
	return vc.execRegion(fr, fr.fn.Blocks[0], nil, st0)
}

func predIndex(b, from *ssa.BasicBlock) int {
	for i, p := range b.Preds {
		if p == from {
			return i
		}
	}
	return -1
}

func (vc *VC) flow(fr *frame, from, to *ssa.BasicBlock, st *State, cond Term, incoming map[*ssa.BasicBlock][]edgeIn) {
	if isBackEdge(from, to) {
		cond = vc.script.Define(fmt.Sprintf("edge:b%d-b%d", from.Index, to.Index), cond)
		vc.loopBackEdge(fr, from, to, &State{pc: cond, heap: st.heap})
		return
	}
	incoming[to] = append(incoming[to], vc.mkEdge(fr, from, to, st, cond))
}

func (vc *VC) mkEdge(fr *frame, from, to *ssa.BasicBlock, st *State, cond Term) edgeIn {
	cond = vc.script.Define(fmt.Sprintf("edge:b%d-b%d", from.Index, to.Index), cond)
	e := edgeIn{cond: cond, st: &State{pc: cond, heap: st.heap.Clone()}, from: from, to: to, phis: map[*ssa.Phi]Value{}}
	pi := predIndex(to, from)
	for _, instr := range to.Instrs {
		phi, ok := instr.(*ssa.Phi)
		if !ok {
			break
		}
		e.phis[phi] = vc.valueOf(fr, phi.Edges[pi])
	}
	return e
}

func (vc *VC) posString(p token.Pos) string {
	if !p.IsValid() {
		return ""
	}
	pos := vc.w.prog.Fset.Position(p)
	return fmt.Sprintf("%s:%d", strings.TrimPrefix(pos.Filename, vc.w.repoDir+"/"), pos.Line)
}

// posHint names an instruction stably: enclosing function name (for inlined code) plus the
// ordinal of the instruction kind within it, never a line number.
func (vc *VC) posHint(fr *frame, in ssa.Instruction) string {
	kind := fmt.Sprintf("%T", in)
	kind = strings.TrimPrefix(kind, "*ssa.")
	n := 0
	for _, b := range fr.fn.Blocks {
		for _, i2 := range b.Instrs {
			if fmt.Sprintf("%T", i2) == "*ssa."+kind {
				if i2 == in {
					if fr.hint != "" {
						return fmt.Sprintf("%s:%s.%d", fr.hint, kind, n)
					}
					return fmt.Sprintf("%s.%d", kind, n)
				}
				n++
			}
		}
	}
	return kind
}


// execValue converts an evaluator value into an executor value (located structs are loaded).
func (vc *VC) execValue(st *State, tv TV) Value {
	switch v := tv.V.(type) {
	case PtrVal:
		if tv.T.K == KStruct {
			return vc.loadValue(st, v.Loc, tv.T)
		}
		return v
	case Term:
		return vc.wrap(v, tv.T)
	}
	return tv.V
}


// globalsRef is the (allocated, non-nil) pseudo object whose "fields" are the package-level variables.
func (vc *VC) globalsRef() Term {
	if vc.globals.IsZero() {
		vc.globals = vc.script.Declare("$globals", SInt)
		vc.script.Assume(And(Gt(vc.globals, Zero), Select(vc.base0.alloc, vc.globals)))
	}
	return vc.globals
}
