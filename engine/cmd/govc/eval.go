package main

import (
	"fmt"
	"go/types"
	"strings"
)

// TV is a typed logical value.
type TV struct {
	V Value
	T SType
}

type Env struct {
	vc      *VC
	heap    *Heap
	old     *Heap
	vars    map[string]TV
	pkgPath string
	cf      *ContractFile
	depth   int
}

func (e *Env) with(name string, tv TV) *Env {
	n := *e
	n.vars = make(map[string]TV, len(e.vars)+1)
	for k, v := range e.vars {
		n.vars[k] = v
	}
	n.vars[name] = tv
	return &n
}

type evalError struct{ msg string }

func (e evalError) Error() string { return e.msg }

func efail(format string, args ...any) {
	panic(evalError{fmt.Sprintf(format, args...)})
}

// EvalBool evaluates a clause to a Bool term; errors are returned (never a silent "true").
func (e *Env) EvalBool(x Expr) (t Term, err error) {
	defer func() {
		if r := recover(); r != nil {
			if ee, ok := r.(evalError); ok {
				err = ee
				return
			}
			panic(r)
		}
	}()
	tv := e.eval(x)
	return e.asBool(tv), nil
}

func (e *Env) asBool(tv TV) Term {
	t, ok := tv.V.(Term)
	if !ok || t.Sort != SBool {
		efail("boolean expected, got %v : %s", tv.V, tv.T)
	}
	return t
}

func (e *Env) asTerm(tv TV) Term {
	switch v := tv.V.(type) {
	case Term:
		return v
	case PtrVal:
		return e.vc.ptrToTerm(v)
	case SetVal:
		if v.Arr != nil {
			return *v.Arr
		}
	}
	efail("single term expected, got %T : %s", tv.V, tv.T)
	return Term{}
}

func (e *Env) asInt(tv TV) Term {
	t := e.asTerm(tv)
	if t.Sort != SInt {
		efail("integer-sorted term expected, got %s : %s", t.S, t.Sort)
	}
	return t
}

// resolveType maps a type expression to a logical type.
func (e *Env) resolveType(t *TypeExpr) SType {
	switch t.Kind {
	case "ptr":
		el := e.resolveType(t.Elem)
		if el.K == KStruct || el.K == KUnit {
			return SType{K: KRef, Elem: &el, Go: ptrTo(el.Go)}
		}
		return SType{K: KPtr, Elem: &el, Go: ptrTo(el.Go)}
	case "slice":
		el := e.resolveType(t.Elem)
		st := SType{K: KSlice, Elem: &el}
		if el.Go != nil {
			st.Go = types.NewSlice(el.Go)
		}
		return st
	case "map":
		k, v := e.resolveType(t.Key), e.resolveType(t.Elem)
		st := SType{K: KMap, Key: &k, Elem: &v}
		if k.Go != nil && v.Go != nil {
			st.Go = types.NewMap(k.Go, v.Go)
		}
		return st
	case "array":
		el := e.resolveType(t.Elem)
		var n int64
		fmt.Sscanf(t.Name, "%d", &n)
		st := SType{K: KArray, Elem: &el}
		if el.Go != nil {
			st.Go = types.NewArray(el.Go, n)
		}
		return st
	case "chan":
		el := e.resolveType(t.Elem)
		st := SType{K: KChan, Elem: &el}
		if el.Go != nil {
			st.Go = types.NewChan(types.SendRecv, el.Go)
		}
		return st
	case "set":
		return setOf(e.resolveType(t.Elem))
	case "seq":
		return seqOf(e.resolveType(t.Elem))
	}
	if t.Pkg == "" {
		switch t.Name {
		case "any":
			return FromGo(types.Universe.Lookup("any").Type())
		case "func":
			return SType{K: KFunc}
		case "struct":
			return SType{K: KUnit, Go: types.NewStruct(nil, nil)}
		}
		if obj := types.Universe.Lookup(t.Name); obj != nil {
			if tn, ok := obj.(*types.TypeName); ok {
				return FromGo(tn.Type())
			}
		}
		if p := e.vc.w.typesPkgs[e.pkgPath]; p != nil {
			if obj := p.Scope().Lookup(t.Name); obj != nil {
				if tn, ok := obj.(*types.TypeName); ok {
					return FromGo(tn.Type())
				}
			}
		}
		// type parameter (opaque)
		return SType{K: KTParam, Name: t.Name}
	}
	path := t.Pkg
	if e.cf != nil {
		if p, ok := e.cf.Imports[t.Pkg]; ok {
			path = p
		}
	}
	p := e.vc.w.typesPkgs[path]
	if p == nil {
		// search by package name
		for _, cand := range e.vc.w.typesPkgs {
			if cand.Name() == t.Pkg {
				p = cand
				break
			}
		}
	}
	if p == nil {
		efail("unknown package %s in type %s", t.Pkg, t)
	}
	obj := p.Scope().Lookup(t.Name)
	if obj == nil {
		efail("unknown type %s", t)
	}
	return FromGo(obj.Type())
}

func ptrTo(t types.Type) types.Type {
	if t == nil {
		return nil
	}
	return types.NewPointer(t)
}

func (e *Env) eval(x Expr) TV {
	vc := e.vc
	switch x := x.(type) {
	case EInt:
		return TV{BigLit(x.V), tInt}
	case EBool:
		if x.V {
			return TV{True, tBool}
		}
		return TV{False, tBool}
	case ENil:
		return TV{Zero, SType{K: KInt}}
	case EStr:
		return TV{vc.strLit(x.V), SType{K: KStr, Go: types.Typ[types.String]}}
	case EIdent:
		if tv, ok := e.vars[x.Name]; ok {
			if cell, isCell := tv.V.(FreeCellVal); isCell {
				return vc.cellContent(e.heap, cell.P)
			}
			return tv
		}
		if x.Name == "result" {
			if tv, ok := e.vars["result.0"]; ok {
				return tv
			}
		}
		// package-level variable or constant
		if tv, ok := vc.globalByName(e, x.Name); ok {
			return tv
		}
		efail("unknown identifier %s", x.Name)
	case EUnary:
		v := e.eval(x.X)
		switch x.Op {
		case "!":
			return TV{Not(e.asBool(v)), tBool}
		case "-":
			return TV{app(SInt, "-", e.asInt(v)), v.T}
		}
	case EBinary:
		return e.evalBinary(x)
	case ECond:
		c := e.asBool(e.eval(x.C))
		a, b := e.eval(x.A), e.eval(x.B)
		if a.T.K == KSet || b.T.K == KSet {
			sa, sb := e.asSet(a), e.asSet(b)
			if sa.Arr != nil && sb.Arr != nil {
				arr := Ite(c, *sa.Arr, *sb.Arr)
				return TV{SetVal{Mem: func(y Term) Term { return Select(arr, y) }, Arr: &arr, Elem: sa.Elem}, setOf(sa.Elem)}
			}
			return TV{SetVal{Mem: func(y Term) Term { return Ite(c, sa.Mem(y), sb.Mem(y)) }, Elem: sa.Elem}, setOf(sa.Elem)}
		}
		return TV{Ite(c, e.asTerm(a), e.asTerm(b)), a.T}
	case ESel:
		return e.evalSel(x)
	case EIndex:
		return e.evalIndex(x)
	case ESlice:
		base := e.eval(x.X)
		sv, ok := base.V.(SliceVal)
		if !ok {
			efail("slice expression on %s", base.T)
		}
		lo := Zero
		if x.Lo != nil {
			lo = e.asInt(e.eval(x.Lo))
		}
		hi := sv.Len
		if x.Hi != nil {
			hi = e.asInt(e.eval(x.Hi))
		}
		return TV{SliceVal{Arr: sv.Arr, Off: Add(sv.Off, lo), Len: Sub(hi, lo), Cap: Sub(sv.Cap, lo), Elem: sv.Elem}, base.T}
	case ECall:
		return e.evalCall(x)
	case EAssert:
		v := e.eval(x.X)
		if v.T.K != KIface {
			efail("type assertion on non-interface %s", v.T)
		}
		ty := e.resolveType(x.T)
		if ty.K == KStruct {
			return TV{vc.unboxStruct(e.heap, e.asTerm(v), ty), ty}
		}
		return TV{vc.unbox(e.asTerm(v), ty), ty}
	case ETypeIs:
		v := e.eval(x.X)
		ty := e.resolveType(x.T)
		return TV{Eq(vc.tagOf(e.asTerm(v)), vc.tagFor(ty)), tBool}
	case EQuant:
		return e.evalQuant(x)
	case ESetComp:
		ty := e.resolveType(x.Var.T)
		outer := e
		return TV{SetVal{Mem: func(y Term) Term {
			ne := *outer
			ne.vars = make(map[string]TV, len(outer.vars)+1)
			for k, v := range outer.vars {
				ne.vars[k] = v
			}
			ne.depth = outer.depth + 1
			ne.vars[x.Var.Name] = TV{y, ty}
			return ne.asBool(ne.eval(x.Body))
		}, Elem: ty}, setOf(ty)}
	case ESetLit:
		var elems []Term
		var et SType
		for i, el := range x.Elems {
			tv := e.eval(el)
			if i == 0 {
				et = tv.T
			}
			elems = append(elems, e.asTerm(tv))
		}
		if len(elems) == 0 {
			et = SType{K: KInt}
		}
		sort := et.SortOf()
		arr := ConstArr(ArrSort(sort, SBool), False)
		if sort != SInt {
			efail("set literal over non-Int sort")
		}
		for _, t := range elems {
			arr = Store(arr, t, True)
		}
		return TV{SetVal{Mem: func(x Term) Term { return Select(arr, x) }, Arr: &arr, Elem: et}, setOf(et)}
	case EUpdate:
		base := e.eval(x.X)
		k := e.asTerm(e.eval(x.K))
		switch base.T.K {
		case KSet:
			sv := e.asSet(base)
			val := e.asBool(e.eval(x.V))
			return TV{SetVal{Mem: func(y Term) Term { return Ite(Eq(y, k), val, sv.Mem(y)) }, Elem: sv.Elem}, base.T}
		case KSeq:
			arr := e.asTerm(base)
			v := e.asTerm(e.eval(x.V))
			return TV{Store(arr, k, v), base.T}
		}
		efail("update of %s unsupported", base.T)
	}
	efail("cannot evaluate %#v", x)
	return TV{}
}

func (e *Env) asSet(tv TV) SetVal {
	switch v := tv.V.(type) {
	case SetVal:
		return v
	case Term:
		if tv.T.K == KSet {
			el := *tv.T.Elem
			return SetVal{Mem: func(x Term) Term { return Select(v, x) }, Arr: &v, Elem: el}
		}
		if tv.T.K == KMap {
			dom := Select(e.vc.mapComp(e.heap, tv.T, "mapdom"), v)
			return SetVal{Mem: func(x Term) Term { return Select(dom, x) }, Arr: &dom, Elem: *tv.T.Key}
		}
	case SliceVal:
		vc := e.vc
		h := e.heap
		if v.Elem.single() && v.Elem.SortOf() == SInt {
			a := Select(vc.hget(h, vc.elemsComp(v.Elem)), v.Arr)
			vc.inseqAxioms(a, v.Off, v.Len)
			return SetVal{Mem: func(x Term) Term { return vc.inseq(a, v.Off, v.Len, x) }, Elem: v.Elem}
		}
		return SetVal{Mem: func(x Term) Term {
			i := Term{fmt.Sprintf("i!%d", e.depth), SInt}
			el := vc.sliceElemTerm(h, v, i)
			return Exists([]Term{i}, And(Le(Zero, i), Lt(i, v.Len), Eq(el, x)))
		}, Elem: v.Elem}
	}
	efail("set expected, got %T : %s", tv.V, tv.T)
	return SetVal{}
}

func (e *Env) evalBinary(x EBinary) TV {
	switch x.Op {
	case "&&":
		return TV{And(e.asBool(e.eval(x.X)), e.asBool(e.eval(x.Y))), tBool}
	case "||":
		return TV{Or(e.asBool(e.eval(x.X)), e.asBool(e.eval(x.Y))), tBool}
	case "==>":
		return TV{Implies(e.asBool(e.eval(x.X)), e.asBool(e.eval(x.Y))), tBool}
	case "<==>":
		return TV{Eq(e.asBool(e.eval(x.X)), e.asBool(e.eval(x.Y))), tBool}
	}
	a, b := e.eval(x.X), e.eval(x.Y)
	switch x.Op {
	case "==", "!=":
		eq := e.equal(a, b)
		if x.Op == "!=" {
			eq = Not(eq)
		}
		return TV{eq, tBool}
	case "in":
		return TV{e.member(a, b), tBool}
	case "union", "inter", "minus":
		sa, sb := e.asSet(a), e.asSet(b)
		var mem func(Term) Term
		switch x.Op {
		case "union":
			mem = func(y Term) Term { return Or(sa.Mem(y), sb.Mem(y)) }
		case "inter":
			mem = func(y Term) Term { return And(sa.Mem(y), sb.Mem(y)) }
		default:
			mem = func(y Term) Term { return And(sa.Mem(y), Not(sb.Mem(y))) }
		}
		return TV{SetVal{Mem: mem, Elem: sa.Elem}, setOf(sa.Elem)}
	case "subset":
		sa, sb := e.asSet(a), e.asSet(b)
		y := Term{fmt.Sprintf("y!%d", e.depth), sa.Elem.SortOf()}
		body := Implies(sa.Mem(y), sb.Mem(y))
		return TV{Forall([]Term{y}, body), tBool}
	}
	ta, tb := e.asInt(a), e.asInt(b)
	rt := a.T
	switch x.Op {
	case "+":
		if a.T.K == KStr || b.T.K == KStr {
			vc := e.vc
			vc.declareOnce("strcat", "(declare-fun strcat (Int Int) Int)\n(assert (forall ((a! Int) (b! Int)) (! (= (strlen (strcat a! b!)) (+ (strlen a!) (strlen b!))) :pattern ((strcat a! b!)))))")
			vc.strLen(Zero)
			if la, oka := vc.litOf(ta); oka {
				if lb, okb := vc.litOf(tb); okb {
					return TV{vc.strLit(la + lb), SType{K: KStr, Go: types.Typ[types.String]}} // constant folding, as the compiler does
				}
			}
			return TV{app(SInt, "strcat", ta, tb), SType{K: KStr, Go: types.Typ[types.String]}}
		}
		return TV{Add(ta, tb), rt}
	case "-":
		return TV{Sub(ta, tb), rt}
	case "*":
		return TV{Mul(ta, tb), rt}
	case "/":
		return TV{app(SInt, "div", ta, tb), rt}
	case "%":
		return TV{app(SInt, "mod", ta, tb), rt}
	case "<", "<=", ">", ">=":
		if a.T.K == KStr && b.T.K == KStr {
			e.vc.declareOnce("strlt", "(declare-fun strlt (Int Int) Bool)")
			switch x.Op {
			case "<":
				return TV{app(SBool, "strlt", ta, tb), tBool}
			case ">":
				return TV{app(SBool, "strlt", tb, ta), tBool}
			case "<=":
				return TV{Not(app(SBool, "strlt", tb, ta)), tBool}
			default:
				return TV{Not(app(SBool, "strlt", ta, tb)), tBool}
			}
		}
	}
	switch x.Op {
	case "<":
		return TV{Lt(ta, tb), tBool}
	case "<=":
		return TV{Le(ta, tb), tBool}
	case ">":
		return TV{Gt(ta, tb), tBool}
	case ">=":
		return TV{Ge(ta, tb), tBool}
	}
	efail("unknown operator %s", x.Op)
	return TV{}
}

func (e *Env) equal(a, b TV) Term {
	if a.T.K == KSet || b.T.K == KSet {
		sa, sb := e.asSet(a), e.asSet(b)
		if sa.Arr != nil && sb.Arr != nil {
			return Eq(*sa.Arr, *sb.Arr)
		}
		e2 := *e
		e2.depth++
		y := Term{fmt.Sprintf("y!%d", e.depth), sa.Elem.SortOf()}
		body := Eq(sa.Mem(y), sb.Mem(y))
		return Forall([]Term{y}, body)
	}
	if sa, ok := a.V.(SliceVal); ok {
		sb, ok2 := b.V.(SliceVal)
		if !ok2 {
			// comparison with nil
			if t, ok3 := b.V.(Term); ok3 && t.S == "0" {
				return Eq(sa.Arr, Zero)
			}
			efail("slice compared with non-slice")
		}
		return And(Eq(sa.Arr, sb.Arr), Eq(sa.Off, sb.Off), Eq(sa.Len, sb.Len))
	}
	if _, ok := b.V.(SliceVal); ok {
		return e.equal(b, a)
	}
	ta, tb := e.asTerm(a), e.asTerm(b)
	if ta.Sort != tb.Sort {
		efail("comparison of %s:%s with %s:%s", ta.S, ta.Sort, tb.S, tb.Sort)
	}
	return Eq(ta, tb)
}

func (e *Env) member(a, b TV) Term {
	x := e.asTerm(a)
	switch b.T.K {
	case KMap:
		m := e.asInt(b)
		return Select(Select(e.vc.mapComp(e.heap, b.T, "mapdom"), m), x)
	}
	e2 := *e
	e2.depth++
	return e2.asSet(b).Mem(x)
}

func (e *Env) evalSel(x ESel) TV {
	vc := e.vc
	// result.N
	if id, ok := x.X.(EIdent); ok && id.Name == "result" {
		if tv, ok := e.vars["result."+x.Name]; ok {
			return tv
		}
	}
	// qualified global: pkg.Name
	if id, ok := x.X.(EIdent); ok {
		if _, isVar := e.vars[id.Name]; !isVar {
			if tv, ok := vc.qualifiedGlobal(e, id.Name, x.Name); ok {
				return tv
			}
		}
	}
	base := e.eval(x.X)
	switch bv := base.V.(type) {
	case StructVal:
		if v, ok := bv.F[x.Name]; ok {
			return TV{v, vc.fieldType(bv.T, x.Name)}
		}
		efail("no field %s in struct value %s", x.Name, bv.T)
	case TupleVal:
		var i int
		fmt.Sscanf(x.Name, "%d", &i)
		return TV{bv[i], base.T.Fields[i]}
	case SliceVal:
		switch x.Name {
		case "arr":
			return TV{bv.Arr, tInt}
		case "off":
			return TV{bv.Off, tInt}
		}
	}
	var loc Loc
	var structT SType
	pv, isPtr := base.V.(PtrVal)
	switch {
	case isPtr && (pv.Elem.K == KStruct || pv.Elem.K == KUnit):
		loc = pv.Loc
		structT = pv.Elem
	case base.T.K == KRef:
		loc = Loc{canonicalPrefix(*base.T.Elem), []Term{e.asInt(base)}}
		structT = *base.T.Elem
	default:
		efail("selector .%s on %s", x.Name, base.T)
	}
	ft, isGhost, ok := vc.lookupField(structT, x.Name)
	if !ok {
		efail("no field or ghost field %s in %s", x.Name, structT)
	}
	_ = isGhost
	floc := Loc{vc.fieldComp(loc.Prefix, structT, x.Name), loc.Idx}
	return TV{vc.readLoc(e.heap, floc, ft), ft}
}

// ghostCompTerm returns the current term and element type of a declared ghost component.
func (e *Env) ghostCompTerm(name string) (Term, SType, bool) {
	g, ok := e.vc.w.ghostComps[name]
	if !ok {
		return Term{}, SType{}, false
	}
	if _, shadow := e.vars[name]; shadow {
		return Term{}, SType{}, false
	}
	ge := &Env{vc: e.vc, pkgPath: g.Pkg, cf: e.vc.w.cfByPkg[g.Pkg]}
	ty := ge.resolveType(g.T)
	comp := "ghost:g." + name
	e.vc.registerComp(comp, compInfo{Sort: ArrSort(SInt, ty.SortOf()), Depth: 1, Ghost: true})
	return e.vc.hget(e.heap, comp), ty, true
}

func (e *Env) evalIndex(x EIndex) TV {
	vc := e.vc
	if id, ok := x.X.(EIdent); ok {
		if ct, ty, isGhost := e.ghostCompTerm(id.Name); isGhost {
			return TV{Select(ct, e.asInt(e.eval(x.I))), ty}
		}
	}
	base := e.eval(x.X)
	idx := e.asTerm(e.eval(x.I))
	switch base.T.K {
	case KMap:
		m := e.asInt(base)
		vt := *base.T.Elem
		if !vt.single() {
			efail("map with composite values unsupported in specs: %s", base.T)
		}
		if vt.K == KUnit {
			return TV{UnitVal{}, vt}
		}
		return TV{Select(Select(vc.mapComp(e.heap, base.T, "mapval"), m), idx), vt}
	case KSlice:
		sv := base.V.(SliceVal)
		if sv.Elem.K == KStruct {
			// located struct element: fields are read through "elems:<T>.<field>" components
			return TV{PtrVal{Loc: Loc{"elems:" + sv.Elem.String(), []Term{sv.Arr, vc.sidx(sv.Off, idx)}}, Elem: sv.Elem}, sv.Elem}
		}
		return TV{vc.sliceElem(e.heap, sv, idx), sv.Elem}
	case KSeq:
		return TV{Select(e.asTerm(base), idx), *base.T.Elem}
	case KSet:
		return TV{e.asSet(base).Mem(idx), tBool}
	case KStr:
		return TV{vc.strAt(e.asTerm(base), idx), tInt}
	}
	efail("index on %s", base.T)
	return TV{}
}

func (e *Env) evalQuant(x EQuant) TV {
	ne := *e
	ne.vars = make(map[string]TV, len(e.vars)+len(x.Vars))
	for k, v := range e.vars {
		ne.vars[k] = v
	}
	ne.depth = e.depth + 1
	var bound []Term
	for _, qv := range x.Vars {
		ty := e.resolveType(qv.T)
		if !ty.single() {
			efail("quantified variable %s of composite type %s", qv.Name, ty)
		}
		bt := Term{fmt.Sprintf("%s!%d", qv.Name, ne.depth), ty.SortOf()}
		bound = append(bound, bt)
		ne.vars[qv.Name] = TV{bt, ty}
	}
	body := ne.asBool(ne.eval(x.Body))
	var pats [][]Term
	for _, p := range x.Patterns {
		var pt []Term
		for _, pe := range p {
			pt = append(pt, ne.asTerm(ne.eval(pe)))
		}
		pats = append(pats, pt)
	}
	if x.Forall {
		return TV{Forall(bound, body, pats...), tBool}
	}
	ex := Exists(bound, body, pats...)
	if len(x.Witnesses) > 0 && len(x.Vars) == 1 {
		// candidate witnesses: the existential is offered as a disjunction of instances as well (each
		// instance implies the existential, so this only helps the solver find a witness)
		alts := []Term{ex}
		for _, wexpr := range x.Witnesses {
			we := *e
			we.vars = make(map[string]TV, len(e.vars)+1)
			for k, v := range e.vars {
				we.vars[k] = v
			}
			we.vars[x.Vars[0].Name] = e.eval(wexpr)
			alts = append(alts, we.asBool(we.eval(x.Body)))
		}
		return TV{Or(alts...), tBool}
	}
	return TV{ex, tBool}
}

func (e *Env) evalCall(x ECall) TV {
	vc := e.vc
	switch x.Fn {
	case "old":
		ne := *e
		ne.heap = e.old
		return ne.eval(x.Args[0])
	case "len":
		v := e.eval(x.Args[0])
		switch v.T.K {
		case KMap:
			return TV{Select(vc.mapComp(e.heap, v.T, "maplen"), e.asInt(v)), tInt}
		case KSlice:
			return TV{v.V.(SliceVal).Len, tInt}
		case KStr:
			return TV{vc.strLen(e.asTerm(v)), tInt}
		}
		efail("len of %s", v.T)
	case "substr":
		// substr(s, lo, hi): what the slice expression s[lo:hi] of a string yields in the code (same uninterpreted symbol)
		if len(x.Args) != 3 {
			efail("substr(s, lo, hi)")
		}
		sv := e.eval(x.Args[0])
		if sv.T.K != KStr {
			efail("substr of %s", sv.T)
		}
		vc.declareOnce("substr", "(declare-fun substr (Int Int Int) Int)\n(assert (forall ((s! Int) (a! Int) (b! Int)) (! (=> (and (<= 0 a!) (<= a! b!) (<= b! (strlen s!))) (= (strlen (substr s! a! b!)) (- b! a!))) :pattern ((substr s! a! b!)))))")
		return TV{app(SInt, "substr", e.asTerm(sv), e.asTerm(e.eval(x.Args[1])), e.asTerm(e.eval(x.Args[2]))), sv.T}
	case "cap":
		v := e.eval(x.Args[0])
		if sv, ok := v.V.(SliceVal); ok {
			return TV{sv.Cap, tInt}
		}
		efail("cap of %s", v.T)
	case "dom":
		v := e.eval(x.Args[0])
		s := e.asSet(v)
		return TV{s, setOf(s.Elem)}
	case "vals":
		v := e.eval(x.Args[0])
		if v.T.K != KMap || !v.T.Elem.single() {
			efail("vals of %s", v.T)
		}
		return TV{Select(vc.mapComp(e.heap, v.T, "mapval"), e.asInt(v)), seqOf(*v.T.Elem)}
	case "set":
		v := e.eval(x.Args[0])
		s := e.asSet(v)
		return TV{s, setOf(s.Elem)}
	case "fresh":
		v := e.asInt(e.eval(x.Args[0]))
		return TV{And(Ne(v, Zero), Not(Select(vc.allocOf(e.old), v)), Select(vc.allocOf(e.heap), v)), tBool}
	case "allocated":
		v := e.asInt(e.eval(x.Args[0]))
		return TV{Select(vc.allocOf(e.heap), v), tBool}
	case "any":
		v := e.eval(x.Args[0])
		return TV{vc.box(e.asTerm(v), v.T), FromGo(types.Universe.Lookup("any").Type())}
	case "iscopy":
		a, b := e.eval(x.Args[0]), e.eval(x.Args[1])
		return TV{vc.isCopy(e.asInt(a), e.asInt(b)), tBool}
	case "deref":
		v := e.eval(x.Args[0])
		if v.T.K != KPtr || !v.T.Elem.single() {
			efail("deref of %s", v.T)
		}
		loc := Loc{canonicalPrefix(*v.T.Elem), []Term{e.asInt(v)}}
		return TV{vc.readLoc(e.heap, loc, *v.T.Elem), *v.T.Elem}
	case "implements":
		// implements(x, InterfaceType-as-identifier)
		v := e.eval(x.Args[0])
		id, ok := x.Args[1].(EIdent)
		if !ok {
			efail("implements(x, InterfaceName)")
		}
		it := e.resolveType(&TypeExpr{Kind: "name", Name: id.Name})
		return TV{vc.implementsTerm(e.asTerm(v), it), tBool}
	case "card":
		v := e.eval(x.Args[0])
		sv := e.asSet(v)
		if sv.Arr == nil {
			probe := Term{"|probe$0|", SInt}
			if strings.Contains(sv.Mem(probe).S, "!") {
				efail("card of a set expression that depends on a bound variable")
			}
			arr := vc.script.Declare("set:materialized", ArrSort(SInt, SBool))
			y := Term{"y!", SInt}
			vc.script.Assume(Forall([]Term{y}, Eq(Select(arr, y), sv.Mem(y)), []Term{Select(arr, y)}))
			return TV{vc.card(arr), tInt}
		}
		return TV{vc.card(*sv.Arr), tInt}
	case "setview":
		c := e.asInt(e.eval(x.Args[0]))
		vc.registerComp(setViewComp, compInfo{Sort: ArrSort(SInt, ArrSort(SInt, SBool)), Depth: 1, Ghost: true})
		return TV{Select(vc.hget(e.heap, setViewComp), c), setOf(SType{K: KInt, Unsigned: true})}
	case "viewof":
		v := e.asInt(e.eval(x.Args[0]))
		vc.registerComp(setViewComp, compInfo{Sort: ArrSort(SInt, ArrSort(SInt, SBool)), Depth: 1, Ghost: true})
		return TV{Select(vc.hget(e.heap, setViewComp), vc.cellOf(v)), setOf(SType{K: KInt, Unsigned: true})}
	case "cellof":
		v := e.eval(x.Args[0])
		return TV{vc.cellOf(e.asTerm(v)), SType{K: KInt}}
	case "tagof":
		v := e.eval(x.Args[0])
		return TV{vc.tagOf(e.asTerm(v)), tInt}
	case "sentlen", "recvlen", "recvevents", "recvoffers", "sendoffers":
		c := e.asInt(e.eval(x.Args[0]))
		comp := map[string]string{"sentlen": chSentLen, "recvlen": chRecvLen, "recvevents": chRecvEvents, "recvoffers": chRecvOffers, "sendoffers": chSendOffers}[x.Fn]
		return TV{vc.chGet(e.heap, comp, c), tInt}
	case "sentat", "recvat":
		c := e.asInt(e.eval(x.Args[0]))
		i := e.asInt(e.eval(x.Args[1]))
		comp := chSent
		if x.Fn == "recvat" {
			comp = chRecv
		}
		return TV{Select(vc.chGet(e.heap, comp, c), i), tInt}
	case "chanclosed":
		c := e.asInt(e.eval(x.Args[0]))
		return TV{vc.chGet(e.heap, chClosed, c), tBool}
	case "selects":
		return TV{vc.chGet(e.heap, chSelects, Zero), tInt}
	case "held":
		// held(lockExpr, mode) with mode 0 (none), 1 (R), 2 (W)
		v := e.eval(x.Args[0])
		pv, ok := v.V.(PtrVal)
		if !ok {
			efail("held: lock expression must denote an embedded mutex")
		}
		st := vc.readCell(e.heap, vc.lockStateLoc(pv.Loc))
		m := e.asInt(e.eval(x.Args[1]))
		return TV{Eq(st, m), tBool}
	}
	// uninterpreted spec function declared with "pure func name(params) T" and no body? not supported.
	pf := vc.w.lookupPure(e.pkgPath, x.Fn)
	if pf == nil {
		efail("unknown spec function %s", x.Fn)
	}
	if len(pf.Params) != len(x.Args) {
		efail("spec function %s: %d arguments for %d parameters", x.Fn, len(x.Args), len(pf.Params))
	}
	if e.depth > 40 {
		efail("spec function recursion too deep at %s", x.Fn)
	}
	ne := &Env{vc: vc, heap: e.heap, old: e.old, vars: map[string]TV{}, pkgPath: pf.Pkg, cf: vc.w.cfByPkg[pf.Pkg], depth: e.depth + 1}
	if ne.cf == nil {
		ne.cf = e.cf
	}
	if pf.Body == nil {
		// uninterpreted specification function
		rt := ne.resolveType(pf.Ret)
		var args []Term
		var sorts []string
		for i := range pf.Params {
			a := e.asTerm(e.eval(x.Args[i]))
			args = append(args, a)
			sorts = append(sorts, string(a.Sort))
		}
		name := quoteSym("spec:" + pf.Pkg + "." + pf.Name)
		vc.declareOnce("spec:"+pf.Pkg+"."+pf.Name, fmt.Sprintf("(declare-fun %s (%s) %s)", name, strings.Join(sorts, " "), rt.SortOf()))
		t := app(rt.SortOf(), name, args...)
		if len(args) == 0 {
			t = Term{name, rt.SortOf()}
		}
		return TV{t, rt}
	}
	for i, p := range pf.Params {
		ne.vars[p.Name] = e.eval(x.Args[i])
	}
	return ne.eval(pf.Body)
}

// ---------------------------------------------------------------------------------------------
// helpers on VC used by the evaluator

func (vc *VC) fieldType(st SType, name string) SType {
	ft, _, ok := vc.lookupField(st, name)
	if !ok {
		efail("no field %s in %s", name, st)
	}
	return ft
}

// lookupField finds a real or ghost field of a struct type.
func (vc *VC) lookupField(st SType, name string) (SType, bool, bool) {
	if st.Go != nil {
		if s, ok := structOf(st.Go); ok {
			for i := 0; i < s.NumFields(); i++ {
				if s.Field(i).Name() == name {
					return FromGo(s.Field(i).Type()), false, true
				}
			}
		}
		if g, ok := vc.w.ghosts[typeKey(st.Go)+"."+name]; ok {
			return g, true, true
		}
	}
	return SType{}, false, false
}

// readLoc reads a value of type ft at a location.
func (vc *VC) readLoc(h *Heap, loc Loc, ft SType) Value {
	switch ft.K {
	case KStruct:
		return PtrVal{Loc: loc, Elem: ft}
	case KUnit:
		return UnitVal{}
	case KSlice:
		get := func(suffix string, nonneg bool) Term {
			vc.registerComp(loc.Prefix+suffix, compInfo{Sort: nestSort(SInt, len(loc.Idx)), Depth: len(loc.Idx), NonNeg: nonneg, RefVals: suffix == "#arr"})
			return vc.readCell(h, Loc{loc.Prefix + suffix, loc.Idx})
		}
		return SliceVal{Arr: get("#arr", false), Off: get("#off", true), Len: get("#len", true), Cap: get("#cap", true), Elem: *ft.Elem}
	case KTuple:
		efail("read of %s at %s unsupported", ft, loc.Prefix)
	case KArray:
		// an array-typed field read as a whole: the opaque array value kept in its own cell (see loadValue)
		if strings.HasPrefix(loc.Prefix, "elems:") {
			efail("read of array object %s as a value unsupported in specifications", loc.Prefix)
		}
		vloc := Loc{loc.Prefix + "#val", loc.Idx}
		vc.registerComp(vloc.Prefix, compInfo{Sort: nestSort(SInt, len(loc.Idx)), Depth: len(loc.Idx)})
		return vc.readCell(h, vloc)
	}
	vc.registerComp(loc.Prefix, compInfo{Sort: nestSort(ft.SortOf(), len(loc.Idx)), Depth: len(loc.Idx), RefVals: isRefKind(ft), NonNeg: ft.K == KInt && ft.Unsigned})
	return vc.readCell(h, loc)
}

func isRefKind(t SType) bool {
	switch t.K {
	case KRef, KPtr, KMap, KChan:
		return true
	}
	return false
}

func nestSort(el Sort, depth int) Sort {
	s := el
	for i := 0; i < depth; i++ {
		s = ArrSort(SInt, s)
	}
	return s
}

// mapComp returns the current term of one of the three components of a map type.
func (vc *VC) mapComp(h *Heap, mt SType, which string) Term {
	key := mapKey(mt)
	if !mt.Key.single() {
		panic(unsupported{"map with composite key type unsupported: " + mt.String()})
	}
	if mt.Key.SortOf() != SInt {
		efail("map with non-Int key sort unsupported: %s", mt)
	}
	vsort := SInt
	refv := false
	if mt.Elem.single() {
		vsort = mt.Elem.SortOf()
		refv = isRefKind(*mt.Elem)
	}
	vc.registerComp("mapdom:"+key, compInfo{Sort: ArrSort(SInt, ArrSort(SInt, SBool)), Depth: 2})
	vc.registerComp("maplen:"+key, compInfo{Sort: ArrSort(SInt, SInt), Depth: 1})
	vc.registerComp("mapval:"+key, compInfo{Sort: ArrSort(SInt, ArrSort(SInt, vsort)), Depth: 2, RefVals: refv})
	return vc.hget(h, which+":"+key)
}

func mapKey(mt SType) string {
	return mt.Key.String() + ":" + mt.Elem.String()
}

func (vc *VC) elemsComp(el SType) string {
	name := "elems:" + el.String()
	if !el.single() {
		efail("slice of composite element type %s unsupported", el)
	}
	vc.registerComp(name, compInfo{Sort: ArrSort(SInt, ArrSort(SInt, el.SortOf())), Depth: 2, RefVals: isRefKind(el), NonNeg: el.K == KInt && el.Unsigned})
	return name
}

func (vc *VC) sliceElemTerm(h *Heap, sv SliceVal, i Term) Term {
	return Select(Select(vc.hget(h, vc.elemsComp(sv.Elem)), sv.Arr), vc.sidx(sv.Off, i))
}

func (vc *VC) sliceElem(h *Heap, sv SliceVal, i Term) Value {
	if sv.Elem.K == KUnit {
		return UnitVal{}
	}
	return vc.sliceElemTerm(h, sv, i)
}

func (vc *VC) ptrToTerm(p PtrVal) Term {
	if len(p.Loc.Idx) == 1 && p.Loc.Prefix == canonicalPrefix(p.Elem) {
		return p.Loc.Idx[0]
	}
	if len(p.Loc.Idx) == 1 {
		// a pointer to a field of a struct: as a value it is an (unspecified) function of the field path and the enclosing
		// object, nil exactly when the enclosing object is. Nothing else is known about it (it may or may not equal any
		// other pointer), which is all a contract needs to say `s != nil` about a receiver that is a field of something.
		name := quoteSym("iptr:" + p.Loc.Prefix)
		vc.declareOnce("iptr:"+p.Loc.Prefix, fmt.Sprintf("(declare-fun %s (Int) Int)\n(assert (forall ((b! Int)) (! (= (= (%s b!) 0) (= b! 0)) :pattern ((%s b!)))))", name, name, name))
		return app(SInt, name, p.Loc.Idx[0])
	}
	efail("interior pointer %s used as a first-class value (outside the supported subset)", p.Loc.Prefix)
	return Term{}
}

// --- interfaces: tag + box/unbox -------------------------------------------------------------

func (vc *VC) tagOf(i Term) Term {
	vc.declareOnce("tagof", "(declare-fun tagof (Int) Int)\n(assert (= (tagof 0) 0))")
	return app(SInt, "tagof", i)
}

func (vc *VC) tagFor(t SType) Term {
	key := t.String()
	if n, ok := vc.tags[key]; ok {
		return IntLit(int64(n))
	}
	n := len(vc.tags) + 1
	vc.tags[key] = n
	return IntLit(int64(n))
}

func (vc *VC) boxNames(t SType) (string, string) {
	key := t.String()
	bn, un := quoteSym("box:"+key), quoteSym("unbox:"+key)
	sort := t.SortOf()
	tag := vc.tagFor(t)
	vc.declareOnce("box:"+key, fmt.Sprintf(
		"(declare-fun %[1]s (%[3]s) Int)\n(declare-fun %[2]s (Int) %[3]s)\n"+
			"(assert (forall ((x! %[3]s)) (! (and (= (%[2]s (%[1]s x!)) x!) (= (tagof (%[1]s x!)) %[4]s) (not (= (%[1]s x!) 0))) :pattern ((%[1]s x!)))))",
		bn, un, sort, tag.S))
	return bn, un
}

func (vc *VC) box(v Term, t SType) Term {
	if t.K == KIface {
		return v
	}
	if !t.single() {
		efail("boxing composite %s unsupported", t)
	}
	vc.tagOf(Zero)
	bn, _ := vc.boxNames(t)
	return app(SInt, bn, v)
}

func (vc *VC) unbox(i Term, t SType) Term {
	if t.K == KIface {
		return i
	}
	if !t.single() {
		efail("unboxing composite %s unsupported", t)
	}
	vc.tagOf(Zero)
	_, un := vc.boxNames(t)
	return app(t.SortOf(), un, i)
}

func (vc *VC) declareOnce(key, text string) {
	if vc.declared[key] {
		return
	}
	vc.declared[key] = true
	vc.script.DeclareRaw(text)
}

// --- strings (opaque identifiers with a length) -----------------------------------------------

func (vc *VC) strLen(s Term) Term {
	vc.declareOnce("strlen", "(declare-fun strlen (Int) Int)\n(assert (forall ((s! Int)) (! (>= (strlen s!) 0) :pattern ((strlen s!)))))\n(assert (= (strlen 0) 0))\n(assert (forall ((s! Int)) (! (=> (= (strlen s!) 0) (= s! 0)) :pattern ((strlen s!)))))")
	return app(SInt, "strlen", s)
}

// strAt is the byte at position i of a string (uninterpreted; bytes are 0..255).
func (vc *VC) strAt(s, i Term) Term {
	vc.declareOnce("strat", "(declare-fun strat (Int Int) Int)\n(assert (forall ((s! Int) (i! Int)) (! (and (>= (strat s! i!) 0) (< (strat s! i!) 256)) :pattern ((strat s! i!)))))")
	return app(SInt, "strat", s, i)
}

// litOf gives the content of a term that is a string literal.
func (vc *VC) litOf(t Term) (string, bool) {
	if t.S == "0" {
		return "", true
	}
	for content, lt := range vc.strLits {
		if lt.S == t.S {
			return content, true
		}
	}
	return "", false
}

func (vc *VC) strLit(s string) Term {
	if s == "" {
		return Zero
	}
	if t, ok := vc.strLits[s]; ok {
		return t
	}
	// distinct literals are distinct positive ids
	n := len(vc.strLits) + 1
	t := Term{quoteSym(fmt.Sprintf("str:%d:%s", n, sanitize(s))), SInt}
	vc.script.DeclareRaw(fmt.Sprintf("(declare-fun %s () Int)\n(assert (= %s %d))\n(assert (= %s %d))", t.S, t.S, 1000000+n, vc.strLen(t).S, len(s)))
	vc.strLits[s] = t
	// the bytes of a short literal are facts too (a model that makes a parameter equal to the literal then carries the
	// literal's content, which is what a replay needs)
	if len(s) <= 32 {
		var facts []string
		for i := 0; i < len(s); i++ {
			facts = append(facts, fmt.Sprintf("(assert (= %s %d))", vc.strAt(t, IntLit(int64(i))).S, s[i]))
		}
		vc.script.DeclareRaw(strings.Join(facts, "\n"))
	}
	return t
}

func sanitize(s string) string {
	var b strings.Builder
	for _, c := range s {
		if c >= 'a' && c <= 'z' || c >= 'A' && c <= 'Z' || c >= '0' && c <= '9' || c == '_' || c == '-' {
			b.WriteRune(c)
		} else {
			b.WriteRune('_')
		}
		if b.Len() > 24 {
			break
		}
	}
	return b.String()
}

// globalByName resolves a package-level constant or variable of the contract's package.
func (vc *VC) globalByName(e *Env, name string) (TV, bool) {
	return vc.qualifiedGlobalIn(e, e.pkgPath, name)
}

func (vc *VC) qualifiedGlobal(e *Env, pkg, name string) (TV, bool) {
	path := pkg
	if e.cf != nil {
		if p, ok := e.cf.Imports[pkg]; ok {
			path = p
		}
	}
	if _, ok := vc.w.typesPkgs[path]; !ok {
		found := false
		for p, tp := range vc.w.typesPkgs {
			if tp.Name() == pkg {
				path, found = p, true
				break
			}
		}
		if !found {
			return TV{}, false
		}
	}
	return vc.qualifiedGlobalIn(e, path, name)
}

func (vc *VC) qualifiedGlobalIn(e *Env, path, name string) (TV, bool) {
	p := vc.w.typesPkgs[path]
	if p == nil {
		return TV{}, false
	}
	obj := p.Scope().Lookup(name)
	switch o := obj.(type) {
	case *types.Const:
		t := FromGo(o.Type())
		switch t.K {
		case KInt:
			return TV{BigLit(o.Val().ExactString()), t}, true
		case KBool:
			if o.Val().String() == "true" {
				return TV{True, t}, true
			}
			return TV{False, t}, true
		case KStr:
			return TV{vc.strLit(strings.Trim(o.Val().ExactString(), `"`)), t}, true
		}
	case *types.Var:
		t := FromGo(o.Type())
		loc := Loc{"global:" + path + "." + name, []Term{vc.globalsRef()}}
		return TV{vc.readLoc(e.heap, loc, t), t}, true
	}
	return TV{}, false
}


// conjunct is one top-level conjunct of a clause, together with the environment it is evaluated in
// (spec-function calls are unfolded one level at a time so that each conjunct of an invariant becomes
// its own named obligation).
type conjunct struct {
	env *Env
	e   Expr
	tag string
}

func (e *Env) conjuncts(x Expr, tag string, depth int) []conjunct {
	switch v := x.(type) {
	case EBinary:
		if v.Op == "&&" {
			l := e.conjuncts(v.X, tag, depth)
			r := e.conjuncts(v.Y, tag, depth)
			return append(l, r...)
		}
	case ECall:
		if depth < 3 {
			if pf := e.vc.w.lookupPure(e.pkgPath, v.Fn); pf != nil && pf.Body != nil && len(pf.Params) == len(v.Args) {
				ne := &Env{vc: e.vc, heap: e.heap, old: e.old, vars: map[string]TV{}, pkgPath: pf.Pkg, cf: e.vc.w.cfByPkg[pf.Pkg], depth: e.depth + 1}
				if ne.cf == nil {
					ne.cf = e.cf
				}
				ok := true
				func() {
					defer func() {
						if r := recover(); r != nil {
							if _, isEval := r.(evalError); isEval {
								ok = false
								return
							}
							panic(r)
						}
					}()
					for i, p := range pf.Params {
						ne.vars[p.Name] = e.eval(v.Args[i])
					}
				}()
				if ok {
					t := tag
					if t != "" {
						t += "."
					}
					return ne.conjuncts(pf.Body, t+v.Fn, depth+1)
				}
			}
		}
	}
	return []conjunct{{e, x, tag}}
}


// fieldComp names the component of field name of a struct located at prefix. Ghost fields may be
// declared with an explicit shared component ("as <comp>").
func (vc *VC) fieldComp(prefix string, structT SType, name string) string {
	if structT.Go != nil {
		if a, ok := vc.w.ghostAlias[typeKey(structT.Go)+"."+name]; ok && prefix == typeKey(structT.Go) {
			return a
		}
	}
	return prefix + "." + name
}

// unboxStruct reads the (immutable) payload of an interface value holding a struct.
func (vc *VC) unboxStruct(h *Heap, x Term, t SType) StructVal {
	sv := StructVal{T: t, F: map[string]Value{}}
	s, _ := structOf(t.Go)
	for i := 0; i < s.NumFields(); i++ {
		f := s.Field(i)
		ft := FromGo(f.Type())
		if !ft.single() {
			efail("boxed struct %s with composite field %s unsupported", t, f.Name())
		}
		loc := Loc{"box:" + typeKey(t.Go) + "." + f.Name(), []Term{x}}
		sv.F[f.Name()] = vc.wrapSpec(vc.readLoc(h, loc, ft).(Term), ft)
	}
	return sv
}

func (vc *VC) wrapSpec(t Term, ty SType) Value { return t }


func (vc *VC) implementsTerm(x Term, it SType) Term {
	vc.tagOf(Zero)
	name := quoteSym("impl:" + it.String())
	vc.declareOnce("impl:"+it.String(), fmt.Sprintf("(declare-fun %s (Int) Bool)", name))
	return And(Ne(x, Zero), app(SBool, name, vc.tagOf(x)))
}

// card is the cardinality of a finite set (uninterpreted, with the facts proofs need).
func (vc *VC) card(s Term) Term {
	vc.declareOnce("card", "(declare-fun card ((Array Int Bool)) Int)\n"+
		"(assert (forall ((s! (Array Int Bool))) (! (>= (card s!) 0) :pattern ((card s!)))))\n"+
		"(assert (= (card ((as const (Array Int Bool)) false)) 0))\n"+
		"(assert (forall ((s! (Array Int Bool)) (x! Int)) (! (=> (select s! x!) (>= (card s!) 1)) :pattern ((card s!) (select s! x!)))))")
	return app(SInt, "card", s)
}

// cellOf maps an interface value to the identity of the mutable object that carries its abstract
// state (defined per implementation by axioms in the contract files).
func (vc *VC) cellOf(x Term) Term {
	vc.declareOnce("cellof", "(declare-fun cellof (Int) Int)")
	return app(SInt, "cellof", x)
}


// inseq(a, off, n, y): y occurs among a[off .. off+n). Uninterpreted, with its definition supplied as
// two linking facts per slice value (inseqAxioms) and the append lemma emitted by appendOp; this keeps
// existential witnesses out of proof goals.
func (vc *VC) inseq(a, off, n, y Term) Term {
	vc.declareOnce("inseq", "(declare-fun inseq ((Array Int Int) Int Int Int) Bool)\n"+
		"(assert (forall ((a! (Array Int Int)) (o! Int) (y! Int)) (! (not (inseq a! o! 0 y!)) :pattern ((inseq a! o! 0 y!)))))")
	return app(SBool, "inseq", a, off, n, y)
}

func (vc *VC) inseqAxioms(a, off, n Term) {
	for _, t := range []Term{a, off, n} {
		if strings.Contains(t.S, "!") {
			return // mentions a bound variable: no ground instance can be emitted
		}
	}
	key := "inseqax:" + a.S + "|" + off.S + "|" + n.S
	if vc.declared[key] {
		return
	}
	vc.declared[key] = true
	vc.inseq(a, off, n, Zero)
	j := Term{"j!", SInt}
	y := Term{"y!", SInt}
	el := Select(a, vc.sidx(off, j))
	vc.script.Assume(Forall([]Term{j}, Implies(And(Le(Zero, j), Lt(j, n)), vc.inseq(a, off, n, el)), []Term{el}))
	vc.script.Assume(Forall([]Term{y}, Implies(vc.inseq(a, off, n, y), Exists([]Term{j}, And(Le(Zero, j), Lt(j, n), Eq(el, y)))), []Term{vc.inseq(a, off, n, y)}))
	// one-step unfolding for this particular length (no recursion: the shorter prefix gets no axiom of its own)
	last := Select(a, vc.sidx(off, Sub(n, One)))
	vc.script.Assume(Forall([]Term{y}, Eq(vc.inseq(a, off, n, y), And(Gt(n, Zero), Or(vc.inseq(a, off, Sub(n, One), y), Eq(last, y)))), []Term{vc.inseq(a, off, n, y)}))
}


// lane is one scalar component of a slice element type (one per field for struct elements).
type lane struct {
	comp string
	sort Sort
	ft   SType
}

func (vc *VC) elemLanes(el SType) []lane {
	if el.single() {
		return []lane{{vc.elemsComp(el), el.SortOf(), el}}
	}
	return vc.lanesAt("elems:"+el.String(), el)
}

// lanesAt flattens a composite slice element type into its scalar components (one two-index component per
// scalar field path; a slice-typed part contributes its four header words), named the way FieldAddr/readLoc
// name them when they follow a pointer into the backing array.
func (vc *VC) lanesAt(prefix string, t SType) []lane {
	reg := func(name string, sort Sort, ft SType, ref, nonneg bool) lane {
		vc.registerComp(name, compInfo{Sort: ArrSort(SInt, ArrSort(SInt, sort)), Depth: 2, RefVals: ref, NonNeg: nonneg})
		return lane{name, sort, ft}
	}
	switch {
	case t.K == KUnit:
		return nil
	case t.single():
		return []lane{reg(prefix, t.SortOf(), t, isRefKind(t), t.K == KInt && t.Unsigned)}
	case t.K == KSlice:
		return []lane{reg(prefix+"#arr", SInt, tInt, true, false), reg(prefix+"#off", SInt, tInt, false, true),
			reg(prefix+"#len", SInt, tInt, false, true), reg(prefix+"#cap", SInt, tInt, false, true)}
	case t.K == KStruct:
		var out []lane
		s, _ := structOf(t.Go)
		for i := 0; i < s.NumFields(); i++ {
			f := s.Field(i)
			out = append(out, vc.lanesAt(prefix+"."+f.Name(), FromGo(f.Type()))...)
		}
		return out
	}
	efail("slice element type with a part of type %s unsupported", t)
	return nil
}


// isCopy is the uninterpreted "is a deep copy of" relation on reference-like values; the only fact
// known about it is that nil is copied to nil and only nil is.
func (vc *VC) isCopy(r, v Term) Term {
	vc.declareOnce("iscopy", "(declare-fun iscopy (Int Int) Bool)\n(assert (forall ((r! Int) (v! Int)) (! (=> (iscopy r! v!) (= (= r! 0) (= v! 0))) :pattern ((iscopy r! v!)))))")
	return app(SBool, "iscopy", r, v)
}


// sidx(off, i) is the position of element i of a slice that starts at offset off in its backing array. It
// is an uninterpreted symbol defined by the axiom sidx(o, i) = o + i, so that element terms have the same
// syntactic shape everywhere (quantifier triggers of the form (+ off i) do not survive the solvers'
// arithmetic normalisation). A literal zero offset is elided.
func (vc *VC) sidx(off, i Term) Term {
	if off.S == "0" {
		return i
	}
	vc.declareOnce("sidx", "(declare-fun sidx (Int Int) Int)\n(assert (forall ((o! Int) (i! Int)) (! (= (sidx o! i!) (+ o! i!)) :pattern ((sidx o! i!)))))")
	return app(SInt, "sidx", off, i)
}


// FreeCellVal stands for a captured variable of the closure under verification: the name denotes the CONTENT of the
// variable in the heap the expression is evaluated in (so old(x) and x may differ), not the cell's address.
type FreeCellVal struct{ P PtrVal }

func (vc *VC) cellContent(h *Heap, p PtrVal) TV {
	if p.Elem.K == KStruct || p.Elem.K == KUnit {
		return TV{p, p.Elem} // a located struct: fields and ghost fields are read through the location
	}
	v := vc.loadValue(&State{pc: True, heap: h}, p.Loc, p.Elem)
	return TV{vc.specValue(v, p.Elem), p.Elem}
}
