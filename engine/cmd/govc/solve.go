package main

import (
	"bytes"
	"context"
	"fmt"
	"os"
	"os/exec"
	"path/filepath"
	"strings"
	"sync"
	"sync/atomic"
	"time"
)

type solverSpec struct {
	name string
	args func(timeoutS int, file string) []string
}

var solvers = []solverSpec{
	{"z3-5.1.0", func(t int, f string) []string { return []string{"z3-new", fmt.Sprintf("-T:%d", t), f} }},
	{"z3-4.8.12", func(t int, f string) []string { return []string{"z3", fmt.Sprintf("-T:%d", t), f} }},
	{"cvc5-1.0.3", func(t int, f string) []string { return []string{"cvc5", fmt.Sprintf("--tlimit=%d", t*1000), f} }},
}

// failFast (selftests only): once an obligation has failed, the remaining ones are skipped - the run only has to show
// that the check reports a violation. Never used by the registered commands.
var failFast bool
var stopSolving atomic.Bool

var retriesLeft = 4
var retryMu sync.Mutex // retries run one at a time so that they do not compete with each other

type solveResult struct {
	status string // unsat sat unknown timeout error
	solver string
	out    string
	secs   float64
}

func runSolver(sp solverSpec, timeoutS int, file string) solveResult {
	return runSolverCtx(context.Background(), sp, timeoutS, file)
}

func runSolverCtx(parent context.Context, sp solverSpec, timeoutS int, file string) solveResult {
	ctx, cancel := context.WithTimeout(parent, time.Duration(timeoutS+2)*time.Second)
	defer cancel()
	argv := sp.args(timeoutS, file)
	cmd := exec.CommandContext(ctx, argv[0], argv[1:]...)
	var out bytes.Buffer
	cmd.Stdout = &out
	cmd.Stderr = &out
	start := time.Now()
	err := cmd.Run()
	secs := time.Since(start).Seconds()
	text := out.String()
	first := ""
	for _, line := range strings.Split(text, "\n") {
		line = strings.TrimSpace(line)
		if line == "" || strings.HasPrefix(line, "WARNING") || strings.HasPrefix(line, "(warning") {
			continue
		}
		first = line
		break
	}
	switch first {
	case "unsat", "sat", "unknown":
		return solveResult{first, sp.name, text, secs}
	case "timeout":
		return solveResult{"timeout", sp.name, text, secs}
	}
	if parent.Err() != nil {
		return solveResult{"cancelled", sp.name, text, secs}
	}
	if ctx.Err() != nil {
		return solveResult{"timeout", sp.name, text, secs}
	}
	if err != nil || strings.Contains(text, "error") {
		return solveResult{"error", sp.name, text, secs}
	}
	return solveResult{"unknown", sp.name, text, secs}
}

// queryText builds the SMT-LIB query of an obligation.
func queryText(vc *VC, o *Obligation, getValues []string) string {
	var b strings.Builder
	b.WriteString("(set-option :produce-models true)\n(set-logic ALL)\n")
	b.WriteString("; obligation " + o.Name + "\n")
	b.WriteString(vc.script.Prefix(o.Pos))
	b.WriteString("(assert " + o.PC.S + ")\n")
	if !o.Cover {
		b.WriteString("(assert (not " + o.Goal.S + "))\n")
	}
	b.WriteString("(check-sat)\n")
	if len(getValues) > 0 {
		b.WriteString("(get-value (" + strings.Join(getValues, " ") + "))\n")
	}
	return b.String()
}

type solveConfig struct {
	workDir   string
	quickT    int // first-stage timeout (s)
	slowT     int // second-stage timeout (s)
	workers   int
	allAgree  bool // thorough: run every solver and record disagreements
}

// solveAll discharges the obligations of the reports in parallel.
func solveAll(reps []*FuncReport, cfg solveConfig) {
	type job struct {
		rep *FuncReport
		o   *Obligation
		n   int
	}
	var jobs []job
	n := 0
	for _, r := range reps {
		for _, o := range r.Obligations {
			jobs = append(jobs, job{r, o, n})
			n++
		}
	}
	os.MkdirAll(cfg.workDir, 0o755)
	ch := make(chan job)
	var wg sync.WaitGroup
	for w := 0; w < cfg.workers; w++ {
		wg.Add(1)
		go func() {
			defer wg.Done()
			for j := range ch {
				solveOne(j.rep.vc, j.o, filepath.Join(cfg.workDir, fmt.Sprintf("q%04d.smt2", j.n)), cfg)
			}
		}()
	}
	for _, j := range jobs {
		ch <- j
	}
	close(ch)
	wg.Wait()
}

func solveOne(vc *VC, o *Obligation, file string, cfg solveConfig) {
	if o.Result != "" {
		return // pre-decided (unsupported construct, missing target)
	}
	if failFast && stopSolving.Load() {
		o.Result = "skipped"
		return
	}
	text := queryText(vc, o, nil)
	o.Bytes = len(text)
	if err := os.WriteFile(file, []byte(text), 0o644); err != nil {
		o.Result, o.Detail = "error", err.Error()
		return
	}
	keep := false
	defer func() {
		if !keep {
			os.Remove(file)
		}
	}()
	if o.Cover {
		r := runSolver(solvers[0], cfg.quickT, file)
		o.Solver, o.TimeS = r.solver, r.secs
		if r.status == "unsat" {
			o.Result = "vacuous" // the path condition is contradictory: a cover obligation failed
			keep = true
		} else {
			o.Result = "covered:" + r.status
		}
		return
	}
	// race the three solvers; the first definite answer (unsat or sat) wins and the others are stopped
	race := func(timeoutS int) []solveResult {
		var results []solveResult
		ctx, cancel := context.WithCancel(context.Background())
		ch := make(chan solveResult, len(solvers))
		for _, sp := range solvers {
			go func(sp solverSpec) { ch <- runSolverCtx(ctx, sp, timeoutS, file) }(sp)
		}
		for range solvers {
			r := <-ch
			results = append(results, r)
			if (r.status == "unsat" || r.status == "sat") && !cfg.allAgree {
				break
			}
		}
		cancel()
		return results
	}
	results := race(cfg.slowT)
	definite := false
	for _, r := range results {
		if r.status == "unsat" || r.status == "sat" {
			definite = true
		}
	}
	if !definite {
		// no solver gave a definite answer (possibly a loaded machine): one more round with twice the time
		// before the obligation is reported as failed. At most four such retries per run: a tree on which many
		// obligations fail is reported without them.
		retryMu.Lock()
		if retriesLeft > 0 {
			retriesLeft--
			results = append(results, race(2*cfg.slowT)...)
		}
		retryMu.Unlock()
	}
	total := 0.0
	sawSat, sawUnsat := false, false
	var by string
	var detail []string
	for _, r := range results {
		total += r.secs
		detail = append(detail, fmt.Sprintf("%s=%s(%.2fs)", r.solver, r.status, r.secs))
		switch r.status {
		case "unsat":
			if !sawUnsat {
				by = r.solver
			}
			sawUnsat = true
		case "sat":
			sawSat = true
		}
	}
	o.TimeS = total
	o.Detail = strings.Join(detail, " ")
	switch {
	case sawUnsat && !sawSat:
		o.Result, o.Solver = "unsat", by
	case sawSat && sawUnsat:
		o.Result = "disagree"
		keep = true
	case sawSat:
		o.Result = "sat"
		keep = true
	default:
		// unknown / timeout everywhere
		o.Result = "unknown"
		for _, r := range results {
			if r.status == "timeout" {
				o.Result = "timeout"
			}
		}
		keep = true
	}
	if keep {
		o.Model = file
		if failFast {
			stopSolving.Store(true)
		}
	}
}
