package main

import (
	"fmt"
	"go/types"
	"strings"

	"golang.org/x/tools/go/ssa"
)

// FuncReport is what the generator produced for one function under contract.
type FuncReport struct {
	Key         string
	SSAHash     string
	Instrs      int
	Obligations []*Obligation
	Notes       []string
	Unsupported string // non-empty: the function is outside the supported subset (reported as a failed obligation)
	ScriptBytes int
	vc          *VC
}

func resolveGhosts(w *World) error {
	vc := &VC{w: w}
	for key, g := range w.ghostSrc {
		cf := g.CF
		env := &Env{vc: vc, pkgPath: g.Pkg, cf: cf}
		var st SType
		err := func() (err error) {
			defer func() {
				if r := recover(); r != nil {
					err = fmt.Errorf("%v", r)
				}
			}()
			st = env.resolveType(g.T)
			return nil
		}()
		if err != nil {
			return fmt.Errorf("ghost field %s: %v", key, err)
		}
		w.ghosts[key] = st
	}
	// ghost owners may be written with an import alias: re-key by resolved type
	for key, g := range w.ghostSrc {
		t := g.Owner
		for t.Kind == "ptr" {
			t = t.Elem
		}
		if t.Pkg == "" {
			continue
		}
		cf := g.CF
		env := &Env{vc: vc, pkgPath: g.Pkg, cf: cf}
		func() {
			defer func() { recover() }()
			ot := env.resolveType(t)
			if ot.Go != nil {
				nk := typeKey(ot.Go) + "." + g.Name
				if nk != key {
					w.ghosts[nk] = w.ghosts[key]
				}
			}
		}()
	}
	return nil
}

func countInstrs(fn *ssa.Function) int {
	n := 0
	for _, b := range fn.Blocks {
		n += len(b.Instrs)
	}
	return n
}

// VerifyFunction generates all obligations of fn against its contract.
func VerifyFunction(w *World, fn *ssa.Function, fc *FuncContract) (rep *FuncReport) {
	vc := NewVC(w, fn)
	vc.contract = fc
	rep = &FuncReport{Key: vc.topKey, SSAHash: ssaHash(fn), Instrs: countInstrs(fn), vc: vc}
	defer func() {
		if r := recover(); r != nil {
			switch e := r.(type) {
			case unsupported:
				rep.Unsupported = e.msg
			case evalError:
				rep.Unsupported = "contract error: " + e.msg
			default:
				panic(r)
			}
		}
		rep.Obligations = vc.obls
		for n := range vc.notes {
			rep.Notes = append(rep.Notes, n)
		}
		rep.ScriptBytes = len(vc.script.Prefix(vc.script.Pos()))
	}()
	vc.setupMonitor()
	st := &State{pc: True, heap: &Heap{base: vc.base0, c: map[string]Term{}}}
	vc.entry = &Heap{base: vc.base0, c: map[string]Term{}}
	if vc.monitor != nil {
		vc.resolveGuards()
	}
	params := map[string]TV{}
	var args []Value
	bind := func(i int, name string, t types.Type) {
		ty := FromGo(t)
		v := vc.freshValue("p:"+name, ty)
		args = append(args, v)
		vc.assumeAllocated(st, v, ty)
		cname := name
		if fc != nil && i < len(fc.ParamNames) && i >= 0 {
			cname = fc.ParamNames[i]
		}
		params[cname] = TV{vc.specValue(v, ty), ty}
		if name != cname {
			params[name] = params[cname]
		}
	}
	for i, p := range fn.Params {
		bind(i, p.Name(), p.Type())
	}
	for _, fv := range fn.FreeVars {
		bind(-1, fv.Name(), fv.Type())
		if p, ok := args[len(args)-1].(PtrVal); ok {
			// the cell of a captured variable is never nil; in contracts the name denotes its content
			if len(p.Loc.Idx) == 1 {
				vc.script.Assume(Ne(p.Loc.Idx[0], Zero))
			}
			params[fv.Name()] = TV{FreeCellVal{p}, p.Elem}
		}
	}
	if vc.monitor != nil && len(fn.Params) > 0 {
		if t, ok := args[0].(PtrVal); ok {
			vc.recvTerm = t.Loc.Idx[0]
		}
		if sv, ok := args[0].(StructVal); ok {
			vc.recvStruct = &sv
		}
	}
	vc.topParams = params
	env := &Env{vc: vc, heap: st.heap, old: vc.entry, vars: params}
	if fc != nil {
		env.cf, env.pkgPath = vc.fileOf(fc), vc.pkgOf(fc)
	}
	if fc != nil && fc.Iterates != nil {
		// delivery protocol ghost state: nothing delivered, not stopped
		_, _ = vc.deliveryState(st)
		vc.setDelivery(st, ConstArr(ArrSort(SInt, SBool), False), False)
		vc.entry = st.heap.Clone()
	}
	if usesChannels(fn) {
		vc.chanComps() // before the state axioms, so that the channel-related ones apply from the entry state on
	}
	vc.assumeStateAxioms(st)
	if fc != nil {
		for _, c := range fc.Requires {
			t, err := env.EvalBool(c.E)
			if err != nil {
				vc.fail("requires: %v", err)
			}
			vc.assume(st, t)
		}
	}
	vc.cover(st, "cover.pre")
	fr := &frame{fn: fn, env: map[ssa.Value]Value{}, depth: 0, top: true, loopOrd: loopOrdinals(fn), iterOf: map[ssa.Value]*mapIter{}, params: params}
	for i, p := range fn.Params {
		fr.env[p] = args[i]
	}
	for i, fv := range fn.FreeVars {
		fr.env[fv] = args[len(fn.Params)+i]
	}
	vc.stack = append(vc.stack, fn)
	rets := vc.execBlocks(fr, st)
	if len(rets) > 0 {
		var conds []Term
		for _, r := range rets {
			conds = append(conds, r.st.pc)
		}
		vc.cover(&State{pc: Or(conds...), heap: rets[0].st.heap}, "cover.exit")
	}
	// loops named in the contract must exist
	if fc != nil {
		for _, l := range fc.Loops {
			found := false
			for _, ord := range fr.loopOrd {
				if ord == l.Ordinal {
					found = true
				}
			}
			if !found {
				vc.oblige(&State{pc: True, heap: st.heap}, "target", fmt.Sprintf("target.missing@loop%d", l.Ordinal), "loop named in contract does not exist", False)
			}
		}
	}
	return rep
}

func (vc *VC) atReturn(fr *frame, st *State, vals []Value, ret *ssa.Return) {
	fc := vc.contract
	if fc == nil {
		return
	}
	env := &Env{vc: vc, heap: st.heap, old: vc.entry, vars: map[string]TV{}, cf: vc.fileOf(fc), pkgPath: vc.pkgOf(fc)}
	for k, v := range fr.params {
		env.vars[k] = v
	}
	res := fr.fn.Signature.Results()
	for i := 0; i < res.Len(); i++ {
		t := FromGo(res.At(i).Type())
		tv := TV{vc.specValue(vals[i], t), t}
		env.vars[fmt.Sprintf("result.%d", i)] = tv
		if i < len(fc.ResultNames) && fc.ResultNames[i] != "" {
			env.vars[fc.ResultNames[i]] = tv
		}
		if res.At(i).Name() != "" {
			if _, taken := env.vars[res.At(i).Name()]; !taken {
				env.vars[res.At(i).Name()] = tv
			}
		}
	}
	if res.Len() == 1 {
		env.vars["result"] = env.vars["result.0"]
	}
	// ghost assignments at return
	for _, gs := range fc.GhostSets {
		func() {
			defer func() {
				if r := recover(); r != nil {
					if ee, ok := r.(evalError); ok {
						vc.fail("ghostset %s: %s", gs.Src, ee.msg)
					}
					panic(r)
				}
			}()
			env.heap = st.heap
			ts := vc.locTargets(env, gs.Lhs)
			if len(ts) != 1 || ts[0].whole {
				efail("ghost assignment needs a single ghost field location")
			}
			if info, ok := vc.comps[ts[0].comp]; ok && !isGhostComp(vc, ts[0].comp) {
				_ = info
				efail("ghost assignment to a real field")
			}
			rhs := env.asTerm(env.eval(gs.Rhs))
			vc.readLocRegister(ts[0].comp, rhs.Sort)
			vc.writeCell(st, Loc{ts[0].comp, []Term{ts[0].idx}}, rhs)
		}()
	}
	rn := ""
	if n := vc.returnOrdinal(fr, ret); n > 0 {
		rn = fmt.Sprintf("@ret%d", n)
	}
	for i, c := range fc.Ensures {
		vc.obligeClause(env, st, "post", clauseName("post", i, c), rn, c)
	}
	if fc.HasModifies {
		vc.frameCheck(fr, st, rn)
	}
	if fc.Iterates != nil {
		vc.deliveryAtReturn(fr, st, rn)
	}
}

func (vc *VC) returnOrdinal(fr *frame, ret *ssa.Return) int {
	n, total, mine := 0, 0, 0
	for _, b := range fr.fn.Blocks {
		for _, in := range b.Instrs {
			if r, ok := in.(*ssa.Return); ok {
				total++
				n++
				if r == ret {
					mine = n
				}
			}
		}
	}
	if total <= 1 {
		return 0
	}
	return mine
}

// frameCheck: every component changed since entry is changed only at locations the modifies clause
// allows, as far as previously allocated objects are concerned.
func (vc *VC) frameCheck(fr *frame, st *State, rn string) {
	for _, f := range vc.frameFormulas(fr, st, nil) {
		if f.havoc {
			vc.oblige(st, "frame", "frame.havoc"+rn, "an unspecified callee may modify anything", False)
			return
		}
		vc.oblige(st, "frame", fmt.Sprintf("frame[%s]%s", f.short, rn), "modifies clause", f.t)
	}
}

type frameFormula struct {
	comp, short string
	t           Term
	havoc       bool
}

// frameFormulas states, for every component changed since entry (or listed in only), that it is
// changed only where the modifies clause allows, on previously allocated objects.
func (vc *VC) frameFormulas(fr *frame, st *State, only map[string]bool) (out []frameFormula) {
	fc := vc.contract
	entryEnv := &Env{vc: vc, heap: vc.entry, old: vc.entry, vars: fr.params, cf: vc.fileOf(fc), pkgPath: vc.pkgOf(fc)}
	targets, err := vc.evalModifies(entryEnv, fc)
	if err != nil {
		vc.fail("modifies: %v", err)
	}
	if st.heap.base != vc.base0 {
		return []frameFormula{{havoc: true}}
	}
	alloc0 := vc.base0.alloc
	r := Term{"r!", SInt}
	for _, comp := range sortedKeys(st.heap.c) {
		if comp == allocComp || strings.HasPrefix(comp, "ghost:iter.") {
			continue
		}
		if only != nil && !only[comp] {
			continue
		}
		cur := st.heap.c[comp]
		orig := vc.baseGet(vc.base0, comp)
		if cur.S == orig.S {
			continue
		}
		whole := false
		var idxs []Term
		for _, t := range targets {
			if t.comp != comp {
				continue
			}
			if t.whole {
				whole = true
			} else {
				idxs = append(idxs, t.idx)
			}
		}
		if whole {
			continue
		}
		hyp := []Term{Select(alloc0, r)}
		for _, i := range idxs {
			hyp = append(hyp, Ne(r, i))
		}
		short := comp[strings.LastIndex(comp, "/")+1:]
		out = append(out, frameFormula{comp: comp, short: short, t: Forall([]Term{r}, Implies(And(hyp...), Eq(Select(cur, r), Select(orig, r))), []Term{Select(cur, r)})})
	}
	return out
}

// resolveGuards turns the guard list of the monitor into component names.
func (vc *VC) resolveGuards() {
	m := vc.monitor
	m.Guards = nil
	env := &Env{vc: vc, pkgPath: m.Pkg, cf: vc.w.cfByPkg[m.Pkg], vars: map[string]TV{}}
	for _, src := range m.GuardsSrc {
		func() {
			defer func() {
				if r := recover(); r != nil {
					if ee, ok := r.(evalError); ok {
						vc.fail("monitor guard %s: %s", src, ee.msg)
					}
					panic(r)
				}
			}()
			if strings.HasPrefix(src, "contents(") {
				inner := strings.TrimSuffix(strings.TrimPrefix(src, "contents("), ")")
				dot := strings.LastIndex(inner, ".")
				st := vc.tryTypeDotted(env, inner[:dot])
				if st == nil {
					efail("unknown type")
				}
				ft, _, ok := vc.lookupField(*st, inner[dot+1:])
				if !ok {
					efail("unknown field")
				}
				switch ft.K {
				case KMap:
					k := mapKey(ft)
					m.Guards = append(m.Guards, "mapdom:"+k, "mapval:"+k, "maplen:"+k)
				case KSlice:
					m.Guards = append(m.Guards, "elems:"+ft.Elem.String())
				default:
					efail("contents of non-map/slice")
				}
				return
			}
			dot := strings.LastIndex(src, ".")
			st := vc.tryTypeDotted(env, src[:dot])
			if st == nil {
				efail("unknown type %s", src[:dot])
			}
			ft, _, ok := vc.lookupField(*st, src[dot+1:])
			if !ok {
				efail("unknown field")
			}
			base := typeKey(st.Go) + "." + src[dot+1:]
			if ft.K == KSlice {
				m.Guards = append(m.Guards, base+"#arr", base+"#off", base+"#len", base+"#cap")
			} else {
				m.Guards = append(m.Guards, base)
			}
		}()
	}
}


// obligeClause emits one obligation per top-level conjunct of the clause.
func (vc *VC) obligeClause(env *Env, st *State, kind, name, suffix string, c Clause) {
	cs := env.conjuncts(c.E, "", 0)
	for k, cj := range cs {
		t, err := cj.env.EvalBool(cj.e)
		if err != nil {
			vc.fail("%s: %v", name, err)
		}
		n := name
		if len(cs) > 1 {
			n = fmt.Sprintf("%s.c%d", name, k)
		}
		vc.oblige(st, kind, n+suffix, c.Src, t)
	}
}


func isGhostComp(vc *VC, comp string) bool {
	if strings.HasPrefix(comp, "ghost:") {
		return true
	}
	for k := range vc.w.ghosts {
		if strings.HasSuffix(comp, k[strings.LastIndex(k, ".")+1:]) && strings.HasPrefix(comp, k[:strings.LastIndex(k, ".")]) {
			return true
		}
	}
	return false
}

func (vc *VC) readLocRegister(comp string, valSort Sort) {
	vc.registerComp(comp, compInfo{Sort: ArrSort(SInt, valSort), Depth: 1, Ghost: true})
}


func usesChannels(fn *ssa.Function) bool {
	for _, b := range fn.Blocks {
		for _, in := range b.Instrs {
			switch x := in.(type) {
			case *ssa.MakeChan, *ssa.Send, *ssa.Select:
				return true
			case *ssa.UnOp:
				if _, ok := x.X.Type().Underlying().(*types.Chan); ok {
					return true
				}
			}
		}
	}
	return false
}
