#!/bin/sh
# usage: tools/seedcheck.sh <seed-dir> [property]
# Confirms a seeded defect (patch.diff + zz_seed_demo_test.go + meta.json) in a scratch worktree of /repo:
#   suite passes with the patch, demo fails with it and passes without it; then runs the property's quick check
#   against the patched worktree. Prints one summary line. The worktree is removed afterwards.
export PATH=/opt/veriftools/go1.26.8/bin:$PATH GOFLAGS=-mod=mod GOPROXY=off GOSUMDB=off GOTOOLCHAIN=local CGO_ENABLED=0
sd=$(realpath "$1")
prop=${2:-$(python3 -c "import json,sys;print(json.load(open('$sd/meta.json'))['property'])")}
pkg=$(python3 -c "import json,sys;print(json.load(open('$sd/meta.json'))['package_dir_for_demo'])")
d=$(mktemp -d /tmp/seedchk.XXXXXX)
git -C /repo worktree add -q --detach "$d/r" HEAD >/dev/null 2>&1 || { echo "worktree failed"; exit 2; }
cd "$d/r"
if [ -f "$sd/zz_seed_demo_test.go" ]; then demo="$sd/zz_seed_demo_test.go"; else demo=$(ls $sd/*_test.go 2>/dev/null | head -1); fi
res=""
DEMOTAGS=""; if [ -n "$demo" ] && grep -q "^//go:build.*verif" "$demo"; then DEMOTAGS="-tags=verif"; fi
if ! git apply "$sd/patch.diff" 2>/dev/null; then res="PATCH-DOES-NOT-APPLY"; else
  if [ -z "$SKIP_SUITE" ]; then
    if go test -vet=off -count=1 -timeout 20m ./... >"$d/suite.log" 2>&1; then res="suite=pass"; else res="suite=FAIL($(grep -c '^FAIL' $d/suite.log))"; fi
  fi
  if [ -n "$demo" ]; then
    cp "$demo" "$pkg/zz_seed_demo_test.go"
    if go test $DEMOTAGS -vet=off -count=1 -timeout 10m -run 'Seed' "./$pkg/" >"$d/demo1.log" 2>&1; then res="$res demo-with-patch=PASS(!)"; else res="$res demo-with-patch=fail"; fi
    rm -f "$pkg/zz_seed_demo_test.go"
  fi
  out=$(VERIF_DIR=/verif /verif/bin/govc check -property "$prop" -tier ${TIER:-quick} -repo "$d/r" -no-evidence 2>&1); rc=$?
  n=$(echo "$out" | grep -c '^VIOLATION')
  if [ $rc -eq 1 ] && [ $n -gt 0 ]; then res="$res check=DETECTED($n): $(echo "$out" | grep '^FAILED' | head -2 | cut -c8-140 | tr '\n' ';')"; else res="$res check=MISSED(rc=$rc)"; fi
  git checkout -q -- . 
  if [ -n "$demo" ]; then
    cp "$demo" "$pkg/zz_seed_demo_test.go"
    if go test $DEMOTAGS -vet=off -count=1 -timeout 10m -run 'Seed' "./$pkg/" >"$d/demo0.log" 2>&1; then res="$res demo-without=pass"; else res="$res demo-without=FAIL(!) [$(tail -5 $d/demo0.log | tr "\n" " " | cut -c1-300)]"; fi
  fi
fi
cd /; git -C /repo worktree remove --force "$d/r" >/dev/null 2>&1; rm -rf "$d"
echo "$prop $(basename $(dirname $sd))/$(basename $sd): $res"
