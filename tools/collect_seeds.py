#!/usr/bin/env python3
"""Copies confirmed seeded changes into /verif/seeded/<id>/ (patch.diff, demonstration, meta.json).
usage: collect_seeds.py <results-file> <wave-tag>   (results lines as printed by tools/seedcheck.sh)"""
import json, os, re, shutil, sys, glob
res, tag = sys.argv[1], sys.argv[2]
for line in open(res):
    m = re.match(r'(C\d+) (C\d+[abcd]_out)/(\d): (.*)', line.strip())
    if not m: continue
    prop, out, k, rest = m.groups()
    src = f'/tmp/seeds/{out}/{k}'
    if 'PATCH-DOES-NOT-APPLY' in rest or 'suite=pass' not in rest or 'demo-with-patch=fail' not in rest or 'demo-without=pass' not in rest:
        print('SKIP (not confirmed):', line.strip()[:120]); continue
    dst = f'/verif/seeded/{prop}-{tag}-{k}'
    os.makedirs(dst, exist_ok=True)
    shutil.copy(f'{src}/patch.diff', f'{dst}/patch.diff')
    demos = sorted(glob.glob(f'{src}/*_test.go'))
    main = [d for d in demos if os.path.basename(d) == 'zz_seed_demo_test.go'] or demos
    shutil.copy(main[0], f'{dst}/zz_seed_demo_test.go')
    for extra in demos:
        if extra != main[0]: shutil.copy(extra, dst)
    meta = json.load(open(f'{src}/meta.json'))
    det = re.search(r'check=(DETECTED\(\d+\)|MISSED[^ ]*)(: (.*))?$', rest)
    meta.update({
        'property': prop,
        'breaks': meta.get('what_breaks', ''),
        'needs_in_order_to_manifest': meta.get('needs_to_manifest', ''),
        'origin': 'independent sub-agent given only the property text and a scratch worktree with the contract files hidden',
        'confirmed_by_me': 'tools/seedcheck.sh in a scratch worktree of /repo: full suite passes with the patch, the demonstration fails with it and passes without it',
        'check_result': det.group(1) if det else '?',
        'first_failed_obligations': (det.group(3) or '')[:400] if det else '',
    })
    json.dump(meta, open(f'{dst}/meta.json', 'w'), indent=1)
    print('kept', dst, meta['check_result'])
