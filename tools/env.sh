export PATH=/opt/veriftools/go1.26.8/bin:$PATH GOFLAGS=-mod=mod GOPROXY=off GOSUMDB=off GOTOOLCHAIN=local CGO_ENABLED=0
