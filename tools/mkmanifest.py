#!/usr/bin/env python3
"""Regenerates /verif/MANIFEST.json from tools/claims.json (one entry per claimed property) and properties.jsonl."""
import json, os, subprocess
root = os.path.dirname(os.path.dirname(os.path.abspath(__file__)))
props = [json.loads(l) for l in open(os.path.join(root, 'properties.jsonl'))]
claims = json.load(open(os.path.join(root, 'tools', 'claims.json')))
hook_commits = subprocess.run(['git', '-C', '/repo', 'log', '--format=%h %s'], capture_output=True, text=True).stdout.splitlines()
hooks = [l.split()[0] for l in hook_commits if l.split(' ', 1)[1].startswith('verif:')]
checks = []
for pid, c in claims['claims'].items():
    checks.append({
        "property_id": pid,
        "quick_cmd": f"./check {pid} quick",
        "thorough_cmd": f"./check {pid} thorough",
        "evidence_file": f"/verif/evidence/{pid}.json",
        "replay_cmd_template": f"./check {pid} --replay {{path}}",
        "engine": "govc",
        "level_claimed": {"category": c.get("category", "proof"), "text": c["text"], "design_ref": c.get("design_ref", "DESIGN.md section 5")},
        "level_note": c["note"],
        "technique": c.get("technique", "contract-based deductive verification: WP-style verification conditions generated from go/ssa of the real functions against //@ contracts, discharged by z3/cvc5"),
    })
na = [{"property_id": p['id'], "reason": claims['not_applicable'].get(p['id'], "check not built yet; see DESIGN.md")} for p in props if p['id'] not in claims['claims']]
m = {
    "version": 1,
    "setup_cmd": "./setup.sh",
    "hooks": {"guard": "verif", "enable": "contracts are comment-only files <pkg>/verif_contracts.go guarded by //go:build verif; checks load /repo with -tags=verif", "baseline_off_cmd": "cd /repo && go test -vet=off -count=1 -timeout 25m ./...", "source_commits": hooks, "add_only": True},
    "engines": [{"name": "govc", "path": "/verif/engine", "serves_properties": sorted(claims['claims'].keys()), "kind_free_text": "verification-condition generator over go/ssa of the real functions; contracts in //@ comments; SMT back ends z3 4.8.12, z3 5.1.0, cvc5 1.0.3"}],
    "checks": checks,
    "notes": "See DESIGN.md. known_findings.json lists recorded and fixed defects; selftest/ holds the must-fail corpus.",
    "not_applicable": na,
}
json.dump(m, open(os.path.join(root, 'MANIFEST.json'), 'w'), indent=1)
print("checks:", [c['property_id'] for c in checks])
