#!/usr/bin/env python3
"""Prints the markdown table of DESIGN.md section I.6 from seeded/*/meta.json (which check caught which seeded change)."""
import json, glob, re, os
print('| seed | what the change does (first words of the author\'s description) | needs, to manifest | first failed obligation of the property\'s quick check |')
print('|---|---|---|---|')
for d in sorted(glob.glob(os.path.join(os.path.dirname(__file__), '..', 'seeded', '*'))):
    m = json.load(open(d + '/meta.json'))
    clean = lambda s, n: re.sub(r'\s+', ' ', (s or '')).replace('|', '/')[:n]
    ob = re.sub(r'github.com/specterops/dawgs/', '', m.get('first_failed_obligations', ''))
    mo = re.match(r'(\S+)( \[[a-z-]+\])?', ob)
    print(f"| {os.path.basename(d)} | {clean(m.get('breaks') or m.get('what_breaks'), 170)} | {clean(m.get('needs_in_order_to_manifest') or m.get('needs_to_manifest'), 110)} | `{mo.group(0) if mo else '?'}` {m.get('check_result','')} |")
