#!/bin/sh
# usage: tools/overlay_test.sh <repo-dir> <pkg-dir-relative> <test-file> <TestName>
# Runs an in-package test against the real code without writing into the repository (go test -overlay).
export PATH=/opt/veriftools/go1.26.8/bin:$PATH GOFLAGS=-mod=mod GOPROXY=off GOSUMDB=off GOTOOLCHAIN=local CGO_ENABLED=0
repo="$1"; pkg="$2"; file="$3"; name="$4"
ov=$(mktemp /tmp/ov.XXXXXX.json)
printf '{"Replace": {"%s/%s/zz_verif_replay_test.go": "%s"}}' "$repo" "$pkg" "$(realpath $file)" > "$ov"
(cd "$repo" && go test ${VERIF_TAGS:+-tags=$VERIF_TAGS} -overlay "$ov" -vet=off -v -count=1 -timeout ${VERIF_TEST_TIMEOUT:-600s} -run "^$name\$" "./$pkg" 2>&1); rc=$?
rm -f "$ov"; exit $rc
