package cardinality

// Bounded stand-in for C13 (labelled bounded, never counted as proved): every exact (duplex) ID-set provider
// behaves as a mathematical set of integers. Run in-package through go test -overlay; prints one
// BOUNDED-RESULT line.
//
// IMPLEMENTATIONS (per element type; 32 and 64 bit providers cannot be mixed, Provider[uint32] and
// Provider[uint64] are different types):
//   uint64: bitmap64 = NewBitmap64()+Add(all), bitmap64With = NewBitmap64With(all),
//           threadSafe(bitmap64) = ThreadSafeDuplex(NewBitmap64()) filled by single Adds in descending order
//   uint32: bitmap32, bitmap32With, threadSafe(bitmap32) likewise
//   operand only: foreign(mapset), a map backed Duplex[T] written in this file ("a differently implemented
//           one"); it also counts mutator calls made on it by the code under test (must be 0).
// Receiver and operand are always DISTINCT objects. A provider as its own operand is NOT enumerated: no
// comment in cardinality/*.go documents it as allowed (for a thread-safe wrapper it would re-enter its own
// non-reentrant mutex through operand.Each/Contains).
//
// VALUES. uint64 universe {0,1,2,65535,65536,1<<32,1<<63,MaxUint64}; uint32 universe
// {0,1,2,65535,65536,MaxUint32-1,MaxUint32}. Two fixed sub-universes per element type and run: low = the k
// smallest, high = the k largest universe values; k=5 for VERIF_BOUND "1", k=6 for "2". Contains is always
// probed on the WHOLE universe.
//
// ENUMERATED (for each element type x sub-universe):
//   binary : every ordered pair of subsets (A,B) x every ordered pair (receiver impl, operand impl) x
//            {Or,And,AndNot,Xor}: receiver built as A, operand built as B, one call.
//   unary  : every start subset S x every impl x every operation sequence of length 3 over
//            {Add(x),Remove(x),CheckedAdd(x),Clear()} (x in the sub-universe), checked after EVERY step, so
//            every sequence of length <= 3 is covered as a prefix; plus length 0 (freshly built S).
//   addmany: every (S,M) x impl: one Add(m1..mk, mk..m1) (every value twice), and Add() with no value.
//   each   : every S x impl x every k in 0..|S|: delegate returns false on its k-th call (k=0: never false).
//   clone  : every S x impl x every mutation (each unary operation; each binary operation with every operand
//            subset B held by a plain bitmap; each binary operation with the other copy itself as operand):
//            mutation applied to the clone (original must stay S) and, separately, to the original (clone
//            must stay S).
//   dense  : 3 blocks (4200 consecutive values from 0, i.e. one roaring bitmap container; 600 values
//            crossing 2^16; 600 values crossing 2^32 (uint64) / ending at MaxUint32 (uint32)): every ordered
//            pair of unions of blocks x every impl pair x every binary operation.
//   concurrency (thread-safe wrappers and Clone()s of them, W in {2,8}): see vdConcurrent.
//
// ORACLE (from the property statement): a map[uint64]bool model. Or = union, And = intersection,
// AndNot = difference, Xor = symmetric difference, computed on the maps; Add/CheckedAdd insert, Remove
// deletes, Clear empties, CheckedAdd returns true iff the value was absent. After every step the provider is
// fully observed: Cardinality()==|model|; Slice() is exactly the members in strictly ascending order;
// Contains(v)==model[v] for every universe value; Each visits exactly the members in ascending order and
// makes no call after the delegate returned false. The operand of a binary operation is observed the same
// way afterwards and must still be B. A panic, or no progress for vdHangAfter (deadlock), is a failure.
//
// VERIF_SEED only permutes the order of subsets/implementations/values handed to goroutines; coverage is
// identical for every seed.

import (
	"encoding/json"
	"fmt"
	"math"
	"math/rand"
	"os"
	"regexp"
	"runtime"
	"sort"
	"strconv"
	"strings"
	"sync"
	"sync/atomic"
	"testing"
	"time"
)

// knownDeviations lists regular expressions over failure strings ("<case description> :: <observed>") for
// which the UNCHANGED tree violates the oracle. Such cases are still run and every OTHER observation on them
// is still checked; a matching violation is counted under known_deviations instead of failures. Further
// patterns (plain substrings, "|"-separated) may come through VERIF_KNOWN, as for the other harnesses.
//
// D1 (found by this harness on the unchanged tree; dependency github.com/RoaringBitmap/roaring/v2 v2.19.0):
// bitmap32.Xor on its native path (operand is an unwrapped bitmap32) calls roaring.Bitmap.Xor, whose
// arrayContainer.ixorBitmap(value2) is `return value2.ixor(ac)`: when, for the same high 16 bits, the
// receiver holds an array container and the operand a bitmap container (> 4096 values) and the result stays
// > 4096, the OPERAND's container is xor-ed in place and then shared with the receiver. The operand is
// changed (and aliased). Smallest replay: a={65236..65535}, b={0..4199} (both NewBitmap32), a.Xor(b):
// b.Cardinality() becomes 4500, b.Contains(65300) true. Receivers bitmap32 / bitmap32With /
// threadSafe(bitmap32); 64 bit is not affected (roaring64 uses the non in-place container xor).
var knownDeviations = []string{} // classes come from /verif/known_findings.json through VERIF_KNOWN (substrings)

const vdHangAfter = 20 * time.Second

// ---------------------------------------------------------------------------------------------------------
// foreign implementation (operand only)

type vdMapSet[T uint32 | uint64] struct {
	m        map[T]struct{}
	mutators *int64
}

func vdNewMapSet[T uint32 | uint64](values []T) *vdMapSet[T] {
	s := &vdMapSet[T]{m: map[T]struct{}{}, mutators: new(int64)}
	for _, v := range values {
		s.m[v] = struct{}{}
	}
	return s
}

func (s *vdMapSet[T]) sorted() []T {
	out := make([]T, 0, len(s.m))
	for v := range s.m {
		out = append(out, v)
	}
	sort.Slice(out, func(i, j int) bool { return out[i] < out[j] })
	return out
}
func (s *vdMapSet[T]) Add(values ...T) {
	atomic.AddInt64(s.mutators, 1)
	for _, v := range values {
		s.m[v] = struct{}{}
	}
}
func (s *vdMapSet[T]) Or(other Provider[T])     { atomic.AddInt64(s.mutators, 1) }
func (s *vdMapSet[T]) Xor(other Provider[T])    { atomic.AddInt64(s.mutators, 1) }
func (s *vdMapSet[T]) And(other Provider[T])    { atomic.AddInt64(s.mutators, 1) }
func (s *vdMapSet[T]) AndNot(other Provider[T]) { atomic.AddInt64(s.mutators, 1) }
func (s *vdMapSet[T]) Clear()                   { atomic.AddInt64(s.mutators, 1); s.m = map[T]struct{}{} }
func (s *vdMapSet[T]) Remove(value T)           { atomic.AddInt64(s.mutators, 1); delete(s.m, value) }
func (s *vdMapSet[T]) Cardinality() uint64      { return uint64(len(s.m)) }
func (s *vdMapSet[T]) Slice() []T               { return s.sorted() }
func (s *vdMapSet[T]) Contains(value T) bool    { _, ok := s.m[value]; return ok }
func (s *vdMapSet[T]) Each(delegate func(value T) bool) {
	for _, v := range s.sorted() {
		if !delegate(v) {
			return
		}
	}
}
func (s *vdMapSet[T]) CheckedAdd(value T) bool {
	atomic.AddInt64(s.mutators, 1)
	_, had := s.m[value]
	s.m[value] = struct{}{}
	return !had
}
func (s *vdMapSet[T]) Clone() Duplex[T] { return vdNewMapSet(s.sorted()) }

// ---------------------------------------------------------------------------------------------------------
// model

type vdModel map[uint64]bool

func vdModelOf[T uint32 | uint64](values []T) vdModel {
	m := vdModel{}
	for _, v := range values {
		m[uint64(v)] = true
	}
	return m
}

func (m vdModel) clone() vdModel {
	c := make(vdModel, len(m))
	for k := range m {
		c[k] = true
	}
	return c
}

func (m vdModel) sorted() []uint64 {
	out := make([]uint64, 0, len(m))
	for k := range m {
		out = append(out, k)
	}
	sort.Slice(out, func(i, j int) bool { return out[i] < out[j] })
	return out
}

var vdBinaryOps = []string{"Or", "And", "AndNot", "Xor"}

// vdModelBinary is the mathematical definition of the four operations.
func vdModelBinary(op string, a, b vdModel) vdModel {
	out := vdModel{}
	switch op {
	case "Or":
		for k := range a {
			out[k] = true
		}
		for k := range b {
			out[k] = true
		}
	case "And":
		for k := range a {
			if b[k] {
				out[k] = true
			}
		}
	case "AndNot":
		for k := range a {
			if !b[k] {
				out[k] = true
			}
		}
	case "Xor":
		for k := range a {
			if !b[k] {
				out[k] = true
			}
		}
		for k := range b {
			if !a[k] {
				out[k] = true
			}
		}
	}
	return out
}

func vdApplyBinary[T uint32 | uint64](op string, recv Duplex[T], operand Provider[T]) {
	switch op {
	case "Or":
		recv.Or(operand)
	case "And":
		recv.And(operand)
	case "AndNot":
		recv.AndNot(operand)
	case "Xor":
		recv.Xor(operand)
	}
}

func vdFmt[T uint32 | uint64](xs []T) string {
	var b strings.Builder
	b.WriteString("{")
	for i, x := range xs {
		if len(xs) > 12 && i >= 6 && i < len(xs)-6 {
			if i == 6 {
				fmt.Fprintf(&b, ",...(%d values)...", len(xs)-12)
			}
			continue
		}
		if i > 0 {
			b.WriteString(",")
		}
		b.WriteString(strconv.FormatUint(uint64(x), 10))
	}
	b.WriteString("}")
	return b.String()
}

// vdObserve fully observes d and compares with the model given as a strictly ascending slice. probes are the
// values Contains is asked for. It returns "" or a description of the first difference.
func vdObserve[T uint32 | uint64](d Duplex[T], want []uint64, probes []T) string {
	if got := d.Cardinality(); got != uint64(len(want)) {
		return fmt.Sprintf("Cardinality()=%d want %d", got, len(want))
	}
	got := d.Slice()
	same := len(got) == len(want)
	for i := 0; same && i < len(got); i++ {
		same = uint64(got[i]) == want[i]
	}
	if !same {
		return fmt.Sprintf("Slice()=%s want %s (ascending, duplicate free)", vdFmt(got), vdFmt(want))
	}
	for _, p := range probes {
		i := sort.Search(len(want), func(i int) bool { return want[i] >= uint64(p) })
		member := i < len(want) && want[i] == uint64(p)
		if c := d.Contains(p); c != member {
			return fmt.Sprintf("Contains(%d)=%v want %v", p, c, member)
		}
	}
	visited := make([]T, 0, len(want))
	d.Each(func(v T) bool { visited = append(visited, v); return true })
	same = len(visited) == len(want)
	for i := 0; same && i < len(visited); i++ {
		same = uint64(visited[i]) == want[i]
	}
	if !same {
		return fmt.Sprintf("Each visited %s want %s (ascending, each member once)", vdFmt(visited), vdFmt(want))
	}
	return ""
}

// ---------------------------------------------------------------------------------------------------------
// bookkeeping shared between the enumerating goroutine and the watchdog

type vdState struct {
	mu       sync.Mutex
	failures []string
	nFail    int
	nKnown   int
	knownHits map[string]int
	cases    int64
	known    []string         // substrings (VERIF_KNOWN)
	knownRe  []*regexp.Regexp // knownDeviations
	current  func() string    // describes the case being run (for the hang report)
	progress int64
}

func (s *vdState) begin(describe func() string) {
	s.mu.Lock()
	s.current = describe
	s.progress++
	s.cases++
	s.mu.Unlock()
}

func (s *vdState) fail(caseDesc, observed string) {
	s.mu.Lock()
	defer s.mu.Unlock()
	full := caseDesc + " :: " + observed
	for _, k := range s.known {
		if k != "" && strings.Contains(full, k) {
			s.nKnown++
			if s.knownHits == nil {
				s.knownHits = map[string]int{}
			}
			s.knownHits[k]++
			return
		}
	}
	for _, re := range s.knownRe {
		if re.MatchString(full) {
			s.nKnown++
			return
		}
	}
	s.nFail++
	if len(s.failures) < 5 {
		s.failures = append(s.failures, full)
	}
}

// guard runs one case: a panic inside the code under test becomes a failure of that case.
func (s *vdState) guard(describe func() string, body func() string) {
	s.begin(describe)
	var observed string
	func() {
		defer func() {
			if r := recover(); r != nil {
				observed = fmt.Sprintf("panic: %v", r)
			}
		}()
		observed = body()
	}()
	if observed != "" {
		s.fail(describe(), observed)
	}
}

// ---------------------------------------------------------------------------------------------------------
// implementations

type vdImpl[T uint32 | uint64] struct {
	name        string
	mk          func(values []T) Duplex[T]
	operandOnly bool
}

type vdSuite[T uint32 | uint64] struct {
	typ      string
	impls    []vdImpl[T]
	universe []T
	blocks   [][]T // dense part
}

func vdDescending[T uint32 | uint64](values []T) []T {
	out := append([]T(nil), values...)
	sort.Slice(out, func(i, j int) bool { return out[i] > out[j] })
	return out
}

func vdSuite64() vdSuite[uint64] {
	blocks := [][]uint64{vdRange[uint64](0, 4200), vdRange[uint64](65536-300, 600), vdRange[uint64](1<<32-300, 600)}
	return vdSuite[uint64]{
		typ:      "uint64",
		universe: []uint64{0, 1, 2, 65535, 65536, 1 << 32, 1 << 63, math.MaxUint64},
		blocks:   blocks,
		impls: []vdImpl[uint64]{
			{name: "bitmap64", mk: func(vs []uint64) Duplex[uint64] { d := NewBitmap64(); d.Add(vs...); return d }},
			{name: "bitmap64With", mk: func(vs []uint64) Duplex[uint64] { return NewBitmap64With(vs...) }},
			{name: "threadSafe(bitmap64)", mk: func(vs []uint64) Duplex[uint64] {
				d := ThreadSafeDuplex(NewBitmap64())
				for _, v := range vdDescending(vs) {
					d.Add(v)
				}
				return d
			}},
			{name: "foreign(mapset)", operandOnly: true, mk: func(vs []uint64) Duplex[uint64] { return vdNewMapSet(vs) }},
		},
	}
}

func vdSuite32() vdSuite[uint32] {
	blocks := [][]uint32{vdRange[uint32](0, 4200), vdRange[uint32](65536-300, 600), vdRange[uint32](math.MaxUint32-599, 600)}
	return vdSuite[uint32]{
		typ:      "uint32",
		universe: []uint32{0, 1, 2, 65535, 65536, math.MaxUint32 - 1, math.MaxUint32},
		blocks:   blocks,
		impls: []vdImpl[uint32]{
			{name: "bitmap32", mk: func(vs []uint32) Duplex[uint32] { d := NewBitmap32(); d.Add(vs...); return d }},
			{name: "bitmap32With", mk: func(vs []uint32) Duplex[uint32] { return NewBitmap32With(vs...) }},
			{name: "threadSafe(bitmap32)", mk: func(vs []uint32) Duplex[uint32] {
				d := ThreadSafeDuplex(NewBitmap32())
				for _, v := range vdDescending(vs) {
					d.Add(v)
				}
				return d
			}},
			{name: "foreign(mapset)", operandOnly: true, mk: func(vs []uint32) Duplex[uint32] { return vdNewMapSet(vs) }},
		},
	}
}

func vdRange[T uint32 | uint64](from T, n int) []T {
	out := make([]T, n)
	for i := range out {
		out[i] = from + T(i)
	}
	return out
}

func vdSubset[T uint32 | uint64](sub []T, mask int) []T {
	out := []T{}
	for i, v := range sub {
		if mask&(1<<uint(i)) != 0 {
			out = append(out, v)
		}
	}
	return out
}

func vdToU64[T uint32 | uint64](xs []T) []uint64 {
	out := make([]uint64, len(xs))
	for i, x := range xs {
		out[i] = uint64(x)
	}
	return out
}

// vdOperandUntouched: the foreign operand counts mutator calls.
func vdOperandUntouched[T uint32 | uint64](operand Duplex[T]) string {
	if ms, ok := operand.(*vdMapSet[T]); ok {
		if n := atomic.LoadInt64(ms.mutators); n != 0 {
			return fmt.Sprintf("%d mutator call(s) were made on the operand", n)
		}
	}
	return ""
}

// ---------------------------------------------------------------------------------------------------------
// enumeration parts

// vdBinary: every (A,B) x (receiver impl, operand impl) x operation.
func vdBinary[T uint32 | uint64](st *vdState, su vdSuite[T], subName string, sub []T, rng *rand.Rand) {
	n := 1 << uint(len(sub))
	orderA, orderB, orderI := rng.Perm(n), rng.Perm(n), rng.Perm(len(su.impls)*len(su.impls))
	for _, ia := range orderA {
		a := vdSubset(sub, ia)
		ma := vdModelOf(a)
		for _, ib := range orderB {
			b := vdSubset(sub, ib)
			mb := vdModelOf(b)
			wantB := mb.sorted()
			for _, op := range vdBinaryOps {
				want := vdModelBinary(op, ma, mb).sorted()
				for _, ii := range orderI {
					ri, oi := su.impls[ii/len(su.impls)], su.impls[ii%len(su.impls)]
					if ri.operandOnly {
						continue
					}
					describe := func() string {
						return fmt.Sprintf("binary %s/%s receiver=%s%s .%s( operand=%s%s )", su.typ, subName, ri.name, vdFmt(a), op, oi.name, vdFmt(b))
					}
					st.guard(describe, func() string {
						recv, operand := ri.mk(a), oi.mk(b)
						vdApplyBinary[T](op, recv, operand)
						if d := vdObserve(recv, want, su.universe); d != "" {
							return "receiver afterwards: " + d
						}
						if d := vdObserve(operand, wantB, su.universe); d != "" {
							return "operand afterwards (must be unchanged): " + d
						}
						if d := vdOperandUntouched(operand); d != "" {
							return d
						}
						// independence after the operation: toggling every value of the universe in the receiver must
						// not show in the operand (a result that shares storage with the operand would)
						for _, probe := range su.universe {
							present := false
							for _, w := range want {
								if w == uint64(probe) {
									present = true
								}
							}
							if present {
								recv.Remove(probe)
							} else {
								recv.Add(probe)
							}
						}
						if d := vdObserve(operand, wantB, su.universe); d != "" {
							return "operand after later changes to the receiver (the two must stay independent): " + d
						}
						return ""
					})
				}
			}
		}
	}
}

// vdBinarySelfWrapped: the operand is ANOTHER provider object - the thread-safe wrapper - over the receiver's own set
// (ThreadSafeDuplex does not copy what it wraps). The operation then is "A op A": Or and And leave A, AndNot and Xor
// empty it. The fallback paths iterate the operand while they change the receiver, i.e. the very bitmap they iterate.
func vdBinarySelfWrapped[T uint32 | uint64](st *vdState, su vdSuite[T], subName string, sub []T) {
	n := 1 << uint(len(sub))
	for ia := 0; ia < n; ia++ {
		a := vdSubset(sub, ia)
		ma := vdModelOf(a)
		for _, op := range vdBinaryOps {
			want := vdModelBinary(op, ma, ma).sorted()
			for _, ri := range su.impls[:2] { // the two bare constructions
				st.guard(func() string {
					return fmt.Sprintf("binary %s/%s receiver=%s%s .%s( operand=ThreadSafeDuplex(the receiver itself) )", su.typ, subName, ri.name, vdFmt(a), op)
				}, func() string {
					recv := ri.mk(a)
					done := make(chan string, 1)
					go func() {
						defer func() {
							if r := recover(); r != nil {
								done <- fmt.Sprintf("panic: %v", r)
							}
						}()
						vdApplyBinary[T](op, recv, ThreadSafeDuplex(recv))
						done <- vdObserve(recv, want, su.universe)
					}()
					select {
					case d := <-done:
						if d != "" {
							return "receiver afterwards: " + d
						}
						return ""
					case <-time.After(10 * time.Second):
						return "the operation did not return within 10 s"
					}
				})
			}
		}
	}
}

type vdUnaryOp[T uint32 | uint64] struct {
	kind string // Add, Remove, CheckedAdd, Clear
	x    T
}

func (o vdUnaryOp[T]) String() string {
	if o.kind == "Clear" {
		return "Clear()"
	}
	return fmt.Sprintf("%s(%d)", o.kind, o.x)
}

func vdUnaryOps[T uint32 | uint64](sub []T) []vdUnaryOp[T] {
	ops := []vdUnaryOp[T]{{kind: "Clear"}}
	for _, x := range sub {
		ops = append(ops, vdUnaryOp[T]{"Add", x}, vdUnaryOp[T]{"Remove", x}, vdUnaryOp[T]{"CheckedAdd", x})
	}
	return ops
}

// vdStep applies one unary operation to the provider and to the model; it returns a description of a wrong
// return value, or "".
func vdStep[T uint32 | uint64](d Duplex[T], m vdModel, o vdUnaryOp[T]) string {
	switch o.kind {
	case "Clear":
		d.Clear()
		for k := range m {
			delete(m, k)
		}
	case "Add":
		d.Add(o.x)
		m[uint64(o.x)] = true
	case "Remove":
		d.Remove(o.x)
		delete(m, uint64(o.x))
	case "CheckedAdd":
		wantNew := !m[uint64(o.x)]
		m[uint64(o.x)] = true
		if got := d.CheckedAdd(o.x); got != wantNew {
			return fmt.Sprintf("%s returned %v want %v (true iff newly added)", o, got, wantNew)
		}
	}
	return ""
}

// vdUnary: every start subset x impl x every sequence of exactly 3 operations, observed after every step.
func vdUnary[T uint32 | uint64](st *vdState, su vdSuite[T], subName string, sub []T, rng *rand.Rand) {
	ops := vdUnaryOps(sub)
	n := 1 << uint(len(sub))
	for _, is := range rng.Perm(n) {
		s := vdSubset(sub, is)
		for _, impl := range su.impls {
			if impl.operandOnly {
				continue
			}
			st.guard(func() string {
				return fmt.Sprintf("unary %s/%s %s%s, no operation", su.typ, subName, impl.name, vdFmt(s))
			}, func() string { return vdObserve(impl.mk(s), vdModelOf(s).sorted(), su.universe) })
			for _, i0 := range rng.Perm(len(ops)) {
				for i1 := range ops {
					for i2 := range ops {
						seq := [3]vdUnaryOp[T]{ops[i0], ops[i1], ops[i2]}
						var step int32 // atomic: the watchdog may read it through describe
						describe := func() string {
							return fmt.Sprintf("unary %s/%s %s%s then %v (after step %d)", su.typ, subName, impl.name, vdFmt(s), seq, atomic.LoadInt32(&step))
						}
						st.guard(describe, func() string {
							d, m := impl.mk(s), vdModelOf(s)
							for i := 1; i <= 3; i++ {
								atomic.StoreInt32(&step, int32(i))
								if r := vdStep(d, m, seq[i-1]); r != "" {
									return r
								}
								if r := vdObserve(d, m.sorted(), su.universe); r != "" {
									return r
								}
							}
							return ""
						})
					}
				}
			}
		}
	}
}

// vdAddMany: Add with several values, every value twice; Add with no value.
func vdAddMany[T uint32 | uint64](st *vdState, su vdSuite[T], subName string, sub []T, rng *rand.Rand) {
	n := 1 << uint(len(sub))
	for _, is := range rng.Perm(n) {
		s := vdSubset(sub, is)
		for im := 0; im < n; im++ {
			mvals := vdSubset(sub, im)
			args := append(append([]T{}, mvals...), vdDescending(mvals)...)
			for _, impl := range su.impls {
				if impl.operandOnly {
					continue
				}
				st.guard(func() string {
					return fmt.Sprintf("addmany %s/%s %s%s .Add(%v...)", su.typ, subName, impl.name, vdFmt(s), args)
				}, func() string {
					d := impl.mk(s)
					d.Add(args...)
					return vdObserve(d, vdModelBinary("Or", vdModelOf(s), vdModelOf(mvals)).sorted(), su.universe)
				})
			}
		}
	}
}

// vdEach: the delegate returns false on its k-th call; no call may follow, and the calls made are the k
// smallest members in ascending order. Afterwards the provider must still be usable (a wrapper must have
// released its lock) and unchanged.
func vdEach[T uint32 | uint64](st *vdState, su vdSuite[T], subName string, sub []T, rng *rand.Rand) {
	n := 1 << uint(len(sub))
	for _, is := range rng.Perm(n) {
		s := vdSubset(sub, is)
		want := vdModelOf(s).sorted()
		for _, impl := range su.impls {
			if impl.operandOnly {
				continue
			}
			for k := 0; k <= len(s); k++ {
				st.guard(func() string {
					return fmt.Sprintf("each %s/%s %s%s delegate returns false on call %d (0: never)", su.typ, subName, impl.name, vdFmt(s), k)
				}, func() string {
					d := impl.mk(s)
					var visited []T
					d.Each(func(v T) bool { visited = append(visited, v); return len(visited) != k })
					wantVisited := want
					if k > 0 {
						wantVisited = want[:k]
					}
					same := len(visited) == len(wantVisited)
					for i := 0; same && i < len(visited); i++ {
						same = uint64(visited[i]) == wantVisited[i]
					}
					if !same {
						return fmt.Sprintf("Each visited %s want %s", vdFmt(visited), vdFmt(wantVisited))
					}
					if r := vdObserve(d, want, su.universe); r != "" {
						return "after Each: " + r
					}
					return ""
				})
			}
		}
	}
}

// vdEachAborted: an iteration that does not come back - the caller's delegate panics (and the caller recovers), or ends
// its goroutine - leaves the set what it was and able to answer: every later operation returns (within 5 s) the answers
// of the same set. (A wrapper that still holds its lock after the delegate is gone never answers again.)
func vdEachAborted[T uint32 | uint64](st *vdState, su vdSuite[T], subName string, sub []T) {
	if len(sub) == 0 {
		return
	}
	want := vdModelOf(sub).sorted()
	for _, impl := range su.impls {
		if impl.operandOnly {
			continue
		}
		for _, how := range []string{"panics (recovered by the caller)", "ends its goroutine (runtime.Goexit)"} {
			st.guard(func() string {
				return fmt.Sprintf("each %s/%s %s%s whose delegate %s on its first call", su.typ, subName, impl.name, vdFmt(sub), how)
			}, func() string {
				d := impl.mk(sub)
				gone := make(chan struct{})
				go func() {
					defer close(gone)
					defer func() { _ = recover() }()
					d.Each(func(T) bool {
						if how[0] == 'p' {
							panic("delegate gives up")
						}
						runtime.Goexit()
						return true
					})
				}()
				select {
				case <-gone:
				case <-time.After(5 * time.Second):
					return "the aborted Each itself did not come back within 5 s"
				}
				answer := make(chan string, 1)
				go func() {
					defer func() {
						if r := recover(); r != nil {
							answer <- fmt.Sprintf("panic: %v", r)
						}
					}()
					r := vdObserve(d, want, su.universe)
					if r == "" {
						d.Add(sub[0])
						r = vdObserve(d, want, su.universe)
					}
					answer <- r
				}()
				select {
				case r := <-answer:
					if r != "" {
						return "after the aborted Each: " + r
					}
					return ""
				case <-time.After(5 * time.Second):
					return "after the aborted Each the set does not answer any more (Contains / Cardinality / Add did not return within 5 s)"
				}
			})
		}
	}
}

// vdClone: Clone() is an equal, independent copy. Every mutation is applied once to the clone (original must
// stay S) and once to the original (clone must stay S).
func vdClone[T uint32 | uint64](st *vdState, su vdSuite[T], subName string, sub []T, rng *rand.Rand) {
	type mutation struct {
		name  string
		apply func(target, other Duplex[T], m vdModel) (vdModel, string)
	}
	var muts []mutation
	for _, o := range vdUnaryOps(sub) {
		o := o
		muts = append(muts, mutation{o.String(), func(target, _ Duplex[T], m vdModel) (vdModel, string) {
			r := vdStep(target, m, o)
			return m, r
		}})
	}
	n := 1 << uint(len(sub))
	plain := su.impls[0]
	for _, op := range vdBinaryOps {
		op := op
		for ib := 0; ib < n; ib++ {
			b := vdSubset(sub, ib)
			muts = append(muts, mutation{fmt.Sprintf("%s(%s%s)", op, plain.name, vdFmt(b)), func(target, _ Duplex[T], m vdModel) (vdModel, string) {
				vdApplyBinary[T](op, target, plain.mk(b))
				return vdModelBinary(op, m, vdModelOf(b)), ""
			}})
		}
		muts = append(muts, mutation{op + "(the other copy)", func(target, other Duplex[T], m vdModel) (vdModel, string) {
			vdApplyBinary[T](op, target, other)
			return vdModelBinary(op, m, m), ""
		}})
	}
	for _, is := range rng.Perm(n) {
		s := vdSubset(sub, is)
		wantS := vdModelOf(s).sorted()
		for _, impl := range su.impls {
			if impl.operandOnly {
				continue
			}
			for _, mu := range muts {
				for _, onClone := range []bool{true, false} {
					st.guard(func() string {
						which := "original"
						if onClone {
							which = "clone"
						}
						return fmt.Sprintf("clone %s/%s %s%s .Clone(), then %s applied to the %s", su.typ, subName, impl.name, vdFmt(s), mu.name, which)
					}, func() string {
						orig := impl.mk(s)
						cl := orig.Clone()
						if cl == nil {
							return "Clone() returned nil"
						}
						if r := vdObserve(cl, wantS, su.universe); r != "" {
							return "clone before any mutation: " + r
						}
						target, other := orig, cl
						if onClone {
							target, other = cl, orig
						}
						m, r := mu.apply(target, other, vdModelOf(s))
						if r != "" {
							return r
						}
						if r := vdObserve(target, m.sorted(), su.universe); r != "" {
							return "mutated copy: " + r
						}
						if r := vdObserve(other, wantS, su.universe); r != "" {
							return "the copy that was NOT mutated changed: " + r
						}
						return ""
					})
				}
			}
		}
	}
}

// vdDense: unions of blocks (one of them a roaring bitmap container) as receiver and operand.
func vdDense[T uint32 | uint64](st *vdState, su vdSuite[T], rng *rand.Rand) {
	nb := len(su.blocks)
	n := 1 << uint(nb)
	values := make([][]T, n)
	models := make([]vdModel, n)
	var probes []T
	for _, blk := range su.blocks {
		first, last := blk[0], blk[len(blk)-1]
		probes = append(probes, first, last, first+1, last-1)
		if first > 0 {
			probes = append(probes, first-1)
		}
		if last+1 > last {
			probes = append(probes, last+1)
		}
	}
	probes = append(probes, su.universe...)
	for mask := 0; mask < n; mask++ {
		for i, blk := range su.blocks {
			if mask&(1<<uint(i)) != 0 {
				values[mask] = append(values[mask], blk...)
			}
		}
		models[mask] = vdModelOf(values[mask])
	}
	name := func(mask int) string {
		parts := []string{}
		for i, blk := range su.blocks {
			if mask&(1<<uint(i)) != 0 {
				parts = append(parts, fmt.Sprintf("[%d..%d]", blk[0], blk[len(blk)-1]))
			}
		}
		return "{" + strings.Join(parts, " u ") + "}"
	}
	for _, ia := range rng.Perm(n) {
		for ib := 0; ib < n; ib++ {
			wantB := models[ib].sorted()
			for _, op := range vdBinaryOps {
				want := vdModelBinary(op, models[ia], models[ib]).sorted() // once per (A,B,op); independent of the impl pair
				for _, ri := range su.impls {
					if ri.operandOnly {
						continue
					}
					for _, oi := range su.impls {
						st.guard(func() string {
							return fmt.Sprintf("dense %s receiver=%s%s .%s( operand=%s%s )", su.typ, ri.name, name(ia), op, oi.name, name(ib))
						}, func() string {
							recv, operand := ri.mk(values[ia]), oi.mk(values[ib])
							vdApplyBinary[T](op, recv, operand)
							if d := vdObserve(recv, want, probes); d != "" {
								return "receiver afterwards: " + d
							}
							if d := vdObserve(operand, wantB, probes); d != "" {
								return "operand afterwards (must be unchanged): " + d
							}
							return vdOperandUntouched(operand)
						})
					}
				}
			}
		}
	}
}

// ---------------------------------------------------------------------------------------------------------
// concurrency (deterministic oracle; schedules are whatever the runtime produces, so this part is a sampled
// stress, not an exhaustive enumeration of interleavings)
//
// One shared provider d. Per round: d.Clear(); then W writers are released by one barrier, each calls
// d.CheckedAdd on the same 200 values (crossing the 2^16 and, for uint64, 2^32 boundaries) in its own order;
// 2 readers run Contains/Cardinality/Slice/Each meanwhile. A correct thread-safe set gives, in EVERY
// schedule: for each value exactly one writer got true; every reader sees a cardinality that never
// decreases within the round and is <= 200, and slices/iterations that are strictly ascending subsets of the
// 200 values; nobody panics; afterwards Cardinality()==200 and the content is exactly the 200 values.
// All bookkeeping of the harness itself is goroutine local or synchronised (clean under -race).

func vdConcurrentValues[T uint32 | uint64](typ string) []T {
	var out []T
	out = append(out, vdRange[T](0, 50)...)
	out = append(out, vdRange[T](65536-25, 50)...)
	if typ == "uint64" {
		big := uint64(1) << 32
		out = append(out, vdRange[T](T(big-25), 50)...)
		top := uint64(math.MaxUint64)
		out = append(out, vdRange[T](T(top-49), 50)...)
	} else {
		out = append(out, vdRange[T](T(uint32(1)<<31-25), 50)...)
		out = append(out, vdRange[T](T(uint32(math.MaxUint32)-49), 50)...)
	}
	return out
}

func vdConcurrent[T uint32 | uint64](st *vdState, typ, name string, mk func() Duplex[T], writers, rounds int, seed int64) {
	values := vdConcurrentValues[T](typ)
	member := map[T]bool{}
	for _, v := range values {
		member[v] = true
	}
	wantAll := vdModelOf(values).sorted()
	d := mk()
	for round := 0; round < rounds; round++ {
		describe := func() string {
			return fmt.Sprintf("concurrent %s %s: round %d of %d, %d writers CheckedAdd the same %d values, 2 readers", typ, name, round, rounds, writers, len(values))
		}
		abandoned := false
		st.guard(describe, func() string {
			d.Clear()
			var (
				wg       sync.WaitGroup
				start    = make(chan struct{})
				finished int32
				problemM sync.Mutex
				problem  string
				got      = make([][]bool, writers)
			)
			report := func(format string, args ...any) {
				problemM.Lock()
				if problem == "" {
					problem = fmt.Sprintf(format, args...)
				}
				problemM.Unlock()
			}
			var writersWG sync.WaitGroup
			for g := 0; g < writers; g++ {
				got[g] = make([]bool, len(values))
				order := rand.New(rand.NewSource(seed*1000003 + int64(round*writers+g))).Perm(len(values))
				wg.Add(1)
				writersWG.Add(1)
				go func(g int, order []int) {
					defer wg.Done()
					defer writersWG.Done()
					defer func() {
						if r := recover(); r != nil {
							report("writer %d panicked: %v", g, r)
						}
					}()
					<-start
					for _, i := range order {
						got[g][i] = d.CheckedAdd(values[i])
					}
				}(g, order)
			}
			for r := 0; r < 2; r++ {
				wg.Add(1)
				go func(r int) {
					defer wg.Done()
					defer func() {
						if p := recover(); p != nil {
							report("reader %d panicked: %v", r, p)
						}
					}()
					<-start
					var lastCard uint64
					for it := 0; ; it++ {
						last := atomic.LoadInt32(&finished) != 0 // one more full pass after the writers are done
						c := d.Cardinality()
						if c < lastCard || c > uint64(len(values)) {
							report("reader %d: Cardinality() went from %d to %d while values are only being added (max %d)", r, lastCard, c, len(values))
						}
						lastCard = c
						d.Contains(values[(it*7+r)%len(values)])
						var seq []T
						if it%2 == 0 {
							seq = d.Slice()
						} else {
							d.Each(func(v T) bool { seq = append(seq, v); return true })
						}
						for i, v := range seq {
							if !member[v] || (i > 0 && seq[i-1] >= v) {
								report("reader %d: Slice/Each gave %s: not a strictly ascending subset of the added values", r, vdFmt(seq))
								break
							}
						}
						if uint64(len(seq)) < lastCard {
							report("reader %d: Slice/Each gave %d values after Cardinality() had been %d", r, len(seq), lastCard)
						}
						lastCard = uint64(len(seq))
						if last {
							return
						}
					}
				}(r)
			}
			all := make(chan struct{})
			go func() {
				writersWG.Wait()
				atomic.StoreInt32(&finished, 1)
				wg.Wait()
				close(all)
			}()
			close(start)
			select {
			case <-all:
			case <-time.After(vdHangAfter):
				abandoned = true
				return fmt.Sprintf("writers/readers did not finish within %v (deadlock?)", vdHangAfter)
			}
			if problem != "" {
				return problem
			}
			for i, v := range values {
				winners := 0
				for g := 0; g < writers; g++ {
					if got[g][i] {
						winners++
					}
				}
				if winners != 1 {
					return fmt.Sprintf("CheckedAdd(%d) returned true for %d writers, want exactly 1", v, winners)
				}
			}
			return vdObserve(d, wantAll, values)
		})
		if abandoned {
			return
		}
	}
}

// ---------------------------------------------------------------------------------------------------------

func vdRunSuite[T uint32 | uint64](st *vdState, su vdSuite[T], k int, seed int64, parts map[string]bool) {
	rng := rand.New(rand.NewSource(seed))
	subs := []struct {
		name string
		vals []T
	}{{"low", su.universe[:k]}, {"high", su.universe[len(su.universe)-k:]}}
	for _, sub := range subs {
		if parts["binary"] {
			vdBinary(st, su, sub.name, sub.vals, rng)
			vdBinarySelfWrapped(st, su, sub.name, sub.vals)
		}
		if parts["addmany"] {
			vdAddMany(st, su, sub.name, sub.vals, rng)
		}
		if parts["each"] {
			vdEach(st, su, sub.name, sub.vals, rng)
			vdEachAborted(st, su, sub.name, sub.vals)
		}
		if parts["clone"] {
			vdClone(st, su, sub.name, sub.vals, rng)
		}
		if parts["unary"] {
			vdUnary(st, su, sub.name, sub.vals, rng)
		}
	}
	if parts["dense"] {
		vdDense(st, su, rng)
	}
	if parts["concurrent"] {
		ts := su.impls[2] // the thread-safe wrapper
		for _, w := range []int{2, 8} {
			vdConcurrent(st, su.typ, ts.name, func() Duplex[T] { return ts.mk(nil) }, w, 50, seed)
			vdConcurrent(st, su.typ, ts.name+".Clone()", func() Duplex[T] { return ts.mk(su.universe).Clone() }, w, 50, seed)
		}
	}
}

func TestVerifBoundedDuplex(t *testing.T) {
	k := 5
	bound := os.Getenv("VERIF_BOUND")
	if bound == "2" {
		k = 6
	}
	seed, _ := strconv.ParseInt(os.Getenv("VERIF_SEED"), 10, 64)
	// VERIF_PARTS (optional, for debugging only): comma separated subset of the parts; default all.
	allParts := []string{"binary", "addmany", "each", "clone", "unary", "dense", "concurrent"}
	parts := map[string]bool{}
	if p := os.Getenv("VERIF_PARTS"); p != "" {
		for _, x := range strings.Split(p, ",") {
			parts[x] = true
		}
	} else {
		for _, x := range allParts {
			parts[x] = true
		}
	}
	exhaustive := true
	for _, x := range allParts {
		exhaustive = exhaustive && parts[x]
	}
	st := &vdState{}
	for _, p := range knownDeviations {
		st.knownRe = append(st.knownRe, regexp.MustCompile(p))
	}
	for _, p := range strings.Split(os.Getenv("VERIF_KNOWN"), "|") {
		if p != "" {
			st.known = append(st.known, p)
		}
	}

	done := make(chan string, 1)
	go func() {
		defer func() {
			if r := recover(); r != nil {
				done <- fmt.Sprintf("harness panic outside a case: %v", r)
			}
		}()
		vdRunSuite(st, vdSuite64(), k, seed, parts)
		vdRunSuite(st, vdSuite32(), k, seed, parts)
		done <- ""
	}()
	// watchdog: a case that makes no progress for vdHangAfter is reported as a hang (the goroutine is abandoned).
	tick := time.NewTicker(250 * time.Millisecond)
	defer tick.Stop()
	lastProgress, lastChange := int64(-1), time.Now()
	hung := false
wait:
	for {
		select {
		case msg := <-done:
			if msg != "" {
				st.fail("harness", msg)
			}
			break wait
		case <-tick.C:
			st.mu.Lock()
			p, cur := st.progress, st.current
			st.mu.Unlock()
			if p != lastProgress {
				lastProgress, lastChange = p, time.Now()
			} else if time.Since(lastChange) > vdHangAfter+5*time.Second {
				desc := "(no case started)"
				if cur != nil {
					desc = cur()
				}
				st.fail(desc, fmt.Sprintf("no progress for %v: the call did not return (deadlock or endless loop); enumeration abandoned", vdHangAfter))
				hung = true
				break wait
			}
		}
	}

	st.mu.Lock()
	failures := append([]string{}, st.failures...)
	nFail, nKnown, cases := st.nFail, st.nKnown, st.cases
	st.mu.Unlock()
	res := map[string]any{
		"name":  "duplex",
		"bound": fmt.Sprintf("element types uint64 and uint32; implementations {bitmap, bitmapWith, threadSafe(bitmap)} as receiver and those plus a foreign map-backed Duplex as operand (receiver != operand object); two sub-universes of %d boundary values each (smallest %d and largest %d of {0,1,2,65535,65536,2^32,2^63,MaxUint64} / {0,1,2,65535,65536,MaxUint32-1,MaxUint32}): all pairs of subsets x all impl pairs x {Or,And,AndNot,Xor}; all unary sequences of length <= 3 over {Add,Remove,CheckedAdd,Clear} from every subset; Add(many, duplicates); Each with every stop position; Clone independence under every mutation; dense blocks (bitmap container, crossing 2^16 and 2^32); plus NON-exhaustive schedule sampling: 50 rounds x {2,8} concurrent CheckedAdd writers + 2 readers on thread-safe wrappers and their clones", k, k, k),
		"cases": cases, "exhaustive": exhaustive && !hung, "failures": failures, "failure_count": nFail, "known_deviations": nKnown, "known_deviation_hits": st.knownHits, "seed": seed,
	}
	out, _ := json.Marshal(res)
	fmt.Println("BOUNDED-RESULT " + string(out))
	if nFail > 0 {
		t.Fail()
	}
}
