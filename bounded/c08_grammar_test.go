package frontend_test

// Bounded stand-in shared by C07, C08 and C09 (labelled bounded, never counted as proved): sentences GENERATED
// FROM THE GRAMMAR ITSELF. cypher/grammar/Cypher.g4 is read on every run, its parser rules are parsed as EBNF,
// and for every alternative of every rule and every optional / repeated element of every rule a minimal
// sentence is derived from oC_Cypher that goes through exactly that alternative (alternative coverage of the
// whole grammar). Identifiers, string and integer literals are fresh in every position, and the set of grammar
// rules each sentence was derived through is recorded. On every sentence, through the real parser:
//
//  C08  parsing never panics and never returns a nil model with a nil error; the same for every prefix of the
//       sentence (truncation at every byte), for single-byte deletions, for hostile byte strings (unbalanced
//       delimiters, invalid UTF-8, out-of-range numbers) and for nesting up to the stated depth, each under a
//       time limit that grows linearly with the input;
//  C07  a sentence derived through a grammar rule on the unsupported list is rejected; an accepted sentence can
//       be emitted, the emitted text parses to an equal model, emitting is then a fixed point, and every fresh
//       name / literal of the sentence occurs in the emitted text exactly as often as in the sentence (nothing
//       dropped, nothing reinterpreted);
//  C09  under the default context a sentence derived through an updating clause, a procedure call, a parameter,
//       a schema command or a bulk import is rejected.

import (
	"encoding/json"
	"fmt"
	"math/rand"
	"os"
	"path/filepath"
	"reflect"
	"regexp"
	"sort"
	"strconv"
	"strings"
	"testing"
	"time"

	"github.com/specterops/dawgs/cypher/frontend"
	"github.com/specterops/dawgs/cypher/models/cypher"
	"github.com/specterops/dawgs/cypher/models/cypher/format"
)

// ---- EBNF ---------------------------------------------------------------------------------------------------------

type gKind int

const (
	gSeq gKind = iota
	gAlt
	gOpt
	gStar
	gPlus
	gRef
	gLit
)

type gNode struct {
	kind gKind
	kids []*gNode
	text string // rule / token name or literal text
}

var gTok = regexp.MustCompile(`'(\\.|[^'\\])*'|[A-Za-z_][A-Za-z_0-9]*|\.\.|[()|?*+~]|\[(\\.|[^\]\\])*\]`)

type gParser struct {
	toks []string
	pos  int
}

func (p *gParser) peek() string {
	if p.pos < len(p.toks) {
		return p.toks[p.pos]
	}
	return ""
}

func (p *gParser) alt() *gNode {
	n := &gNode{kind: gAlt}
	n.kids = append(n.kids, p.seq())
	for p.peek() == "|" {
		p.pos++
		n.kids = append(n.kids, p.seq())
	}
	if len(n.kids) == 1 {
		return n.kids[0]
	}
	return n
}

func (p *gParser) seq() *gNode {
	n := &gNode{kind: gSeq}
	for p.peek() != "" && p.peek() != "|" && p.peek() != ")" {
		var a *gNode
		t := p.peek()
		p.pos++
		switch {
		case t == "(":
			a = p.alt()
			if p.peek() == ")" {
				p.pos++
			}
		case strings.HasPrefix(t, "'"):
			lit := t[1 : len(t)-1]
			lit = strings.NewReplacer(`\'`, `'`, `\\`, `\`).Replace(lit)
			a = &gNode{kind: gLit, text: lit}
		case t == "~" || strings.HasPrefix(t, "[") || t == "..":
			a = &gNode{kind: gRef, text: "<lexer-only>"}
		default:
			a = &gNode{kind: gRef, text: t}
		}
		switch p.peek() {
		case "?":
			p.pos++
			a = &gNode{kind: gOpt, kids: []*gNode{a}}
		case "*":
			p.pos++
			a = &gNode{kind: gStar, kids: []*gNode{a}}
		case "+":
			p.pos++
			a = &gNode{kind: gPlus, kids: []*gNode{a}}
		}
		n.kids = append(n.kids, a)
	}
	if len(n.kids) == 1 {
		return n.kids[0]
	}
	return n
}

// readGrammar splits the grammar into "name : body ;" rules (quotes respected).
func readGrammar(path string) (map[string]string, error) {
	data, err := os.ReadFile(path)
	if err != nil {
		return nil, err
	}
	rules := map[string]string{}
	text := string(data)
	head := regexp.MustCompile(`(?m)^(?:fragment\s+)?([A-Za-z_][A-Za-z_0-9]*)\s*(?:$|:)`)
	i := 0
	for i < len(text) {
		loc := head.FindStringSubmatchIndex(text[i:])
		if loc == nil {
			break
		}
		name := text[i+loc[2] : i+loc[3]]
		j := i + loc[3]
		if name == "grammar" {
			i = j
			continue
		}
		// find ':' then the terminating ';' outside quotes
		for j < len(text) && text[j] != ':' {
			j++
		}
		j++
		start := j
		inQ := false
		for j < len(text) {
			c := text[j]
			if c == '\\' && inQ {
				j += 2
				continue
			}
			if c == '\'' {
				inQ = !inQ
			}
			if c == ';' && !inQ {
				break
			}
			j++
		}
		if j >= len(text) {
			break
		}
		rules[name] = text[start:j]
		i = j + 1
	}
	return rules, nil
}

// ---- generator ----------------------------------------------------------------------------------------------------

const inf = 1 << 20

type generator struct {
	bodies  map[string]*gNode
	cost    map[string]int
	fresh   int
	rng     *rand.Rand
	budget  int
	used    map[string]bool // rules of the sentence being generated
	problem string
}

var lexSamples = map[string]func(g *generator) string{
	"UnescapedSymbolicName": func(g *generator) string { g.fresh++; return fmt.Sprintf("x%d", g.fresh) },
	"EscapedSymbolicName":   func(g *generator) string { g.fresh++; return fmt.Sprintf("`x%d`", g.fresh) },
	"HexLetter":             func(g *generator) string { return "a" },
	"StringLiteral":         func(g *generator) string { g.fresh++; return fmt.Sprintf("'s%d'", g.fresh) },
	"DecimalInteger":        func(g *generator) string { g.fresh++; return strconv.Itoa(1000 + g.fresh%9000) },
	"HexInteger":            func(g *generator) string { return "0x1F" },
	"OctalInteger":          func(g *generator) string { return "017" },
	"ExponentDecimalReal":   func(g *generator) string { return "1e3" },
	"RegularDecimalReal":    func(g *generator) string { return "1.5" },
	"SP":                    func(g *generator) string { return " " },
	"EOF":                   func(g *generator) string { return "" },
}

// rules avoided when a cheaper derivation exists (unsupported constructs, updating clauses, calls, parameters)
var expensive = map[string]bool{}

func init() {
	for _, r := range unsupportedRuleSet {
		expensive[r] = true
	}
	for _, r := range forbiddenByDefault {
		expensive[r] = true
	}
}

func isParserRule(name string) bool { return strings.HasPrefix(name, "oC_") }

func (g *generator) nodeCost(n *gNode) int {
	switch n.kind {
	case gLit:
		return 1
	case gRef:
		if _, ok := lexSamples[n.text]; ok {
			return 1
		}
		if c, ok := g.cost[n.text]; ok {
			if c < inf && expensive[n.text] {
				return c + 1000 // embed targets in plain reading queries where possible
			}
			return c
		}
		return inf
	case gSeq:
		s := 0
		for _, k := range n.kids {
			s += g.nodeCost(k)
			if s >= inf {
				return inf
			}
		}
		return s
	case gAlt:
		best := inf
		for _, k := range n.kids {
			if c := g.nodeCost(k); c < best {
				best = c
			}
		}
		return best
	case gOpt, gStar:
		if n.kids[0].kind == gRef && n.kids[0].text == "SP" {
			return 1
		}
		return 0
	case gPlus:
		return g.nodeCost(n.kids[0])
	}
	return inf
}

func (g *generator) computeCosts() {
	for name := range g.bodies {
		g.cost[name] = inf
	}
	for changed := true; changed; {
		changed = false
		for _, name := range sortedNames(g.bodies) {
			if c := g.nodeCost(g.bodies[name]); c < g.cost[name] {
				g.cost[name] = c
				changed = true
			}
		}
	}
}

func sortedNames[V any](m map[string]V) []string {
	out := make([]string, 0, len(m))
	for k := range m {
		out = append(out, k)
	}
	sort.Strings(out)
	return out
}

// min generates the cheapest string of a node.
func (g *generator) min(n *gNode) string {
	switch n.kind {
	case gLit:
		return n.text
	case gRef:
		if f, ok := lexSamples[n.text]; ok {
			return f(g)
		}
		body, ok := g.bodies[n.text]
		if !ok {
			g.problem = "no rule or sample for " + n.text
			return ""
		}
		if isParserRule(n.text) {
			g.used[n.text] = true
		}
		return g.min(body)
	case gSeq:
		var b strings.Builder
		for _, k := range n.kids {
			b.WriteString(g.min(k))
		}
		return b.String()
	case gAlt:
		best, bc := n.kids[0], inf
		for _, k := range n.kids {
			if c := g.nodeCost(k); c < bc {
				best, bc = k, c
			}
		}
		return g.min(best)
	case gOpt, gStar:
		if n.kids[0].kind == gRef && n.kids[0].text == "SP" {
			return " "
		}
		return ""
	case gPlus:
		return g.min(n.kids[0])
	}
	return ""
}

// random derives a string by seeded random choices down to a depth budget, below which the cheapest
// derivation is used; expensive rules are entered rarely so that most sentences are plain reading queries.
func (g *generator) random(n *gNode, depth int) string {
	if depth <= 0 || g.budget <= 0 {
		return g.min(n)
	}
	switch n.kind {
	case gLit:
		g.budget--
		return n.text
	case gRef:
		if f, ok := lexSamples[n.text]; ok {
			g.budget--
			return f(g)
		}
		body, ok := g.bodies[n.text]
		if !ok {
			g.problem = "no rule or sample for " + n.text
			return ""
		}
		if isParserRule(n.text) {
			g.used[n.text] = true
		} else {
			g.budget-- // a lexer token: one unit whatever its spelling
			b := g.budget
			text := g.random(body, depth)
			g.budget = b
			return text
		}
		return g.random(body, depth)
	case gSeq:
		var b strings.Builder
		for _, k := range n.kids {
			b.WriteString(g.random(k, depth))
		}
		return b.String()
	case gAlt:
		var ok []*gNode
		for _, k := range n.kids {
			if g.nodeCost(k) < inf && (g.nodeCost(k) < 1000 || g.rng.Intn(10) == 0) {
				ok = append(ok, k)
			}
		}
		if len(ok) == 0 {
			return g.min(n)
		}
		return g.random(ok[g.rng.Intn(len(ok))], depth-1)
	case gOpt:
		if n.kids[0].kind == gRef && n.kids[0].text == "SP" {
			return " "
		}
		if g.rng.Intn(3) == 0 && g.nodeCost(n.kids[0]) < 1000 {
			return g.random(n.kids[0], depth-1)
		}
		return ""
	case gStar, gPlus:
		if n.kids[0].kind == gRef && n.kids[0].text == "SP" {
			return " "
		}
		reps := g.rng.Intn(3)
		if n.kind == gPlus && reps == 0 {
			reps = 1
		}
		if g.nodeCost(n.kids[0]) >= 1000 && n.kind == gStar {
			reps = 0
		}
		var b strings.Builder
		for i := 0; i < reps; i++ {
			b.WriteString(g.random(n.kids[0], depth-1))
		}
		return b.String()
	}
	return ""
}

// along generates node n forcing the path to a descendant, whose text is produced by inner.
func (g *generator) along(n *gNode, path []int, inner func() string) string {
	if len(path) == 0 {
		return inner()
	}
	switch n.kind {
	case gSeq:
		var b strings.Builder
		for i, k := range n.kids {
			if i == path[0] {
				b.WriteString(g.along(k, path[1:], inner))
			} else {
				b.WriteString(g.min(k))
			}
		}
		return b.String()
	case gAlt, gOpt, gStar, gPlus:
		return g.along(n.kids[path[0]], path[1:], inner)
	}
	return inner()
}

type occurrence struct {
	rule string
	path []int
}

type target struct {
	occurrence
	what string
	reps int
}

func (g *generator) walk(rule string, n *gNode, path []int, refs func(name string, o occurrence), targets func(t target)) {
	cp := func(i int) []int { return append(append([]int{}, path...), i) }
	switch n.kind {
	case gRef:
		if refs != nil && isParserRule(n.text) {
			refs(n.text, occurrence{rule, append([]int{}, path...)})
		}
	case gSeq:
		for i, k := range n.kids {
			g.walk(rule, k, cp(i), refs, targets)
		}
	case gAlt:
		for i, k := range n.kids {
			if targets != nil {
				targets(target{occurrence{rule, cp(i)}, fmt.Sprintf("alternative %d", i+1), 1})
			}
			g.walk(rule, k, cp(i), refs, targets)
		}
	case gOpt, gStar, gPlus:
		isSP := n.kids[0].kind == gRef && n.kids[0].text == "SP"
		if targets != nil && !isSP {
			targets(target{occurrence{rule, cp(0)}, "optional element", 1})
			if n.kind != gOpt {
				targets(target{occurrence{rule, cp(0)}, "repeated element", 2})
			}
		}
		g.walk(rule, n.kids[0], cp(0), refs, targets)
	}
}

func nodeAt(n *gNode, path []int) *gNode {
	for _, i := range path {
		n = n.kids[i]
	}
	return n
}

type sentence struct {
	text  string
	rules map[string]bool
	via   string
}

func generateSentences(grammarPath string, randomCount int, seed int64) ([]sentence, string) {
	raw, err := readGrammar(grammarPath)
	if err != nil {
		return nil, err.Error()
	}
	g := &generator{bodies: map[string]*gNode{}, cost: map[string]int{}, rng: rand.New(rand.NewSource(seed))}
	for name, body := range raw {
		if _, sampled := lexSamples[name]; sampled {
			continue
		}
		p := &gParser{toks: gTok.FindAllString(body, -1)}
		g.bodies[name] = p.alt()
	}
	g.computeCosts()
	if g.cost["oC_Cypher"] >= inf {
		return nil, "no finite derivation of oC_Cypher"
	}
	// shortest embedding of every parser rule in the start rule (BFS over rule references)
	ctx := map[string]occurrence{}
	order := []string{"oC_Cypher"}
	seen := map[string]bool{"oC_Cypher": true}
	// first through plain rules only, then through the expensive ones for whatever is left
	for _, allowExpensive := range []bool{false, true} {
		for i := 0; i < len(order); i++ {
			r := order[i]
			if expensive[r] && !allowExpensive {
				continue
			}
			g.walk(r, g.bodies[r], nil, func(name string, o occurrence) {
				if !seen[name] && g.bodies[name] != nil {
					seen[name] = true
					ctx[name] = o
					order = append(order, name)
				}
			}, nil)
		}
	}
	var embed func(rule string, path []int, inner func() string) string
	embed = func(rule string, path []int, inner func() string) string {
		g.used[rule] = true
		if rule == "oC_Cypher" {
			return g.along(g.bodies[rule], path, inner)
		}
		o := ctx[rule]
		return embed(o.rule, o.path, func() string { return g.along(g.bodies[rule], path, inner) })
	}
	var out []sentence
	dedup := map[string]bool{}
	for _, r := range order {
		var ts []target
		g.walk(r, g.bodies[r], nil, nil, func(t target) { ts = append(ts, t) })
		if len(ts) == 0 {
			ts = []target{{occurrence{r, nil}, "rule", 1}}
		}
		for _, t := range ts {
			g.used = map[string]bool{}
			g.problem = ""
			node := nodeAt(g.bodies[r], t.path)
			if g.nodeCost(node) >= inf {
				continue
			}
			text := embed(r, t.path, func() string {
				var b strings.Builder
				for i := 0; i < t.reps; i++ {
					b.WriteString(g.min(node))
				}
				return b.String()
			})
			if g.problem != "" {
				return nil, g.problem
			}
			shape := regexp.MustCompile(`\d+`).ReplaceAllString(text, "#")
			if dedup[shape] {
				continue
			}
			dedup[shape] = true
			out = append(out, sentence{text: strings.TrimSpace(text), rules: g.used, via: fmt.Sprintf("%s %s", r, t.what)})
		}
	}
	for i := 0; i < randomCount; i++ {
		g.used = map[string]bool{"oC_Cypher": true}
		g.budget = 10 + 5*(i%8)
		text := g.random(g.bodies["oC_Cypher"], 40)
		if g.problem != "" {
			return nil, g.problem
		}
		if len(text) > 600 {
			continue
		}
		out = append(out, sentence{text: strings.TrimSpace(text), rules: g.used, via: "random derivation"})
	}
	return out, ""
}

// ---- checks -------------------------------------------------------------------------------------------------------

var (
	unsupportedRuleSet = []string{"oC_Profile", "oC_BulkImportQuery", "oC_PeriodicCommitHint", "oC_Union", "oC_Command", "oC_Foreach", "oC_Start", "oC_CaseExpression", "oC_LegacyListExpression", "oC_Reduce", "oC_ExistentialSubquery", "oC_LegacyParameter", "oC_Explain", "oC_LoadCSV", "oC_InQueryCall", "oC_StandaloneCall", "oC_ListOperatorExpression", "oC_ListComprehension", "oC_PatternComprehension", "oC_CreateUnique"}
	forbiddenByDefault = []string{"oC_UpdatingClause", "oC_Create", "oC_Merge", "oC_Set", "oC_Delete", "oC_Remove", "oC_Foreach", "oC_CreateUnique", "oC_InQueryCall", "oC_StandaloneCall", "oC_ExplicitProcedureInvocation", "oC_ImplicitProcedureInvocation", "oC_Parameter", "oC_LegacyParameter", "oC_Command", "oC_BulkImportQuery", "oC_LoadCSV"}
	freshToken         = regexp.MustCompile(`\b[xs]\d+\b|\b[1-9]\d{3}\b`)
)

func firstOf(rules map[string]bool, names []string) string {
	for _, n := range names {
		if rules[n] {
			return n
		}
	}
	return ""
}

var (
	wordToken   = regexp.MustCompile("`[^`]*`|'[^']*'|[A-Za-z_][A-Za-z_0-9]*|[0-9][0-9A-Za-z_.]*")
	wordSynonym = map[string]string{"ascending": "asc", "descending": "desc"}
)

// wordBag is the multiset of words, names and literals of a query text (case-insensitive keywords; numbers by
// value), which emitting a faithful model must preserve.
func wordBag(s string) map[string]int {
	bag := map[string]int{}
	for _, t := range wordToken.FindAllString(s, -1) {
		switch {
		case t[0] == '`':
			t = strings.Trim(t, "`")
		case t[0] == '\'':
		case t[0] >= '0' && t[0] <= '9':
			if f, err := strconv.ParseFloat(t, 64); err == nil {
				t = strconv.FormatFloat(f, 'g', -1, 64)
			} else if i, err := strconv.ParseInt(t, 0, 64); err == nil {
				t = strconv.FormatInt(i, 10)
			}
		default:
			t = strings.ToLower(t)
			if syn, ok := wordSynonym[t]; ok {
				t = syn
			}
		}
		bag[t]++
	}
	return bag
}

func tokenBag(s string) map[string]int {
	bag := map[string]int{}
	for _, t := range freshToken.FindAllString(s, -1) {
		bag[t]++
	}
	return bag
}

type parseOutcome struct {
	model    *cypher.RegularQuery
	err      error
	panicked any
	took     time.Duration
}

func guardedParse(ctx *frontend.Context, s string) (o parseOutcome) {
	start := time.Now()
	defer func() {
		o.took = time.Since(start)
		if r := recover(); r != nil {
			o.panicked = r
		}
	}()
	o.model, o.err = frontend.ParseCypher(ctx, s)
	return
}

func TestVerifBoundedGrammar(t *testing.T) {
	only := os.Getenv("VERIF_PROPERTY")
	bound, _ := strconv.Atoi(os.Getenv("VERIF_BOUND"))
	if bound <= 0 {
		bound = 1
	}
	var failures []string
	fail := func(prop, format string, args ...any) {
		if only != "" && only != prop {
			return
		}
		if len(failures) < 8 {
			failures = append(failures, prop+" "+fmt.Sprintf(format, args...))
		}
	}
	seed, _ := strconv.ParseInt(os.Getenv("VERIF_SEED"), 10, 64)
	sentences, problem := generateSentences(filepath.Join("..", "grammar", "Cypher.g4"), 400*bound, seed+1)
	if problem != "" {
		fail("C07", "grammar generator: %s", problem)
		fail("C08", "grammar generator: %s", problem)
		fail("C09", "grammar generator: %s", problem)
	}
	if len(sentences) < 300 {
		fail("C08", "grammar generator produced only %d sentences", len(sentences))
		fail("C07", "grammar generator produced only %d sentences", len(sentences))
		fail("C09", "grammar generator produced only %d sentences", len(sentences))
	}
	cases, accepted, rejectedUnsupported, rejectedDefault, mutants := 0, 0, 0, 0, 0
	totality := func(s string, what string) parseOutcome {
		cases++
		o := guardedParse(frontend.NewContext(), s)
		limit := 2*time.Second + time.Duration(len(s))*time.Millisecond
		switch {
		case o.panicked != nil:
			fail("C08", "parsing panics on %s %q: %v", what, s, o.panicked)
		case o.model == nil && o.err == nil && strings.TrimSpace(s) != "":
			fail("C08", "parsing returns neither a model nor an error for %s %q", what, s)
		case o.err == nil && o.model != nil && (o.model.SingleQuery == nil || (o.model.SingleQuery.SinglePartQuery == nil && o.model.SingleQuery.MultiPartQuery == nil)):
			// "error xor complete model": a model without any query part is not a model of a non-blank input
			fail("C08", "parsing returns no error and a model without a query part for %s %q", what, s)
		case o.took > limit:
			fail("C08", "parsing %s of %d bytes took %v (limit %v): %.60q", what, len(s), o.took, limit, s)
		}
		return o
	}
	for si, sen := range sentences {
		o := totality(sen.text, "grammar sentence ("+sen.via+")")
		if o.panicked != nil {
			continue
		}
		// ---- C07 ----
		// (The grammar is ambiguous in places - "[x IN l]" is a list comprehension and a list literal - so a sentence
		// derived through an unsupported rule may legitimately be parsed another way. What must hold for every
		// accepted sentence is that nothing of it is lost: it can be emitted, the text parses to an equal model,
		// and the words, names and literals of the sentence are those of the emitted text.)
		u := firstOf(sen.rules, unsupportedRuleSet)
		if o.err != nil {
			if u != "" {
				rejectedUnsupported++
			}
		} else {
			accepted++
			text, ferr := format.RegularQuery(o.model, false)
			if ferr != nil {
				fail("C07", "accepted sentence (%s) cannot be emitted: %q: %v", sen.via, sen.text, ferr)
			} else {
				m2, err2 := frontend.ParseCypher(frontend.NewContext(), text)
				if err2 != nil {
					fail("C07", "emitted text does not parse: %q -> %q: %v", sen.text, text, err2)
				} else if !reflect.DeepEqual(o.model, m2) {
					t2, _ := format.RegularQuery(m2, false)
					fail("C07", "emit-parse changes the model: %q -> %q -> %q", sen.text, text, t2)
				} else if t2, _ := format.RegularQuery(m2, false); t2 != text {
					fail("C07", "emit is not a fixed point: %q -> %q -> %q", sen.text, text, t2)
				}
				if hinted := firstOf(sen.rules, []string{"oC_Hint", "oC_QueryOptions", "oC_AnyCypherOption", "oC_CypherOption"}); hinted == "" {
					if in, outBag := wordBag(sen.text), wordBag(text); !reflect.DeepEqual(in, outBag) {
						fail("C07", "content of the sentence (%s) is not the content of the model: %q is modelled as %q", sen.via, sen.text, text)
						// also C08: a model of only part of the input, handed out with a nil error, is a partially built model
						fail("C08", "parsing returns no error and a model that leaves out part of the sentence (%s): %q is modelled as %q", sen.via, sen.text, text)
					}
				}
			}
		}
		// ---- C09 ----
		if f := firstOf(sen.rules, forbiddenByDefault); f != "" {
			cases++
			d := guardedParse(frontend.DefaultCypherContext(), sen.text)
			if d.panicked != nil {
				fail("C08", "parsing under the default context panics on %q: %v", sen.text, d.panicked)
			} else if d.err == nil {
				fail("C09", "the default context accepts a sentence derived through %s: %q", f, sen.text)
			} else {
				rejectedDefault++
			}
		}
		// ---- C08: truncations and deletions ----
		if (only == "" || only == "C08") && si%max(1, 2/bound) == 0 {
			for cut := 0; cut < len(sen.text); cut++ {
				mutants++
				totality(sen.text[:cut], "truncated sentence")
			}
			for del := 0; del < len(sen.text); del++ {
				if strings.ContainsRune("()[]{}'`\".:|*-<>=,$", rune(sen.text[del])) {
					mutants++
					totality(sen.text[:del]+sen.text[del+1:], "sentence with one delimiter removed")
				}
			}
			// a truncation that ends in the first character(s) of a token the parser may commit to on one token of
			// lookahead (a parameter, a parenthesised expression, a list, a map, a quoted name, a property lookup):
			// at every position a token can end (before a blank, a delimiter, or the end)
			for cut := 1; cut <= len(sen.text); cut++ {
				if cut < len(sen.text) && !strings.ContainsRune(" ()[]{},:", rune(sen.text[cut])) {
					continue
				}
				for _, frag := range []string{" $", " (", " [", " {", " `", " n.", " -", " $ ", " 1 $"} {
					mutants++
					totality(sen.text[:cut]+frag, "truncated sentence continued by "+strconv.Quote(frag))
				}
			}
			// bytes no token of the grammar can contain (outside quoted text and comments, which these sentences are
			// chosen not to have): wherever one is put, the text is not a sentence and the answer is an error - a model
			// of the rest of the text with a nil error is a model of part of the input
			if !strings.ContainsAny(sen.text, "'\"`/") {
				o0 := guardedParse(frontend.NewContext(), sen.text)
				for at := 0; at <= len(sen.text); at++ {
					if at > 0 && at < len(sen.text) && sen.text[at] != ' ' && sen.text[at-1] != ' ' && at%3 != 0 {
						continue
					}
					for _, foreign := range []string{"#", "!", "?", "@", "&", "\\", "\x80", "\xc3", "§"} {
						mutants++
						text := sen.text[:at] + foreign + sen.text[at:]
						if m := totality(text, "sentence with a byte no token can contain"); m.panicked == nil && m.err == nil && m.model != nil {
							fail("C08", "parsing returns a model and no error for a text with a byte no token of the grammar can contain: %q (the sentence without it: error %v)", text, o0.err)
						}
					}
				}
			}
		}
	}
	// ---- C08: hostile byte strings and nesting ----
	hostile := []string{"", " ", "\t\n", ";", "\x00", "\xff\xfe", "match (n) return n\xc3", "'", "\"", "`", "/*", "//", "match (n) return 'a\\", "return 99999999999999999999999999", "return 1e99999", "return 0x", "return 0xfffffffffffffffffffffff", "return .", "return ..", "return 1..2", "match (n)-[*99999999999999999999]->() return n", "match (n)-[*1..99999999999999999999]->() return n", "match (n)-[*..]->() return n", "match (n {a: {b: {c: 1}}}) return n", "return $", "return $1", "return {", "match", "match (", "match (n", "match (n)", "match (n) return", "return [", "return [1,", "return -", "return not", "return n.", "return n:", "match ()-[]-()-[]-() return 1", "using periodic commit load csv from 'x' as l return l", "call", "call x", "yield", "return count(", "return count(*", "return all(", "return all(x in", "return filter(", "return extract(x in y |", "unwind", "with", "optional", "optional match", "order by", "return 1 order by", "return 1 skip", "return 1 limit", "return 1 union", "return 1 union all", "start n=node(*) return n", "explain", "profile", "cypher", "cypher 2.3", "cypher planner=cost"}
	// repeated elements with the SAME spelling (the sentence generator draws fresh names): a type, label, key or variable
	// listed twice must not derail the visitor stack
	repeats := []string{"match (a)-[:A|A]->(b) return b", "match (a)-[r:A|:A|B*1..2]->(b) return r", "match (n:L:L) return n", "match (n {a: 1, a: 2}) return n", "match (n), (n) return n, n", "match (n) return n.a, n.a order by n.a, n.a", "match (n) set n:L:L, n.a = 1, n.a = 1 return n", "match (n) with n, n.a as x, n.a as y return x, y", "return [1, 1], {k: 1, k: 1}", "match p = (a)-[:A|A|A]-(a) return p, p"}
	for _, r := range repeats {
		totality(r, "repeated element")
	}
	// operand suffixes (subscripts, slices, lookups and labels after them) in their plainest spelling: whether or not the
	// parser supports them, what it hands out with a nil error must be a model of the whole text
	suffixes := []string{"return a[0]", "return a[0..1]", "return a[..1]", "return a[1..]", "return a[..]", "match (n) where n.list[0] = 1 return n", "return [1, 2, 3][0]",
		"match (n) return n.a[1].b", "match (n) return n[0][1]", "return a[b[0]]", "return {k: a[0]}", "return toLower(a[0])", "match (n) return n.a[0] + n.b[1]",
		"match (n) where n[0]:L return n", "return a[0] as x order by x", "match (n) where n.a in n.b[0..2] return n", "return $p[0]", "return (a)[0]", "return 'abc'[0]"}
	for _, q := range suffixes {
		o := totality(q, "operand with a suffix")
		if o.panicked != nil || o.err != nil || o.model == nil {
			continue
		}
		if text, ferr := format.RegularQuery(o.model, false); ferr == nil {
			if in, outBag := wordBag(q), wordBag(text); !reflect.DeepEqual(in, outBag) {
				fail("C08", "parsing returns no error and a model that leaves out part of the text: %q is modelled as %q", q, text)
			}
		}
	}
	for _, h := range hostile {
		totality(h, "hostile input")
	}
	depth := 8 * bound
	if depth > 64 {
		depth = 64
	}
	for d := 1; d <= depth; d *= 2 {
		totality("return "+strings.Repeat("(", d)+"1"+strings.Repeat(")", d), fmt.Sprintf("parenthesis nesting %d", d))
		totality("return "+strings.Repeat("[", d)+"1"+strings.Repeat("]", d), fmt.Sprintf("list nesting %d", d))
		totality("return "+strings.Repeat("not ", d)+"true", fmt.Sprintf("not nesting %d", d))
		totality("return "+strings.Repeat("-", d)+"1", fmt.Sprintf("negation nesting %d", d))
		totality("match (n) where "+strings.Repeat("n.a = 1 and ", d*8)+"n.a = 1 return n", fmt.Sprintf("conjunction length %d", d*8))
		totality("match "+strings.Repeat("(n)-[]->", d*4)+"(m) return m", fmt.Sprintf("pattern length %d", d*4))
	}
	totality("return '"+strings.Repeat("a", 100000*bound)+"'", "long string literal")
	totality("match (n) return "+strings.Repeat("n, ", 2000*bound)+"n", "long projection")
	if accepted < 100 {
		fail("C07", "only %d generated sentences were accepted (the generator or the parser changed)", accepted)
	}
	if rejectedDefault < 20 {
		fail("C09", "only %d generated sentences exercised the default context filters", rejectedDefault)
	}
	if os.Getenv("VERIF_DUMP") != "" {
		for _, sen := range sentences {
			fmt.Printf("SENTENCE %-45s %s\n", sen.via, sen.text)
		}
	}
	res := map[string]any{"name": "grammar", "bound": fmt.Sprintf("%d sentences covering every alternative and optional element of the %s grammar (%d accepted and round-tripped, %d through unsupported rules, %d through rules the default context forbids), %d truncation, deletion, continuation and foreign-byte mutants, %d hostile inputs, nesting depth %d", len(sentences), "Cypher.g4", accepted, rejectedUnsupported, rejectedDefault, mutants, len(hostile), depth), "cases": cases, "exhaustive": false, "failures": failures}
	out, _ := json.Marshal(res)
	fmt.Println("BOUNDED-RESULT " + string(out))
	if len(failures) > 0 {
		t.Fail()
	}
}
