package neo4j

// Bounded stand-in for C10, the Neo4j driver's re-emission path (labelled bounded, never counted as proved).
// drivers/neo4j parses the text it is about to send, rewrites the model (temporal property comparisons are wrapped
// in the temporal function of the other operand; pattern property parameters are expanded) and emits it again. The
// property says the emitted Cypher means what the model means; for this path the model is the one parsed from the text
// the caller handed in.
//
// INPUTS: comparison chains of 1..3 partial comparisons (a op b, a op b op c, a op b op c op d) over the operand pool
//   {n.created, n.updated, m.seen, datetime(), date(), localdatetime(), time(), datetime() - duration('P1D'), 5, 'x'}
// and the operators {<, <=, >, >=, =, <>}, placed in a WHERE of a MATCH, in a WHERE of a WITH and in a projection
// item; bound "1": chains up to 2 partials exhaustively and 3 partials for every operand triple with the operator
// rotated; bound "2": everything.
//
// ORACLE (from the statement, not from the rewriter's code): the rewrite may only ADD a temporal wrapper f(...) around
// a property lookup. With every wrapper of that shape removed from the rewritten text and from the original text (a user
// may have written one), the two texts must be equal - no operand or operator is changed, dropped, duplicated or moved -
// and the rewritten text must parse.

import (
	"encoding/json"
	"fmt"
	"os"
	"regexp"
	"strings"
	"testing"

	"github.com/specterops/dawgs/cypher/frontend"
	cypherfmt "github.com/specterops/dawgs/cypher/models/cypher/format"
)

var vrWrapper = regexp.MustCompile(`(?i)\b(date|time|localtime|datetime|localdatetime)\(([a-z]+\.[a-z]+)\)`)

func vrStrip(text string) string {
	for {
		next := vrWrapper.ReplaceAllString(text, "$2")
		if next == text {
			return text
		}
		text = next
	}
}

func vrCanonical(text string) (string, error) {
	model, err := frontend.ParseCypher(frontend.NewContext(), text)
	if err != nil {
		return "", err
	}
	return cypherfmt.RegularQuery(model, false)
}

func TestVerifBoundedNeo4jRewrite(t *testing.T) {
	thorough := os.Getenv("VERIF_BOUND") == "2"
	operands := []string{"n.created", "n.updated", "m.seen", "datetime()", "date()", "localdatetime()", "time()", "datetime() - duration('P1D')", "5", "'x'"}
	operators := []string{"<", "<=", ">", ">=", "=", "<>"}
	shapes := []struct{ name, before, after string }{
		{"match where", "match (n)-[]->(m) where ", " return n"},
		{"with where", "match (n)-[]->(m) with n, m where ", " return n"},
		{"projection item", "match (n)-[]->(m) return ", " as c"},
	}
	var chains []string
	for _, a := range operands {
		for _, b := range operands {
			for _, op1 := range operators {
				chains = append(chains, a+" "+op1+" "+b)
				for _, c := range operands {
					for _, op2 := range operators {
						chains = append(chains, a+" "+op1+" "+b+" "+op2+" "+c)
					}
				}
			}
		}
	}
	// three partials: every operand triple twice over (the fourth operand cycles), operators rotated unless thorough
	for ai, a := range operands {
		for bi, b := range operands {
			for ci, c := range operands {
				for di, d := range operands {
					if !thorough && di != (ai+bi+ci)%len(operands) && di != (ai+2*bi+3*ci+1)%len(operands) {
						continue
					}
					for oi := range operators {
						if !thorough && oi != (ai+bi+ci+di)%len(operators) {
							continue
						}
						chains = append(chains, a+" "+operators[oi]+" "+b+" "+operators[(oi+1)%len(operators)]+" "+c+" "+operators[(oi+2)%len(operators)]+" "+d)
					}
				}
			}
		}
	}
	var failures []string
	fail := func(format string, args ...any) {
		if len(failures) < 6 {
			failures = append(failures, fmt.Sprintf(format, args...))
		}
	}
	cases, rewritten := 0, 0
	for _, shape := range shapes {
		for _, chain := range chains {
			q := shape.before + chain + shape.after
			original, err := vrCanonical(q)
			if err != nil {
				continue // not a query of the supported subset
			}
			cases++
			var out string
			var rerr error
			func() {
				defer func() {
					if r := recover(); r != nil {
						rerr = fmt.Errorf("panic: %v", r)
					}
				}()
				out, _, rerr = rewriteQuery(q, map[string]any{})
			}()
			if rerr != nil {
				fail("%s: rewriteQuery(%q) fails: %v", shape.name, q, rerr)
				continue
			}
			if out != q {
				rewritten++
			}
			emitted, err := vrCanonical(out)
			if err != nil {
				fail("%s: the text rewriteQuery returns for %q does not parse: %q: %v", shape.name, q, out, err)
				continue
			}
			if vrStrip(emitted) != vrStrip(original) {
				fail("%s: rewriteQuery changed more than temporal wrappers around property lookups: %q became %q (wrappers removed: %q versus %q)", shape.name, q, out, vrStrip(original), vrStrip(emitted))
				continue
			}
			// (Idempotence is NOT required: n.created < n.created < datetime() wraps the middle operand in the first pass
			// and, because of that wrapper, the first operand in a second one. The statement does not ask for a fixed
			// point, only that what is emitted means what the model means.)
		}
	}
	if rewritten == 0 {
		fail("harness: no query of the enumeration was rewritten")
	}
	res := map[string]any{"name": "neo4j-rewrite", "bound": fmt.Sprintf("comparison chains of 1..3 partial comparisons over %d operands and %d operators in %d positions (%d chains; 3 partials %s)", len(operands), len(operators), len(shapes), len(chains), map[bool]string{true: "exhaustive", false: "with the fourth operand and the operators rotated"}[thorough]), "cases": cases, "rewritten": rewritten, "exhaustive": thorough, "failures": failures}
	data, _ := json.Marshal(res)
	fmt.Println("BOUNDED-RESULT " + strings.ReplaceAll(string(data), "\\n", " "))
	if len(failures) > 0 {
		t.Fail()
	}
}
