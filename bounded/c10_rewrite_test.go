package neo4j

// Bounded stand-in for C10, the Neo4j driver's re-emission path (labelled bounded, never counted as proved).
// drivers/neo4j parses the text it is about to send, rewrites the model (temporal property comparisons are wrapped
// in the temporal function of the other operand; pattern property parameters are expanded) and emits it again. The
// property says the emitted Cypher means what the model means; for this path the model is the one parsed from the text
// the caller handed in.
//
// INPUTS: comparison chains of 1..3 partial comparisons (a op b, a op b op c, a op b op c op d) over the operand pool
//   {n.created, n.updated, m.seen, datetime(), date(), localdatetime(), time(), datetime() - duration('P1D'), 5, 'x'}
// and the operators {<, <=, >, >=, =, <>}, placed in a WHERE of a MATCH, in a WHERE of a WITH and in a projection
// item; bound "1": chains up to 2 partials exhaustively and 3 partials for every operand triple with the operator
// rotated; bound "2": everything.
//
// ORACLE (from the statement, not from the rewriter's code): the rewrite may only ADD a temporal wrapper f(...) around
// a property lookup. With every wrapper of that shape removed from the rewritten text and from the original text (a user
// may have written one), the two texts must be equal - no operand or operator is changed, dropped, duplicated or moved -
// and the rewritten text must parse.

import (
	"encoding/json"
	"fmt"
	"os"
	"regexp"
	"strings"
	"testing"

	"github.com/specterops/dawgs/cypher/frontend"
	"github.com/specterops/dawgs/cypher/models/cypher"
	cypherfmt "github.com/specterops/dawgs/cypher/models/cypher/format"
)

var vrWrapper = regexp.MustCompile(`(?i)\b(date|time|localtime|datetime|localdatetime)\(([a-z]+\.[a-z]+)\)`)

func vrStrip(text string) string {
	for {
		next := vrWrapper.ReplaceAllString(text, "$2")
		if next == text {
			return text
		}
		text = next
	}
}

func vrCanonical(text string) (string, error) {
	model, err := frontend.ParseCypher(frontend.NewContext(), text)
	if err != nil {
		return "", err
	}
	return cypherfmt.RegularQuery(model, false)
}

func TestVerifBoundedNeo4jRewrite(t *testing.T) {
	thorough := os.Getenv("VERIF_BOUND") == "2"
	operands := []string{"n.created", "n.updated", "m.seen", "datetime()", "date()", "localdatetime()", "time()", "datetime() - duration('P1D')", "5", "'x'"}
	operators := []string{"<", "<=", ">", ">=", "=", "<>"}
	shapes := []struct{ name, before, after string }{
		{"match where", "match (n)-[]->(m) where ", " return n"},
		{"with where", "match (n)-[]->(m) with n, m where ", " return n"},
		{"projection item", "match (n)-[]->(m) return ", " as c"},
	}
	var chains []string
	for _, a := range operands {
		for _, b := range operands {
			for _, op1 := range operators {
				chains = append(chains, a+" "+op1+" "+b)
				for _, c := range operands {
					for _, op2 := range operators {
						chains = append(chains, a+" "+op1+" "+b+" "+op2+" "+c)
					}
				}
			}
		}
	}
	// three partials: every operand triple twice over (the fourth operand cycles), operators rotated unless thorough
	for ai, a := range operands {
		for bi, b := range operands {
			for ci, c := range operands {
				for di, d := range operands {
					if !thorough && di != (ai+bi+ci)%len(operands) && di != (ai+2*bi+3*ci+1)%len(operands) {
						continue
					}
					for oi := range operators {
						if !thorough && oi != (ai+bi+ci+di)%len(operators) {
							continue
						}
						chains = append(chains, a+" "+operators[oi]+" "+b+" "+operators[(oi+1)%len(operators)]+" "+c+" "+operators[(oi+2)%len(operators)]+" "+d)
					}
				}
			}
		}
	}
	var failures []string
	fail := func(format string, args ...any) {
		if len(failures) < 6 {
			failures = append(failures, fmt.Sprintf(format, args...))
		}
	}
	cases, rewritten := 0, 0
	for _, shape := range shapes {
		for _, chain := range chains {
			q := shape.before + chain + shape.after
			original, err := vrCanonical(q)
			if err != nil {
				continue // not a query of the supported subset
			}
			cases++
			var out string
			var rerr error
			func() {
				defer func() {
					if r := recover(); r != nil {
						rerr = fmt.Errorf("panic: %v", r)
					}
				}()
				out, _, rerr = rewriteQuery(q, map[string]any{})
			}()
			if rerr != nil {
				fail("%s: rewriteQuery(%q) fails: %v", shape.name, q, rerr)
				continue
			}
			if out != q {
				rewritten++
			}
			emitted, err := vrCanonical(out)
			if err != nil {
				fail("%s: the text rewriteQuery returns for %q does not parse: %q: %v", shape.name, q, out, err)
				continue
			}
			if vrStrip(emitted) != vrStrip(original) {
				fail("%s: rewriteQuery changed more than temporal wrappers around property lookups: %q became %q (wrappers removed: %q versus %q)", shape.name, q, out, vrStrip(original), vrStrip(emitted))
				continue
			}
			// (Idempotence is NOT required: n.created < n.created < datetime() wraps the middle operand in the first pass
			// and, because of that wrapper, the first operand in a second one. The statement does not ask for a fixed
			// point, only that what is emitted means what the model means.)
		}
	}
	if rewritten == 0 {
		fail("harness: no query of the enumeration was rewritten")
	}
	// ---- pattern property parameters: (n $p) is expanded into a map literal of generated parameters ----
	// ORACLE (from the statement): the text that is sent, read with the parameters that are sent, must constrain every
	// pattern element to exactly the keys and values of the map the caller supplied for it, and every parameter the
	// caller supplied and the text still mentions keeps its value.
	expanded := 0
	maps := []map[string]any{{}, {"k": 1}, {"k": 2, "j": "x"}, {"j": "y", "k": 3, "l": true}}
	patternShapes := []struct {
		text  string
		names []string // the parameter of each pattern element that carries one, in text order
	}{
		{"match (n $a) return n", []string{"a"}},
		{"match (n $a)-[r]->(m) return n", []string{"a"}},
		{"match (n)-[r $a]->(m) return n", []string{"a"}},
		{"match (n $a)-[r]->(m $b) return n", []string{"a", "b"}},
		{"match (n $a)-[r $b]->(m $c) return n", []string{"a", "b", "c"}},
		{"match (n $a), (m $b) return n, m", []string{"a", "b"}},
		{"match (n $a) match (m $b) return n, m", []string{"a", "b"}},
		{"match (n $a) with n match (m $b) return n, m", []string{"a", "b"}},
		{"match (n $a)-[r]->(m $a) return n", []string{"a", "a"}},
		{"match (n $a) where n.x = $__dawgs_pattern_property_0 match (m $b) return n", []string{"a", "b"}},
		{"match (n $a)-[r]->(m $b) where m.x = $__dawgs_pattern_property_1 and m.y = $a return n", []string{"a", "b"}},
	}
	elementsOf := func(q *cypher.RegularQuery) []*cypher.Expression {
		var out []*cypher.Expression
		clauses := func(rcs []*cypher.ReadingClause) {
			for _, rc := range rcs {
				if rc.Match == nil {
					continue
				}
				for _, part := range rc.Match.Pattern {
					for _, el := range part.PatternElements {
						if np, ok := el.AsNodePattern(); ok {
							out = append(out, &np.Properties)
						} else if rp, ok := el.AsRelationshipPattern(); ok {
							out = append(out, &rp.Properties)
						}
					}
				}
			}
		}
		if q.SingleQuery.SinglePartQuery != nil {
			clauses(q.SingleQuery.SinglePartQuery.ReadingClauses)
		}
		if mp := q.SingleQuery.MultiPartQuery; mp != nil {
			for _, part := range mp.Parts {
				clauses(part.ReadingClauses)
			}
			if mp.SinglePartQuery != nil {
				clauses(mp.SinglePartQuery.ReadingClauses)
			}
		}
		return out
	}
	var assign func(names []string, i int, params map[string]any, f func(map[string]any))
	assign = func(names []string, i int, params map[string]any, f func(map[string]any)) {
		if i == len(names) {
			f(params)
			return
		}
		if _, done := params[names[i]]; done {
			assign(names, i+1, params, f)
			return
		}
		for _, m := range maps {
			params[names[i]] = m
			assign(names, i+1, params, f)
		}
		delete(params, names[i])
	}
	for _, shape := range patternShapes {
		original, err := frontend.ParseCypher(frontend.NewContext(), shape.text)
		if err != nil {
			fail("harness: %q does not parse: %v", shape.text, err)
			continue
		}
		var carriers []int // index among all pattern elements of the ones that carry a parameter
		for i, props := range elementsOf(original) {
			if p, ok := (*props).(*cypher.Properties); ok && p != nil && p.Parameter != nil {
				carriers = append(carriers, i)
			}
		}
		if len(carriers) != len(shape.names) {
			fail("harness: %q has %d pattern property parameters, expected %d", shape.text, len(carriers), len(shape.names))
			continue
		}
		assign(shape.names, 0, map[string]any{"__dawgs_pattern_property_0": "user-0", "__dawgs_pattern_property_1": "user-1"}, func(params map[string]any) {
			cases++
			supplied := map[string]any{}
			for k, v := range params {
				supplied[k] = v
			}
			out, outParams, rerr := rewriteQuery(shape.text, supplied)
			where := fmt.Sprintf("%q with %v", shape.text, params)
			if rerr != nil {
				fail("pattern parameters: rewriteQuery(%s) fails: %v", where, rerr)
				return
			}
			sent, err := frontend.ParseCypher(frontend.NewContext(), out)
			if err != nil {
				fail("pattern parameters: the text sent for %s does not parse: %q: %v", where, out, err)
				return
			}
			if out != shape.text {
				expanded++
			}
			els := elementsOf(sent)
			if len(els) != len(elementsOf(original)) {
				fail("pattern parameters: %s is sent as %q, which has another number of pattern elements", where, out)
				return
			}
			for ci, idx := range carriers {
				want := params[shape.names[ci]].(map[string]any)
				got := map[string]any{}
				switch props := (*els[idx]).(type) {
				case nil:
				case *cypher.Properties:
					if props == nil {
						break
					}
					if props.Parameter != nil {
						v, _ := outParams[props.Parameter.Symbol].(map[string]any)
						for k, x := range v {
							got[k] = x
						}
						break
					}
					for k, e := range props.Map {
						if prm, ok := e.(*cypher.Parameter); ok {
							v, has := outParams[prm.Symbol]
							if !has {
								fail("pattern parameters: %s is sent as %q, whose parameter $%s is not among the parameters sent", where, out, prm.Symbol)
								return
							}
							got[k] = v
						} else {
							got[k] = e
						}
					}
				default:
					fail("pattern parameters: %s is sent as %q with an unexpected property form %T", where, out, props)
					return
				}
				if fmt.Sprint(got) != fmt.Sprint(want) {
					fail("pattern parameters: %s is sent as %q with parameters %v: pattern element %d is constrained to %v, the caller supplied %v for $%s", where, out, outParams, idx, got, want, shape.names[ci])
					return
				}
			}
			for _, name := range []string{"__dawgs_pattern_property_0", "__dawgs_pattern_property_1", "a"} {
				if strings.Contains(shape.text, "= $"+name) && strings.Contains(out, "$"+name) && fmt.Sprint(outParams[name]) != fmt.Sprint(params[name]) {
					fail("pattern parameters: %s is sent as %q with $%s = %v, the caller supplied %v", where, out, name, outParams[name], params[name])
				}
			}
		})
	}
	if expanded == 0 {
		fail("harness: no pattern property parameter was expanded")
	}
	res := map[string]any{"name": "neo4j-rewrite", "bound": fmt.Sprintf("comparison chains of 1..3 partial comparisons over %d operands and %d operators in %d positions (%d chains; 3 partials %s); pattern property parameters: 11 pattern shapes with 1..3 map parameters, every assignment of 4 maps (0..3 keys)", len(operands), len(operators), len(shapes), len(chains), map[bool]string{true: "exhaustive", false: "with the fourth operand and the operators rotated"}[thorough]), "cases": cases, "rewritten": rewritten, "pattern_parameters_expanded": expanded, "exhaustive": thorough, "failures": failures}
	data, _ := json.Marshal(res)
	fmt.Println("BOUNDED-RESULT " + strings.ReplaceAll(string(data), "\\n", " "))
	if len(failures) > 0 {
		t.Fail()
	}
}
