package channels

// Bounded stand-in for C17, pipe part (labelled bounded, never counted as proved).
//
// ENUMERATED: every script over the alphabet {S,R,C,X} up to length L (VERIF_BOUND "1": L=7, "2": L=9)
// with at most one C, at most one X (so cancellation is injected at every position of every {S,R,C}
// script, and the script goes on after it) and no S after C (a send on a closed channel panics in the
// caller by the Go language definition; that is caller misuse, not pipe behaviour). Every script is run
// twice: S done as a direct channel send, and S done through channels.Submit. All operations are issued
// from the single test goroutine, so the only concurrency is the pipe's own goroutine.
//   S  submit the next integer (1,2,3,... never the zero value, so that a leaked zero value is visible)
//   R  receive one value from the reader channel
//   C  close the writer channel
//   X  cancel the context the pipe was built with
// A script that contains neither C nor X is terminated by an implicit C (otherwise the pipe goroutine
// lives forever by design). Additionally large-backlog scripts (S^N with N=20 000 / 200 000 without
// any reader, then C or R^(N/2) X) are run once per S mode.
//
// ORACLE (from the property statement, not from the code): a FIFO queue model.
//   - S before C/X completes within 1 s although nobody reads (a writer never blocks on a slow reader);
//   - R with a non-empty model queue yields, within 1 s, exactly the oldest submitted value not yet
//     received; R with an empty queue and an open writer yields nothing (checked by polling for a short
//     while: this negative check can only miss a late phantom, which the final comparison still catches,
//     it can never fail a correct pipe); R with an empty queue after C yields "closed" within 1 s;
//   - at the end, draining the reader until it reports closed (must happen within 1 s per step) gives,
//     together with the values of all R operations, exactly the submitted sequence (no X in script) or
//     a prefix of the submitted sequence (X in script; after X an S may be accepted or refused, an R may
//     deliver the next value or report closed, but nothing may block, be reordered or be duplicated);
//   - runtime.NumGoroutine() is back to its value from before the script within 2 s.
// VERIF_SEED only permutes the order in which the scripts are run.

import (
	"context"
	"encoding/json"
	"fmt"
	"math/rand"
	"os"
	"runtime"
	"strconv"
	"testing"
	"time"
)

const (
	pvGenerous   = time.Second
	pvWouldBlock = 100 * time.Microsecond
	pvSettle     = 2 * time.Second
)

// knownDeviations lists scripts ("<mode>:<script>") for which the unchanged tree violates the oracle.
// Empty: no deviation was found on the unchanged tree.
var pvKnownDeviations = map[string]bool{}

type pvRecv int

const (
	pvValue pvRecv = iota
	pvClosed
	pvTimeout
)

// pvReceive waits up to d for one receive on r.
func pvReceive(r <-chan int, timer *time.Timer, d time.Duration) (int, pvRecv) {
	select {
	case v, ok := <-r:
		if ok {
			return v, pvValue
		}
		return 0, pvClosed
	default:
	}
	timer.Reset(d)
	defer timer.Stop()
	select {
	case v, ok := <-r:
		if ok {
			return v, pvValue
		}
		return 0, pvClosed
	case <-timer.C:
		return 0, pvTimeout
	}
}

// pvPoll polls r without ever parking the caller, for the would-block decision.
func pvPoll(r <-chan int, d time.Duration) (int, pvRecv) {
	start := time.Now()
	for {
		select {
		case v, ok := <-r:
			if ok {
				return v, pvValue
			}
			return 0, pvClosed
		default:
		}
		if time.Since(start) >= d {
			return 0, pvTimeout
		}
		runtime.Gosched()
	}
}

func pvSettleGoroutines(before int) (int, bool) {
	deadline := time.Now().Add(pvSettle)
	for i := 0; ; i++ {
		now := runtime.NumGoroutine()
		if now <= before {
			return now, true
		}
		if time.Now().After(deadline) {
			return now, false
		}
		if i < 100 {
			runtime.Gosched()
		} else {
			time.Sleep(200 * time.Microsecond)
		}
	}
}

// pvRun runs one script against the real pipe and returns "" or a description of the first violation.
// Every 'S' stands for sMul submissions and every 'R' for rMul receives (1 for the enumerated scripts).
func pvRun(script string, submitMode bool, sMul, rMul int) (msg string) {
	defer func() {
		if r := recover(); r != nil {
			msg = fmt.Sprintf("panic: %v", r)
		}
	}()
	before := runtime.NumGoroutine()
	ctx, cancel := context.WithCancel(context.Background())
	defer cancel()
	w, r := BufferedPipe[int](ctx)
	timer := time.NewTimer(time.Hour)
	timer.Stop()

	var (
		submitted = 0 // values 1..submitted were accepted by the pipe
		received  = 0 // values 1..received were delivered, in this order
		closedW   = false
		cancelled = false
		readerEOF = false
	)
	take := func(v int) string {
		if v != received+1 {
			return fmt.Sprintf("received %d but the oldest undelivered submitted value is %d (submitted 1..%d, delivered 1..%d)", v, received+1, submitted, received)
		}
		if v > submitted {
			return fmt.Sprintf("received %d although only 1..%d were submitted", v, submitted)
		}
		received++
		return ""
	}
	for pos, op := range script {
		switch op {
		case 'S':
			for k := 0; k < sMul; k++ {
				v := submitted + 1
				if cancelled {
					// the documented contract of Submit: false once the context is done; the pipe may or
					// may not still take the value; it must not block.
					done := make(chan bool, 1)
					go func() { done <- Submit(ctx, w, v) }()
					timer.Reset(pvGenerous)
					select {
					case ok := <-done:
						timer.Stop()
						if ok {
							submitted++
						}
					case <-timer.C:
						return fmt.Sprintf("op %d (S after X): Submit with the cancelled context did not return within %v", pos, pvGenerous)
					}
					continue
				}
				start := time.Now()
				ok := false
				if submitMode {
					sctx, sdone := context.WithTimeout(context.Background(), pvGenerous)
					ok = Submit(sctx, w, v)
					sdone()
				} else {
					select {
					case w <- v:
						ok = true
					default:
						timer.Reset(pvGenerous)
						select {
						case w <- v:
							ok = true
						case <-timer.C:
						}
						timer.Stop()
					}
				}
				if !ok {
					return fmt.Sprintf("op %d (S of value %d): writer blocked for %v with no reader present (backlog %d)", pos, v, time.Since(start), submitted-received)
				}
				submitted++
			}
		case 'R':
			for k := 0; k < rMul; k++ {
				switch {
				case readerEOF:
					// a closed channel stays closed
					if v, st := pvReceive(r, timer, pvGenerous); st != pvClosed {
						return fmt.Sprintf("op %d (R): reader was closed before but now yields state %d value %d", pos, st, v)
					}
				case cancelled:
					v, st := pvReceive(r, timer, pvGenerous)
					switch st {
					case pvTimeout:
						return fmt.Sprintf("op %d (R after X): reader neither delivered nor closed within %v", pos, pvGenerous)
					case pvClosed:
						readerEOF = true
					case pvValue:
						if m := take(v); m != "" {
							return fmt.Sprintf("op %d (R after X): %s", pos, m)
						}
					}
				case submitted > received:
					v, st := pvReceive(r, timer, pvGenerous)
					switch st {
					case pvTimeout:
						return fmt.Sprintf("op %d (R): nothing delivered within %v although values %d..%d are pending", pos, pvGenerous, received+1, submitted)
					case pvClosed:
						return fmt.Sprintf("op %d (R): reader closed although values %d..%d are pending (lost)", pos, received+1, submitted)
					case pvValue:
						if m := take(v); m != "" {
							return fmt.Sprintf("op %d (R): %s", pos, m)
						}
					}
				case closedW:
					if v, st := pvReceive(r, timer, pvGenerous); st != pvClosed {
						return fmt.Sprintf("op %d (R after C, everything delivered): expected closed reader, got state %d value %d", pos, st, v)
					}
					readerEOF = true
				default:
					v, st := pvPoll(r, pvWouldBlock)
					switch st {
					case pvValue:
						return fmt.Sprintf("op %d (R on empty pipe): received phantom/duplicate value %d (submitted 1..%d, delivered 1..%d)", pos, v, submitted, received)
					case pvClosed:
						return fmt.Sprintf("op %d (R on empty pipe): reader closed although the writer is open and the context live", pos)
					}
				}
			}
		case 'C':
			close(w)
			closedW = true
		case 'X':
			cancel()
			cancelled = true
		}
	}
	if !closedW && !cancelled {
		close(w) // implicit terminator, see header
		closedW = true
	}
	// drain
	for !readerEOF {
		v, st := pvReceive(r, timer, pvGenerous)
		switch st {
		case pvTimeout:
			return fmt.Sprintf("drain: reader neither delivered nor closed within %v (submitted 1..%d, delivered 1..%d, cancelled=%v)", pvGenerous, submitted, received, cancelled)
		case pvClosed:
			readerEOF = true
		case pvValue:
			if m := take(v); m != "" {
				return "drain: " + m
			}
		}
	}
	if !cancelled && received != submitted {
		return fmt.Sprintf("reader closed after delivering 1..%d but 1..%d were submitted (lost values)", received, submitted)
	}
	// (cancelled: 1..received is a prefix of 1..submitted by construction of take)
	cancel()
	if now, ok := pvSettleGoroutines(before); !ok {
		return fmt.Sprintf("goroutine leak: %d goroutines before the script, %d still alive %v after it", before, now, pvSettle)
	}
	return ""
}

func pvScripts(maxLen int) []string {
	var out []string
	var gen func(cur []byte, hasC, hasX bool)
	gen = func(cur []byte, hasC, hasX bool) {
		out = append(out, string(cur))
		if len(cur) == maxLen {
			return
		}
		if !hasC {
			gen(append(cur, 'S'), hasC, hasX)
		}
		gen(append(cur, 'R'), hasC, hasX)
		if !hasC {
			gen(append(cur, 'C'), true, hasX)
		}
		if !hasX {
			gen(append(cur, 'X'), hasC, true)
		}
	}
	gen(nil, false, false)
	return out
}

func TestVerifBoundedPipe(t *testing.T) {
	maxLen, backlog := 7, 20000
	if os.Getenv("VERIF_BOUND") == "2" {
		maxLen, backlog = 9, 200000
	}
	seed, _ := strconv.ParseInt(os.Getenv("VERIF_SEED"), 10, 64)
	scripts := pvScripts(maxLen)
	rand.New(rand.NewSource(seed)).Shuffle(len(scripts), func(i, j int) { scripts[i], scripts[j] = scripts[j], scripts[i] })

	cases := 0
	failures := []string{}
	fail := func(format string, args ...any) {
		if len(failures) < 5 {
			failures = append(failures, fmt.Sprintf(format, args...))
		}
	}
	modeName := map[bool]string{false: "send", true: "Submit"}
	failed := 0
	for _, script := range scripts {
		for _, mode := range []bool{false, true} {
			cases++
			if pvKnownDeviations[modeName[mode]+":"+script] {
				continue
			}
			if msg := pvRun(script, mode, 1, 1); msg != "" {
				failed++
				fail("script %q (S via %s): %s", script, modeName[mode], msg)
			}
		}
		if failed > 20 {
			break // every failure may cost seconds of timeouts; the first five are reported anyway
		}
	}
	// large backlog without any reader: S^N C, S^N R^(N/2) X (every S stands for N submissions)
	for _, mode := range []bool{false, true} {
		for _, big := range []struct {
			script string
			s, r   int
		}{{"SC", backlog, 1}, {"S", backlog, 1}, {"SRX", backlog, backlog / 2}, {"SX", backlog, 1}, {"SRSRC", backlog / 2, backlog / 4}} {
			cases++
			if msg := pvRun(big.script, mode, big.s, big.r); msg != "" {
				fail("script %q with every S = %d submissions and every R = %d receives (S via %s): %s", big.script, big.s, big.r, modeName[mode], msg)
			}
		}
	}
	res := map[string]any{
		"name":       "pipe",
		"bound":      fmt.Sprintf("all scripts over {S,R,C,X} up to length %d (<=1 C, <=1 X at any position, no S after C) x S via {send, Submit}, plus backlog scripts of %d values without reader", maxLen, backlog),
		"scripts":    len(scripts),
		"cases":      cases,
		"exhaustive": failed <= 20,
		"failures":   failures,
	}
	out, _ := json.Marshal(res)
	fmt.Println("BOUNDED-RESULT " + string(out))
	if len(failures) > 0 {
		t.Fail()
	}
}
