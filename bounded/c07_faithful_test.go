package frontend

// Bounded stand-in for C07 (labelled bounded, never counted as proved): "an accepted query text is denoted by its
// model" checked as CONTENT FAITHFULNESS of parse -> emit against an oracle that never looks at the library's
// token stream or model: an independent tokenizer, an independent precedence parser / evaluator, strconv.
//
// WHAT IS ENUMERATED (VERIF_BOUND "1" = quick, "2" = thorough; VERIF_SEED only permutes the execution order of the
// work units, results are merged by index, coverage and output do not depend on it)
//
//  S1 content of accepted texts. Inputs: every query of cypher/test/cases/{positive,mutation,negative,filtering}
//     _tests.json, a list of hand written texts for rarely used constructs (vfExtraQueries: hints, query options,
//     Unicode dashes / arrow heads, escapes, reserved words as names, projections, updating clauses, the unsupported
//     constructs ...), the multi-part queries of vfMultiPartQueries (after `match (n)-[r]->(m)` EVERY sequence of
//     1..4 clauses over set / remove / delete / create / merge / with, parsed with NewContext(), which accepts
//     updating clauses; all of them must be accepted, and the SEQUENCE of content tokens - hence the clause order -
//     must be kept), plus generated families in the frames `match (n) where <e> return n` / `return <e>`:
//       bool   : ALL binary tree shapes over 1..4 atoms n.a = 1, n.b = 2, n.c = 3, n.d = 4 x ALL operator
//                assignments {and, or, xor} x ALL subsets of negated atoms x negated inner nodes (bound 1: at most
//                one negated inner node when there are 4 atoms; bound 2: all subsets, and additionally all trees
//                over 5 atoms (n.e = 5) without negated inner nodes), each rendered fully
//                parenthesised, minimally parenthesised and without parentheses (duplicates by text removed);
//       arith  : ALL tree shapes over 1..4 operands 7, n.b, 2, n.d x ALL operator assignments {+ - * / % ^} x
//                unary minus on operands and on inner nodes (bound 1, 4 operands: at most one negated operand and
//                no negated inner node; otherwise all subsets of both), same three renderings;
//       chains : ALL comparison chains with 1..3 operators of {=, <>, <, >, <=, >=} over n.a, 1, n.b, 2, bare, under
//                `not`, and joined with `and n.b = 2`;
//       strops : ALL ordered pairs of the predicates starts with / ends with / contains / =~ / in / is null /
//                is not null x {and, or, xor} x {negated or not}^2, the single predicates, and stacked predicates.
//     For every ACCEPTED input q (err == nil and a model with a query): t = emit(parse(q)) with the real emitter;
//       (a) t parses; (b) emit(parse(t)) == t and parse(t) is deeply equal to parse(q); (c) the multiset of content
//       tokens of q equals that of t (own tokenizer, see below); for the generated families additionally the
//       SEQUENCE of content tokens is equal; (d) bool/chains: the truth table of q's expression over the
//       assignments n.x in {its literal, 0} (chains: n.a, n.b in 0..3) equals that of t's expression, both computed
//       by the harness' own parser (openCypher precedence OR < XOR < AND < NOT < comparison < + - < * / % < ^ < unary
//       sign, binary operators left associative, a chain a < b < c means a < b and b < c); arith: equal values on
//       three integer assignments (integer / and % truncate, ^ is floating point).
//  S2 unrecognised input. For every accepted fixture query shorter than 120 characters and 30 generated queries
//     (all of them at both bounds), each of ! ? & @ ~ # § ` ' is inserted at EVERY rune position. The result must be
//     rejected, or pass (a)-(c): the harness tokenizer turns a character that is not part of any token (outside
//     string literals, escaped names and comments) into a content token of its own, so an accepted text whose
//     emission lacks it fails (c). (`~` after `=` legitimately forms `=~`.)
//  S3 numeric literals. `return <lit>` and `return -<lit>` for a list of integer / float spellings (decimal, hex,
//     octal, leading zeros, exponents, range limits of int64 and float64, overflow, underflow). If accepted: (a)-(c),
//     and the emitted literal must be of the same kind (integer / float) and denote the same value as strconv /
//     math/big assign to the input spelling.
//  S4 comments and whitespace. For the S2 sample plus range-literal queries ([r*1..2], [r*..4], [r*1..], [*], [r*2]
//     ...): each of " ", "\t\n", "/* c */", " /**/ ", "// c\n", U+00A0, U+001F, U+180E is inserted at EVERY boundary
//     between two tokens of the harness tokenizer (also at the start and the end). The result must be rejected, or
//     be accepted with a model deeply equal to the model of the text without the insertion (and pass (a)-(c)).
//  S5 redundant constructs: not not x, not (not x), - - 1, -(-1), + 1, ((x)), x = (1), ... : if accepted (a)-(d).
//
// CONTENT TOKENS (own tokenizer, independent of the library): keywords (case-insensitive; `is null`, `is not null`,
// `starts with`, `ends with`, `order by` as units), operator symbols = <> < > <= >= =~ += + - * / % ^, identifiers
// (variables, property keys, labels, function names; escaped names by their decoded content), integer and float
// literals by kind and VALUE, string literals by decoded content, parameters, relationship directions, range
// literals by their bounds. NOT content: parentheses, brackets, braces, commas, colons, dots, `|`, a final `;`,
// whitespace, comments, keyword case.
// NORMALISATIONS applied to both sides (each is meaning preserving in openCypher):
//   - a sort item without direction is `asc`; ascending/descending are asc/desc;
//   - [*n] is [*n..n]; [*] is [*..]; a relationship with both arrow heads (<-->) is the undirected relationship (--);
//     (a)--(b) is (a)-[]-(b); the Unicode dash / arrow head variants of the grammar are - < >;
//   - function names (an identifier directly followed by `(`) are case-insensitive; count(*) is count ( * );
//   - number spellings: 1e3 = 1000.0, .5 = 0.5, 0x1F = 31 (value and integer/float kind are kept);
//   - quoting style of strings ('a' vs "a") and `a` vs a for names that need no escaping.
// The grammar has no `!=`; `<>` is never rewritten.
//
// A violation on the UNCHANGED tree that belongs to a class listed in knownDeviations is reported under
// "known_deviations" and does not fail the run; every other input is checked normally. VERIF_FAITHFUL_DUMP=1 prints
// one "DUMP ..." line for every violation (known or not) in addition to the BOUNDED-RESULT line.

import (
	"encoding/json"
	"fmt"
	"math"
	"math/big"
	"math/rand"
	"os"
	"path/filepath"
	"reflect"
	"regexp"
	"sort"
	"strconv"
	"strings"
	"sync"
	"sync/atomic"
	"testing"
	"time"
	"unicode"

	"github.com/specterops/dawgs/cypher/models/cypher"
	"github.com/specterops/dawgs/cypher/models/cypher/format"
)

// ---------------------------------------------------------------------------------------------------------------
// known deviations

type vfKnown struct {
	name    string
	classes []string                // every failing check class of the input must be in this list
	match   func(input string) bool // and the input must belong to the class
	note    string
}

var vfDoubleNot = regexp.MustCompile(`(?is)\bnot(\s|/\*.*?\*/|//[^\n]*\n)*not\b`)

// knownDeviations: classes of inputs for which the UNCHANGED tree violates the oracle above (reported to the
// maintainers as candidate defects, see the final report of this harness). They are still executed; a violation is
// counted under "known_deviations" instead of "failures". Further "<class>~<regexp on the input>" entries can be
// supplied through VERIF_KNOWN ("|"-separated is not usable with regexps, so entries are separated by ";;").
var knownDeviations = []vfKnown{
	{
		name:    "double-negation-collapsed",
		classes: []string{"content-tokens", "content-sequence", "truth-table"},
		match:   func(in string) bool { return vfDoubleNot.MatchString(in) },
		note:    "`not not x` (any run of consecutive NOTs) is modelled as a single negation: `not not x` is emitted as `not x`",
	},
	{
		name:    "comment-inside-arithmetic",
		classes: []string{"emit-reparse", "fixed-point", "model-differs", "content-tokens", "content-sequence", "comment-changes-model", "arith-value", "truth-table"},
		match:   vfCommentBeforeArithmeticOperator,
		note:    "a comment (or one of the whitespace characters U+001C..U+001F, U+180E, which strings.TrimSpace keeps) between an operand and a following arithmetic operator of the same expression is taken for the operator: `1 /* c */ + 2` is emitted as `1  2`, `-(1 + 2) /* c */ * -3` as `-(1 + 2)  -3` which reads back as a subtraction",
	},
	{
		name:    "range-before-properties-not-reparsable",
		classes: []string{"emit-reparse"},
		match:   regexp.MustCompile(`\[[^\]{]*\*[0-9.]*\{`).MatchString,
		note:    "a range literal directly followed by a property map, [*1..2{w: 1}], is accepted but emitted as [*1..2 {w: 1}], which the parser rejects (whitespace after a range bound is reported as 'unexpected token in pattern range'); the spelling with a space is rejected in the first place",
	},
	{
		name:    "hints-dropped",
		classes: []string{"content-tokens"},
		match:   regexp.MustCompile(`(?i)\)\s*using\s+(index|scan|join)\s`).MatchString,
		note:    "USING INDEX / USING SCAN / USING JOIN ON hints of a MATCH clause are accepted and silently dropped",
	},
	{
		name:    "cypher-options-dropped",
		classes: []string{"content-tokens"},
		match:   regexp.MustCompile(`(?i)^\s*cypher\s`).MatchString,
		note:    "a leading CYPHER <version> <option>=<value> query option is accepted and silently dropped",
	},
}

func vfKnownFromEnv() []vfKnown {
	var out []vfKnown
	for _, p := range strings.Split(os.Getenv("VERIF_KNOWN"), ";;") {
		p = strings.TrimSpace(p)
		idx := strings.Index(p, "~")
		if idx <= 0 {
			continue
		}
		re, err := regexp.Compile(p[idx+1:])
		if err != nil {
			continue
		}
		out = append(out, vfKnown{name: "env:" + p, classes: strings.Split(p[:idx], ","), match: re.MatchString})
	}
	return out
}

// vfCommentBeforeArithmeticOperator: the input contains a comment that is followed, at the same nesting depth and
// before the expression ends, by one of + - * / % ^.
func vfCommentBeforeArithmeticOperator(in string) bool {
	toks := vfLex(in, true)
	for i, t := range toks {
		if t.kind != vfComment {
			continue
		}
		depth := 0
	scan:
		for _, u := range toks[i+1:] {
			switch u.kind {
			case vfPunct:
				switch u.text {
				case "(", "[", "{":
					depth++
				case ")", "]", "}":
					depth--
					if depth < 0 {
						break scan
					}
				case ",", ":", "|", ";":
					if depth == 0 {
						break scan
					}
				}
			case vfKwd:
				if depth == 0 && u.text != "true" && u.text != "false" && u.text != "null" {
					break scan
				}
			case vfSym:
				if depth == 0 {
					switch u.text {
					case "+", "-", "*", "/", "%", "^":
						return true
					default:
						break scan
					}
				}
			}
		}
	}
	return false
}

// ---------------------------------------------------------------------------------------------------------------
// the harness' own tokenizer

const (
	vfKwd = iota
	vfIdent
	vfInt
	vfFloat
	vfStr
	vfParam
	vfSym
	vfPunct
	vfJunk
	vfRel
	vfRange
	vfComment
)

var vfKindNames = []string{"kw", "id", "int", "float", "str", "param", "op", "punct", "junk", "rel", "range", "comment"}

type vfTok struct {
	kind       int
	text       string
	start, end int // rune offsets
}

func (t vfTok) String() string { return vfKindNames[t.kind] + ":" + t.text }

var vfKeywords = map[string]string{
	"and": "and", "or": "or", "xor": "xor", "not": "not", "in": "in", "starts": "starts", "ends": "ends", "with": "with",
	"contains": "contains", "is": "is", "null": "null", "distinct": "distinct", "order": "order", "by": "by",
	"asc": "asc", "ascending": "asc", "desc": "desc", "descending": "desc", "skip": "skip", "limit": "limit",
	"union": "union", "all": "all", "optional": "optional", "match": "match", "where": "where", "return": "return",
	"unwind": "unwind", "as": "as", "true": "true", "false": "false", "create": "create", "merge": "merge",
	"set": "set", "delete": "delete", "detach": "detach", "remove": "remove", "on": "on",
}

func vfIsSpace(r rune) bool {
	switch r {
	case ' ', '\t', '\n', '\v', '\f', '\r', 0x1c, 0x1d, 0x1e, 0x1f, 0x1680, 0x180e, 0x2000, 0x2001, 0x2002, 0x2003, 0x2004,
		0x2005, 0x2006, 0x2007, 0x2008, 0x2009, 0x200a, 0x2028, 0x2029, 0x205f, 0x3000, 0x00a0, 0x202f:
		return true
	}
	return false
}

func vfIdentStart(r rune) bool {
	return unicode.IsLetter(r) || r == '_' || unicode.Is(unicode.Pc, r) || unicode.Is(unicode.Nl, r)
}

func vfIdentPart(r rune) bool {
	return vfIdentStart(r) || unicode.IsDigit(r) || unicode.Is(unicode.Mn, r) || unicode.Is(unicode.Mc, r) || unicode.Is(unicode.Sc, r)
}

func vfIsDigit(r rune) bool { return r >= '0' && r <= '9' }

func vfIsHex(r rune) bool {
	return vfIsDigit(r) || (r >= 'a' && r <= 'f') || (r >= 'A' && r <= 'F')
}

func vfDash(r rune) bool {
	switch r {
	case '-', 0x00ad, 0x2010, 0x2011, 0x2012, 0x2013, 0x2014, 0x2015, 0x2212, 0xfe58, 0xfe63, 0xff0d:
		return true
	}
	return false
}

// vfLex splits a query text into raw tokens (punctuation kept; comments kept only when asked for).
func vfLex(s string, keepComments bool) []vfTok {
	rs := []rune(s)
	n := len(rs)
	var toks []vfTok
	add := func(kind int, text string, start, end int) {
		toks = append(toks, vfTok{kind: kind, text: text, start: start, end: end})
	}
	at := func(i int) rune {
		if i < n {
			return rs[i]
		}
		return -1
	}
	i := 0
	for i < n {
		r := rs[i]
		switch {
		case vfIsSpace(r):
			// whitespace of the grammar that Go's unicode.IsSpace does not know (FS GS RS US, U+180E) is kept like
			// a comment when comments are asked for: see knownDeviations
			if keepComments && !unicode.IsSpace(r) {
				add(vfComment, string(r), i, i+1)
			}
			i++
		case r == '/' && at(i+1) == '*':
			j := i + 2
			for j < n && !(rs[j] == '*' && at(j+1) == '/') {
				j++
			}
			if j >= n {
				add(vfJunk, "/*", i, n)
				i = n
			} else {
				if keepComments {
					add(vfComment, string(rs[i:j+2]), i, j+2)
				}
				i = j + 2
			}
		case r == '/' && at(i+1) == '/':
			j := i + 2
			for j < n && rs[j] != '\n' && rs[j] != '\r' {
				j++
			}
			if keepComments {
				add(vfComment, string(rs[i:j]), i, j)
			}
			i = j
		case r == '\'' || r == '"':
			j := i + 1
			var sb strings.Builder
			closed, bad := false, false
			for j < n {
				c := rs[j]
				if c == r {
					closed = true
					j++
					break
				}
				if c == '\\' {
					e := at(j + 1)
					switch e {
					case '\\', '\'', '"':
						sb.WriteRune(e)
						j += 2
					case 'b', 'B':
						sb.WriteRune('\b')
						j += 2
					case 'f', 'F':
						sb.WriteRune('\f')
						j += 2
					case 'n', 'N':
						sb.WriteRune('\n')
						j += 2
					case 'r', 'R':
						sb.WriteRune('\r')
						j += 2
					case 't', 'T':
						sb.WriteRune('\t')
						j += 2
					case 'u', 'U':
						// the grammar tries 4 hex digits first, then 8: the lexer takes the longest match of the
						// whole literal, which is the same text either way; decode 4 digits (8 only if \U form
						// has 8 hex digits and 4 more would not be plain text - keep it simple: 4 digits).
						k := j + 2
						cnt := 0
						for cnt < 4 && k < n && vfIsHex(rs[k]) {
							k++
							cnt++
						}
						if cnt < 4 {
							bad = true
							j += 2
						} else {
							v, _ := strconv.ParseUint(string(rs[j+2:k]), 16, 32)
							sb.WriteRune(rune(v))
							j = k
						}
					default:
						bad = true
						j += 2
					}
					continue
				}
				sb.WriteRune(c)
				j++
			}
			if !closed || bad {
				add(vfJunk, string(r), i, j)
			} else {
				add(vfStr, sb.String(), i, j)
			}
			i = j
		case r == '`':
			// ( '`' ~[`]* '`' )+ ; two segments in a row stand for one embedded backquote
			j := i
			var sb strings.Builder
			ok := true
			first := true
			for j < n && rs[j] == '`' {
				k := j + 1
				for k < n && rs[k] != '`' {
					k++
				}
				if k >= n {
					ok = false
					j = n
					break
				}
				if !first {
					sb.WriteRune('`')
				}
				first = false
				sb.WriteString(string(rs[j+1 : k]))
				j = k + 1
			}
			if !ok {
				add(vfJunk, "`", i, j)
			} else {
				add(vfIdent, sb.String(), i, j)
			}
			i = j
		case r == '$':
			j := i + 1
			if j < n && vfIdentStart(rs[j]) {
				for j < n && vfIdentPart(rs[j]) {
					j++
				}
				add(vfParam, string(rs[i+1:j]), i, j)
			} else if j < n && vfIsDigit(rs[j]) {
				for j < n && vfIsDigit(rs[j]) {
					j++
				}
				add(vfParam, string(rs[i+1:j]), i, j)
			} else if j < n && rs[j] == '`' {
				k := j + 1
				for k < n && rs[k] != '`' {
					k++
				}
				if k < n {
					add(vfParam, string(rs[j+1:k]), i, k+1)
					j = k + 1
				} else {
					add(vfJunk, "$", i, j)
				}
			} else {
				add(vfJunk, "$", i, j)
			}
			i = j
		case vfIsDigit(r) || (r == '.' && vfIsDigit(at(i+1)) && at(i-1) != '.' && !(i > 0 && vfIdentPart(rs[i-1])) && at(i-1) != ')' && at(i-1) != ']' && at(i-1) != '`'):
			j := i
			if r == '0' && (at(i+1) == 'x') && vfIsHex(at(i+2)) {
				j = i + 2
				for j < n && vfIsHex(rs[j]) {
					j++
				}
				v, _ := new(big.Int).SetString(string(rs[i+2:j]), 16)
				add(vfInt, v.String(), i, j)
				i = j
				break
			}
			if r == '0' && (at(i+1) == 'o') && at(i+2) >= '0' && at(i+2) <= '7' {
				j = i + 2
				for j < n && rs[j] >= '0' && rs[j] <= '7' {
					j++
				}
				v, _ := new(big.Int).SetString(string(rs[i+2:j]), 8)
				add(vfInt, v.String(), i, j)
				i = j
				break
			}
			for j < n && vfIsDigit(rs[j]) {
				j++
			}
			isFloat := false
			if at(j) == '.' && vfIsDigit(at(j+1)) {
				isFloat = true
				j++
				for j < n && vfIsDigit(rs[j]) {
					j++
				}
			}
			if at(j) == 'e' || at(j) == 'E' {
				k := j + 1
				if at(k) == '-' {
					k++
				}
				if vfIsDigit(at(k)) {
					for k < n && vfIsDigit(rs[k]) {
						k++
					}
					isFloat = true
					j = k
				}
			}
			text := string(rs[i:j])
			if isFloat {
				f, _ := strconv.ParseFloat(text, 64)
				add(vfFloat, strconv.FormatFloat(f, 'g', -1, 64), i, j)
			} else {
				v, ok := new(big.Int).SetString(text, 10)
				if !ok {
					add(vfJunk, text, i, j)
				} else {
					add(vfInt, v.String(), i, j)
				}
			}
			i = j
		case vfIdentStart(r):
			j := i
			for j < n && vfIdentPart(rs[j]) {
				j++
			}
			word := string(rs[i:j])
			k := j // the next significant character (whitespace and comments skipped)
			for k < n {
				if vfIsSpace(rs[k]) {
					k++
				} else if rs[k] == '/' && at(k+1) == '*' {
					e := k + 2
					for e < n && !(rs[e] == '*' && at(e+1) == '/') {
						e++
					}
					if e >= n {
						break
					}
					k = e + 2
				} else if rs[k] == '/' && at(k+1) == '/' {
					for k < n && rs[k] != '\n' && rs[k] != '\r' {
						k++
					}
				} else {
					break
				}
			}
			next := at(k)
			prevIsQualifier := false
			if len(toks) > 0 {
				p := toks[len(toks)-1]
				prevIsQualifier = p.kind == vfPunct && (p.text == "." || p.text == ":")
			}
			lower := strings.ToLower(word)
			if kw, isKw := vfKeywords[lower]; isKw && !prevIsQualifier && next != ':' {
				add(vfKwd, kw, i, j)
			} else if next == '(' && !prevIsQualifier {
				add(vfIdent, lower, i, j) // function names are case-insensitive
			} else {
				add(vfIdent, word, i, j)
			}
			i = j
		default:
			two := string(r) + string(at(i+1))
			switch {
			case two == "<>" || two == "<=" || two == ">=" || two == "=~" || two == "+=" || two == "..":
				add(vfSym, two, i, i+2)
				i += 2
			case vfDash(r):
				add(vfSym, "-", i, i+1)
				i++
			case r == '<' || r == 0x27e8 || r == 0x3008 || r == 0xfe64 || r == 0xff1c:
				add(vfSym, "<", i, i+1)
				i++
			case r == '>' || r == 0x27e9 || r == 0x3009 || r == 0xfe65 || r == 0xff1e:
				add(vfSym, ">", i, i+1)
				i++
			case strings.ContainsRune("=+*/%^", r):
				add(vfSym, string(r), i, i+1)
				i++
			case strings.ContainsRune("()[]{},:;.|", r):
				add(vfPunct, string(r), i, i+1)
				i++
			default:
				add(vfJunk, string(r), i, i+1)
				i++
			}
		}
	}
	return toks
}

func vfIsP(t vfTok, text string) bool { return t.kind == vfPunct && t.text == text }
func vfIsS(t vfTok, text string) bool { return t.kind == vfSym && t.text == text }
func vfIsK(t vfTok, text string) bool { return t.kind == vfKwd && t.text == text }

// vfRangeTokens rewrites a range literal inside the brackets of a relationship pattern into one token.
func vfRangeTokens(inner []vfTok) []vfTok {
	var out []vfTok
	for i := 0; i < len(inner); i++ {
		t := inner[i]
		if vfIsP(t, "{") {
			return append(out, inner[i:]...) // properties: no range literal behind them
		}
		if !vfIsS(t, "*") {
			out = append(out, t)
			continue
		}
		lo, hi := "", ""
		j := i + 1
		hasLo, hasDots := false, false
		if j < len(inner) && inner[j].kind == vfInt {
			lo, hasLo = inner[j].text, true
			j++
		}
		if j < len(inner) && vfIsS(inner[j], "..") {
			hasDots = true
			j++
			if j < len(inner) && inner[j].kind == vfInt {
				hi = inner[j].text
				j++
			}
		}
		if hasLo && !hasDots {
			hi = lo
		}
		out = append(out, vfTok{kind: vfRange, text: lo + ".." + hi, start: t.start, end: inner[j-1].end})
		i = j - 1
	}
	return out
}

// vfStructure recognises relationship patterns  ) <? - [ ... ]? - >? (  and replaces their dashes and arrow heads by
// one direction token; merges multi-word operators; gives every sort item an explicit direction.
func vfStructure(raw []vfTok) []vfTok {
	var out []vfTok
	n := len(raw)
	get := func(i int) vfTok {
		if i < n {
			return raw[i]
		}
		return vfTok{kind: -1}
	}
	for i := 0; i < n; i++ {
		t := raw[i]
		out = append(out, t)
		if !vfIsP(t, ")") {
			continue
		}
		j := i + 1
		left, right := false, false
		if vfIsS(get(j), "<") {
			left = true
			j++
		}
		if !vfIsS(get(j), "-") {
			continue
		}
		relStart := get(i + 1)
		j++
		var inner []vfTok
		hasBracket := false
		var open, close vfTok
		if vfIsP(get(j), "[") {
			depth := 0
			k := j
			for ; k < n; k++ {
				if vfIsP(raw[k], "[") {
					depth++
				} else if vfIsP(raw[k], "]") {
					depth--
					if depth == 0 {
						break
					}
				}
			}
			if k >= n {
				continue
			}
			hasBracket = true
			open, close = raw[j], raw[k]
			inner = raw[j+1 : k]
			j = k + 1
		}
		if !vfIsS(get(j), "-") {
			continue
		}
		j++
		if vfIsS(get(j), ">") {
			right = true
			j++
		}
		if !vfIsP(get(j), "(") {
			continue
		}
		dir := "none"
		if left && !right {
			dir = "in"
		} else if right && !left {
			dir = "out"
		}
		out = append(out, vfTok{kind: vfRel, text: dir, start: relStart.start, end: relStart.end})
		if hasBracket {
			out = append(out, open)
			out = append(out, vfRangeTokens(inner)...)
			out = append(out, close)
		}
		i = j - 1
	}
	// multi-word operators
	var merged []vfTok
	for i := 0; i < len(out); i++ {
		t := out[i]
		nx := func(k int) vfTok {
			if i+k < len(out) {
				return out[i+k]
			}
			return vfTok{kind: -1}
		}
		switch {
		case vfIsK(t, "is") && vfIsK(nx(1), "not") && vfIsK(nx(2), "null"):
			merged = append(merged, vfTok{kind: vfKwd, text: "is not null", start: t.start, end: nx(2).end})
			i += 2
		case vfIsK(t, "is") && vfIsK(nx(1), "null"):
			merged = append(merged, vfTok{kind: vfKwd, text: "is null", start: t.start, end: nx(1).end})
			i++
		case (vfIsK(t, "starts") || vfIsK(t, "ends")) && vfIsK(nx(1), "with"):
			merged = append(merged, vfTok{kind: vfKwd, text: t.text + " with", start: t.start, end: nx(1).end})
			i++
		case vfIsK(t, "order") && vfIsK(nx(1), "by"):
			merged = append(merged, vfTok{kind: vfKwd, text: "order by", start: t.start, end: nx(1).end})
			i++
		default:
			merged = append(merged, t)
		}
	}
	// explicit sort directions
	var final []vfTok
	for i := 0; i < len(merged); i++ {
		t := merged[i]
		final = append(final, t)
		if !vfIsK(t, "order by") {
			continue
		}
		depth := 0
		itemLen := 0
		endItem := func() {
			if itemLen > 0 {
				last := final[len(final)-1]
				if !(vfIsK(last, "asc") || vfIsK(last, "desc")) {
					final = append(final, vfTok{kind: vfKwd, text: "asc", start: last.end, end: last.end})
				}
			}
			itemLen = 0
		}
		j := i + 1
	items:
		for ; j < len(merged); j++ {
			u := merged[j]
			switch u.kind {
			case vfPunct:
				switch u.text {
				case "(", "[", "{":
					depth++
				case ")", "]", "}":
					depth--
					if depth < 0 {
						break items
					}
				case ",":
					if depth == 0 {
						endItem()
						final = append(final, u)
						continue
					}
				case ";":
					if depth == 0 {
						break items
					}
				}
			case vfKwd:
				if depth == 0 {
					switch u.text {
					case "skip", "limit", "match", "optional", "where", "with", "return", "unwind", "union", "create", "merge", "set", "delete", "detach", "remove":
						break items
					}
				}
			}
			final = append(final, u)
			itemLen++
		}
		endItem()
		i = j - 1
	}
	return final
}

// vfContent is the sequence of content tokens of a text.
func vfContent(s string) []string {
	var out []string
	for _, t := range vfStructure(vfLex(s, false)) {
		if t.kind == vfPunct {
			continue
		}
		out = append(out, t.String())
	}
	return out
}

func vfMultisetDiff(a, b []string) (missing, extra []string) {
	count := map[string]int{}
	for _, x := range a {
		count[x]++
	}
	for _, x := range b {
		count[x]--
	}
	for k, v := range count {
		for ; v > 0; v-- {
			missing = append(missing, k)
		}
		for ; v < 0; v++ {
			extra = append(extra, k)
		}
	}
	sort.Strings(missing)
	sort.Strings(extra)
	return
}

// ---------------------------------------------------------------------------------------------------------------
// the harness' own expression parser / evaluator (openCypher precedence)

type vfVal struct {
	kind byte // 'b' bool, 'i' integer, 'f' float, 'e' error
	b    bool
	f    float64
	msg  string
}

func (v vfVal) String() string {
	switch v.kind {
	case 'b':
		if v.b {
			return "T"
		}
		return "F"
	case 'i':
		return strconv.FormatFloat(v.f, 'g', -1, 64) + "i"
	case 'f':
		return strconv.FormatFloat(v.f, 'g', -1, 64) + "f"
	}
	return "E(" + v.msg + ")"
}

func vfErrVal(msg string) vfVal { return vfVal{kind: 'e', msg: msg} }

type vfEval struct {
	toks []vfTok
	pos  int
	env  map[string]float64
}

func (e *vfEval) peek() vfTok {
	if e.pos < len(e.toks) {
		return e.toks[e.pos]
	}
	return vfTok{kind: -1}
}

func (e *vfEval) joined(kw string, next func() vfVal, op func(a, b bool) bool) vfVal {
	v := next()
	for vfIsK(e.peek(), kw) {
		e.pos++
		w := next()
		if v.kind == 'e' {
			continue
		}
		if w.kind == 'e' {
			v = w
			continue
		}
		if v.kind != 'b' || w.kind != 'b' {
			v = vfErrVal(kw + " on non-boolean")
			continue
		}
		v = vfVal{kind: 'b', b: op(v.b, w.b)}
	}
	return v
}

func (e *vfEval) or() vfVal  { return e.joined("or", e.xor, func(a, b bool) bool { return a || b }) }
func (e *vfEval) xor() vfVal { return e.joined("xor", e.and, func(a, b bool) bool { return a != b }) }
func (e *vfEval) and() vfVal { return e.joined("and", e.not, func(a, b bool) bool { return a && b }) }

func (e *vfEval) not() vfVal {
	nots := 0
	for vfIsK(e.peek(), "not") {
		e.pos++
		nots++
	}
	v := e.cmp()
	if nots == 0 || v.kind == 'e' {
		return v
	}
	if v.kind != 'b' {
		return vfErrVal("not on non-boolean")
	}
	if nots%2 == 1 {
		v.b = !v.b
	}
	return v
}

func (e *vfEval) cmp() vfVal {
	left := e.add()
	result := vfVal{kind: 0}
	for {
		t := e.peek()
		if t.kind != vfSym {
			break
		}
		switch t.text {
		case "=", "<>", "<", ">", "<=", ">=":
		default:
			return e.finishCmp(left, result)
		}
		e.pos++
		right := e.add()
		var r vfVal
		switch {
		case left.kind == 'e':
			r = left
		case right.kind == 'e':
			r = right
		case left.kind == 'b' && right.kind == 'b':
			switch t.text {
			case "=":
				r = vfVal{kind: 'b', b: left.b == right.b}
			case "<>":
				r = vfVal{kind: 'b', b: left.b != right.b}
			default:
				r = vfErrVal("ordering of booleans")
			}
		case left.kind == 'b' || right.kind == 'b':
			r = vfErrVal("comparison of boolean and number")
		default:
			var b bool
			switch t.text {
			case "=":
				b = left.f == right.f
			case "<>":
				b = left.f != right.f
			case "<":
				b = left.f < right.f
			case ">":
				b = left.f > right.f
			case "<=":
				b = left.f <= right.f
			case ">=":
				b = left.f >= right.f
			}
			r = vfVal{kind: 'b', b: b}
		}
		if result.kind == 0 {
			result = r
		} else if result.kind != 'e' {
			if r.kind == 'e' {
				result = r
			} else {
				result.b = result.b && r.b
			}
		}
		left = right
	}
	return e.finishCmp(left, result)
}

func (e *vfEval) finishCmp(left, result vfVal) vfVal {
	if result.kind == 0 {
		return left
	}
	return result
}

func vfArith(op string, a, b vfVal) vfVal {
	if a.kind == 'e' {
		return a
	}
	if b.kind == 'e' {
		return b
	}
	if a.kind == 'b' || b.kind == 'b' {
		return vfErrVal(op + " on boolean")
	}
	ints := a.kind == 'i' && b.kind == 'i'
	kind := byte('f')
	if ints {
		kind = 'i'
	}
	switch op {
	case "+":
		return vfVal{kind: kind, f: a.f + b.f}
	case "-":
		return vfVal{kind: kind, f: a.f - b.f}
	case "*":
		return vfVal{kind: kind, f: a.f * b.f}
	case "/":
		if ints {
			if b.f == 0 {
				return vfErrVal("integer division by zero")
			}
			return vfVal{kind: 'i', f: math.Trunc(a.f / b.f)}
		}
		return vfVal{kind: 'f', f: a.f / b.f}
	case "%":
		if ints && b.f == 0 {
			return vfErrVal("integer modulo by zero")
		}
		return vfVal{kind: kind, f: math.Mod(a.f, b.f)}
	case "^":
		return vfVal{kind: 'f', f: math.Pow(a.f, b.f)}
	}
	return vfErrVal("unknown operator " + op)
}

func (e *vfEval) binary(ops string, next func() vfVal) vfVal {
	v := next()
	for {
		t := e.peek()
		if t.kind != vfSym || len(t.text) != 1 || !strings.Contains(ops, t.text) {
			return v
		}
		e.pos++
		v = vfArith(t.text, v, next())
	}
}

func (e *vfEval) add() vfVal { return e.binary("+-", e.mul) }
func (e *vfEval) mul() vfVal { return e.binary("*/%", e.pow) }
func (e *vfEval) pow() vfVal { return e.binary("^", e.unary) }

func (e *vfEval) unary() vfVal {
	neg := false
	for vfIsS(e.peek(), "-") || vfIsS(e.peek(), "+") {
		if e.peek().text == "-" {
			neg = !neg
		}
		e.pos++
	}
	v := e.atom()
	if neg {
		switch v.kind {
		case 'i', 'f':
			v.f = -v.f
		case 'b':
			return vfErrVal("unary minus on boolean")
		}
	}
	return v
}

func (e *vfEval) atom() vfVal {
	t := e.peek()
	switch {
	case t.kind == vfInt:
		e.pos++
		f, _ := strconv.ParseFloat(t.text, 64)
		return vfVal{kind: 'i', f: f}
	case t.kind == vfFloat:
		e.pos++
		f, _ := strconv.ParseFloat(t.text, 64)
		return vfVal{kind: 'f', f: f}
	case vfIsK(t, "true") || vfIsK(t, "false"):
		e.pos++
		return vfVal{kind: 'b', b: t.text == "true"}
	case vfIsP(t, "("):
		e.pos++
		v := e.or()
		if !vfIsP(e.peek(), ")") {
			return vfErrVal("missing )")
		}
		e.pos++
		return v
	case t.kind == vfIdent:
		// <variable> . <key>
		if e.pos+2 < len(e.toks) && vfIsP(e.toks[e.pos+1], ".") && e.toks[e.pos+2].kind == vfIdent {
			name := t.text + "." + e.toks[e.pos+2].text
			e.pos += 3
			if f, ok := e.env[name]; ok {
				return vfVal{kind: 'i', f: f}
			}
			return vfErrVal("unknown " + name)
		}
	}
	e.pos++
	return vfErrVal("unexpected token " + t.String())
}

// vfSignature evaluates the expression of a text (the tokens selected by pick) under every environment.
func vfSignature(text string, pick func([]vfTok) []vfTok, envs []map[string]float64) string {
	toks := pick(vfLex(text, false))
	var sb strings.Builder
	for _, env := range envs {
		ev := &vfEval{toks: toks, env: env}
		v := ev.or()
		if ev.pos != len(toks) && v.kind != 'e' {
			v = vfErrVal("trailing " + ev.peek().String())
		}
		sb.WriteString(v.String())
		sb.WriteByte(' ')
	}
	return sb.String()
}

// vfPickWhere: the tokens between the first `where` and the last `return`.
func vfPickWhere(toks []vfTok) []vfTok {
	from, to := -1, -1
	for i, t := range toks {
		if from < 0 && vfIsK(t, "where") {
			from = i + 1
		}
		if vfIsK(t, "return") {
			to = i
		}
	}
	if from < 0 || to < from {
		return nil
	}
	return toks[from:to]
}

// vfPickReturn: the tokens after the first `return` (without a final semicolon).
func vfPickReturn(toks []vfTok) []vfTok {
	for i, t := range toks {
		if vfIsK(t, "return") {
			rest := toks[i+1:]
			if len(rest) > 0 && vfIsP(rest[len(rest)-1], ";") {
				rest = rest[:len(rest)-1]
			}
			return rest
		}
	}
	return nil
}

// ---------------------------------------------------------------------------------------------------------------
// calling the code under test

type vfFailure struct {
	classes []string
	input   string
	msg     string
}

type vfResult struct {
	cases    int
	accepted int
	fails    []vfFailure
}

// vfParse calls the real parser; abnormal is non-empty if it panicked.
func vfParse(q string) (m *cypher.RegularQuery, err error, abnormal string) {
	defer func() {
		if r := recover(); r != nil {
			m, err, abnormal = nil, nil, fmt.Sprintf("panic: %v", r)
		}
	}()
	m, err = ParseCypher(NewContext(), q)
	return m, err, ""
}

func vfEmit(m *cypher.RegularQuery) (s string, err error, abnormal string) {
	defer func() {
		if r := recover(); r != nil {
			s, err, abnormal = "", nil, fmt.Sprintf("panic: %v", r)
		}
	}()
	s, err = format.RegularQuery(m, false)
	return s, err, ""
}

func vfAccepted(m *cypher.RegularQuery, err error) bool {
	return err == nil && m != nil && m.SingleQuery != nil
}

type vfSemantics struct {
	pick func([]vfTok) []vfTok
	envs []map[string]float64
	name string // "truth-table" or "arith-value"
}

type vfChecked struct {
	accepted bool
	model    *cypher.RegularQuery
	emitted  string
	classes  []string
	msgs     []string
}

// vfCheck runs (a) - (d) on one input.
func vfCheck(q string, sequence bool, sem *vfSemantics) vfChecked {
	var c vfChecked
	bad := func(class, format string, args ...any) {
		c.classes = append(c.classes, class)
		c.msgs = append(c.msgs, fmt.Sprintf(format, args...))
	}
	m1, err, abnormal := vfParse(q)
	if abnormal != "" {
		bad("panic", "parser %s", abnormal)
		return c
	}
	if !vfAccepted(m1, err) {
		return c
	}
	c.accepted = true
	c.model = m1
	t1, err, abnormal := vfEmit(m1)
	if abnormal != "" {
		bad("panic", "emitter %s", abnormal)
		return c
	}
	if err != nil {
		bad("emit-error", "accepted, but the model cannot be emitted: %v", err)
		return c
	}
	c.emitted = t1
	m2, err, abnormal := vfParse(t1)
	if abnormal != "" {
		bad("panic", "parser %s on emitted text %q", abnormal, t1)
	} else if !vfAccepted(m2, err) {
		bad("emit-reparse", "emitted text %q does not parse: %v", t1, vfShortErr(err))
	} else {
		t2, err, abnormal := vfEmit(m2)
		if abnormal != "" || err != nil {
			bad("fixed-point", "re-parsed model of %q cannot be emitted: %v %s", t1, err, abnormal)
		} else if t2 != t1 {
			bad("fixed-point", "emit-parse is not a fixed point: %q -> %q", t1, t2)
		}
		if !reflect.DeepEqual(m1, m2) {
			bad("model-differs", "model of emitted text %q differs from the model of the input", t1)
		}
	}
	want, got := vfContent(q), vfContent(t1)
	if missing, extra := vfMultisetDiff(want, got); len(missing)+len(extra) > 0 {
		class := "content-tokens"
		for _, x := range missing {
			if strings.HasPrefix(x, "junk:") {
				class = "inserted-char-dropped"
			}
		}
		bad(class, "content tokens differ: emitted %q lacks %v and adds %v", t1, missing, extra)
	} else if sequence && !reflect.DeepEqual(want, got) {
		bad("content-sequence", "content tokens reordered: emitted %q has %v, input has %v", t1, got, want)
	}
	if sem != nil {
		a, b := vfSignature(q, sem.pick, sem.envs), vfSignature(t1, sem.pick, sem.envs)
		if a != b {
			bad(sem.name, "meaning changed: emitted %q evaluates to [%s], input to [%s]", t1, strings.TrimSpace(b), strings.TrimSpace(a))
		}
	}
	return c
}

func vfShortErr(err error) string {
	if err == nil {
		return "no error but no model"
	}
	s := strings.ReplaceAll(err.Error(), "\n", " | ")
	if len(s) > 160 {
		s = s[:160] + "..."
	}
	return s
}

func (r *vfResult) record(q string, c vfChecked) {
	r.cases++
	if c.accepted {
		r.accepted++
	}
	if len(c.classes) > 0 {
		r.fails = append(r.fails, vfFailure{classes: c.classes, input: q, msg: strings.Join(c.msgs, "; ")})
	}
}

// ---------------------------------------------------------------------------------------------------------------
// generators

type vfNode struct {
	op          string // "" for a leaf
	left, right *vfNode
	leaf        int
	neg         bool
}

// vfTrees: all binary trees over leaves lo..hi-1 (in order) with every operator assignment.
func vfTrees(lo, hi int, ops []string) []*vfNode {
	if hi-lo == 1 {
		return []*vfNode{{leaf: lo}}
	}
	var out []*vfNode
	for split := lo + 1; split < hi; split++ {
		for _, l := range vfTrees(lo, split, ops) {
			for _, r := range vfTrees(split, hi, ops) {
				for _, op := range ops {
					out = append(out, &vfNode{op: op, left: l, right: r})
				}
			}
		}
	}
	return out
}

func (n *vfNode) nodes(leaves, inner *[]*vfNode) {
	if n.op == "" {
		*leaves = append(*leaves, n)
		return
	}
	*inner = append(*inner, n)
	n.left.nodes(leaves, inner)
	n.right.nodes(leaves, inner)
}

type vfDialect struct {
	atoms  []string
	prec   map[string]int
	negate func(inner string, isLeaf bool, paren bool) string
	unary  int // precedence of the prefix operator
}

// render modes: 0 full parentheses, 1 minimal parentheses, 2 no parentheses at all
func (d *vfDialect) render(n *vfNode, mode int) (string, int) {
	if n.op == "" {
		if n.neg {
			return d.negate(d.atoms[n.leaf], true, false), d.unary
		}
		return d.atoms[n.leaf], 100
	}
	p := d.prec[n.op]
	l, lp := d.render(n.left, mode)
	r, rp := d.render(n.right, mode)
	switch mode {
	case 0:
		if n.left.op != "" && !n.left.neg {
			l = "(" + l + ")"
		}
		if n.right.op != "" && !n.right.neg {
			r = "(" + r + ")"
		}
	case 1:
		if lp < p {
			l = "(" + l + ")"
		}
		if rp <= p {
			r = "(" + r + ")"
		}
	}
	s := l + " " + n.op + " " + r
	if n.neg {
		if mode == 2 {
			return d.negate(s, false, false), p
		}
		return d.negate(s, false, true), d.unary
	}
	return s, p
}

var vfBoolDialect = &vfDialect{
	atoms: []string{"n.a = 1", "n.b = 2", "n.c = 3", "n.d = 4", "n.e = 5"},
	prec:  map[string]int{"or": 1, "xor": 2, "and": 3},
	unary: 4,
	negate: func(inner string, isLeaf, paren bool) string {
		if paren {
			return "not (" + inner + ")"
		}
		return "not " + inner
	},
}

var vfArithDialect = &vfDialect{
	atoms: []string{"7", "n.b", "2", "n.d"},
	prec:  map[string]int{"+": 1, "-": 1, "*": 2, "/": 2, "%": 2, "^": 3},
	unary: 4,
	negate: func(inner string, isLeaf, paren bool) string {
		if paren {
			return "-(" + inner + ")"
		}
		return "-" + inner
	},
}

// vfFamily enumerates the texts of a family: maxInnerNeg / maxLeafNeg < 0 mean "all subsets".
func vfFamily(d *vfDialect, ops []string, atoms int, maxLeafNeg, maxInnerNeg int, seen map[string]bool, emit func(string)) {
	for _, tree := range vfTrees(0, atoms, ops) {
		var leaves, inner []*vfNode
		tree.nodes(&leaves, &inner)
		for lm := 0; lm < 1<<len(leaves); lm++ {
			if maxLeafNeg >= 0 && vfBits(lm) > maxLeafNeg {
				continue
			}
			for im := 0; im < 1<<len(inner); im++ {
				if maxInnerNeg >= 0 && vfBits(im) > maxInnerNeg {
					continue
				}
				for i, l := range leaves {
					l.neg = lm&(1<<i) != 0
				}
				for i, x := range inner {
					x.neg = im&(1<<i) != 0
				}
				for mode := 0; mode < 3; mode++ {
					s, _ := d.render(tree, mode)
					if !seen[s] {
						seen[s] = true
						emit(s)
					}
				}
			}
		}
	}
}

func vfBits(x int) int {
	c := 0
	for ; x > 0; x >>= 1 {
		c += x & 1
	}
	return c
}

func vfBoolEnvs() []map[string]float64 {
	var envs []map[string]float64
	for mask := 0; mask < 32; mask++ {
		env := map[string]float64{}
		for i, k := range []string{"n.a", "n.b", "n.c", "n.d", "n.e"} {
			if mask&(1<<i) != 0 {
				env[k] = float64(i + 1)
			} else {
				env[k] = 0
			}
		}
		envs = append(envs, env)
	}
	return envs
}

func vfChainEnvs() []map[string]float64 {
	var envs []map[string]float64
	for a := 0; a < 4; a++ {
		for b := 0; b < 4; b++ {
			envs = append(envs, map[string]float64{"n.a": float64(a), "n.b": float64(b), "n.c": 3, "n.d": 4})
		}
	}
	return envs
}

func vfArithEnvs() []map[string]float64 {
	return []map[string]float64{
		{"n.a": 11, "n.b": 3, "n.c": 13, "n.d": 5},
		{"n.a": 2, "n.b": 5, "n.c": 3, "n.d": 3},
		{"n.a": -3, "n.b": -4, "n.c": 5, "n.d": 9},
	}
}

// vfFixtureQueries loads every query text of the fixture corpora (own loader: the package cypher/test imports this
// package and cannot be imported from an in-package test).
func vfFixtureQueries() ([]string, error) {
	var out []string
	seen := map[string]bool{}
	for _, name := range []string{"positive_tests.json", "mutation_tests.json", "negative_tests.json", "filtering_tests.json"} {
		raw, err := os.ReadFile(filepath.Join("..", "test", "cases", name))
		if err != nil {
			return nil, err
		}
		var doc struct {
			TestCases []struct {
				Details struct {
					Query   string   `json:"query"`
					Queries []string `json:"queries"`
				} `json:"details"`
			} `json:"test_cases"`
		}
		if err := json.Unmarshal(raw, &doc); err != nil {
			return nil, fmt.Errorf("%s: %w", name, err)
		}
		for _, tc := range doc.TestCases {
			for _, q := range append([]string{tc.Details.Query}, tc.Details.Queries...) {
				if strings.TrimSpace(q) != "" && !seen[q] {
					seen[q] = true
					out = append(out, q)
				}
			}
		}
	}
	return out, nil
}

// vfSampleQueries: 30 generated queries used by S2 and S4 in addition to the short fixtures.
var vfSampleQueries = []string{
	"match (n) where n.a = 1 return n",
	"match (n) where n.a = 1 and n.b = 2 or n.c = 3 return n",
	"match (n) where not n.a = 1 xor n.b <> 2 return n",
	"match (n) where not (n.a = 1 or n.b = 2) and n.c >= 3 return n",
	"match (n) where n.name = 'a b' /* note */ return n // tail",
	"match (n) where n.name = \"it's\" return n.name as `the name`",
	"match (n:Person) where n.name starts with 'Tom' return n.name order by n.name desc skip 1 limit 10",
	"match (n) where n.name ends with 'x' or n.name contains 'y' return distinct n",
	"match (n) where n.a in [1, 2, 3] and n.b is not null return n",
	"match (n) where n.a is null return count(*)",
	"match (n) where n.name =~ 'a.*' return n",
	"match (a)-[r:T*1..2]->(b) return a, b",
	"match (a)<-[r:T|U*..4]-(b) return r",
	"match (a)-[*2]-(b) return a",
	"match p = (a)-[:T*3..]->(b) return p",
	"match (a)-->(b)<--(c) return a, b, c",
	"match (n {name: 'x', age: 3}) return n",
	"optional match (n) with n as m where m.a > 1 return m",
	"unwind [1, 2, 3] as x return x",
	"return 1 + 2 * 3 - 4 / 5 % 6 ^ 7",
	"return -1, -n.a, (1 + 2) * 3",
	"return 1.5, .5, 1e3, 0.00001",
	"match (n) return n.`a-b`, n.match",
	"match (n) where 1 < n.a <= 3 return n",
	"match (n) where any(x in n.list where x = 1) return n",
	"match (n) where (n)-[:T]->() return n",
	"match (n) where n:A:B return n",
	"match (n) return toLower(n.name), count(distinct n)",
	"match p = shortestPath((a)-[*1..3]->(b)) return p",
	"match (n) where n.a = true and n.b = false and n.c = null return n;",
}

// vfMultiPartQueries: after an initial MATCH, EVERY sequence of 1..4 clauses over {set, remove, delete, create, merge,
// with} (6 + 36 + 216 + 1296 sequences). The text of a clause carries its position (property names s<i>, r<i>, ...
// and the literal <i>), so a clause that is moved, dropped or duplicated changes the sequence of content tokens. A
// sequence that ends in WITH is closed by RETURN; one that ends in an updating clause is given both without and with
// a final RETURN.
func vfMultiPartQueries() []string {
	clause := func(kind, i int) string {
		switch kind {
		case 0:
			return fmt.Sprintf("set n.s%d = %d", i, i)
		case 1:
			return fmt.Sprintf("remove n.r%d", i)
		case 2:
			if i%2 == 0 {
				return "delete r"
			}
			return "detach delete m, r"
		case 3:
			if i%2 == 0 {
				return fmt.Sprintf("create (c%d:K%d {v: %d})", i, i, i)
			}
			return fmt.Sprintf("create (n)-[:E%d {v: %d}]->(m)", i, i)
		case 4:
			if i%2 == 0 {
				return fmt.Sprintf("merge (g%d:G {v: %d})", i, i)
			}
			return fmt.Sprintf("merge (g%d:G {v: %d}) on create set g%d.c = %d on match set g%d.m = true", i, i, i, i, i)
		default:
			return []string{"with n, r, m", "with n, r, m where n.w1 = 1", "with n, r, m order by n.o2 desc limit 2", "with distinct n, r, m"}[i%4]
		}
	}
	var out []string
	var rec func(prefix string, depth, last int)
	rec = func(prefix string, depth, last int) {
		if depth > 0 {
			if last == 5 {
				out = append(out, prefix+" return n")
			} else {
				out = append(out, prefix, prefix+" return n, m")
			}
		}
		if depth == 4 {
			return
		}
		for kind := 0; kind < 6; kind++ {
			rec(prefix+" "+clause(kind, depth), depth+1, kind)
		}
	}
	rec("match (n)-[r]->(m)", 0, -1)
	return out
}

// vfExtraQueries: hand written texts for constructs the fixture corpora use rarely or not at all (S1, multiset check).
// vfKeywordKeyQueries: EVERY keyword token of the grammar (read from Cypher.g4: the lexer rules spelled letter by letter)
// as a backticked property key in lookup, map-literal and SET position, in lower case, upper case and capitalised. The
// emitter decides per key whether it can be written bare; whatever it decides, the emitted text has to parse again and
// carry the same key.
func vfKeywordKeyQueries() []string {
	data, err := os.ReadFile(filepath.Join("..", "grammar", "Cypher.g4"))
	if err != nil {
		return []string{"harness cannot read the grammar: " + err.Error()}
	}
	rule := regexp.MustCompile(`(?m)^([A-Z_]+) : ((?:\( '[^']' \| '[^']' \) ?)+);`)
	letter := regexp.MustCompile(`\( '([^'])' \|`)
	var out []string
	seen := map[string]bool{}
	for _, m := range rule.FindAllStringSubmatch(string(data), -1) {
		word := ""
		for _, l := range letter.FindAllStringSubmatch(m[2], -1) {
			word += l[1]
		}
		if len(word) < 2 || seen[word] {
			continue
		}
		seen[word] = true
		for _, w := range []string{strings.ToLower(word), strings.ToUpper(word), strings.ToUpper(word[:1]) + strings.ToLower(word[1:])} {
			out = append(out,
				"match (n) return n.`"+w+"`",
				"match (n {`"+w+"`: 1}) return {`"+w+"`: n.`"+w+"`}",
				"match (n) set n.`"+w+"` = 1 remove n.`"+w+"` return n")
		}
	}
	if len(out) < 200 {
		out = append(out, fmt.Sprintf("harness found only %d keyword queries in the grammar", len(out)))
	}
	return out
}

var vfExtraQueries = []string{
	// sort keys that END in a reserved word used as a property key, without an explicit direction
	"match (n) return n order by n.desc",
	"match (n) return n order by n.descending, n.asc, n.ascending",
	"match (n) with n order by n.DESC return n order by n.Desc desc",
	"match (n) return n.desc as desc order by desc",
	// property keys that contain backticks, in map literal position and in lookup position
	"return {```x```: 1}",
	"match (n {```a```: 1, a: 2}) return n.```a```, n.a",
	"return {````: 1, `` ``: 2}",
	"match (n) where n.```k``` = {```k```: n.```k```} return n",
	// a leading * with further projection items
	"match (n) return *, n.a as a",
	"match (n) with *, n.b as b return *, b",
	// nested property paths in updating positions (oC_PropertyExpression allows any number of lookups)
	"match (n) set n.a.b = 1 return n",
	"match (n) set n.a.b.c += {x: 1} return n",
	"match (n) remove n.a.b return n",
	"match (n) remove n.a.b.c, n.d return n",
	"match (n) where n.a.b = 1 return n.a.b.c",
	// property keys that are keyword tokens of the lexer, written with backticks
	"match (n) return n.`index`, n.`scan`, n.`join`, n.`using`, n.`explain`, n.`profile`, n.`cypher`",
	"match (n) where n.`index` = 1 set n.`using` = 2 remove n.`scan` return n",
	"match (n {`index`: 1}) return {`join`: n.`periodic`}",
	"match (n:Person) using index n:Person(name) where n.name = 'x' return n",
	"match (n:Person) using scan n:Person where n.name = 'x' return n",
	"match (a)-->(b) using join on a return a",
	"match (a)-->(b) using join on a, b where a.x = 1 return a",
	"cypher 2.3 match (n) return n",
	"cypher planner=cost match (n) return n",
	"CYPHER 3.5 runtime=slotted match (n) return n",
	"explain match (n) return n",
	"profile match (n) return n",
	"match (a)\u2014[r]\u2014>(b) return a",
	"match (a)\u27e8-[r]-(b) return a",
	"match (a)-[r]-\u27e9(b) return a",
	"match (a)\u2212\u2212(b) return a",
	"return 'a\\'b', \"q\\\"q\", '\\u0041\\n', \"\\\\\"",
	"return '\\U00000041B', 'tab\\there', \"\"",
	"return 'a' + \"a\", '', ' ', '/* no comment */', '// none'",
	"match (n) return n.`a``b`, n.`x y` as `al``ias`",
	"match (`my var`) return `my var`.`the key`",
	"match (\u00f1:\u00d1and\u00fa) return \u00f1.a\u00f1o, a$b",
	"return $1, $p, $`p q`, $0",
	"match (n {a: $p}) return n",
	"match (n $p) return n",
	"match (n) where n.a = {p} return n",
	"match (n:Order:`Group By`) return n.limit, n.skip, n.order, n.by, n.null, n.true",
	"match (n:Match)-[:Return|Where]->(m:Limit) return n.match, m.where",
	"return {a: 1, b: [1, [2, 3], {c: 'x'}], `d e`: null}",
	"return {limit: 1, order: 2, `by`: 3}.limit",
	"match (n) return count(*), COUNT(*), Count ( * ), count(n), COUNT(DISTINCT n)",
	"match (n) where ANY(x IN n.l WHERE x > 1) and NONE(x in n.l where x = 2) and SINGLE(x in n.l where x = 3) and ALL(x in n.l where x < 9) return n",
	"match (n) where any(x in n.l) return n",
	"match (n) where exists(n.a) return n",
	"match p = allShortestPaths((a)-[*..5]->(b)) return p",
	"match p = SHORTESTPATH((a)-[*..5]->(b)) return p",
	"match (n) return n ORDER BY n.a ASCENDING, n.b DESCENDING, n.c ASC, n.d DESC, n.e SKIP 2 LIMIT 3",
	"match (n) return n order by n.a + 1 desc, size(n.l)",
	"match (n) return n order by n.asc, n.desc desc",
	"match (n) RETURN DISTINCT n.a AS x",
	"match (n) return *",
	"match (n) return *, n.a as a",
	"match (n) with * return n",
	"match (n) with *, n.a as a return a",
	"match (n) with distinct n order by n.a skip 1 limit 2 where n.a > 1 return n",
	"match (n) with n, count(*) as c order by c desc limit 3 match (n)-->(m) return m, c",
	"match (n) return n union match (m) return m",
	"match (n) return n union all match (m) return m",
	"match (n) where n.a = 1 match (m) where m.b = 2 return n, m",
	"match (n) optional match (n)-->(m) where m.a = 1 return n, m",
	"match (n), (m) where (n)-[:A|B*1..2]->(m:K {z: 'q'}) return n",
	"match (n) where not (n)-->() and (n)<--(:L) return n",
	"match ((a)-->(b)) return a",
	"match p = (a)-->(b), q = (c)--(d)<-[r]-(e) return p, q",
	"match (n) where n.a = [1, 2][0] return n",
	"match (n) return n.a.b.c, (n).a, n . a, n.\n a",
	"match (n) return n:A, n:A:B, n.x:A",
	"return 1 = 1, 1 <> 2, 1 < 2 > 0, 1 <= 2 >= 0",
	"return null is null, null IS NOT NULL, NULL, TRUE, False",
	"return true and false or not true xor false",
	"return [1, 2] + [3], 'a' + 'b', 1 in [1], 1 in[1], [] + [[]]",
	"return toString(1) + 'x', a.b.c(1), a.b(), f(distinct x, y), f ( 1 , 2 )",
	"match (n) where n.name =~ '(?i)x' return n;",
	"match (n) return n ;",
	"  match (n) return n  ",
	"match (n) detach delete n",
	"match (n)-[r]->(m) delete r, n, m",
	"match (n) set n.a = 1, n:L, n += {b: 2}, n = {c: 3} remove n.d, n:M return n",
	"match (n) set n += $p, n = $q return n",
	"match (n) set n.a = 1 with n match (m) set m.b = n.a return m",
	"merge (n:A {a: 1}) on create set n.c = 1 on match set n.m = 2 return n",
	"create (a:A {x: 1})-[:R {w: 2}]->(b:B), (c) return a",
	"match (n) foreach (x in [1] | set n.a = x)",
	"unwind $list as x with x where x > 1 return x",
	"unwind [[1, 2], [3]] as l unwind l as x return x",
	"match (n) where n.a = 1 and (n.b = 2 or n.c = 3) and not (n.d = 4 xor n.e = 5) return n",
	"match (n) where 1 + 2 * 3 > n.a - -1 return n",
	"match (n) return n limit 1 + 1",
	"match (n) return n skip $s limit $l",
	"match ()-[r]-() return r",
	"match (a)<-[r]->(b) return r",
	"match (a)<-->(b) return a",
	"match (a)-[r:A|:B|C]->(b) return r",
	"match (a)-[:A*]->(b) return a",
	"match (a)-[*0]->(b) return a",
	"match (a)-[*2..1]->(b) return a",
	"match (a)-[*..]->(b) return a",
	"match (a)-[*007]->(b) return a",
	"match (a)-[*0x2]->(b) return a",
	"match (a)-[*9223372036854775808]->(b) return a",
	"match (a)-[*-1]->(b) return a",
	"match (a)-[*1.5]->(b) return a",
	"match (a)-[*1...3]->(b) return a",
	"match (a)-[*1..2..3]->(b) return a",
	"match (a)-[*1..2{w: 1}]->(b) return a",
	"match (a)-[r:T*1..2{w: 1}]->(b) return a",
	"MATCH (n) WHERE n.a = 1 AND NOT n.b = 2 OR n.c = 3 XOR n.d = 4 RETURN n",
	"Match (N) Where N.A = 1 Return N, n",
	"match (n) where n.a = 1.0 and n.b = 1 return n",
	"match (n) where n.a = '1' and n.b = 1 return n",
	"match (n) where n.a = 'null' or n.b = null or n.c = 'true' or n.d = true return n",
	"call db.labels()",
	"match (n) call db.labels() yield label return n, label",
	"load csv from 'file:///x.csv' as row return row",
	"start n = node(1) return n",
	"create index on :Person(name)",
	"match (n) return case when n.a = 1 then 1 else 2 end",
	"match (n) return reduce(s = 0, x in [1, 2] | s + x)",
	"match (n) return [x in n.list where x > 1 | x * 2]",
	"match (n) return [(n)-->(m) | m.name]",
	"match (n) return n.list[1], n.list[1..2]",
	"match (n) where exists { match (n)-[]->(m) } return n",
	"match (n) return filter(x in n.l where x > 1), extract(x in n.l | x.a)",
}

var vfRangeQueries = []string{
	"match (a)-[r*1..2]->(b) return a",
	"match (a)-[r*..4]->(b) return a",
	"match (a)-[r*1..]->(b) return a",
	"match (a)-[r*]->(b) return a",
	"match (a)-[*]->(b) return a",
	"match (a)-[r*2]->(b) return a",
	"match (a)-[r:T*0..3 {w: 1}]->(b) return a",
	"match (a)<-[:T|U*2..2]-(b) return a",
	"match (a)-[r:T*..]->(b) return a",
}

var vfNumericLiterals = []string{
	"0", "1", "7", "10", "42", "007", "00", "01", "08", "0x1F", "0x1f", "0X1F", "0xff", "0x0", "0x7fffffffffffffff", "0x8000000000000000",
	"0xffffffffffffffff", "0x10000000000000000", "0o17", "0o0", "0o777", "0O17", "017", "0o8", "0b101", "1_000",
	"1e3", "1E3", "1e-3", "1E-3", "1e+3", "1e0", "0e0", "1e03", "1.5", "1.50", "01.5", ".5", "0.5", "5.", "0.0", "0.00001", "1e-7", "1.0e-7",
	"1e21", "1e22", "6.02e23", "6.02E23", "1.7976931348623157e308", "1.7976931348623158e308", "1.8e308", "1e308", "1e309", "1e400",
	"4.9e-324", "5e-324", "2.5e-324", "1e-400", "2.2250738585072014e-308", "0.1", "0.3", "0.30000000000000004", "123456789.123456789",
	"9007199254740993", "9007199254740993.0", "9223372036854775807", "9223372036854775808", "9223372036854775809",
	"18446744073709551615", "18446744073709551616", "99999999999999999999", "2147483647", "2147483648", "4294967296",
	"1.0", "100.0", "1e1", "12e-1", "3.14159", "1.e3", "1.5e", "1.5e-", "1ee3", "Infinity", "NaN", "1f", "1d", "1L",
}

var (
	vfReHex   = regexp.MustCompile(`^0x[0-9a-fA-F]+$`)
	vfReOct   = regexp.MustCompile(`^0o[0-7]+$`)
	vfReDec   = regexp.MustCompile(`^(0|[1-9][0-9]*)$`)
	vfReFloat = regexp.MustCompile(`^(([0-9]+|[0-9]+\.[0-9]+|\.[0-9]+)[eE]-?[0-9]+|[0-9]*\.[0-9]+)$`)
)

// vfLiteralValue: what the grammar + strconv/math/big say about a spelling. kind "" = not a literal of the grammar.
func vfLiteralValue(lit string) (kind string, iv *big.Int, fv float64) {
	switch {
	case vfReHex.MatchString(lit):
		v, _ := new(big.Int).SetString(lit[2:], 16)
		return "int", v, 0
	case vfReOct.MatchString(lit):
		v, _ := new(big.Int).SetString(lit[2:], 8)
		return "int", v, 0
	case vfReDec.MatchString(lit):
		v, _ := new(big.Int).SetString(lit, 10)
		return "int", v, 0
	case vfReFloat.MatchString(lit):
		f, _ := strconv.ParseFloat(lit, 64) // +Inf on overflow
		return "float", nil, f
	}
	return "", nil, 0
}

// ---------------------------------------------------------------------------------------------------------------
// the test

type vfJob struct {
	section string
	run     func() vfResult
}

func TestVerifBoundedFaithful(t *testing.T) {
	bound := os.Getenv("VERIF_BOUND")
	thorough := bound == "2"
	seed, _ := strconv.ParseInt(os.Getenv("VERIF_SEED"), 10, 64)
	// only the classes named in /verif/known_findings.json (passed through VERIF_KNOWN, "|"-separated names) are
	// active; the table above merely defines how a class is recognised
	var known []vfKnown
	for _, name := range strings.Split(os.Getenv("VERIF_KNOWN"), "|") {
		for _, k := range knownDeviations {
			if k.name == strings.TrimSpace(name) {
				known = append(known, k)
			}
		}
	}

	var jobs []vfJob
	var setupFailures []string
	chunked := func(section string, inputs []string, size int, each func(q string, r *vfResult)) {
		for lo := 0; lo < len(inputs); lo += size {
			hi := lo + size
			if hi > len(inputs) {
				hi = len(inputs)
			}
			part := inputs[lo:hi]
			jobs = append(jobs, vfJob{section: section, run: func() vfResult {
				var r vfResult
				for _, q := range part {
					vfCurrent.Store(q)
					each(q, &r)
				}
				return r
			}})
		}
	}

	// ---- S1: fixtures
	fixtures, err := vfFixtureQueries()
	if err != nil {
		setupFailures = append(setupFailures, "cannot load the fixture corpora: "+err.Error())
	}
	chunked("S1-fixtures", fixtures, 20, func(q string, r *vfResult) { r.record(q, vfCheck(q, false, nil)) })

	chunked("S1-extras", vfExtraQueries, 20, func(q string, r *vfResult) { r.record(q, vfCheck(q, false, nil)) })
	chunked("S1-keyword-keys", vfKeywordKeyQueries(), 40, func(q string, r *vfResult) { r.record(q, vfCheck(q, false, nil)) })

	// ---- S1: multi-part queries in which updating clauses and WITH alternate (sequence check: the clause ORDER is kept)
	multiPart := vfMultiPartQueries()
	chunked("S1-multipart", multiPart, 200, func(q string, r *vfResult) {
		c := vfCheck(q, true, nil)
		if !c.accepted && len(c.classes) == 0 {
			// every one of these texts is in the language: a rejection would make the check vacuous
			c.classes, c.msgs = []string{"multipart-rejected"}, []string{"the multi-part query is rejected by the parser (NewContext)"}
		}
		r.record(q, c)
	})

	// ---- S1: generated families
	boolSem := &vfSemantics{pick: vfPickWhere, envs: vfBoolEnvs(), name: "truth-table"}
	chainSem := &vfSemantics{pick: vfPickWhere, envs: vfChainEnvs(), name: "truth-table"}
	arithSem := &vfSemantics{pick: vfPickReturn, envs: vfArithEnvs(), name: "arith-value"}

	var boolQs []string
	seenBool := map[string]bool{}
	maxAtoms := 4
	if thorough {
		maxAtoms = 5
	}
	for atoms := 1; atoms <= maxAtoms; atoms++ {
		maxInner := -1
		if atoms == 4 && !thorough {
			maxInner = 1
		}
		if atoms == 5 {
			maxInner = 0
		}
		vfFamily(vfBoolDialect, []string{"and", "or", "xor"}, atoms, -1, maxInner, seenBool, func(e string) {
			boolQs = append(boolQs, "match (n) where "+e+" return n")
		})
	}
	chunked("S1-bool", boolQs, 250, func(q string, r *vfResult) { r.record(q, vfCheck(q, true, boolSem)) })

	var arithQs []string
	seenArith := map[string]bool{}
	for operands := 1; operands <= 4; operands++ {
		maxLeaf, maxInner := -1, -1
		if operands == 4 && !thorough {
			maxLeaf, maxInner = 1, 0
		}
		vfFamily(vfArithDialect, []string{"+", "-", "*", "/", "%", "^"}, operands, maxLeaf, maxInner, seenArith, func(e string) {
			arithQs = append(arithQs, "return "+e)
		})
	}
	chunked("S1-arith", arithQs, 250, func(q string, r *vfResult) { r.record(q, vfCheck(q, true, arithSem)) })

	var chainQs []string
	cmpOps := []string{"=", "<>", "<", ">", "<=", ">="}
	chainOperands := []string{"n.a", "1", "n.b", "2"}
	var chains func(prefix string, k, depth int)
	chains = func(prefix string, k, depth int) {
		if k > 0 {
			chainQs = append(chainQs,
				"match (n) where "+prefix+" return n",
				"match (n) where not "+prefix+" return n",
				"match (n) where "+prefix+" and n.b = 2 return n",
				"match (n) where n.b = 2 or "+prefix+" return n")
		}
		if k == depth {
			return
		}
		for _, op := range cmpOps {
			chains(prefix+" "+op+" "+chainOperands[k+1], k+1, depth)
		}
	}
	chains(chainOperands[0], 0, 3)
	chunked("S1-chains", chainQs, 250, func(q string, r *vfResult) { r.record(q, vfCheck(q, true, chainSem)) })

	preds := []string{"n.s starts with 'ab'", "n.s ends with 'ab'", "n.s contains 'ab'", "n.s =~ 'a.*'", "n.a in [1, 2]", "n.a is null", "n.a is not null"}
	var strQs []string
	for _, p := range preds {
		strQs = append(strQs, "match (n) where "+p+" return n", "match (n) where not "+p+" return n", "match (n) where not (not "+p+") return n",
			"match (n) where ("+p+") = true return n")
		for _, q := range preds {
			for _, op := range []string{"and", "or", "xor"} {
				for neg := 0; neg < 4; neg++ {
					l, r := p, strings.ReplaceAll(q, "n.", "m.")
					if neg&1 != 0 {
						l = "not " + l
					}
					if neg&2 != 0 {
						r = "not " + r
					}
					strQs = append(strQs, "match (n), (m) where "+l+" "+op+" "+r+" return n")
				}
			}
		}
	}
	strQs = append(strQs,
		"match (n) where n.s starts with 'a' + 'b' return n",
		"match (n) where n.s + 'x' ends with 'b' + n.t return n",
		"match (n) where n.s starts with 'a' contains 'b' return n",
		"match (n) where n.s starts with 'a' ends with 'b' contains 'c' return n",
		"match (n) where n.a is null is not null return n",
		"match (n) where n.a is not null is null return n",
		"match (n) where n.a in [1, 2] is null return n",
		"match (n) where n.a in [1, 2] in [true, false] return n",
		"match (n) where n.s contains 'a' = true return n",
		"match (n) where n.s contains 'a' <> n.s contains 'b' return n",
		"match (n) where n.a + 1 in [1, 2] return n",
		"match (n) where n.a in [1, 2] + [3] return n",
		"match (n) where n.a is null = n.b is null return n",
		"match (n) where not n.a is null and not n.s contains 'not' return n",
		"match (n) where n.s = 'and' or n.s = 'or' xor n.s = \"not\" return n",
		"match (n) where n.`is null` is null return n",
		"match (n) where n.in in n.`in` return n",
		"match (n) where n.s STARTS WITH 'a' AND n.s ENDS WITH 'b' OR NOT n.s CONTAINS 'c' XOR n.a IS NOT NULL return n",
	)
	chunked("S1-strops", strQs, 250, func(q string, r *vfResult) { r.record(q, vfCheck(q, true, nil)) })

	// ---- S5: redundant constructs
	boolRedundant := []string{
		"not not n.a = 1", "not not not n.a = 1", "not not not not n.a = 1", "NOT NOT n.a = 1", "not  not n.a = 1", "not\nnot n.a = 1",
		"not (not n.a = 1)", "not(not(n.a = 1))", "not (not (not n.a = 1))", "not not (n.a = 1)", "not (not not n.a = 1)",
		"n.a = 1 and not not n.b = 2", "not not n.a = 1 and n.b = 2", "n.a = 1 or not not n.b = 2 xor n.c = 3",
		"not not (n.a = 1 or n.b = 2)", "not not n.a = 1 or not not n.b = 2", "not not true", "not not n.a < n.b",
		"((n.a = 1))", "(((n.a = 1)))", "n.a = (1)", "(n.a) = 1", "(n.a) = (1)", "((n.a)) = ((1))", "(n.a = 1) = true", "(n.a = 1) = (n.b = 2)",
		"(((n.a = 1) and (n.b = 2)))", "((n.a = 1) and (n.b = 2)) or ((n.c = 3))", "(n.a = 1 or n.b = 2) and n.c = 3",
		"n.a = 1 or (n.b = 2 and n.c = 3)", "(n.a = 1 xor n.b = 2) xor n.c = 3", "n.a = 1 xor (n.b = 2 xor n.c = 3)",
		"not (n.a = 1) and n.b = 2", "not (n.a = 1 and n.b = 2)", "(not n.a = 1) and n.b = 2", "not ((n.a = 1))",
		"n.a = -1", "n.a = - 1", "n.a = -(1)", "n.a = +1", "-n.a = -1", "n.a = 1 = true", "1 = n.a", "n.a - 1 = 0", "n.a = 1 - 0", "n.a = 2 - 1 and n.b = 1 + 1",
		"n.a + n.b = 3", "n.a * 2 = 2 and n.b / 2 = 1", "(n.a + 1) * 2 = 4", "n.a + 1 * 2 = 3", "not n.a + 1 = 2",
	}
	var s5 []string
	for _, e := range boolRedundant {
		s5 = append(s5, "match (n) where "+e+" return n")
	}
	chunked("S5-bool", s5, 250, func(q string, r *vfResult) { r.record(q, vfCheck(q, true, boolSem)) })
	arithRedundant := []string{
		"- - 1", "--1", "- -1", "-(-1)", "-(-(1))", "- (- (1))", "-(-n.b)", "- - n.b", "+ 1", "+1", "+n.b", "+ n.b", "+(+1)", "+(+(1))", "+ + 1", "-(+1)", "+(-1)", "- + 1", "+ - 1",
		"2 - -1", "2 - - 1", "2 + +1", "2 - +1", "2 + -1", "2 * -1", "2 / -n.b", "2 ^ -1", "2 - (-1)", "2 -(-1)", "2-(-1)", "2--1", "2-1", "2+-1", "2 - 1", "2*-1",
		"((1))", "(((1)))", "((n.b))", "(1) + (2)", "((1) + (2))", "((1 + 2))", "(1 + 2) + 3", "1 + (2 + 3)", "1 - (2 - 3)", "(1 - 2) - 3", "1 - 2 - 3",
		"8 / (4 / 2)", "8 / 4 / 2", "(8 / 4) / 2", "2 ^ (3 ^ 2)", "(2 ^ 3) ^ 2", "2 ^ 3 ^ 2", "7 % (4 % 3)", "7 % 4 % 3",
		"-n.b ^ 2", "(-n.b) ^ 2", "-(n.b ^ 2)", "2 ^ -n.b", "-2 ^ 2", "-(2 ^ 2)", "(-2) ^ 2", "-2 * 3", "-(2 * 3)", "(-2) * 3", "- 2 + 3", "-(2 + 3)", "-(2) + 3",
		"1 + 2 * 3", "(1 + 2) * 3", "1 + (2 * 3)", "1 * 2 + 3", "1 * (2 + 3)", "2 * 3 ^ 2", "(2 * 3) ^ 2", "2 ^ 3 * 2", "2 ^ (3 * 2)", "7 - 2 % 3", "(7 - 2) % 3",
		"1+2", "1+2*3", "(1+2)*3", "1 +2", "1+ 2", "n.b+n.d", "n.b-n.d", "n.b*n.d", "n.b - -n.d", "n.b-(-n.d)", "n.b--n.d",
	}
	var s5a []string
	for _, e := range arithRedundant {
		s5a = append(s5a, "return "+e)
	}
	chunked("S5-arith", s5a, 250, func(q string, r *vfResult) { r.record(q, vfCheck(q, true, arithSem)) })

	// ---- S3: numeric literals
	var s3 []string
	for _, lit := range vfNumericLiterals {
		s3 = append(s3, lit, "-"+lit)
	}
	chunked("S3-numeric", s3, 40, func(lit string, r *vfResult) {
		q := "return " + lit
		c := vfCheck(q, true, nil)
		if c.accepted && c.emitted != "" {
			spelling := strings.TrimPrefix(lit, "-")
			negative := spelling != lit
			kind, iv, fv := vfLiteralValue(spelling)
			toks := vfPickReturn(vfLex(c.emitted, false))
			gotNeg := false
			if len(toks) > 0 && vfIsS(toks[0], "-") {
				gotNeg = true
				toks = toks[1:]
			}
			switch {
			case kind == "":
				// not a number literal of the grammar (1.e3 is a property lookup, NaN a variable ...): (a)-(c) only
			case len(toks) != 1 || (toks[0].kind != vfInt && toks[0].kind != vfFloat):
				c.classes = append(c.classes, "numeric-value")
				c.msgs = append(c.msgs, fmt.Sprintf("emitted text %q is not a single number literal", c.emitted))
			default:
				got := toks[0]
				if kind == "int" {
					if got.kind != vfInt || got.text != iv.String() || gotNeg != negative {
						c.classes = append(c.classes, "numeric-value")
						c.msgs = append(c.msgs, fmt.Sprintf("integer literal %s (value %s) is emitted as %q", lit, iv.String(), c.emitted))
					}
				} else {
					gf, _ := strconv.ParseFloat(got.text, 64)
					zeroSignOnly := fv == 0 && gf == 0
					if got.kind != vfFloat || gf != fv || math.IsInf(fv, 0) || (gotNeg != negative && !zeroSignOnly) {
						c.classes = append(c.classes, "numeric-value")
						c.msgs = append(c.msgs, fmt.Sprintf("float literal %s (value %s) is emitted as %q", lit, strconv.FormatFloat(fv, 'g', -1, 64), c.emitted))
					}
				}
			}
		}
		r.record(q, c)
	})

	// ---- sample for S2 and S4: accepted fixture queries shorter than 120 characters + generated ones
	var sample []string
	for _, q := range fixtures {
		if len([]rune(q)) < 120 {
			sample = append(sample, q)
		}
	}
	sample = append(sample, vfSampleQueries...)

	// ---- S2: unrecognised input
	inserted := []string{"!", "?", "&", "@", "~", "#", "§", "`", "'"}
	chunked("S2-unrecognised", sample, 2, func(q string, r *vfResult) {
		if m, err, _ := vfParse(q); !vfAccepted(m, err) {
			return
		}
		rs := []rune(q)
		for pos := 0; pos <= len(rs); pos++ {
			for _, ch := range inserted {
				mutated := string(rs[:pos]) + ch + string(rs[pos:])
				vfCurrent.Store(mutated)
				r.record(mutated, vfCheck(mutated, false, nil))
			}
		}
	})

	// ---- S4: comments and whitespace
	fillers := []string{" ", "\t\n", "/* c */", " /**/ ", "// c\n", "\u00a0", "\u001f", "\u180e"}
	chunked("S4-comments", append(append([]string{}, sample...), vfRangeQueries...), 2, func(q string, r *vfResult) {
		base := vfCheck(q, false, nil)
		if !base.accepted {
			return
		}
		baseContent := vfContent(q)
		positions := []int{0}
		for _, tk := range vfLex(q, true) {
			positions = append(positions, tk.end)
		}
		sort.Ints(positions)
		rs := []rune(q)
		last := -1
		for _, pos := range positions {
			if pos == last || pos > len(rs) {
				continue
			}
			last = pos
			for _, fill := range fillers {
				mutated := string(rs[:pos]) + fill + string(rs[pos:])
				vfCurrent.Store(mutated)
				c := vfCheck(mutated, false, nil)
				// the insertion must not have merged with a neighbour (`/` + `/* c */` is a line comment): the
				// harness tokens of the mutated text must be those of the original text
				pure := reflect.DeepEqual(vfContent(mutated), baseContent)
				if pure && c.accepted && len(base.classes) == 0 && !reflect.DeepEqual(c.model, base.model) {
					c.classes = append(c.classes, "comment-changes-model")
					c.msgs = append(c.msgs, fmt.Sprintf("accepted with another model than %q: emitted %q instead of %q", q, c.emitted, base.emitted))
				}
				r.record(mutated, c)
			}
		}
	})

	// ---- run
	order := make([]int, len(jobs))
	for i := range order {
		order[i] = i
	}
	if seed != 0 {
		rand.New(rand.NewSource(seed)).Shuffle(len(order), func(i, j int) { order[i], order[j] = order[j], order[i] })
	}
	results := make([]vfResult, len(jobs))
	deadline := 150 * time.Second
	if thorough {
		deadline = 570 * time.Second
	}
	done := make(chan struct{})
	var next int64 = -1
	var wg sync.WaitGroup
	workers := 8
	for w := 0; w < workers; w++ {
		wg.Add(1)
		go func() {
			defer wg.Done()
			for {
				k := int(atomic.AddInt64(&next, 1))
				if k >= len(order) {
					return
				}
				idx := order[k]
				func() {
					defer func() {
						if rec := recover(); rec != nil {
							results[idx].fails = append(results[idx].fails, vfFailure{classes: []string{"panic"}, input: fmt.Sprint(vfCurrent.Load()), msg: fmt.Sprintf("harness/library panic in %s: %v", jobs[idx].section, rec)})
						}
					}()
					results[idx] = jobs[idx].run()
				}()
			}
		}()
	}
	go func() { wg.Wait(); close(done) }()
	timedOut := false
	select {
	case <-done:
	case <-time.After(deadline):
		timedOut = true
	}

	// ---- merge (by job index: independent of scheduling and of VERIF_SEED)
	var failures, knownSeen []string
	knownHitsByClass := map[string]int{}
	cases, accepted, knownCount, failureCount := 0, 0, 0, 0
	perSection := map[string]int{}
	if timedOut {
		failureCount++
		failures = append(failures, fmt.Sprintf("timeout after %v: a worker was still busy with input %q", deadline, fmt.Sprint(vfCurrent.Load())))
	} else {
		for i, res := range results {
			cases += res.cases
			accepted += res.accepted
			perSection[jobs[i].section] += res.cases
			for _, f := range res.fails {
				isKnown := ""
				for _, k := range known {
					if k.match != nil && k.match(f.input) && vfSubset(f.classes, k.classes) {
						isKnown = k.name
						break
					}
				}
				desc := fmt.Sprintf("[%s][%s] input %q: %s", jobs[i].section, strings.Join(f.classes, "+"), f.input, f.msg)
				if os.Getenv("VERIF_FAITHFUL_DUMP") != "" {
					fmt.Printf("DUMP known=%q %s\n", isKnown, desc)
				}
				if isKnown != "" {
					knownCount++
					knownHitsByClass[isKnown]++
					if len(knownSeen) < 5 {
						knownSeen = append(knownSeen, isKnown+": "+desc)
					}
					continue
				}
				failureCount++
				if len(failures) < 5 {
					failures = append(failures, desc)
				}
			}
		}
	}
	for _, f := range setupFailures {
		failureCount++
		if len(failures) < 5 {
			failures = append(failures, f)
		}
	}
	if failures == nil {
		failures = []string{}
	}
	if knownSeen == nil {
		knownSeen = []string{}
	}
	var sections []string
	for s, c := range perSection {
		sections = append(sections, fmt.Sprintf("%s=%d", s, c))
	}
	sort.Strings(sections)
	boundText := fmt.Sprintf("bound %s: %d fixture queries, %d hand written queries, %d multi-part queries (every sequence of 1..4 clauses of set/remove/delete/create/merge/with after a MATCH); bool trees over <=%d atoms (%d texts), arithmetic trees over <=4 operands (%d texts), %d comparison chains, %d string/list/null predicate texts, %d redundant constructs, %d numeric spellings, 9 foreign characters at every position and 8 fillers at every token boundary of %d sample queries (+%d range queries); inputs per section: %s",
		map[bool]string{false: "1", true: "2"}[thorough], len(fixtures), len(vfExtraQueries), len(multiPart), maxAtoms, len(boolQs), len(arithQs), len(chainQs), len(strQs), len(s5)+len(s5a), len(s3), len(sample), len(vfRangeQueries), strings.Join(sections, ", "))
	out, _ := json.Marshal(map[string]any{
		"name": "faithful", "bound": boundText, "cases": cases, "accepted": accepted, "exhaustive": true,
		"failures": failures, "failure_count": failureCount, "known_deviations": knownCount, "known_deviation_hits": knownHitsByClass, "known_deviations_observed": knownSeen,
	})
	fmt.Println("BOUNDED-RESULT " + string(out))
	if failureCount > 0 {
		t.Fail()
	}
}

var vfCurrent atomic.Value

func vfSubset(a, b []string) bool {
	for _, x := range a {
		found := false
		for _, y := range b {
			if x == y {
				found = true
			}
		}
		if !found {
			return false
		}
	}
	return true
}
