package traversal

// Bounded stand-in for C17, parallel breadth-first part (labelled bounded, never counted as proved).
//
// ENUMERATED: ALL digraphs on n nodes (VERIF_BOUND "1": n=3 with self loops = 512 graphs, depth bound 3,
// workers {1,2,4}; "2": n=4 without self loops = 4096 graphs, depth bound 4, workers {1,2,3,8}) x every
// node as root x every worker count x both ways of naming the root (Plan.Root / Plan.RootSegment).
// The driver is a harness function that expands the in-memory digraph: the children of a segment are
// the out-neighbours of its node (through PathSegment.Descend, serialised by a mutex so that the path
// tree size is exact), cut at the depth bound so that cyclic graphs terminate. Every driver invocation
// is written to a thread-safe visit log as the node-id path from the root. Scheduling is additionally
// perturbed by runtime.Gosched() calls at positions derived from VERIF_SEED (order only, never coverage).
// Fault injection (bound "1": on ALL graphs; bound "2": on 400 graphs drawn from VERIF_SEED), for every
// root and worker count and every k in 1..(number of segments of the sequential expansion):
//   error:   the k-th driver invocation (counted atomically) returns a sentinel error;
//   cancel:  the k-th driver invocation cancels the context given to BreadthFirst and then carries on
//            (k=0: the context is cancelled before the call).
// Memory limit (Transaction.GraphQueryMemoryLimit): for every graph/root/worker count the limits
// {initial-1, (initial+final)/2, final-1, final} where initial/final are the path tree sizes before and
// after an unlimited run.
//
// ORACLE (from the property statement): the multiset of segments handed to the driver equals the
// multiset of walks from the root of length <= depth bound, computed by a plain recursive expansion in
// this file (each walk exactly once: none lost, none duplicated); BreadthFirst returns nil; it returns
// within 10 s; runtime.NumGoroutine() is back to its previous value within 2 s.
//   error at k:  the returned error satisfies errors.Is(err, sentinel); the visit log is a sub-multiset
//                of the sequential one, holds no duplicate and at least k entries; with ONE worker it
//                holds exactly k entries (nothing is expanded after the first error); no goroutine left.
//   cancel at k: BreadthFirst carries no documentation of its own; the code comments ("Actively cancel
//                the traversal context to force any idle workers to join and exit") and the filter on
//                context.Canceled / graph.ErrContextTimedOut show that cancellation is not reported as
//                an error, so nil is the documented outcome; a context error (errors.Is Canceled /
//                DeadlineExceeded / graph.ErrContextTimedOut) is accepted as well, anything else is a
//                failure. Returns within the timeout, no duplicate, sub-multiset, no goroutine left.
//   memory:      limit < initial size: error that Is ops.ErrGraphQueryMemoryLimit (all worker counts);
//                limit >= final size: nil and the complete multiset; limit < final size with ONE worker:
//                error (the tree is complete before the last segment is taken); otherwise either nil with
//                the complete multiset or the memory error with a duplicate-free sub-multiset.
//   no root:     Plan{} without Root and RootSegment returns an error and leaves no goroutine.
//
// EXTENSION X17 (three further input classes; everything above is unchanged).
//
// X1. Shared skip/limit filters and counters under concurrency. ONE FilteredSkipLimit filter (every
//     (skip, limit) with skip in {0,1,W} and limit in {0,1,W-1,W,W+1}) and ONE atomics.NewCounter (both
//     instantiations that exist in the repository, uint32 and uint64, maximum in {0,1,W-1,W,W+1,50W,50W+1}) is
//     hammered by W in {1,2,8} goroutines; every goroutine makes ceil((skip+limit)/W)+2 calls (half as many
//     again in the mixed item mix) with segments of its own. Two item mixes: all items collectable, and
//     every third item not collectable (filter answers canCollect=false). A trial is one FRESH filter or
//     counter; trials run in batches of 250 on W goroutines which meet at a spinning start barrier before
//     EVERY trial, so all W enter the same fresh filter together. Trials per configuration and W>1: bound
//     "1": 2000, bound "2": 20000 (W=1: 250), twice as many for a bare counter - 54 filter and 26 counter
//     configurations with W>1 (bound "1": 108000 + 104000 trials).
//     ORACLE (a correct implementation satisfies it for EVERY schedule, so there is no tolerance): with C
//     collectable calls, exactly min(skip,C) calls are skipped (returned shouldDescend, visitor not run),
//     exactly min(limit, C-min(skip,C)) calls (all of the remainder when limit=0) run the visitor - never one
//     more, never one less -, every other collectable call is rejected, a non-collectable call never runs
//     the visitor and returns its shouldDescend, and the visitor runs at most once per call. A counter with
//     maximum m answers false exactly min(m, calls) times and true ever after.
//     POWER: a check-then-increment counter (Load; compare; Add instead of the CAS loop, both instances) was
//     measured with VERIF_X17_STATS=1 (diagnostics only: prints the deviating trials per configuration and
//     runs every trial) on 16 CPUs. Bound "1", load average 14: 3000-8900 of the 100000 filter trials with
//     W>1 and skip+limit>0 deviate, 3800-6400 of the 44000 bare uint64 counter trials with W>1 and maximum>0,
//     3600-5800 of the 44000 bare uint32 ones (single configurations: 0 to 34 % of their trials). With a
//     quarter of these trial counts at load averages 40-80: 870-970 of 36000 (uint64 mutated), 150-1900 of
//     12000 (uint32 mutated, bare counter trials only). Missing the defect needs every one of these trials to
//     come out right: with an expected number of deviating trials >= 600 (4 x 150) the probability is below
//     e^-600 < 1e-260.
//     Sequential semantics, exhaustive: every sequence of up to 5 (bound "2": 6) filter answers
//     (canCollect, shouldDescend) x skip, limit in {0,1,2}; same oracle; the return value of a call is
//     checked against shouldDescend except for limit-rejected calls (not specified).
//
// X2. Path tree size accounting (graph.PathSegment Descend / Detach / SizeOf). Every tree with up to 6
//     (bound "2": 7) segments, built by Descend in every admissible creation order (all parent arrays
//     p[i] < i: 1+1+2+6+24+120 = 154 trees, bound "2" +720), nodes and edges of differing sizes, x every
//     sequence of 0..3 Detach calls on non-root segments (repetitions allowed, hence "same segment twice",
//     "segment then ancestor", "segment then descendant"). Detach of the root is not enumerated: the
//     property does not say what a root is detached from.
//     ORACLE: own(x) is calibrated on the freshly built tree as SizeOf(x) minus the SizeOf of its branches
//     (no size formula is copied from the code); the harness keeps its own model of which parent links are
//     intact. After the sequence: root.SizeOf() == sum of own(x) over the segments still linked to the root;
//     the same for every segment still linked to the root and its own subtree; no segment (attached or not)
//     reports more than the size of the complete tree (an unsigned underflow shows up as an absurdly large
//     value); Branches of every segment == the model's intact children in creation order; a Detach of a
//     segment that was detached before changes no SizeOf and no Branches anywhere. Descend is checked on
//     the way: own(x) - (SizeOf(x) when x was created as a leaf) is 0 for a segment without branches, depends
//     only on cap(Branches), and every Descend adds the same amount to every ancestor.
//     BreadthFirst + detaching drivers: on the digraph enumeration above (bound "2": the fault sample),
//     every root and worker count, RootSegment given, memory limit = size of the complete path tree of the
//     run without detaches (an upper bound of the true size - the sum of what is still attached - at every
//     moment of every schedule), with the drivers
//       filter-detach(S):  children whose node is in S are created by Descend, detached and not returned
//                          (S = every non-empty node subset);
//       terminal-detach:   a segment without children is detached once it has been visited;
//       terminal-prune:    the same and every non-root trunk left without branches is detached as well;
//       trunk-detach(S):   a visited segment of depth >= 2 whose node is in S detaches its trunk (the visitor
//                          gives up the branch; work in flight below it carries on), terminals are detached.
//     ORACLE: BreadthFirst returns nil (in particular no ops.ErrGraphQueryMemoryLimit), the visit multiset
//     is the sequential one (filter-detach: the walks that avoid S after the root), the root's SizeOf()
//     afterwards lies in [size of the root before the run, size of the complete tree] and equals own(root)
//     for terminal-prune.
//
// Known deviation classes (switched on by naming them in VERIF_KNOWN, "|"-separated; counted under
// known_deviation_hits instead of failures; nothing is suppressed without the variable):
//   "detach-below-detached": X2 inputs in which a Detach is applied to a segment one of whose strict
//        ancestors was detached earlier (sequential part: recognised on the Detach sequence; BreadthFirst
//        part: every run of the trunk-detach(S) driver, the only one that detaches - and descends - below a
//        detached trunk; only its memory-limit and final-size checks are switched, lost/duplicated segments,
//        hangs, panics and goroutine leaks stay failures).
// X1 found no deviation on the unchanged tree and therefore has no class.

import (
	"context"
	"encoding/json"
	"errors"
	"fmt"
	"math/rand"
	"os"
	"runtime"
	"sort"
	"strconv"
	"strings"
	"sync"
	"sync/atomic"
	"testing"
	"time"

	"github.com/specterops/dawgs/graph"
	"github.com/specterops/dawgs/ops"
	"github.com/specterops/dawgs/util/atomics"
	"github.com/specterops/dawgs/util/size"
)

// tvKnownDeviations lists inputs for which the unchanged tree violates the oracle (none found).
var tvKnownDeviations = map[string]bool{}

const (
	tvCallTimeout = 10 * time.Second
	tvSettle      = 2 * time.Second
)

var tvErrInjected = errors.New("verif injected driver failure")

type tvTx struct {
	graph.Transaction // nil: BreadthFirst itself must only ask for the memory limit
	limit             size.Size
}

func (s tvTx) GraphQueryMemoryLimit() size.Size { return s.limit }

type tvDB struct {
	graph.Database
	limit size.Size
}

func (s tvDB) ReadTransaction(ctx context.Context, txDelegate graph.TransactionDelegate, options ...graph.TransactionOption) error {
	return txDelegate(tvTx{limit: s.limit})
}

type tvGraph struct {
	n     int
	adj   [][]int // adj[i] = sorted out-neighbours of node index i
	nodes []*graph.Node
	desc  string
}

func tvNodeID(i int) graph.ID { return graph.ID(10 + 7*i) }

func tvBuild(n int, pairs [][2]int, mask int) *tvGraph {
	g := &tvGraph{n: n, adj: make([][]int, n)}
	var sb strings.Builder
	for i, p := range pairs {
		if mask&(1<<uint(i)) != 0 {
			g.adj[p[0]] = append(g.adj[p[0]], p[1])
			fmt.Fprintf(&sb, "%d>%d ", p[0], p[1])
		}
	}
	for i := 0; i < n; i++ {
		g.nodes = append(g.nodes, graph.NewNode(tvNodeID(i), nil, graph.StringKind("n")))
	}
	g.desc = fmt.Sprintf("n=%d edges=[%s]", n, strings.TrimSpace(sb.String()))
	return g
}

// tvSequential is the oracle: all walks from root of length <= depth, as index paths "0>2>1".
func tvSequential(g *tvGraph, root, depth int) map[string]int {
	out := map[string]int{}
	var rec func(path []int)
	rec = func(path []int) {
		out[tvKey(path)]++
		if len(path)-1 >= depth {
			return
		}
		for _, v := range g.adj[path[len(path)-1]] {
			rec(append(append([]int{}, path...), v))
		}
	}
	rec([]int{root})
	return out
}

// tvSequentialAvoid: the walks of tvSequential whose nodes after the root avoid the subset set.
func tvSequentialAvoid(g *tvGraph, root, depth, set int) map[string]int {
	out := map[string]int{}
	var rec func(path []int)
	rec = func(path []int) {
		out[tvKey(path)]++
		if len(path)-1 >= depth {
			return
		}
		for _, v := range g.adj[path[len(path)-1]] {
			if set&(1<<uint(v)) == 0 {
				rec(append(append([]int{}, path...), v))
			}
		}
	}
	rec([]int{root})
	return out
}

func tvKey(path []int) string {
	parts := make([]string, len(path))
	for i, p := range path {
		parts[i] = strconv.Itoa(p)
	}
	return strings.Join(parts, ">")
}

type tvRun struct {
	g        *tvGraph
	root     int
	depth    int
	workers  int
	rootSeg  bool
	failAt   int64 // k-th invocation returns tvErrInjected (0: never)
	cancelAt int64 // k-th invocation cancels the caller's context (0: never, -1: before the call)
	limit    size.Size
	salt     uint32
	policy   int // X2: detaching driver (tvPol*), 0: none
	set      int // X2: node subset S of the policy as a bit mask
}

const (
	tvPolNone = iota
	tvPolFilterDetach
	tvPolTerminalDetach
	tvPolTerminalPrune
	tvPolTrunkDetach
)

var tvPolName = []string{"none", "filter-detach", "terminal-detach", "terminal-prune", "trunk-detach"}

func (r tvRun) String() string {
	s := fmt.Sprintf("%s root=%d depth<=%d workers=%d rootSegment=%v failAt=%d cancelAt=%d memLimit=%d", r.g.desc, r.root, r.depth, r.workers, r.rootSeg, r.failAt, r.cancelAt, r.limit)
	if r.policy != tvPolNone {
		var set []int
		for i := 0; i < r.g.n; i++ {
			if r.set&(1<<uint(i)) != 0 {
				set = append(set, i)
			}
		}
		s += fmt.Sprintf(" driver=%s S=%v", tvPolName[r.policy], set)
	}
	return s
}

type tvOutcome struct {
	err          error
	hung         bool
	panicked     string
	log          map[string]int
	logLen       int
	leak         string
	initial, fin size.Size
	rootOwn      size.Size // fin minus the sizes of the root's branches (RootSegment runs only)
}

func tvSettleGoroutines(before int) (int, bool) {
	deadline := time.Now().Add(tvSettle)
	for i := 0; ; i++ {
		now := runtime.NumGoroutine()
		if now <= before {
			return now, true
		}
		if time.Now().After(deadline) {
			return now, false
		}
		if i < 200 {
			runtime.Gosched()
		} else {
			time.Sleep(200 * time.Microsecond)
		}
	}
}

func tvExecute(r tvRun) tvOutcome {
	var (
		out         = tvOutcome{}
		visitLog    = map[string]int{}
		visitLen    = 0
		logLock     sync.Mutex
		descendLock sync.Mutex
		invocations atomic.Int64
		idx         = map[graph.ID]int{}
		nextEdgeID  atomic.Int64
		ctx, cancel = context.WithCancel(context.Background())
		rootSegment = graph.NewRootPathSegment(r.g.nodes[r.root])
		edgeKind    = graph.StringKind("e")
	)
	defer cancel()
	for i := range r.g.nodes {
		idx[tvNodeID(i)] = i
	}
	driver := func(dctx context.Context, tx graph.Transaction, segment *graph.PathSegment) ([]*graph.PathSegment, error) {
		var path []int
		for cursor := segment; cursor != nil; cursor = cursor.Trunk {
			path = append(path, idx[cursor.Node.ID])
		}
		for i, j := 0, len(path)-1; i < j; i, j = i+1, j-1 {
			path[i], path[j] = path[j], path[i]
		}
		key := tvKey(path)
		logLock.Lock()
		visitLog[key]++
		visitLen++
		logLock.Unlock()
		k := invocations.Add(1)
		h := r.salt
		for _, p := range path {
			h = h*31 + uint32(p) + 7
		}
		if h%3 == 0 {
			runtime.Gosched()
		}
		if k == r.failAt {
			return nil, tvErrInjected
		}
		if k == r.cancelAt {
			cancel()
		}
		var children []*graph.PathSegment
		if len(path)-1 < r.depth {
			cur := path[len(path)-1]
			descendLock.Lock()
			for _, v := range r.g.adj[cur] {
				rel := graph.NewRelationship(graph.ID(nextEdgeID.Add(1)), tvNodeID(cur), tvNodeID(v), nil, edgeKind)
				child := segment.Descend(r.g.nodes[v], rel)
				if r.policy == tvPolFilterDetach && r.set&(1<<uint(v)) != 0 {
					child.Detach()
					continue
				}
				children = append(children, child)
			}
			descendLock.Unlock()
		}
		if r.policy != tvPolNone && r.policy != tvPolFilterDetach && len(path) > 1 {
			descendLock.Lock()
			if r.policy == tvPolTrunkDetach && len(path) > 2 && r.set&(1<<uint(path[len(path)-1])) != 0 {
				segment.Trunk.Detach()
			}
			if len(children) == 0 {
				segment.Detach()
				if r.policy == tvPolTerminalPrune {
					for trunk := segment.Trunk; trunk != nil && trunk.Trunk != nil && len(trunk.Branches) == 0; trunk = trunk.Trunk {
						trunk.Detach()
					}
				}
			}
			descendLock.Unlock()
		}
		if h%5 == 0 {
			runtime.Gosched()
		}
		return children, nil
	}
	plan := Plan{Driver: driver}
	if r.rootSeg {
		plan.RootSegment = rootSegment
		out.initial = graph.Tree{Root: rootSegment}.SizeOf()
	} else {
		plan.Root = r.g.nodes[r.root]
	}
	if r.cancelAt < 0 {
		cancel()
	}
	before := runtime.NumGoroutine()
	type result struct {
		err      error
		panicked string
	}
	done := make(chan result, 1)
	go func() {
		var res result
		defer func() {
			if p := recover(); p != nil {
				res.panicked = fmt.Sprint(p)
			}
			done <- res
		}()
		res.err = New(tvDB{limit: r.limit}, r.workers).BreadthFirst(ctx, plan)
	}()
	// private copy of the log: a hung or leaked worker could still write to it
	snapshot := func() {
		logLock.Lock()
		out.log = make(map[string]int, len(visitLog))
		for k, v := range visitLog {
			out.log[k] = v
		}
		out.logLen = visitLen
		logLock.Unlock()
	}
	timer := time.NewTimer(tvCallTimeout)
	select {
	case res := <-done:
		timer.Stop()
		out.err, out.panicked = res.err, res.panicked
	case <-timer.C:
		out.hung = true
		cancel()
		snapshot()
		return out
	}
	// the caller's context is still alive here: what BreadthFirst started must be gone because BreadthFirst returned, not
	// because the caller cancels afterwards
	if tvLeaksSeen.Load() < 5 {
		if now, ok := tvSettleGoroutines(before); !ok {
			tvLeaksSeen.Add(1)
			out.leak = fmt.Sprintf("%d goroutines before the call, %d still alive %v after it returned (the caller's context not yet cancelled)", before, now, tvSettle)
		}
	}
	// (after five leaks have been reported the wait for goroutines to settle is skipped: every further leaking run would
	// cost the full settle time and the verdict is already in)
	cancel()
	if r.rootSeg {
		descendLock.Lock()
		out.fin = graph.Tree{Root: rootSegment}.SizeOf()
		out.rootOwn = out.fin
		for _, branch := range rootSegment.Branches {
			out.rootOwn -= branch.SizeOf()
		}
		descendLock.Unlock()
	}
	snapshot()
	return out
}

var tvLeaksSeen atomic.Int64

func tvDiff(got, want map[string]int) (missing, extra []string) {
	for k, w := range want {
		if got[k] < w {
			missing = append(missing, fmt.Sprintf("%s(x%d<x%d)", k, got[k], w))
		}
	}
	for k, g := range got {
		if g > want[k] {
			extra = append(extra, fmt.Sprintf("%s(x%d>x%d)", k, g, want[k]))
		}
	}
	sort.Strings(missing)
	sort.Strings(extra)
	if len(missing) > 6 {
		missing = append(missing[:6], "...")
	}
	if len(extra) > 6 {
		extra = append(extra[:6], "...")
	}
	return
}

func tvSortedKeys(m map[string]bool) []string {
	out := []string{}
	for k := range m {
		out = append(out, k)
	}
	sort.Strings(out)
	return out
}

func tvIsCtxErr(err error) bool {
	return errors.Is(err, context.Canceled) || errors.Is(err, context.DeadlineExceeded) || errors.Is(err, graph.ErrContextTimedOut)
}

// ---------------------------------------------------------------------------------------------------
// EXTENSION X17
// ---------------------------------------------------------------------------------------------------

type tvExt struct {
	known    map[string]bool
	hits     map[string]int
	examples map[string][]string
	sub      map[string]int

	perSymptom map[string]int
}

// hit counts a known deviation and keeps at most 2 examples per class and symptom (the symptom is the start
// of the message after the input description).
func (x *tvExt) hit(class, msg string) {
	x.hits[class]++
	symptom := msg
	if i := strings.Index(msg, "]: "); i >= 0 {
		symptom = msg[i+3:]
	}
	if f := strings.Fields(symptom); len(f) > 2 {
		symptom = strings.Join(f[:2], " ")
	}
	if x.perSymptom[class+"/"+symptom]++; x.perSymptom[class+"/"+symptom] <= 2 {
		x.examples[class] = append(x.examples[class], msg)
	}
}

// tvKnownFromEnv: deviation classes come from /verif/known_findings.json through VERIF_KNOWN.
func tvKnownFromEnv() map[string]bool {
	out := map[string]bool{}
	for _, p := range strings.Split(os.Getenv("VERIF_KNOWN"), "|") {
		if p = strings.TrimSpace(p); p == "detach-below-detached" {
			out[p] = true
		}
	}
	return out
}

// ---- X1: shared skip/limit filters and counters under concurrency

type tvCallRec struct {
	collectable bool
	visits      int32
	ret         bool
}

// tvBatch runs job(trial, w) for trial = 0..trials-1 on W goroutines. Before EVERY trial the W goroutines meet
// at a spinning barrier of that trial (the start barrier), so all of them enter job(trial, .) together.
// The wait is bounded (tvBarrierSpins polls, some 10 microseconds): when the operating system has descheduled
// a worker the others go on without it and it catches up later. The barrier only serves the power of the
// test - the oracle holds for every schedule -, and an unbounded spin barrier costs milliseconds per stall
// on an oversubscribed machine.
const tvBarrierSpins = 4000

func tvBatch(workers, trials int, job func(trial, w int)) {
	type padded struct {
		n atomic.Int32
		_ [60]byte
	}
	arrive := make([]padded, trials)
	var wg sync.WaitGroup
	for w := 0; w < workers; w++ {
		wg.Add(1)
		go func(w int) {
			defer wg.Done()
			for trial := 0; trial < trials; trial++ {
				arrive[trial].n.Add(1)
				for spins := 0; arrive[trial].n.Load() < int32(workers) && spins < tvBarrierSpins; spins++ {
				}
				job(trial, w)
			}
		}(w)
	}
	wg.Wait()
}

func tvClip(total, skip, limit int) (skipped, accepted int) {
	skipped = skip
	if skipped > total {
		skipped = total
	}
	accepted = total - skipped
	if limit > 0 && accepted > limit {
		accepted = limit
	}
	return
}

const tvBatchSize = 250

func tvConcurrentSkipLimit(x *tvExt, trials int, failNow func(class, msg string)) {
	node := graph.NewNode(1, nil, graph.StringKind("n"))
	stats := os.Getenv("VERIF_X17_STATS") != "" // diagnostics: run every trial and print the deviating trials per configuration
	for _, workers := range []int{1, 2, 8} {
		n := trials
		if workers == 1 {
			n = tvBatchSize
		}
		var limits, skips []int
		for _, v := range []int{0, 1, workers - 1, workers, workers + 1} {
			if v >= 0 && !tvContains(limits, v) {
				limits = append(limits, v)
			}
		}
		for _, v := range []int{0, 1, workers} {
			if !tvContains(skips, v) {
				skips = append(skips, v)
			}
		}
		// (a) the counter itself, both instantiations; the two large maxima keep all W goroutines busy on the
		// counter at the moment it saturates (a bare counter call takes nanoseconds, so with a small maximum
		// the calls of different goroutines hardly ever overlap)
		for _, limit := range append(append([]int{}, limits...), 50*workers, 50*workers+1) {
			for _, width := range []int{32, 64} {
				per := limit/workers + 2
				if limit > workers+1 {
					per = 2*limit/workers + 2
				}
				want := limit
				if workers*per < want {
					want = workers * per
				}
				bad := 0
				for done := 0; done < 2*n && (bad < 3 || stats); done += tvBatchSize { // twice the trials of a filter configuration
					counters := make([]func() bool, tvBatchSize)
					falses := make([]atomic.Int32, tvBatchSize)
					for i := range counters {
						if width == 32 {
							counters[i] = atomics.NewCounter(uint32(limit))
						} else {
							counters[i] = atomics.NewCounter(uint64(limit))
						}
					}
					tvBatch(workers, tvBatchSize, func(trial, w int) {
						for j := 0; j < per; j++ {
							if !counters[trial]() {
								falses[trial].Add(1)
							}
						}
					})
					for i := range counters {
						x.sub["concurrent_counter_trials"]++
						if got := int(falses[i].Load()); got != want || !counters[i]() {
							if bad++; bad <= 3 {
								failNow("", fmt.Sprintf("atomics.NewCounter[uint%d](%d) called %d times by each of %d goroutines released together (trial %d): answered false %d times, want exactly %d, and true afterwards", width, limit, per, workers, done+i, got, want))
							}
						}
					}
				}
				if stats {
					fmt.Printf("X17-STATS counter uint%d W=%d max=%d: %d of %d trials deviate\n", width, workers, limit, bad, 2*n)
				}
			}
		}
		for _, limit := range limits {
			// (b) the filter
			for _, skip := range skips {
				for _, mixed := range []bool{false, true} {
					per := (skip+limit+workers-1)/workers + 2
					if mixed {
						per += per / 2
					}
					recs := make([][][]tvCallRec, tvBatchSize)
					segs := make([][][]*graph.PathSegment, tvBatchSize)
					collectable := 0
					for i := range recs {
						recs[i] = make([][]tvCallRec, workers)
						segs[i] = make([][]*graph.PathSegment, workers)
						for w := range recs[i] {
							recs[i][w] = make([]tvCallRec, per)
							segs[i][w] = make([]*graph.PathSegment, per)
							for j := range segs[i][w] {
								segs[i][w][j] = graph.NewRootPathSegment(node)
								segs[i][w][j].Tag = &recs[i][w][j]
								recs[i][w][j].collectable = !mixed || (w+j)%3 != 2
								if i == 0 && recs[i][w][j].collectable {
									collectable++
								}
							}
						}
					}
					wantSkipped, wantAccepted := tvClip(collectable, skip, limit)
					bad := 0
					for done := 0; done < n && (bad < 3 || stats); done += tvBatchSize {
						filters := make([]SegmentFilter, tvBatchSize)
						for i := range filters {
							for w := range recs[i] {
								for j := range recs[i][w] {
									recs[i][w][j].visits, recs[i][w][j].ret = 0, false
								}
							}
							filters[i] = FilteredSkipLimit(func(next *graph.PathSegment) (bool, bool) {
								return next.Tag.(*tvCallRec).collectable, true
							}, func(next *graph.PathSegment) {
								atomic.AddInt32(&next.Tag.(*tvCallRec).visits, 1)
							}, skip, limit)
						}
						tvBatch(workers, tvBatchSize, func(trial, w int) {
							for j, segment := range segs[trial][w] {
								recs[trial][w][j].ret = filters[trial](segment)
							}
						})
						for i := range filters {
							x.sub["concurrent_filter_trials"]++
							accepted, skipped, rejected, wrong := 0, 0, 0, ""
							for w := range recs[i] {
								for j := range recs[i][w] {
									rec := &recs[i][w][j]
									switch {
									case rec.visits > 1:
										wrong = fmt.Sprintf("; the visitor ran %d times for one call", rec.visits)
									case !rec.collectable && (rec.visits != 0 || !rec.ret):
										wrong = fmt.Sprintf("; a call whose filter answered canCollect=false, shouldDescend=true ran the visitor %d times and returned %v", rec.visits, rec.ret)
									case !rec.collectable:
									case rec.visits == 1:
										accepted++
										if !rec.ret {
											wrong = "; a collected call returned false although its filter answered shouldDescend=true"
										}
									case rec.ret:
										skipped++
									default:
										rejected++
									}
								}
							}
							if wrong != "" || accepted != wantAccepted || skipped != wantSkipped || rejected != collectable-wantAccepted-wantSkipped {
								if bad++; bad <= 3 {
									failNow("", fmt.Sprintf("FilteredSkipLimit(skip=%d, limit=%d) shared by %d goroutines released together, %d calls each, %d collectable calls in all (trial %d): %d collected, %d skipped, %d rejected; want exactly %d collected, %d skipped, %d rejected%s", skip, limit, workers, per, collectable, done+i, accepted, skipped, rejected, wantAccepted, wantSkipped, collectable-wantAccepted-wantSkipped, wrong))
								}
							}
						}
					}
					if stats {
						fmt.Printf("X17-STATS filter W=%d skip=%d limit=%d mixed=%v: %d of %d trials deviate\n", workers, skip, limit, mixed, bad, n)
					}
				}
			}
		}
	}
}

func tvContains(list []int, v int) bool {
	for _, e := range list {
		if e == v {
			return true
		}
	}
	return false
}

// tvSequentialSkipLimit: every sequence of filter answers up to maxLen x skip, limit in {0,1,2}, one goroutine.
func tvSequentialSkipLimit(x *tvExt, maxLen int, failNow func(class, msg string)) {
	node := graph.NewNode(1, nil, graph.StringKind("n"))
	type answer struct{ collect, descend bool }
	var seq []answer
	check := func() {
		for skip := 0; skip <= 2; skip++ {
			for limit := 0; limit <= 2; limit++ {
				x.sub["sequential_filter_cases"]++
				visited := -1
				cursor := 0
				filter := FilteredSkipLimit(func(next *graph.PathSegment) (bool, bool) {
					return seq[cursor].collect, seq[cursor].descend
				}, func(next *graph.PathSegment) { visited = cursor }, skip, limit)
				var got, want []string
				collectable := 0
				for cursor = 0; cursor < len(seq); cursor++ {
					visited = -1
					ret := filter(graph.NewRootPathSegment(node))
					// oracle
					state := "pass"
					if seq[cursor].collect {
						collectable++
						switch {
						case collectable <= skip:
							state = "skipped"
						case limit == 0 || collectable-skip <= limit:
							state = "collected"
						default:
							state = "rejected"
						}
					}
					wantRet := fmt.Sprint(seq[cursor].descend)
					gotState := "pass"
					switch {
					case visited == cursor:
						gotState = "collected"
					case state == "rejected" || state == "skipped":
						// not observable apart from the return value: a skipped call returns shouldDescend
						gotState = state
					}
					gotRet := fmt.Sprint(ret)
					if state == "rejected" {
						wantRet, gotRet = "-", "-"
					}
					want = append(want, state+"/"+wantRet)
					got = append(got, gotState+"/"+gotRet)
				}
				if strings.Join(got, " ") != strings.Join(want, " ") {
					failNow("", fmt.Sprintf("FilteredSkipLimit(skip=%d, limit=%d), one goroutine, filter answers (canCollect,shouldDescend) %v: per call outcome/return %v, want %v", skip, limit, seq, got, want))
				}
			}
		}
	}
	var rec func()
	rec = func() {
		check()
		if len(seq) == maxLen {
			return
		}
		for _, a := range []answer{{false, false}, {false, true}, {true, false}, {true, true}} {
			seq = append(seq, a)
			rec()
			seq = seq[:len(seq)-1]
		}
	}
	rec()
}

// ---- X2: path tree size accounting

func tvSizeAccounting(x *tvExt, maxSegments, maxDetach int, failNow func(class, msg string)) {
	kinds := []graph.Kind{graph.StringKind("a"), graph.StringKind("bb"), graph.StringKind("ccc")}
	edgeKind := graph.StringKind("e")
	var nodes []*graph.Node
	for i := 0; i < maxSegments; i++ {
		nodes = append(nodes, graph.NewNode(graph.ID(100+i), nil, kinds[:i%3+1]...))
	}
	reported := map[string]int{}
	report := func(class, kind, msg string) {
		// at most 2 messages per kind of violation, so that the failure list shows the different symptoms
		reported[kind]++
		failNow(class, msg)
	}
	_ = reported

	var parents []int // parents[i] = creation index of the trunk of segment i (parents[0] unused)
	runSequence := func(seq []int) {
		x.sub["size_accounting_cases"]++
		k := len(parents)
		segs := make([]*graph.PathSegment, k)
		leaf := make([]size.Size, k)
		segs[0] = graph.NewRootPathSegment(nodes[0])
		leaf[0] = segs[0].SizeOf()
		where := func() string {
			return fmt.Sprintf("tree parents=%v (segment i>0 hangs below segment parents[i], segment 0 is the root) Detach sequence %v", parents[1:], seq)
		}
		for i := 1; i < k; i++ {
			before := make([]size.Size, i)
			for j := 0; j < i; j++ {
				before[j] = segs[j].SizeOf()
			}
			rel := graph.NewRelationship(graph.ID(500+i), nodes[parents[i]].ID, nodes[i].ID, nil, edgeKind)
			segs[i] = segs[parents[i]].Descend(nodes[i], rel)
			leaf[i] = segs[i].SizeOf()
			// every ancestor grows by the same amount (>= the new leaf), nothing else changes
			onChain := map[int]bool{}
			for a := parents[i]; ; a = parents[a] {
				onChain[a] = true
				if a == 0 {
					break
				}
			}
			delta := segs[parents[i]].SizeOf() - before[parents[i]]
			for j := 0; j < i; j++ {
				d := segs[j].SizeOf() - before[j]
				if (onChain[j] && (d != delta || d < leaf[i])) || (!onChain[j] && d != 0) {
					report("", "descend", fmt.Sprintf("%s: Descend creating segment %d (leaf size %d) changed SizeOf of segment %d by %d, its trunk's by %d", where(), i, leaf[i], j, d, delta))
				}
			}
		}
		// calibration on the complete tree
		own := make([]size.Size, k)
		for i := 0; i < k; i++ {
			own[i] = segs[i].SizeOf()
		}
		for i := 1; i < k; i++ {
			own[parents[i]] -= segs[i].SizeOf()
		}
		full := segs[0].SizeOf()
		capExtra := map[int]size.Size{}
		for i := 0; i < k; i++ {
			extra := own[i] - leaf[i]
			c := cap(segs[i].Branches)
			if own[i] < leaf[i] || (c == 0 && extra != 0) {
				report("", "calibration", fmt.Sprintf("%s: after building, segment %d accounts %d bytes for itself, %d when it was a leaf, cap(Branches)=%d", where(), i, own[i], leaf[i], c))
			}
			if prev, seen := capExtra[c]; seen && prev != extra {
				report("", "calibration", fmt.Sprintf("%s: two segments with cap(Branches)=%d account %d and %d bytes for their branch slice", where(), c, prev, extra))
			}
			capExtra[c] = extra
		}
		// model
		linked := make([]bool, k)
		for i := range linked {
			linked[i] = true
		}
		inClass := false
		snapshot := func() string {
			var sb strings.Builder
			for i := 0; i < k; i++ {
				fmt.Fprintf(&sb, "%d:%d[", i, segs[i].SizeOf())
				for _, b := range segs[i].Branches {
					for j := range segs {
						if segs[j] == b {
							fmt.Fprintf(&sb, "%d ", j)
						}
					}
				}
				sb.WriteString("] ")
			}
			return sb.String()
		}
		for step, target := range seq {
			for a := parents[target]; a != 0; a = parents[a] {
				if !linked[a] {
					inClass = true
				}
			}
			class := ""
			if inClass {
				class = "detach-below-detached"
			}
			repeated := !linked[target]
			before := ""
			if repeated {
				before = snapshot()
			}
			segs[target].Detach()
			linked[target] = false
			if repeated {
				if after := snapshot(); after != before {
					report(class, "repeat", fmt.Sprintf("%s: call %d detaches segment %d a second time and is not a no-op; segment:SizeOf[branches] before {%s} after {%s}", where(), step+1, target, before, after))
				}
			}
		}
		class := ""
		if inClass {
			class = "detach-below-detached"
		}
		// expectation from the model
		attached := make([]bool, k)
		subtree := make([]size.Size, k) // sum of own over the subtree hanging on intact links
		for i := k - 1; i >= 0; i-- {
			subtree[i] += own[i]
			if i > 0 && linked[i] {
				subtree[parents[i]] += subtree[i]
			}
		}
		attached[0] = true
		for i := 1; i < k; i++ {
			attached[i] = linked[i] && attached[parents[i]]
		}
		var still []int
		for i := 0; i < k; i++ {
			if attached[i] {
				still = append(still, i)
			}
		}
		for i := 0; i < k; i++ {
			got := segs[i].SizeOf()
			if attached[i] && got != subtree[i] {
				what := fmt.Sprintf("segment %d (still attached)", i)
				if i == 0 {
					what = "the root"
				}
				report(class, "sum", fmt.Sprintf("%s: SizeOf() of %s is %d, want %d = sum of the sizes of the segments still attached below it (attached to the root: %v, own sizes %v, complete tree %d)", where(), what, got, subtree[i], still, own, full))
			} else if got > full {
				report(class, "wrap", fmt.Sprintf("%s: SizeOf() of segment %d is %d, more than the complete tree ever held (%d): the unsigned size wrapped below zero", where(), i, got, full))
			}
			var wantBranches, gotBranches []int
			for j := 1; j < k; j++ {
				if parents[j] == i && linked[j] {
					wantBranches = append(wantBranches, j)
				}
			}
			for _, b := range segs[i].Branches {
				for j := range segs {
					if segs[j] == b {
						gotBranches = append(gotBranches, j)
					}
				}
			}
			if fmt.Sprint(gotBranches) != fmt.Sprint(wantBranches) || len(gotBranches) != len(segs[i].Branches) {
				report(class, "branches", fmt.Sprintf("%s: Branches of segment %d are %v, want %v", where(), i, gotBranches, wantBranches))
			}
		}
	}
	var sequences func(seq []int)
	sequences = func(seq []int) {
		runSequence(seq)
		if len(seq) == maxDetach {
			return
		}
		for target := 1; target < len(parents); target++ {
			sequences(append(append([]int{}, seq...), target))
		}
	}
	var trees func(segments int)
	trees = func(segments int) {
		if len(parents) == segments {
			x.sub["size_accounting_trees"]++
			sequences(nil)
			return
		}
		for p := 0; p < len(parents); p++ {
			parents = append(parents, p)
			trees(segments)
			parents = parents[:len(parents)-1]
		}
	}
	for segments := 1; segments <= maxSegments; segments++ { // smallest trees first
		parents = []int{-1}
		trees(segments)
	}
}

func TestVerifBoundedTraversal(t *testing.T) {
	n, depth, selfLoops, workerCounts, faultSample := 3, 3, true, []int{1, 2, 4}, -1 // -1: all graphs
	if os.Getenv("VERIF_BOUND") == "2" {
		n, depth, selfLoops, workerCounts, faultSample = 4, 4, false, []int{1, 2, 3, 8}, 400
	}
	seed, _ := strconv.ParseInt(os.Getenv("VERIF_SEED"), 10, 64)
	rng := rand.New(rand.NewSource(seed))
	var pairs [][2]int
	for a := 0; a < n; a++ {
		for b := 0; b < n; b++ {
			if a != b || selfLoops {
				pairs = append(pairs, [2]int{a, b})
			}
		}
	}
	total := 1 << uint(len(pairs))
	order := rng.Perm(total) // VERIF_SEED permutes the enumeration order
	inFaultSample := map[int]bool{}
	if faultSample >= 0 {
		for _, m := range rng.Perm(total)[:faultSample] {
			inFaultSample[m] = true
		}
	}

	cases, hangs, failed := 0, 0, 0
	failures := []string{}
	fail := func(r tvRun, format string, args ...any) {
		if tvKnownDeviations[r.String()] {
			return
		}
		if len(failures) < 5 {
			failures = append(failures, r.String()+": "+fmt.Sprintf(format, args...))
		}
		failed++
	}
	ext := &tvExt{known: tvKnownFromEnv(), hits: map[string]int{}, examples: map[string][]string{}, sub: map[string]int{}, perSymptom: map[string]int{}}
	// failIn: a failure of an input that belongs to the deviation class (counted as a known deviation when
	// the class is named in VERIF_KNOWN, a failure otherwise)
	failIn := func(class string, r tvRun, format string, args ...any) {
		if ext.known[class] {
			ext.hit(class, r.String()+": "+fmt.Sprintf(format, args...))
			return
		}
		fail(r, format, args...)
	}
	// after more than 3 hangs (10 s each) the remaining runs are skipped and the result is not exhaustive
	run := func(r tvRun) (tvOutcome, bool) {
		if hangs > 3 {
			return tvOutcome{}, false
		}
		cases++
		return tvExecute(r), true
	}
	// common checks; returns false when the run cannot be examined further
	common := func(r tvRun, o tvOutcome, want map[string]int, complete bool) bool {
		if o.hung {
			hangs++
			fail(r, "BreadthFirst did not return within %v", tvCallTimeout)
			return false
		}
		if o.panicked != "" {
			fail(r, "BreadthFirst panicked: %s", o.panicked)
			return false
		}
		if o.leak != "" {
			fail(r, "goroutine leak: %s", o.leak)
		}
		missing, extra := tvDiff(o.log, want)
		if len(extra) > 0 {
			fail(r, "segments delivered more often than the sequential expansion yields them (duplicated/foreign): %v", extra)
		}
		if complete && len(missing) > 0 {
			fail(r, "segments of the sequential expansion never delivered (lost): %v", missing)
		}
		return true
	}

	for _, mask := range order {
		if hangs > 3 {
			break
		}
		g := tvBuild(n, pairs, mask)
		for root := 0; root < n; root++ {
			want := tvSequential(g, root, depth)
			expansions := 0
			for _, c := range want {
				expansions += c
			}
			for _, workers := range workerCounts {
				salt := uint32(seed)*2654435761 + uint32(mask*131+root*17+workers)
				base := tvRun{g: g, root: root, depth: depth, workers: workers, salt: salt}
				// 1. plain runs
				var initial, final, rootOwn size.Size
				for _, rootSeg := range []bool{false, true} {
					r := base
					r.rootSeg = rootSeg
					o, ran := run(r)
					if !ran {
						continue
					}
					if !common(r, o, want, true) {
						continue
					}
					if o.err != nil {
						fail(r, "BreadthFirst returned %q, want nil", o.err)
					}
					if rootSeg {
						initial, final, rootOwn = o.initial, o.fin, o.rootOwn
					}
				}
				// 2. memory limit
				if final > 0 {
					limits := map[size.Size]bool{}
					for _, l := range []size.Size{initial - 1, (initial + final) / 2, final - 1, final} {
						if l > 0 && !limits[l] {
							limits[l] = true
							r := base
							r.rootSeg, r.limit = true, l
							o, ran := run(r)
							if !ran {
								continue
							}
							mustFail := l < initial || (workers == 1 && l < final)
							mustPass := l >= final
							if !common(r, o, want, o.err == nil) {
								continue
							}
							switch {
							case o.err == nil && mustFail:
								fail(r, "BreadthFirst returned nil although the path tree (initial %d, final %d bytes) exceeds the memory limit %d", initial, final, l)
							case o.err != nil && mustPass:
								fail(r, "BreadthFirst returned %q although the final path tree size %d does not exceed the limit %d", o.err, final, l)
							case o.err != nil && !errors.Is(o.err, ops.ErrGraphQueryMemoryLimit):
								fail(r, "BreadthFirst returned %q, want an error wrapping ops.ErrGraphQueryMemoryLimit", o.err)
							}
						}
					}
				}
				// 3. fault injection
				if faultSample >= 0 && !inFaultSample[mask] {
					continue
				}
				// 2b. (X2) detaching drivers under a memory limit that the true tree size never exceeds
				if final > 0 {
					type polRun struct{ policy, set int }
					polRuns := []polRun{{tvPolTerminalDetach, 0}, {tvPolTerminalPrune, 0}}
					for set := 1; set < 1<<uint(n); set++ {
						polRuns = append(polRuns, polRun{tvPolFilterDetach, set}, polRun{tvPolTrunkDetach, set})
					}
					for _, pr := range polRuns {
						r := base
						r.rootSeg, r.limit, r.policy, r.set = true, final, pr.policy, pr.set
						o, ran := run(r)
						if !ran {
							continue
						}
						ext.sub["breadthfirst_detaching_driver_runs"]++
						wantP := want
						if pr.policy == tvPolFilterDetach {
							wantP = tvSequentialAvoid(g, root, depth, pr.set)
						}
						report := fail
						if pr.policy == tvPolTrunkDetach {
							report = func(r tvRun, format string, args ...any) { failIn("detach-below-detached", r, format, args...) }
						}
						if o.hung {
							hangs++
							fail(r, "BreadthFirst did not return within %v", tvCallTimeout)
							continue
						}
						if o.panicked != "" {
							fail(r, "BreadthFirst panicked: %s", o.panicked)
							continue
						}
						if o.leak != "" {
							fail(r, "goroutine leak: %s", o.leak)
						}
						if o.err != nil {
							// a memory-limit error also cuts the traversal short, so the visit log is not compared
							report(r, "BreadthFirst returned %q although what is attached to the path tree never exceeds the memory limit %d (size of the complete tree without detaches; root.SizeOf() afterwards: %d)", o.err, final, o.fin)
							continue
						}
						if missing, extra := tvDiff(o.log, wantP); len(missing) > 0 || len(extra) > 0 {
							fail(r, "visited segments differ from the sequential expansion: lost %v duplicated/foreign %v", missing, extra)
						}
						if o.fin < initial || o.fin > final {
							report(r, "path tree reports %d bytes after the run, outside [%d (the root before the run), %d (complete tree without detaches)]", o.fin, initial, final)
						} else if pr.policy == tvPolTerminalPrune && expansions > 1 && o.fin != rootOwn {
							report(r, "every segment but the root was detached, yet the path tree reports %d bytes, want %d (the root and its branch slice)", o.fin, rootOwn)
						}
					}
				}
				for k := 1; k <= expansions; k++ {
					r := base
					r.rootSeg = k%2 == 0
					r.failAt = int64(k)
					o, ran := run(r)
					if !ran {
						continue
					}
					if common(r, o, want, false) {
						if o.err == nil || !errors.Is(o.err, tvErrInjected) {
							fail(r, "BreadthFirst returned %v, want the error returned by driver invocation %d", o.err, k)
						}
						if o.logLen < k {
							fail(r, "only %d driver invocations logged although invocation %d failed", o.logLen, k)
						}
						if workers == 1 && o.logLen != k {
							fail(r, "single worker kept expanding after the first error: %d driver invocations, error injected at invocation %d", o.logLen, k)
						}
					}
				}
				for k := 0; k <= expansions; k++ {
					r := base
					r.rootSeg = k%2 == 1
					r.cancelAt = int64(k)
					if k == 0 {
						r.cancelAt = -1
					}
					o, ran := run(r)
					if !ran {
						continue
					}
					if common(r, o, want, false) {
						if o.err != nil && !tvIsCtxErr(o.err) {
							fail(r, "BreadthFirst returned %q after cancellation, want nil or a context error", o.err)
						}
					}
				}
			}
		}
	}
	// 4. plan without a root
	{
		g := tvBuild(n, pairs, 0)
		r := tvRun{g: g, workers: 2}
		before := runtime.NumGoroutine()
		cases++
		err := New(tvDB{}, 2).BreadthFirst(context.Background(), Plan{Driver: func(ctx context.Context, tx graph.Transaction, segment *graph.PathSegment) ([]*graph.PathSegment, error) {
			return nil, nil
		}})
		if err == nil {
			fail(r, "Plan without Root and RootSegment: BreadthFirst returned nil, want an error")
		}
		if now, ok := tvSettleGoroutines(before); !ok {
			fail(r, "Plan without Root and RootSegment: goroutine leak (%d before, %d after)", before, now)
		}
	}

	// 5. (X1, X2) extension classes that do not depend on the digraph enumeration
	extFailed := 0
	failNow := func(class, msg string) {
		if class != "" && ext.known[class] {
			ext.hit(class, msg)
			return
		}
		// the extension may add up to 3 failure strings of its own (at most 8 in all)
		if extFailed < 3 && len(failures) < 8 {
			failures = append(failures, msg)
		}
		extFailed++
		failed++
	}
	trials, seqLen, maxSegments := 2000, 5, 6
	if os.Getenv("VERIF_BOUND") == "2" {
		trials, seqLen, maxSegments = 20000, 6, 7
	}
	t0 := time.Now()
	tvSizeAccounting(ext, maxSegments, 3, failNow)
	t1 := time.Now()
	tvSequentialSkipLimit(ext, seqLen, failNow)
	t2 := time.Now()
	tvConcurrentSkipLimit(ext, trials, failNow)
	extSeconds := map[string]float64{"size_accounting": t1.Sub(t0).Seconds(), "sequential_filter": t2.Sub(t1).Seconds(), "concurrent_filter_and_counter": time.Since(t2).Seconds()}
	for _, c := range ext.sub {
		cases += c
	}
	cases -= ext.sub["breadthfirst_detaching_driver_runs"] + ext.sub["size_accounting_trees"] // already counted / not a case

	faultDesc := "on all graphs"
	if faultSample >= 0 {
		faultDesc = fmt.Sprintf("on %d graphs drawn from VERIF_SEED", faultSample)
	}
	res := map[string]any{
		"name": "traversal",
		"bound": fmt.Sprintf("all digraphs on %d nodes (self loops: %v) x every root x depth<=%d x workers %v x {Root,RootSegment}; memory limits {initial-1, mid, final-1, final}; driver error / context cancellation at every driver invocation k %s",
			n, selfLoops, depth, workerCounts, faultDesc) +
			fmt.Sprintf("; X17: detaching drivers (filter-detach(S), terminal-detach, terminal-prune, trunk-detach(S), S every non-empty node subset) under memory limit = complete tree, %s; all trees with <= %d segments in every creation order x all sequences of <= 3 Detach calls; FilteredSkipLimit sequentially on all filter answer sequences of length <= %d x skip,limit in 0..2; FilteredSkipLimit and atomics.NewCounter[uint32|uint64] shared by W in {1,2,8} goroutines behind a start barrier, skip in {0,1,W}, limit/maximum in {0,1,W-1,W,W+1}, %d trials per configuration", faultDesc, maxSegments, seqLen, trials),
		"graphs":                  total,
		"cases":                   cases,
		"cases_by_extension":      ext.sub,
		"seconds_by_extension":    extSeconds,
		"failed":                  failed,
		"exhaustive":              hangs <= 3,
		"failures":                failures,
		"known_deviation_classes": tvSortedKeys(ext.known),
		"known_deviation_hits":    ext.hits,
		"deviation_examples":      ext.examples,
	}
	out, _ := json.Marshal(res)
	fmt.Println("BOUNDED-RESULT " + string(out))
	if failed > 0 {
		t.Fail()
	}
}
