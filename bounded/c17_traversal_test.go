package traversal

// Bounded stand-in for C17, parallel breadth-first part (labelled bounded, never counted as proved).
//
// ENUMERATED: ALL digraphs on n nodes (VERIF_BOUND "1": n=3 with self loops = 512 graphs, depth bound 3,
// workers {1,2,4}; "2": n=4 without self loops = 4096 graphs, depth bound 4, workers {1,2,3,8}) x every
// node as root x every worker count x both ways of naming the root (Plan.Root / Plan.RootSegment).
// The driver is a harness function that expands the in-memory digraph: the children of a segment are
// the out-neighbours of its node (through PathSegment.Descend, serialised by a mutex so that the path
// tree size is exact), cut at the depth bound so that cyclic graphs terminate. Every driver invocation
// is written to a thread-safe visit log as the node-id path from the root. Scheduling is additionally
// perturbed by runtime.Gosched() calls at positions derived from VERIF_SEED (order only, never coverage).
// Fault injection (bound "1": on ALL graphs; bound "2": on 400 graphs drawn from VERIF_SEED), for every
// root and worker count and every k in 1..(number of segments of the sequential expansion):
//   error:   the k-th driver invocation (counted atomically) returns a sentinel error;
//   cancel:  the k-th driver invocation cancels the context given to BreadthFirst and then carries on
//            (k=0: the context is cancelled before the call).
// Memory limit (Transaction.GraphQueryMemoryLimit): for every graph/root/worker count the limits
// {initial-1, (initial+final)/2, final-1, final} where initial/final are the path tree sizes before and
// after an unlimited run.
//
// ORACLE (from the property statement): the multiset of segments handed to the driver equals the
// multiset of walks from the root of length <= depth bound, computed by a plain recursive expansion in
// this file (each walk exactly once: none lost, none duplicated); BreadthFirst returns nil; it returns
// within 10 s; runtime.NumGoroutine() is back to its previous value within 2 s.
//   error at k:  the returned error satisfies errors.Is(err, sentinel); the visit log is a sub-multiset
//                of the sequential one, holds no duplicate and at least k entries; with ONE worker it
//                holds exactly k entries (nothing is expanded after the first error); no goroutine left.
//   cancel at k: BreadthFirst carries no documentation of its own; the code comments ("Actively cancel
//                the traversal context to force any idle workers to join and exit") and the filter on
//                context.Canceled / graph.ErrContextTimedOut show that cancellation is not reported as
//                an error, so nil is the documented outcome; a context error (errors.Is Canceled /
//                DeadlineExceeded / graph.ErrContextTimedOut) is accepted as well, anything else is a
//                failure. Returns within the timeout, no duplicate, sub-multiset, no goroutine left.
//   memory:      limit < initial size: error that Is ops.ErrGraphQueryMemoryLimit (all worker counts);
//                limit >= final size: nil and the complete multiset; limit < final size with ONE worker:
//                error (the tree is complete before the last segment is taken); otherwise either nil with
//                the complete multiset or the memory error with a duplicate-free sub-multiset.
//   no root:     Plan{} without Root and RootSegment returns an error and leaves no goroutine.

import (
	"context"
	"encoding/json"
	"errors"
	"fmt"
	"math/rand"
	"os"
	"runtime"
	"sort"
	"strconv"
	"strings"
	"sync"
	"sync/atomic"
	"testing"
	"time"

	"github.com/specterops/dawgs/graph"
	"github.com/specterops/dawgs/ops"
	"github.com/specterops/dawgs/util/size"
)

// tvKnownDeviations lists inputs for which the unchanged tree violates the oracle (none found).
var tvKnownDeviations = map[string]bool{}

const (
	tvCallTimeout = 10 * time.Second
	tvSettle      = 2 * time.Second
)

var tvErrInjected = errors.New("verif injected driver failure")

type tvTx struct {
	graph.Transaction // nil: BreadthFirst itself must only ask for the memory limit
	limit             size.Size
}

func (s tvTx) GraphQueryMemoryLimit() size.Size { return s.limit }

type tvDB struct {
	graph.Database
	limit size.Size
}

func (s tvDB) ReadTransaction(ctx context.Context, txDelegate graph.TransactionDelegate, options ...graph.TransactionOption) error {
	return txDelegate(tvTx{limit: s.limit})
}

type tvGraph struct {
	n     int
	adj   [][]int // adj[i] = sorted out-neighbours of node index i
	nodes []*graph.Node
	desc  string
}

func tvNodeID(i int) graph.ID { return graph.ID(10 + 7*i) }

func tvBuild(n int, pairs [][2]int, mask int) *tvGraph {
	g := &tvGraph{n: n, adj: make([][]int, n)}
	var sb strings.Builder
	for i, p := range pairs {
		if mask&(1<<uint(i)) != 0 {
			g.adj[p[0]] = append(g.adj[p[0]], p[1])
			fmt.Fprintf(&sb, "%d>%d ", p[0], p[1])
		}
	}
	for i := 0; i < n; i++ {
		g.nodes = append(g.nodes, graph.NewNode(tvNodeID(i), nil, graph.StringKind("n")))
	}
	g.desc = fmt.Sprintf("n=%d edges=[%s]", n, strings.TrimSpace(sb.String()))
	return g
}

// tvSequential is the oracle: all walks from root of length <= depth, as index paths "0>2>1".
func tvSequential(g *tvGraph, root, depth int) map[string]int {
	out := map[string]int{}
	var rec func(path []int)
	rec = func(path []int) {
		out[tvKey(path)]++
		if len(path)-1 >= depth {
			return
		}
		for _, v := range g.adj[path[len(path)-1]] {
			rec(append(append([]int{}, path...), v))
		}
	}
	rec([]int{root})
	return out
}

func tvKey(path []int) string {
	parts := make([]string, len(path))
	for i, p := range path {
		parts[i] = strconv.Itoa(p)
	}
	return strings.Join(parts, ">")
}

type tvRun struct {
	g        *tvGraph
	root     int
	depth    int
	workers  int
	rootSeg  bool
	failAt   int64 // k-th invocation returns tvErrInjected (0: never)
	cancelAt int64 // k-th invocation cancels the caller's context (0: never, -1: before the call)
	limit    size.Size
	salt     uint32
}

func (r tvRun) String() string {
	return fmt.Sprintf("%s root=%d depth<=%d workers=%d rootSegment=%v failAt=%d cancelAt=%d memLimit=%d", r.g.desc, r.root, r.depth, r.workers, r.rootSeg, r.failAt, r.cancelAt, r.limit)
}

type tvOutcome struct {
	err          error
	hung         bool
	panicked     string
	log          map[string]int
	logLen       int
	leak         string
	initial, fin size.Size
}

func tvSettleGoroutines(before int) (int, bool) {
	deadline := time.Now().Add(tvSettle)
	for i := 0; ; i++ {
		now := runtime.NumGoroutine()
		if now <= before {
			return now, true
		}
		if time.Now().After(deadline) {
			return now, false
		}
		if i < 200 {
			runtime.Gosched()
		} else {
			time.Sleep(200 * time.Microsecond)
		}
	}
}

func tvExecute(r tvRun) tvOutcome {
	var (
		out         = tvOutcome{}
		visitLog    = map[string]int{}
		visitLen    = 0
		logLock     sync.Mutex
		descendLock sync.Mutex
		invocations atomic.Int64
		idx         = map[graph.ID]int{}
		nextEdgeID  atomic.Int64
		ctx, cancel = context.WithCancel(context.Background())
		rootSegment = graph.NewRootPathSegment(r.g.nodes[r.root])
		edgeKind    = graph.StringKind("e")
	)
	defer cancel()
	for i := range r.g.nodes {
		idx[tvNodeID(i)] = i
	}
	driver := func(dctx context.Context, tx graph.Transaction, segment *graph.PathSegment) ([]*graph.PathSegment, error) {
		var path []int
		for cursor := segment; cursor != nil; cursor = cursor.Trunk {
			path = append(path, idx[cursor.Node.ID])
		}
		for i, j := 0, len(path)-1; i < j; i, j = i+1, j-1 {
			path[i], path[j] = path[j], path[i]
		}
		key := tvKey(path)
		logLock.Lock()
		visitLog[key]++
		visitLen++
		logLock.Unlock()
		k := invocations.Add(1)
		h := r.salt
		for _, p := range path {
			h = h*31 + uint32(p) + 7
		}
		if h%3 == 0 {
			runtime.Gosched()
		}
		if k == r.failAt {
			return nil, tvErrInjected
		}
		if k == r.cancelAt {
			cancel()
		}
		var children []*graph.PathSegment
		if len(path)-1 < r.depth {
			cur := path[len(path)-1]
			descendLock.Lock()
			for _, v := range r.g.adj[cur] {
				rel := graph.NewRelationship(graph.ID(nextEdgeID.Add(1)), tvNodeID(cur), tvNodeID(v), nil, edgeKind)
				children = append(children, segment.Descend(r.g.nodes[v], rel))
			}
			descendLock.Unlock()
		}
		if h%5 == 0 {
			runtime.Gosched()
		}
		return children, nil
	}
	plan := Plan{Driver: driver}
	if r.rootSeg {
		plan.RootSegment = rootSegment
		out.initial = graph.Tree{Root: rootSegment}.SizeOf()
	} else {
		plan.Root = r.g.nodes[r.root]
	}
	if r.cancelAt < 0 {
		cancel()
	}
	before := runtime.NumGoroutine()
	type result struct {
		err      error
		panicked string
	}
	done := make(chan result, 1)
	go func() {
		var res result
		defer func() {
			if p := recover(); p != nil {
				res.panicked = fmt.Sprint(p)
			}
			done <- res
		}()
		res.err = New(tvDB{limit: r.limit}, r.workers).BreadthFirst(ctx, plan)
	}()
	// private copy of the log: a hung or leaked worker could still write to it
	snapshot := func() {
		logLock.Lock()
		out.log = make(map[string]int, len(visitLog))
		for k, v := range visitLog {
			out.log[k] = v
		}
		out.logLen = visitLen
		logLock.Unlock()
	}
	timer := time.NewTimer(tvCallTimeout)
	select {
	case res := <-done:
		timer.Stop()
		out.err, out.panicked = res.err, res.panicked
	case <-timer.C:
		out.hung = true
		cancel()
		snapshot()
		return out
	}
	cancel()
	if now, ok := tvSettleGoroutines(before); !ok {
		out.leak = fmt.Sprintf("%d goroutines before the call, %d still alive %v after it returned", before, now, tvSettle)
	}
	if r.rootSeg {
		descendLock.Lock()
		out.fin = graph.Tree{Root: rootSegment}.SizeOf()
		descendLock.Unlock()
	}
	snapshot()
	return out
}

func tvDiff(got, want map[string]int) (missing, extra []string) {
	for k, w := range want {
		if got[k] < w {
			missing = append(missing, fmt.Sprintf("%s(x%d<x%d)", k, got[k], w))
		}
	}
	for k, g := range got {
		if g > want[k] {
			extra = append(extra, fmt.Sprintf("%s(x%d>x%d)", k, g, want[k]))
		}
	}
	sort.Strings(missing)
	sort.Strings(extra)
	if len(missing) > 6 {
		missing = append(missing[:6], "...")
	}
	if len(extra) > 6 {
		extra = append(extra[:6], "...")
	}
	return
}

func tvIsCtxErr(err error) bool {
	return errors.Is(err, context.Canceled) || errors.Is(err, context.DeadlineExceeded) || errors.Is(err, graph.ErrContextTimedOut)
}

func TestVerifBoundedTraversal(t *testing.T) {
	n, depth, selfLoops, workerCounts, faultSample := 3, 3, true, []int{1, 2, 4}, -1 // -1: all graphs
	if os.Getenv("VERIF_BOUND") == "2" {
		n, depth, selfLoops, workerCounts, faultSample = 4, 4, false, []int{1, 2, 3, 8}, 400
	}
	seed, _ := strconv.ParseInt(os.Getenv("VERIF_SEED"), 10, 64)
	rng := rand.New(rand.NewSource(seed))
	var pairs [][2]int
	for a := 0; a < n; a++ {
		for b := 0; b < n; b++ {
			if a != b || selfLoops {
				pairs = append(pairs, [2]int{a, b})
			}
		}
	}
	total := 1 << uint(len(pairs))
	order := rng.Perm(total) // VERIF_SEED permutes the enumeration order
	inFaultSample := map[int]bool{}
	if faultSample >= 0 {
		for _, m := range rng.Perm(total)[:faultSample] {
			inFaultSample[m] = true
		}
	}

	cases, hangs, failed := 0, 0, 0
	failures := []string{}
	fail := func(r tvRun, format string, args ...any) {
		if tvKnownDeviations[r.String()] {
			return
		}
		if len(failures) < 5 {
			failures = append(failures, r.String()+": "+fmt.Sprintf(format, args...))
		}
		failed++
	}
	// after more than 3 hangs (10 s each) the remaining runs are skipped and the result is not exhaustive
	run := func(r tvRun) (tvOutcome, bool) {
		if hangs > 3 {
			return tvOutcome{}, false
		}
		cases++
		return tvExecute(r), true
	}
	// common checks; returns false when the run cannot be examined further
	common := func(r tvRun, o tvOutcome, want map[string]int, complete bool) bool {
		if o.hung {
			hangs++
			fail(r, "BreadthFirst did not return within %v", tvCallTimeout)
			return false
		}
		if o.panicked != "" {
			fail(r, "BreadthFirst panicked: %s", o.panicked)
			return false
		}
		if o.leak != "" {
			fail(r, "goroutine leak: %s", o.leak)
		}
		missing, extra := tvDiff(o.log, want)
		if len(extra) > 0 {
			fail(r, "segments delivered more often than the sequential expansion yields them (duplicated/foreign): %v", extra)
		}
		if complete && len(missing) > 0 {
			fail(r, "segments of the sequential expansion never delivered (lost): %v", missing)
		}
		return true
	}

	for _, mask := range order {
		if hangs > 3 {
			break
		}
		g := tvBuild(n, pairs, mask)
		for root := 0; root < n; root++ {
			want := tvSequential(g, root, depth)
			expansions := 0
			for _, c := range want {
				expansions += c
			}
			for _, workers := range workerCounts {
				salt := uint32(seed)*2654435761 + uint32(mask*131+root*17+workers)
				base := tvRun{g: g, root: root, depth: depth, workers: workers, salt: salt}
				// 1. plain runs
				var initial, final size.Size
				for _, rootSeg := range []bool{false, true} {
					r := base
					r.rootSeg = rootSeg
					o, ran := run(r)
					if !ran {
						continue
					}
					if !common(r, o, want, true) {
						continue
					}
					if o.err != nil {
						fail(r, "BreadthFirst returned %q, want nil", o.err)
					}
					if rootSeg {
						initial, final = o.initial, o.fin
					}
				}
				// 2. memory limit
				if final > 0 {
					limits := map[size.Size]bool{}
					for _, l := range []size.Size{initial - 1, (initial + final) / 2, final - 1, final} {
						if l > 0 && !limits[l] {
							limits[l] = true
							r := base
							r.rootSeg, r.limit = true, l
							o, ran := run(r)
							if !ran {
								continue
							}
							mustFail := l < initial || (workers == 1 && l < final)
							mustPass := l >= final
							if !common(r, o, want, o.err == nil) {
								continue
							}
							switch {
							case o.err == nil && mustFail:
								fail(r, "BreadthFirst returned nil although the path tree (initial %d, final %d bytes) exceeds the memory limit %d", initial, final, l)
							case o.err != nil && mustPass:
								fail(r, "BreadthFirst returned %q although the final path tree size %d does not exceed the limit %d", o.err, final, l)
							case o.err != nil && !errors.Is(o.err, ops.ErrGraphQueryMemoryLimit):
								fail(r, "BreadthFirst returned %q, want an error wrapping ops.ErrGraphQueryMemoryLimit", o.err)
							}
						}
					}
				}
				// 3. fault injection
				if faultSample >= 0 && !inFaultSample[mask] {
					continue
				}
				for k := 1; k <= expansions; k++ {
					r := base
					r.rootSeg = k%2 == 0
					r.failAt = int64(k)
					o, ran := run(r)
					if !ran {
						continue
					}
					if common(r, o, want, false) {
						if o.err == nil || !errors.Is(o.err, tvErrInjected) {
							fail(r, "BreadthFirst returned %v, want the error returned by driver invocation %d", o.err, k)
						}
						if o.logLen < k {
							fail(r, "only %d driver invocations logged although invocation %d failed", o.logLen, k)
						}
						if workers == 1 && o.logLen != k {
							fail(r, "single worker kept expanding after the first error: %d driver invocations, error injected at invocation %d", o.logLen, k)
						}
					}
				}
				for k := 0; k <= expansions; k++ {
					r := base
					r.rootSeg = k%2 == 1
					r.cancelAt = int64(k)
					if k == 0 {
						r.cancelAt = -1
					}
					o, ran := run(r)
					if !ran {
						continue
					}
					if common(r, o, want, false) {
						if o.err != nil && !tvIsCtxErr(o.err) {
							fail(r, "BreadthFirst returned %q after cancellation, want nil or a context error", o.err)
						}
					}
				}
			}
		}
	}
	// 4. plan without a root
	{
		g := tvBuild(n, pairs, 0)
		r := tvRun{g: g, workers: 2}
		before := runtime.NumGoroutine()
		cases++
		err := New(tvDB{}, 2).BreadthFirst(context.Background(), Plan{Driver: func(ctx context.Context, tx graph.Transaction, segment *graph.PathSegment) ([]*graph.PathSegment, error) {
			return nil, nil
		}})
		if err == nil {
			fail(r, "Plan without Root and RootSegment: BreadthFirst returned nil, want an error")
		}
		if now, ok := tvSettleGoroutines(before); !ok {
			fail(r, "Plan without Root and RootSegment: goroutine leak (%d before, %d after)", before, now)
		}
	}

	faultDesc := "on all graphs"
	if faultSample >= 0 {
		faultDesc = fmt.Sprintf("on %d graphs drawn from VERIF_SEED", faultSample)
	}
	res := map[string]any{
		"name": "traversal",
		"bound": fmt.Sprintf("all digraphs on %d nodes (self loops: %v) x every root x depth<=%d x workers %v x {Root,RootSegment}; memory limits {initial-1, mid, final-1, final}; driver error / context cancellation at every driver invocation k %s",
			n, selfLoops, depth, workerCounts, faultDesc),
		"graphs":     total,
		"cases":      cases,
		"failed":     failed,
		"exhaustive": hangs <= 3,
		"failures":   failures,
	}
	out, _ := json.Marshal(res)
	fmt.Println("BOUNDED-RESULT " + string(out))
	if failed > 0 {
		t.Fail()
	}
}
