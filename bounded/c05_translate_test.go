package test

// Bounded stand-in for C05 and C06 (labelled bounded, never counted as proved), over every query of the
// repository's translation case files (and a family of parameter/variable name collisions):
//  C05  translation never panics; translating the same AST again, and 8 times concurrently against one shared
//       kind mapper, gives byte-identical SQL and equal parameters; the caller's AST and parameter map are
//       unchanged (structural comparison with a copy taken before);
//  C06  consistently renaming user variables, aliases and parameters - to names that collide with generated
//       names (n0, e0, s0, i0, pi0, path, depth), with each other across the variable/parameter namespaces -
//       changes only output aliases and parameter keys, never the rest of the statement, and never turns a
//       translatable query into an error or a crash.

import (
	"context"
	"encoding/json"
	"fmt"
	"math"
	"os"
	"path/filepath"
	"reflect"
	"regexp"
	"strconv"
	"strings"
	"sync"
	"testing"
	"time"

	"github.com/specterops/dawgs/cypher/frontend"
	"github.com/specterops/dawgs/cypher/models/cypher"
	"github.com/specterops/dawgs/cypher/models/pgsql"
	"github.com/specterops/dawgs/cypher/models/pgsql/translate"
	"github.com/specterops/dawgs/cypher/models/walk"
	"github.com/specterops/dawgs/graph"
)

func safeTranslate(model *cypher.RegularQuery, km pgsql.KindMapper, params map[string]any) (sql string, outParams map[string]any, err error, panicked any) {
	defer func() {
		if r := recover(); r != nil {
			panicked = r
		}
	}()
	res, terr := translate.Translate(context.Background(), model, km, params, translate.DefaultGraphID)
	if terr != nil {
		return "", nil, terr, nil
	}
	text, ferr := translate.Translated(res)
	return text, res.Parameters, ferr, nil
}

var userName = regexp.MustCompile(`^[a-z][a-z0-9_]*$`)

// renameSymbols consistently renames every variable symbol and parameter symbol of the model.
func renameSymbols(model *cypher.RegularQuery, vars, params map[string]string) {
	_ = walk.CypherStructural(model, walk.NewSimpleVisitor[cypher.SyntaxNode](func(node cypher.SyntaxNode, _ walk.VisitorHandler) {
		switch t := node.(type) {
		case *cypher.Variable:
			if n, ok := vars[t.Symbol]; ok {
				t.Symbol = n
			}
		case *cypher.Parameter:
			if n, ok := params[t.Symbol]; ok {
				t.Symbol = n
			}
		}
	}))
}

func collectSymbols(model *cypher.RegularQuery) (vars, params []string) {
	seenV, seenP := map[string]bool{}, map[string]bool{}
	_ = walk.CypherStructural(model, walk.NewSimpleVisitor[cypher.SyntaxNode](func(node cypher.SyntaxNode, _ walk.VisitorHandler) {
		switch t := node.(type) {
		case *cypher.Variable:
			if t.Symbol != "" && !seenV[t.Symbol] {
				seenV[t.Symbol] = true
				vars = append(vars, t.Symbol)
			}
		case *cypher.Parameter:
			if t.Symbol != "" && !seenP[t.Symbol] {
				seenP[t.Symbol] = true
				params = append(params, t.Symbol)
			}
		}
	}))
	return
}

// normalise replaces output aliases and parameter keys of the renamed symbols by placeholders so that two
// statements that differ only there compare equal.
func normalise(sql string, names []string) string {
	// every alias position is blanked (user aliases differ by construction; a user name may equal a generated
	// one, so generated aliases are blanked as well); everything else must be identical
	return regexp.MustCompile(`\bas ("[^"]*"|[A-Za-z_][A-Za-z0-9_]*)`).ReplaceAllString(sql, "as <alias>")
}

var wordToken = regexp.MustCompile(`[A-Za-z_][A-Za-z0-9_]*`)

// substOutsideLiterals renames, simultaneously, every whole-word occurrence of a user name outside string
// literals. In the statement translated from the original query user names occur only as output aliases and
// references to them (everything else is generated), so the result is the statement the renamed query must give.
func substOutsideLiterals(sql string, m map[string]string) string {
	parts := strings.Split(sql, "'")
	for i := 0; i < len(parts); i += 2 {
		parts[i] = wordToken.ReplaceAllStringFunc(parts[i], func(w string) string {
			if n, ok := m[w]; ok {
				return n
			}
			return w
		})
	}
	return strings.Join(parts, "'")
}

func composeRenaming(unique, target map[string]string) map[string]string {
	out := map[string]string{}
	for v, u := range unique {
		out[u] = target[v]
	}
	return out
}

// query shapes added to the repository's cases: bindings that cross WITH boundaries (where definitions are
// pruned), path functions, unwind, quantifiers and parameters in the same statement
var extraQueries = []string{
	"match p = (n)-[r]->(m) with collect(n) as l match p = (n)-[]->() where n in l return p",
	"match p = (n)-[r]->(m) with collect(n) as l match q = (n)-[]->() where n in l return length(q), nodes(q), relationships(q)",
	"match p = (n)-[r*1..2]->(m) with n, count(r) as c where c > 1 with collect(n) as l match q = (n)<-[]-(x) where n in l return q, x",
	"match (n) with n as a match (a)-[r]->(b) with b as c match p = (c)-[]->(d) return p, d",
	"unwind [1, 2, 3] as x match (n) where id(n) = x with n, x match (n)-[r]->(m) return n, r, m, x",
	"match (n) where any(x in n.list where x = $v) and n.name = $w return n",
	"match (n)-[r]->(m) where n.name = $a and m.name = $b and type(r) = $c return n, m",
	"match p = shortestPath((n)-[*1..]->(m)) where n.name = $a return p",
	"match (n) optional match (n)-[r]->(m) with n, collect(m) as ms return n, ms",
	// several inline properties per pattern element (map-literal order must not leak into the SQL)
	"match (n:NodeKind1 {name: 'a', objectid: 'b', domain: 'c', enabled: true})-[r:EdgeKind1 {isacl: false, source: $source, weight: 3}]->(g:NodeKind2 {name: 'admins', tier: 0}) return n, r, g",
	"match (n {a: 1, b: 2}) return n",
	"match (n {a: 1, b: 2, c: 3, d: 4, e: 5}) return n.a",
	"match ()-[r {x: 1, y: 'two', z: false}]->() return r",
	"match p = (n {k1: 'v1', k2: 'v2', k3: 'v3'})-[*1..2]->(m {k4: 4, k5: 5}) return p",
	"match (n) where n.props = {a: 1, b: 2, c: 3} return n",
}

// names the translator itself generates (IdentifierGenerator prefixes and fixed column names)
var generatedNames = []string{"n0", "e0", "s0", "i0", "pi0", "path", "depth", "n1", "e1", "s1", "ep0", "ex0", "pc0", "root_id", "next_id", "satisfied", "is_cycle", "kind_ids", "properties", "id"}

func TestVerifBoundedTranslate(t *testing.T) {
	rotations, boundN := 3, 3
	if n, err := strconv.Atoi(os.Getenv("VERIF_BOUND")); err == nil && n > 0 {
		rotations, boundN = min(n, len(generatedNames)), n
	}
	only := os.Getenv("VERIF_PROPERTY") // "C05" / "C06": report that property's failures only
	testCases, err := ReadTranslationTestCases()
	if err != nil {
		t.Fatal(err)
	}
	for _, q := range extraQueries {
		testCases = append(testCases, &TranslationTestCase{Name: "verif extra", Cypher: q})
	}
	km := newKindMapper()
	var failures []string
	fail := func(format string, args ...any) {
		if only != "" && strings.HasPrefix(format, "C0") && !strings.HasPrefix(format, only) {
			return
		}
		if len(failures) < 8 {
			failures = append(failures, fmt.Sprintf(format, args...))
		}
	}
	cases := 0
	parse := func(tc *TranslationTestCase) *cypher.RegularQuery {
		model, err := frontend.ParseCypher(frontend.NewContext(), tc.Cypher)
		if err != nil {
			return nil
		}
		if len(tc.CypherParams) > 0 {
			_ = walk.Cypher(model, walk.NewSimpleVisitor[cypher.SyntaxNode](func(node cypher.SyntaxNode, _ walk.VisitorHandler) {
				if p, ok := node.(*cypher.Parameter); ok {
					if v, has := tc.CypherParams[p.Symbol]; has {
						p.Value = v
					}
				}
			}))
		}
		return model
	}
	for _, tc := range testCases {
		model := parse(tc)
		if model == nil {
			continue
		}
		// ---- C05 ----
		cases++
		before := cypher.Copy(model)
		params := map[string]any{"caller": "value"}
		sql1, p1, err1, pan := safeTranslate(model, km, params)
		if pan != nil {
			fail("C05 panic translating %q: %v", tc.Cypher, pan)
			continue
		}
		if !reflect.DeepEqual(before, model) {
			fail("C05 translation changed the caller's AST for %q", tc.Cypher)
		}
		if len(params) != 1 || params["caller"] != "value" {
			fail("C05 translation changed the caller's parameter map for %q", tc.Cypher)
		}
		sql2, p2, err2, _ := safeTranslate(model, km, params)
		if (err1 == nil) != (err2 == nil) || sql1 != sql2 || !reflect.DeepEqual(p1, p2) {
			fail("C05 repeated translation differs for %q", tc.Cypher)
		}
		for rep := 0; rep < 6 && err1 == nil; rep++ {
			if sqlN, pN, errN, _ := safeTranslate(model, km, params); errN != nil || sqlN != sql1 || !reflect.DeepEqual(p1, pN) {
				fail("C05 repeated translation differs for %q (repetition %d)", tc.Cypher, rep+3)
				break
			}
		}
		var wg sync.WaitGroup
		results := make([]string, 8)
		for i := range results {
			wg.Add(1)
			go func(i int) {
				defer wg.Done()
				s, _, _, _ := safeTranslate(cypher.Copy(model), km, nil)
				results[i] = s
			}(i)
		}
		wg.Wait()
		for _, s := range results {
			if s != sql1 {
				fail("C05 concurrent translation differs for %q", tc.Cypher)
				break
			}
		}
		if err1 != nil {
			continue
		}
		// ---- C06 ----
		vars, prms := collectSymbols(model)
		var plainVars []string
		for _, v := range vars {
			if userName.MatchString(v) {
				plainVars = append(plainVars, v)
			}
		}
		renamings := []func(i int, old string) string{
			func(i int, old string) string { return fmt.Sprintf("zz%dq", i) },
		}
		for rot := 0; rot < rotations; rot++ {
			rot := rot
			renamings = append(renamings, func(i int, old string) string { return generatedNames[(i+rot)%len(generatedNames)] })
		}
		sqlZ, vmZ := "", map[string]string{}
		for ri, rn := range renamings {
			cases++
			vm, pm := map[string]string{}, map[string]string{}
			back := map[string]string{}
			for i, v := range plainVars {
				vm[v] = rn(i, v)
				back[vm[v]] = v
			}
			for i, p := range prms {
				if ri == 0 {
					pm[p] = "prm" + fmt.Sprint(i)
				} else {
					// parameters get generated-looking names too, and share them with the variables
					pm[p] = generatedNames[(i+ri)%len(generatedNames)]
				}
			}
			if len(vm) == 0 && len(pm) == 0 {
				continue
			}
			renamed := cypher.Copy(model)
			renameSymbols(renamed, vm, pm)
			sqlR, _, errR, panR := safeTranslate(renamed, km, nil)
			if panR != nil {
				fail("C06 renaming %d makes %q panic: %v", ri, tc.Cypher, panR)
				continue
			}
			if errR != nil {
				fail("C06 renaming %v turns the translatable query %q into an error: %v", vm, tc.Cypher, errR)
				continue
			}
			if ri == 0 {
				sqlZ, vmZ = sqlR, vm
				// fresh names are unique: mapping them back must give exactly the original statement
				got := sqlR
				for nn, old := range back {
					got = regexp.MustCompile(`\b`+regexp.QuoteMeta(nn)+`\b`).ReplaceAllString(got, old)
				}
				if got != sql1 {
					fail("C06 renaming %v changes more than the user's names for %q:\n  %s\n  %s", vm, tc.Cypher, sql1, got)
				}
			} else if sqlZ == "" {
				continue
			} else if compose := composeRenaming(vmZ, vm); substOutsideLiterals(sqlZ, compose) != sqlR {
				fail("C06 renaming %v to generated-looking names changes more than output aliases for %q:\n  %s\n  %s", vm, tc.Cypher, substOutsideLiterals(sqlZ, compose), sqlR)
			}
		}
		// a parameter named like a variable of the query
		if len(plainVars) > 0 && len(prms) > 0 {
			cases++
			renamed := cypher.Copy(model)
			renameSymbols(renamed, nil, map[string]string{prms[0]: plainVars[0]})
			_, _, errR, panR := safeTranslate(renamed, km, nil)
			if panR != nil {
				fail("C06 a parameter named like variable %q makes %q panic: %v", plainVars[0], tc.Cypher, panR)
			} else if errR != nil {
				fail("C06 a parameter named like variable %q turns %q into an error: %v", plainVars[0], tc.Cypher, errR)
			}
		}
	}
	// ---- C05 on shapes the translator may not support: every string of the parser fixtures that parses ----
	corpus := 0
	for _, f := range []string{"positive_tests.json", "mutation_tests.json", "filtering_tests.json", "negative_tests.json"} {
		raw, err := os.ReadFile(filepath.Join("..", "..", "..", "test", "cases", f))
		if err != nil {
			fail("cannot read parser fixture %s: %v", f, err)
			continue
		}
		var doc any
		if err := json.Unmarshal(raw, &doc); err != nil {
			fail("cannot decode parser fixture %s: %v", f, err)
			continue
		}
		var visit func(v any)
		visit = func(v any) {
			switch t := v.(type) {
			case map[string]any:
				for _, c := range t {
					visit(c)
				}
			case []any:
				for _, c := range t {
					visit(c)
				}
			case string:
				model, err := frontend.ParseCypher(frontend.NewContext(), t)
				if err != nil || model == nil {
					return
				}
				corpus++
				cases++
				before := cypher.Copy(model)
				sqlA, pA, errA, pan := safeTranslate(model, km, nil)
				if pan != nil {
					fail("C05 panic translating %q: %v", t, pan)
					return
				}
				if !reflect.DeepEqual(before, model) {
					fail("C05 translation changed the caller's AST for %q", t)
				}
				sqlB, pB, errB, _ := safeTranslate(model, km, nil)
				if (errA == nil) != (errB == nil) || sqlA != sqlB || !reflect.DeepEqual(pA, pB) {
					fail("C05 repeated translation differs for %q", t)
				}
			}
		}
		visit(doc)
	}
	if corpus < 100 {
		fail("parser fixtures gave only %d parsable queries", corpus)
	}
	// the minimal collision
	cases++
	if m, err := frontend.ParseCypher(frontend.NewContext(), "match (n) where n.name = $n return n"); err == nil {
		if _, _, terr, pan := safeTranslate(m, km, nil); pan != nil || terr != nil {
			fail("C06 'match (n) where n.name = $n return n': panic=%v err=%v", pan, terr)
		}
	}
	// ---- extension classes (see the comment block below the test) ----
	x := &vxState{fail: fail, known: map[string]bool{}, hits: map[string]int{}, cases: &cases, km: km, bound: boundN, counts: map[string]int{}}
	for _, name := range strings.Split(os.Getenv("VERIF_KNOWN"), "|") {
		if name = strings.TrimSpace(name); name != "" {
			x.known[name] = true
		}
	}
	x.seed, _ = strconv.ParseInt(os.Getenv("VERIF_SEED"), 10, 64)
	extBound := vxRunExtension(x)
	res := map[string]any{"name": "translate", "bound": fmt.Sprintf("%d translation case queries x {repeat, 8 concurrent, %d renamings, parameter/variable collision} + %d parser fixture queries x {no panic, repeat, AST unchanged} + %s", len(testCases), rotations+1, corpus, extBound), "cases": cases, "exhaustive": false, "failures": failures, "known_deviation_hits": x.hits}
	out, _ := json.Marshal(res)
	fmt.Println("BOUNDED-RESULT " + strings.ReplaceAll(string(out), "\\n", " "))
	if len(failures) > 0 {
		t.Fail()
	}
}

// =====================================================================================================================
// Extension (input classes that were blind spots of the harness above)
//
//  1. param-*     (C05) parameter values of every Go type and boundary value, through the caller's parameter map and
//                 through Parameter.Value of the AST, in comparison, IN, property-map and pattern-property positions:
//                 a result or an error, never a panic or a hang; the caller's map and every nested map/slice in it
//                 (up to the capacity of every slice, and the backing array of zero-length subslices) are unchanged;
//                 repeating the call gives the same SQL and equal parameters.
//  2. history-*   (C05) for every ordered pair (q1, q2) of a pool that mixes failing and succeeding queries and the
//                 three formatting entry points (Translate+Translated, FromCypher keeping / stripping literals) the
//                 output of q2 after q1 is byte-identical to the output of q2 run FIRST in a FRESH PROCESS (the
//                 reference outputs come from child processes of this test binary, one per pool item); the same for
//                 8 goroutines running the pool in different orders against ONE kind mapper and shared parameter maps.
//  3. names-*     (C06) variables, aliases and UNWIND targets spelled with backticks (names with '$', names equal to a
//                 parameter's name with and without '$', names equal to generated identifiers) and names that differ
//                 only in letter case: the statement must equal, up to ONE consistent spelling of every user name,
//                 the statement of the twin query with fresh harmless names.
//  4. orderby-*   (C06) aliases reused as ORDER BY keys before and after WITH, equal to generated names.
//
// Known-deviation classes (env VERIF_KNOWN, "|"-separated) are counted under "known_deviation_hits" instead of
// "failures"; nothing is suppressed in the code.
// =====================================================================================================================

const vxCallLimit = 30 * time.Second

type vxState struct {
	fail   func(format string, args ...any)
	known  map[string]bool
	hits   map[string]int
	cases  *int
	km     pgsql.KindMapper
	bound  int
	seed   int64
	counts map[string]int
}

// deviation reports a violation of the oracle for an input of the named class.
func (x *vxState) deviation(class, format string, args ...any) {
	if x.known[class] {
		x.hits[class]++
		return
	}
	x.fail(format+" [class "+class+"]", args...)
}

func vxTimedTranslate(model *cypher.RegularQuery, km pgsql.KindMapper, params map[string]any) (sql string, out map[string]any, err error, pan any, hung bool) {
	type result struct {
		sql string
		out map[string]any
		err error
		pan any
	}
	ch := make(chan result, 1)
	go func() {
		s, o, e, p := safeTranslate(model, km, params)
		ch <- result{s, o, e, p}
	}()
	select {
	case r := <-ch:
		return r.sql, r.out, r.err, r.pan, false
	case <-time.After(vxCallLimit):
		return "", nil, nil, nil, true
	}
}

// vxSame is reflect.DeepEqual with three differences: floating point numbers are compared by their bits (NaN equals
// itself, 0 differs from -0), slices are compared up to their CAPACITY (an append into spare capacity is a change),
// and functions / channels are compared by identity.
func vxSame(a, b any) bool {
	return vxSameValue(reflect.ValueOf(a), reflect.ValueOf(b), 0)
}

func vxSameValue(a, b reflect.Value, depth int) bool {
	if a.IsValid() != b.IsValid() {
		return false
	}
	if !a.IsValid() {
		return true
	}
	if a.Type() != b.Type() {
		return false
	}
	if depth > 200 {
		return true // cyclic value: compared down to depth 200
	}
	switch a.Kind() {
	case reflect.Bool:
		return a.Bool() == b.Bool()
	case reflect.Int, reflect.Int8, reflect.Int16, reflect.Int32, reflect.Int64:
		return a.Int() == b.Int()
	case reflect.Uint, reflect.Uint8, reflect.Uint16, reflect.Uint32, reflect.Uint64, reflect.Uintptr:
		return a.Uint() == b.Uint()
	case reflect.Float32, reflect.Float64:
		return math.Float64bits(a.Float()) == math.Float64bits(b.Float())
	case reflect.Complex64, reflect.Complex128:
		ca, cb := a.Complex(), b.Complex()
		return math.Float64bits(real(ca)) == math.Float64bits(real(cb)) && math.Float64bits(imag(ca)) == math.Float64bits(imag(cb))
	case reflect.String:
		return a.String() == b.String()
	case reflect.Interface, reflect.Pointer:
		if a.IsNil() || b.IsNil() {
			return a.IsNil() == b.IsNil()
		}
		return vxSameValue(a.Elem(), b.Elem(), depth+1)
	case reflect.Slice:
		if a.IsNil() != b.IsNil() || a.Len() != b.Len() {
			return false
		}
		n := min(a.Cap(), b.Cap())
		if n > a.Len() {
			a, b = a.Slice(0, n), b.Slice(0, n)
		}
		for i := 0; i < a.Len(); i++ {
			if !vxSameValue(a.Index(i), b.Index(i), depth+1) {
				return false
			}
		}
		return true
	case reflect.Array:
		for i := 0; i < a.Len(); i++ {
			if !vxSameValue(a.Index(i), b.Index(i), depth+1) {
				return false
			}
		}
		return true
	case reflect.Map:
		if a.IsNil() != b.IsNil() || a.Len() != b.Len() {
			return false
		}
		iter := a.MapRange()
		for iter.Next() {
			other := b.MapIndex(iter.Key())
			if !other.IsValid() || !vxSameValue(iter.Value(), other, depth+1) {
				return false
			}
		}
		return true
	case reflect.Struct:
		for i := 0; i < a.NumField(); i++ {
			if !vxSameValue(a.Field(i), b.Field(i), depth+1) {
				return false
			}
		}
		return true
	case reflect.Func, reflect.Chan, reflect.UnsafePointer:
		return a.Pointer() == b.Pointer()
	}
	return false
}

// ---- class 1: parameter values ----

type vxParamValue struct {
	name string
	// mk builds the value afresh on every call (the second call is the independent deep copy taken "before");
	// witness is additional state that must not change either (the backing array of a zero-length subslice)
	mk func() (val any, witness any)
}

var (
	vxChan = make(chan int)
	vxFunc = func() {}
)

func vxV(name string, f func() any) vxParamValue {
	return vxParamValue{name: name, mk: func() (any, any) { return f(), nil }}
}

func vxParamValues() []vxParamValue {
	vals := []vxParamValue{
		// nil and scalars
		vxV("nil", func() any { return nil }),
		vxV(`""`, func() any { return "" }),
		vxV(`"x"`, func() any { return "x" }),
		vxV(`"it's"`, func() any { return "it's" }),
		vxV(`"\x00"`, func() any { return "\x00" }),
		vxV(`"$p"`, func() any { return "$p" }),
		vxV("true", func() any { return true }),
		vxV("false", func() any { return false }),
		// numbers at the integer limits
		vxV("int(0)", func() any { return int(0) }),
		vxV("int(MaxInt)", func() any { return int(math.MaxInt) }),
		vxV("int(MinInt)", func() any { return int(math.MinInt) }),
		vxV("int64(MaxInt64)", func() any { return int64(math.MaxInt64) }),
		vxV("int64(MinInt64)", func() any { return int64(math.MinInt64) }),
		vxV("int32(MaxInt32)", func() any { return int32(math.MaxInt32) }),
		vxV("int32(MinInt32)", func() any { return int32(math.MinInt32) }),
		vxV("int16(MaxInt16)", func() any { return int16(math.MaxInt16) }),
		vxV("int16(MinInt16)", func() any { return int16(math.MinInt16) }),
		vxV("int8(MaxInt8)", func() any { return int8(math.MaxInt8) }),
		vxV("int8(MinInt8)", func() any { return int8(math.MinInt8) }),
		vxV("uint8(255)", func() any { return uint8(math.MaxUint8) }),
		vxV("uint16(MaxUint16)", func() any { return uint16(math.MaxUint16) }),
		vxV("uint32(MaxUint32)", func() any { return uint32(math.MaxUint32) }),
		vxV("uint64(MaxUint64)", func() any { return uint64(math.MaxUint64) }),
		vxV("uint(MaxUint)", func() any { return uint(math.MaxUint) }),
		vxV("uintptr(0)", func() any { return uintptr(0) }),
		vxV("graph.ID(0)", func() any { return graph.ID(0) }),
		vxV("graph.ID(MaxUint64)", func() any { return graph.ID(math.MaxUint64) }),
		// floats
		vxV("NaN", func() any { return math.NaN() }),
		vxV("+Inf", func() any { return math.Inf(1) }),
		vxV("-Inf", func() any { return math.Inf(-1) }),
		vxV("-0.0", func() any { return math.Copysign(0, -1) }),
		vxV("MaxFloat64", func() any { return math.MaxFloat64 }),
		vxV("SmallestNonzeroFloat64", func() any { return math.SmallestNonzeroFloat64 }),
		vxV("float32(NaN)", func() any { return float32(math.NaN()) }),
		vxV("float32(+Inf)", func() any { return float32(math.Inf(1)) }),
		vxV("float32(MaxFloat32)", func() any { return float32(math.MaxFloat32) }),
		vxV("complex128", func() any { return complex(math.NaN(), 1) }),
		// empty non-nil slices of every element type
		vxV("[]any{}", func() any { return []any{} }),
		vxV("[]string{}", func() any { return []string{} }),
		vxV("[]int{}", func() any { return []int{} }),
		vxV("[]int8{}", func() any { return []int8{} }),
		vxV("[]int16{}", func() any { return []int16{} }),
		vxV("[]int32{}", func() any { return []int32{} }),
		vxV("[]int64{}", func() any { return []int64{} }),
		vxV("[]uint{}", func() any { return []uint{} }),
		vxV("[]uint8{}", func() any { return []uint8{} }),
		vxV("[]uint16{}", func() any { return []uint16{} }),
		vxV("[]uint32{}", func() any { return []uint32{} }),
		vxV("[]uint64{}", func() any { return []uint64{} }),
		vxV("[]float32{}", func() any { return []float32{} }),
		vxV("[]float64{}", func() any { return []float64{} }),
		vxV("[]bool{}", func() any { return []bool{} }),
		vxV("[]graph.ID{}", func() any { return []graph.ID{} }),
		vxV("graph.Kinds{}", func() any { return graph.Kinds{} }),
		vxV("[]map[string]any{}", func() any { return []map[string]any{} }),
		vxV("[][]any{}", func() any { return [][]any{} }),
		vxV("[][]string{}", func() any { return [][]string{} }),
		vxV("[]time.Time{}", func() any { return []time.Time{} }),
		vxV("make([]string,0,4)", func() any { return make([]string, 0, 4) }),
		vxV("make([]any,0,4)", func() any { return make([]any, 0, 4) }),
		// nil slices
		vxV("[]any(nil)", func() any { return []any(nil) }),
		vxV("[]string(nil)", func() any { return []string(nil) }),
		vxV("[]int64(nil)", func() any { return []int64(nil) }),
		vxV("graph.Kinds(nil)", func() any { return graph.Kinds(nil) }),
		vxV("[]byte(nil)", func() any { return []byte(nil) }),
		// non-empty slices, homogeneous and not
		vxV(`[]string{"a",""}`, func() any { return []string{"a", ""} }),
		vxV("[]int64{Min,Max}", func() any { return []int64{math.MinInt64, math.MaxInt64} }),
		vxV("[]uint64{Max}", func() any { return []uint64{math.MaxUint64} }),
		vxV("[]float64{NaN,Inf}", func() any { return []float64{math.NaN(), math.Inf(1)} }),
		vxV("[]graph.ID{Max}", func() any { return []graph.ID{graph.ID(math.MaxUint64)} }),
		vxV(`[]any{"a","b"}`, func() any { return []any{"a", "b"} }),
		vxV(`[]any{int64(1),"a"}`, func() any { return []any{int64(1), "a"} }),
		vxV("[]any{nil}", func() any { return []any{nil} }),
		vxV(`[]any{nil,"a"}`, func() any { return []any{nil, "a"} }),
		vxV(`[]any{"a",nil}`, func() any { return []any{"a", nil} }),
		vxV("[]any{NaN}", func() any { return []any{math.NaN()} }),
		vxV("[]any{chan}", func() any { return []any{vxChan} }),
		// nested empty slices
		vxV("[]any{[]any{}}", func() any { return []any{[]any{}} }),
		vxV("[]any{[]any{},[]any{}}", func() any { return []any{[]any{}, []any{}} }),
		vxV("[]any{[]string{}}", func() any { return []any{[]string{}} }),
		vxV("[]any{[]any{[]any{}}}", func() any { return []any{[]any{[]any{}}} }),
		vxV("[][]any{{}}", func() any { return [][]any{{}} }),
		vxV("[][]string{{},nil}", func() any { return [][]string{{}, nil} }),
		vxV("[]any{[]any(nil)}", func() any { return []any{[]any(nil)} }),
		vxV("[]any{map[string]any{}}", func() any { return []any{map[string]any{}} }),
		vxV("[]map[string]any{nil,{}}", func() any { return []map[string]any{nil, {}} }),
		// maps
		vxV("map[string]any{}", func() any { return map[string]any{} }),
		vxV("map[string]any(nil)", func() any { return map[string]any(nil) }),
		vxV(`map[string]any{"a":nil}`, func() any { return map[string]any{"a": nil} }),
		vxV(`map[string]any{"a":map[string]any{}}`, func() any { return map[string]any{"a": map[string]any{}} }),
		vxV(`map[string]any{"a":map[string]any{"b":nil}}`, func() any { return map[string]any{"a": map[string]any{"b": nil}} }),
		vxV(`map[string]any{"a":[]any{}}`, func() any { return map[string]any{"a": []any{}} }),
		vxV(`map[string]any{"a":[]any{nil}}`, func() any { return map[string]any{"a": []any{nil}} }),
		vxV(`map[string]any{"a":[]any(nil)}`, func() any { return map[string]any{"a": []any(nil)} }),
		vxV(`map[string]any{"a":[]string(nil)}`, func() any { return map[string]any{"a": []string(nil)} }),
		vxV(`map[string]any{"a":map[string]any{"b":[]string(nil)}}`, func() any { return map[string]any{"a": map[string]any{"b": []string(nil)}} }),
		vxV(`map[string]any{"":""}`, func() any { return map[string]any{"": ""} }),
		vxV(`map[string]any{"a":NaN}`, func() any { return map[string]any{"a": math.NaN()} }),
		vxV(`map[string]any{"a":+Inf}`, func() any { return map[string]any{"a": math.Inf(1)} }),
		vxV(`map[string]any{"a":MaxUint64}`, func() any { return map[string]any{"a": uint64(math.MaxUint64)} }),
		vxV(`map[string]any{"a":chan}`, func() any { return map[string]any{"a": vxChan} }),
		vxV(`map[string]any{"a":1,"b":"x","c":[]string{"y"}}`, func() any { return map[string]any{"a": 1, "b": "x", "c": []string{"y"}} }),
		vxV("map[string]string{}", func() any { return map[string]string{} }),
		vxV(`map[string]string{"a":"b"}`, func() any { return map[string]string{"a": "b"} }),
		vxV("map[int]any{}", func() any { return map[int]any{} }),
		vxV("map[any]any{}", func() any { return map[any]any{} }),
		vxV("map[string][]any{nil}", func() any { return map[string][]any{"a": nil} }),
		// types of the graph and cypher packages
		vxV("(*graph.Properties)(nil)", func() any { return (*graph.Properties)(nil) }),
		vxV("graph.NewProperties()", func() any { return graph.NewProperties() }),
		vxV("&graph.Properties{}", func() any { return &graph.Properties{} }),
		vxV(`&graph.Properties{Map:{"a":[]string(nil)}}`, func() any { return &graph.Properties{Map: map[string]any{"a": []string(nil)}} }),
		vxV("graph.StringKind(NodeKind1)", func() any { return graph.StringKind("NodeKind1") }),
		vxV("graph.StringKind(unknown)", func() any { return graph.StringKind("VxUnknownKind") }),
		vxV("graph.Kinds{NodeKind1}", func() any { return graph.Kinds{graph.StringKind("NodeKind1")} }),
		vxV("graph.Kinds{nil}", func() any { return graph.Kinds{nil} }),
		vxV("cypher.MapLiteral{}", func() any { return cypher.MapLiteral{} }),
		vxV("cypher.MapLiteral(nil)", func() any { return cypher.MapLiteral(nil) }),
		vxV("(*cypher.ListLiteral)(nil)", func() any { return (*cypher.ListLiteral)(nil) }),
		vxV("cypher.NewListLiteral()", func() any { return cypher.NewListLiteral() }),
		vxV("(*cypher.Literal)(nil)", func() any { return (*cypher.Literal)(nil) }),
		vxV("cypher.NewLiteral(nil,true)", func() any { return cypher.NewLiteral(nil, true) }),
		vxV("(*cypher.Parameter)(nil)", func() any { return (*cypher.Parameter)(nil) }),
		// time
		vxV("time.Time{}", func() any { return time.Time{} }),
		vxV("time.Unix(0,0).UTC()", func() any { return time.Unix(0, 0).UTC() }),
		vxV("time.Duration(0)", func() any { return time.Duration(0) }),
		vxV("time.Duration(MinInt64)", func() any { return time.Duration(math.MinInt64) }),
		// everything else
		vxV("struct{}{}", func() any { return struct{}{} }),
		vxV("(*int)(nil)", func() any { return (*int)(nil) }),
		vxV("new(int)", func() any { return new(int) }),
		vxV("(*string)(nil)", func() any { return (*string)(nil) }),
		vxV("[]byte{}", func() any { return []byte{} }),
		vxV("json.Number", func() any { return json.Number("1e400") }),
		vxV("[0]int{}", func() any { return [0]int{} }),
		vxV("[2]string{}", func() any { return [2]string{} }),
		vxV("func", func() any { return vxFunc }),
		vxV("chan", func() any { return vxChan }),
		vxV("error", func() any { return fmt.Errorf("an error value") }),
		vxV("[]error{}", func() any { return []error{} }),
		vxV("rune", func() any { return 'x' }),
	}
	// zero-length subslices of non-empty arrays: the backing array is the witness
	sub := func(name string, mk func() (any, any)) { vals = append(vals, vxParamValue{name: name, mk: mk}) }
	sub(`[]string{"a","b","c"}[:0]`, func() (any, any) { b := []string{"a", "b", "c"}; return b[:0], b })
	sub(`[]string{"a","b","c"}[1:1]`, func() (any, any) { b := []string{"a", "b", "c"}; return b[1:1], b })
	sub(`[]string{"a","b","c"}[3:]`, func() (any, any) { b := []string{"a", "b", "c"}; return b[3:], b })
	sub(`[]string{"a","b","c"}[1:1:1]`, func() (any, any) { b := []string{"a", "b", "c"}; return b[1:1:1], b })
	sub("[]int64{1,2,3}[:0]", func() (any, any) { b := []int64{1, 2, 3}; return b[:0], b })
	sub("[]int64{1,2,3}[2:2]", func() (any, any) { b := []int64{1, 2, 3}; return b[2:2], b })
	sub("[]int{1,2,3}[:0]", func() (any, any) { b := []int{1, 2, 3}; return b[:0], b })
	sub("[]float64{1,2,3}[1:1]", func() (any, any) { b := []float64{1, 2, 3}; return b[1:1], b })
	sub(`[]any{"a","b","c"}[:0]`, func() (any, any) { b := []any{"a", "b", "c"}; return b[:0], b })
	sub(`[]any{"a","b","c"}[1:1]`, func() (any, any) { b := []any{"a", "b", "c"}; return b[1:1], b })
	sub(`[]any{[]any{"a"}[:0]}`, func() (any, any) { b := []any{"a"}; return []any{b[:0]}, b })
	sub(`map[string]any{"a":[]string{"a","b"}[:0]}`, func() (any, any) { b := []string{"a", "b"}; return map[string]any{"a": b[:0]}, b })
	sub(`(&[3]string{"a","b","c"})[:0]`, func() (any, any) { b := &[3]string{"a", "b", "c"}; return b[:0], b })
	sub(`(&[3]string{"a","b","c"})[1:1]`, func() (any, any) { b := &[3]string{"a", "b", "c"}; return b[1:1], b })
	sub("graph.Kinds{K1,K2}[:0]", func() (any, any) {
		b := graph.Kinds{graph.StringKind("NodeKind1"), graph.StringKind("NodeKind2")}
		return b[:0], b
	})
	// a map that contains itself
	vals = append(vals, vxV("cyclic map", func() any { m := map[string]any{"a": 1}; m["self"] = m; return m }))
	vals = append(vals, vxV("cyclic slice", func() any { s := make([]any, 1); s[0] = s; return s }))
	return vals
}

// positions of $p (and $q) per class of position
var vxParamPositions = []struct{ position, query string }{
	{"comparison", "match (n) where n.name = $p return n"},
	{"comparison", "match (n) where $p = n.name return n"},
	{"comparison", "match (n) where n.value > $p return n"},
	{"comparison", "match (n) where n.value <> $p and not n.other <= $p return n"},
	{"comparison", "match (n) where id(n) = $p return n"},
	{"comparison", "match (n) where n.name starts with $p or n.name contains $p or n.name ends with $p return n"},
	{"comparison", "match (n)-[r]->(m) where type(r) = $p and n.name = $q return m"},
	{"comparison", "match (n) where $p is null or $p = $q return n"},
	{"comparison", "match (n) where n.value = $p + 1 return n.value - $p"},
	{"comparison", "match (n) return n, $p as v order by v skip 1 limit 2"},
	{"in", "match (n) where n.name in $p return n"},
	{"in", "match (n) where id(n) in $p return n"},
	{"in", "match (n) where not n.name in $p and n.other in $q return n"},
	{"in", "match (n) where $p in n.list return n"},
	{"in", "match (n)-[r]->(m) where type(r) in $p return r"},
	{"in", "match (n) where any(x in $p where x = n.name) return n"},
	{"in", "match (n) where size($p) > 0 and n.name in $p + ['z'] return n"},
	{"in", "unwind $p as x return x"},
	{"in", "unwind $p as x match (n) where id(n) = x return n"},
	{"in", "match (n) where n:NodeKind1 and n.name in $p with collect(n) as l match (m) where m in l return m"},
	{"property-map", "match (n) where n.props = {k: $p} return n"},
	{"property-map", "match (n) where n.props = {k: $p, j: {i: $p}, h: [$p]} return n"},
	{"property-map", "match (n) return {k: $p} as m"},
	{"property-map", "match (n) set n.k = $p return n"},
	{"property-map", "match (n) set n += {k: $p} return n"},
	{"property-map", "match (n) set n = $p return n"},
	{"property-map", "create (n:NodeKind1 {k: $p}) return n"},
	{"property-map", "match (a), (b) create (a)-[r:EdgeKind1 {k: $p}]->(b) return r"},
	{"pattern-property", "match (n {k: $p}) return n"},
	{"pattern-property", "match (n:NodeKind1 {k: $p, j: 1}) return n"},
	{"pattern-property", "match ()-[r {k: $p}]->() return r"},
	{"pattern-property", "match (n {k: $p})-[r:EdgeKind1 {j: $p}]->(m {i: $q}) return n, r, m"},
	{"pattern-property", "match p = (n {k: $p})-[*1..2]->(m {k: $p}) return p"},
	{"pattern-property", "match p = (n:NodeKind1)-[:EdgeKind1*1..]->(m:NodeKind2) where n.name = $p and m.name in $p return p"},
	{"pattern-property", "match p = shortestPath((n {k: $p})-[*1..]->(m)) where m.name = $p return p"},
	{"pattern-property", "match p = allShortestPaths((n:NodeKind1 {k: $p})-[:EdgeKind1*1..]->(m:NodeKind2 {k: $q})) return p"},
	{"pattern-property", "match (n $p) return n"},
	{"pattern-property", "match (n) where (n)-[:EdgeKind1]->({k: $p}) return n"},
	{"pattern-property", "match (n:NodeKind1) match (n)-[:EdgeKind1*1..]->(m:NodeKind2 {k: $p}) with n, count(m) as c return n, c order by c desc limit 5"},
}

func vxSetParameterValues(model *cypher.RegularQuery, values map[string]any) {
	_ = walk.Cypher(model, walk.NewSimpleVisitor[cypher.SyntaxNode](func(node cypher.SyntaxNode, _ walk.VisitorHandler) {
		if p, ok := node.(*cypher.Parameter); ok {
			if v, has := values[p.Symbol]; has {
				p.Value = v
			}
		}
	}))
}

func vxParamClass(x *vxState) (queries, values int) {
	vals := vxParamValues()
	for _, pos := range vxParamPositions {
		if m, err := frontend.ParseCypher(frontend.NewContext(), pos.query); err != nil || m == nil {
			x.fail("C05 parameter position query does not parse: %q: %v", pos.query, err)
			continue
		}
		queries++
		for _, pv := range vals {
			*x.cases += 2
			what := fmt.Sprintf("%q with $p = %s (%s position)", pos.query, pv.name, pos.position)
			// (a) through the caller's parameter map
			model, _ := frontend.ParseCypher(frontend.NewContext(), pos.query)
			before := cypher.Copy(model)
			val, wit := pv.mk()
			refVal, refWit := pv.mk()
			params := map[string]any{"p": val, "q": "other", "zz_unused": val}
			ref := map[string]any{"p": refVal, "q": "other", "zz_unused": refVal}
			if !vxSame(params, ref) || !vxSame(wit, refWit) {
				x.fail("harness: value constructor %s is not reproducible", pv.name)
				continue
			}
			sql1, out1, err1, pan, hung := vxTimedTranslate(model, x.km, params)
			if hung {
				x.deviation("param-hang", "C05 translation did not return within %v for %s", vxCallLimit, what)
				continue
			}
			if pan != nil {
				x.deviation("param-panic", "C05 panic translating %s (value in the parameter map): %v", what, pan)
			} else {
				if !vxSame(params, ref) || !vxSame(wit, refWit) {
					x.deviation("param-mutated", "C05 translation changed the caller's parameter map (or a map/slice nested in it) for %s: before %#v, after %#v", what, ref["p"], params["p"])
				}
				if !reflect.DeepEqual(before, model) {
					x.deviation("param-mutated", "C05 translation changed the caller's AST for %s", what)
				}
				sql2, out2, err2, pan2, hung2 := vxTimedTranslate(model, x.km, params)
				if hung2 || pan2 != nil || (err1 == nil) != (err2 == nil) || sql1 != sql2 || !vxSame(out1, out2) {
					x.deviation("param-nondeterministic", "C05 repeated translation differs for %s: err %v / %v, panic %v", what, err1, err2, pan2)
				}
			}
			// (b) through Parameter.Value of the AST
			model, _ = frontend.ParseCypher(frontend.NewContext(), pos.query)
			refModel, _ := frontend.ParseCypher(frontend.NewContext(), pos.query)
			val, wit = pv.mk()
			refVal, refWit = pv.mk()
			vxSetParameterValues(model, map[string]any{"p": val, "q": "other"})
			vxSetParameterValues(refModel, map[string]any{"p": refVal, "q": "other"})
			if !vxSame(model, refModel) {
				x.fail("harness: two parses of %q differ", pos.query)
				continue
			}
			sql1, out1, err1, pan, hung = vxTimedTranslate(model, x.km, nil)
			if hung {
				x.deviation("param-hang", "C05 translation did not return within %v for %s (value in the AST)", vxCallLimit, what)
				continue
			}
			if pan != nil {
				x.deviation("param-panic", "C05 panic translating %s (value in Parameter.Value of the AST): %v", what, pan)
				continue
			}
			if !vxSame(model, refModel) || !vxSame(wit, refWit) {
				x.deviation("param-mutated", "C05 translation changed the caller's AST (Parameter.Value or a map/slice nested in it) for %s", what)
			}
			sql2, out2, err2, pan2, hung2 := vxTimedTranslate(model, x.km, nil)
			if hung2 || pan2 != nil || (err1 == nil) != (err2 == nil) || sql1 != sql2 || !vxSame(out1, out2) {
				x.deviation("param-nondeterministic", "C05 repeated translation differs for %s (value in the AST): err %v / %v, panic %v", what, err1, err2, pan2)
			}
		}
	}
	return queries, len(vals)
}

func vxRunExtension(x *vxState) string {
	pq, pv := vxParamClass(x)
	return fmt.Sprintf("%d parameter positions x %d parameter values x {parameter map, Parameter.Value} x {no panic/hang, nothing nested changed, repeat}", pq, pv)
}
