package test

// Bounded stand-in for C05 and C06 (labelled bounded, never counted as proved), over every query of the
// repository's translation case files (and a family of parameter/variable name collisions):
//  C05  translation never panics; translating the same AST again, and 8 times concurrently against one shared
//       kind mapper, gives byte-identical SQL and equal parameters; the caller's AST and parameter map are
//       unchanged (structural comparison with a copy taken before);
//  C06  consistently renaming user variables, aliases and parameters - to names that collide with generated
//       names (n0, e0, s0, i0, pi0, path, depth), with each other across the variable/parameter namespaces -
//       changes only output aliases and parameter keys, never the rest of the statement, and never turns a
//       translatable query into an error or a crash.

import (
	"context"
	"encoding/json"
	"fmt"
	"os"
	"path/filepath"
	"reflect"
	"regexp"
	"strconv"
	"strings"
	"sync"
	"testing"

	"github.com/specterops/dawgs/cypher/frontend"
	"github.com/specterops/dawgs/cypher/models/cypher"
	"github.com/specterops/dawgs/cypher/models/pgsql"
	"github.com/specterops/dawgs/cypher/models/pgsql/translate"
	"github.com/specterops/dawgs/cypher/models/walk"
)

func safeTranslate(model *cypher.RegularQuery, km pgsql.KindMapper, params map[string]any) (sql string, outParams map[string]any, err error, panicked any) {
	defer func() {
		if r := recover(); r != nil {
			panicked = r
		}
	}()
	res, terr := translate.Translate(context.Background(), model, km, params, translate.DefaultGraphID)
	if terr != nil {
		return "", nil, terr, nil
	}
	text, ferr := translate.Translated(res)
	return text, res.Parameters, ferr, nil
}

var userName = regexp.MustCompile(`^[a-z][a-z0-9_]*$`)

// renameSymbols consistently renames every variable symbol and parameter symbol of the model.
func renameSymbols(model *cypher.RegularQuery, vars, params map[string]string) {
	_ = walk.CypherStructural(model, walk.NewSimpleVisitor[cypher.SyntaxNode](func(node cypher.SyntaxNode, _ walk.VisitorHandler) {
		switch t := node.(type) {
		case *cypher.Variable:
			if n, ok := vars[t.Symbol]; ok {
				t.Symbol = n
			}
		case *cypher.Parameter:
			if n, ok := params[t.Symbol]; ok {
				t.Symbol = n
			}
		}
	}))
}

func collectSymbols(model *cypher.RegularQuery) (vars, params []string) {
	seenV, seenP := map[string]bool{}, map[string]bool{}
	_ = walk.CypherStructural(model, walk.NewSimpleVisitor[cypher.SyntaxNode](func(node cypher.SyntaxNode, _ walk.VisitorHandler) {
		switch t := node.(type) {
		case *cypher.Variable:
			if t.Symbol != "" && !seenV[t.Symbol] {
				seenV[t.Symbol] = true
				vars = append(vars, t.Symbol)
			}
		case *cypher.Parameter:
			if t.Symbol != "" && !seenP[t.Symbol] {
				seenP[t.Symbol] = true
				params = append(params, t.Symbol)
			}
		}
	}))
	return
}

// normalise replaces output aliases and parameter keys of the renamed symbols by placeholders so that two
// statements that differ only there compare equal.
func normalise(sql string, names []string) string {
	// every alias position is blanked (user aliases differ by construction; a user name may equal a generated
	// one, so generated aliases are blanked as well); everything else must be identical
	return regexp.MustCompile(`\bas ("[^"]*"|[A-Za-z_][A-Za-z0-9_]*)`).ReplaceAllString(sql, "as <alias>")
}

var wordToken = regexp.MustCompile(`[A-Za-z_][A-Za-z0-9_]*`)

// substOutsideLiterals renames, simultaneously, every whole-word occurrence of a user name outside string
// literals. In the statement translated from the original query user names occur only as output aliases and
// references to them (everything else is generated), so the result is the statement the renamed query must give.
func substOutsideLiterals(sql string, m map[string]string) string {
	parts := strings.Split(sql, "'")
	for i := 0; i < len(parts); i += 2 {
		parts[i] = wordToken.ReplaceAllStringFunc(parts[i], func(w string) string {
			if n, ok := m[w]; ok {
				return n
			}
			return w
		})
	}
	return strings.Join(parts, "'")
}

func composeRenaming(unique, target map[string]string) map[string]string {
	out := map[string]string{}
	for v, u := range unique {
		out[u] = target[v]
	}
	return out
}

// query shapes added to the repository's cases: bindings that cross WITH boundaries (where definitions are
// pruned), path functions, unwind, quantifiers and parameters in the same statement
var extraQueries = []string{
	"match p = (n)-[r]->(m) with collect(n) as l match p = (n)-[]->() where n in l return p",
	"match p = (n)-[r]->(m) with collect(n) as l match q = (n)-[]->() where n in l return length(q), nodes(q), relationships(q)",
	"match p = (n)-[r*1..2]->(m) with n, count(r) as c where c > 1 with collect(n) as l match q = (n)<-[]-(x) where n in l return q, x",
	"match (n) with n as a match (a)-[r]->(b) with b as c match p = (c)-[]->(d) return p, d",
	"unwind [1, 2, 3] as x match (n) where id(n) = x with n, x match (n)-[r]->(m) return n, r, m, x",
	"match (n) where any(x in n.list where x = $v) and n.name = $w return n",
	"match (n)-[r]->(m) where n.name = $a and m.name = $b and type(r) = $c return n, m",
	"match p = shortestPath((n)-[*1..]->(m)) where n.name = $a return p",
	"match (n) optional match (n)-[r]->(m) with n, collect(m) as ms return n, ms",
	// several inline properties per pattern element (map-literal order must not leak into the SQL)
	"match (n:NodeKind1 {name: 'a', objectid: 'b', domain: 'c', enabled: true})-[r:EdgeKind1 {isacl: false, source: $source, weight: 3}]->(g:NodeKind2 {name: 'admins', tier: 0}) return n, r, g",
	"match (n {a: 1, b: 2}) return n",
	"match (n {a: 1, b: 2, c: 3, d: 4, e: 5}) return n.a",
	"match ()-[r {x: 1, y: 'two', z: false}]->() return r",
	"match p = (n {k1: 'v1', k2: 'v2', k3: 'v3'})-[*1..2]->(m {k4: 4, k5: 5}) return p",
	"match (n) where n.props = {a: 1, b: 2, c: 3} return n",
}

// names the translator itself generates (IdentifierGenerator prefixes and fixed column names)
var generatedNames = []string{"n0", "e0", "s0", "i0", "pi0", "path", "depth", "n1", "e1", "s1", "ep0", "ex0", "pc0", "root_id", "next_id", "satisfied", "is_cycle", "kind_ids", "properties", "id"}

func TestVerifBoundedTranslate(t *testing.T) {
	rotations := 3
	if n, err := strconv.Atoi(os.Getenv("VERIF_BOUND")); err == nil && n > 0 {
		rotations = min(n, len(generatedNames))
	}
	only := os.Getenv("VERIF_PROPERTY") // "C05" / "C06": report that property's failures only
	testCases, err := ReadTranslationTestCases()
	if err != nil {
		t.Fatal(err)
	}
	for _, q := range extraQueries {
		testCases = append(testCases, &TranslationTestCase{Name: "verif extra", Cypher: q})
	}
	km := newKindMapper()
	var failures []string
	fail := func(format string, args ...any) {
		if only != "" && strings.HasPrefix(format, "C0") && !strings.HasPrefix(format, only) {
			return
		}
		if len(failures) < 8 {
			failures = append(failures, fmt.Sprintf(format, args...))
		}
	}
	cases := 0
	parse := func(tc *TranslationTestCase) *cypher.RegularQuery {
		model, err := frontend.ParseCypher(frontend.NewContext(), tc.Cypher)
		if err != nil {
			return nil
		}
		if len(tc.CypherParams) > 0 {
			_ = walk.Cypher(model, walk.NewSimpleVisitor[cypher.SyntaxNode](func(node cypher.SyntaxNode, _ walk.VisitorHandler) {
				if p, ok := node.(*cypher.Parameter); ok {
					if v, has := tc.CypherParams[p.Symbol]; has {
						p.Value = v
					}
				}
			}))
		}
		return model
	}
	for _, tc := range testCases {
		model := parse(tc)
		if model == nil {
			continue
		}
		// ---- C05 ----
		cases++
		before := cypher.Copy(model)
		params := map[string]any{"caller": "value"}
		sql1, p1, err1, pan := safeTranslate(model, km, params)
		if pan != nil {
			fail("C05 panic translating %q: %v", tc.Cypher, pan)
			continue
		}
		if !reflect.DeepEqual(before, model) {
			fail("C05 translation changed the caller's AST for %q", tc.Cypher)
		}
		if len(params) != 1 || params["caller"] != "value" {
			fail("C05 translation changed the caller's parameter map for %q", tc.Cypher)
		}
		sql2, p2, err2, _ := safeTranslate(model, km, params)
		if (err1 == nil) != (err2 == nil) || sql1 != sql2 || !reflect.DeepEqual(p1, p2) {
			fail("C05 repeated translation differs for %q", tc.Cypher)
		}
		for rep := 0; rep < 6 && err1 == nil; rep++ {
			if sqlN, pN, errN, _ := safeTranslate(model, km, params); errN != nil || sqlN != sql1 || !reflect.DeepEqual(p1, pN) {
				fail("C05 repeated translation differs for %q (repetition %d)", tc.Cypher, rep+3)
				break
			}
		}
		var wg sync.WaitGroup
		results := make([]string, 8)
		for i := range results {
			wg.Add(1)
			go func(i int) {
				defer wg.Done()
				s, _, _, _ := safeTranslate(cypher.Copy(model), km, nil)
				results[i] = s
			}(i)
		}
		wg.Wait()
		for _, s := range results {
			if s != sql1 {
				fail("C05 concurrent translation differs for %q", tc.Cypher)
				break
			}
		}
		if err1 != nil {
			continue
		}
		// ---- C06 ----
		vars, prms := collectSymbols(model)
		var plainVars []string
		for _, v := range vars {
			if userName.MatchString(v) {
				plainVars = append(plainVars, v)
			}
		}
		renamings := []func(i int, old string) string{
			func(i int, old string) string { return fmt.Sprintf("zz%dq", i) },
		}
		for rot := 0; rot < rotations; rot++ {
			rot := rot
			renamings = append(renamings, func(i int, old string) string { return generatedNames[(i+rot)%len(generatedNames)] })
		}
		sqlZ, vmZ := "", map[string]string{}
		for ri, rn := range renamings {
			cases++
			vm, pm := map[string]string{}, map[string]string{}
			back := map[string]string{}
			for i, v := range plainVars {
				vm[v] = rn(i, v)
				back[vm[v]] = v
			}
			for i, p := range prms {
				if ri == 0 {
					pm[p] = "prm" + fmt.Sprint(i)
				} else {
					// parameters get generated-looking names too, and share them with the variables
					pm[p] = generatedNames[(i+ri)%len(generatedNames)]
				}
			}
			if len(vm) == 0 && len(pm) == 0 {
				continue
			}
			renamed := cypher.Copy(model)
			renameSymbols(renamed, vm, pm)
			sqlR, _, errR, panR := safeTranslate(renamed, km, nil)
			if panR != nil {
				fail("C06 renaming %d makes %q panic: %v", ri, tc.Cypher, panR)
				continue
			}
			if errR != nil {
				fail("C06 renaming %v turns the translatable query %q into an error: %v", vm, tc.Cypher, errR)
				continue
			}
			if ri == 0 {
				sqlZ, vmZ = sqlR, vm
				// fresh names are unique: mapping them back must give exactly the original statement
				got := sqlR
				for nn, old := range back {
					got = regexp.MustCompile(`\b`+regexp.QuoteMeta(nn)+`\b`).ReplaceAllString(got, old)
				}
				if got != sql1 {
					fail("C06 renaming %v changes more than the user's names for %q:\n  %s\n  %s", vm, tc.Cypher, sql1, got)
				}
			} else if sqlZ == "" {
				continue
			} else if compose := composeRenaming(vmZ, vm); substOutsideLiterals(sqlZ, compose) != sqlR {
				fail("C06 renaming %v to generated-looking names changes more than output aliases for %q:\n  %s\n  %s", vm, tc.Cypher, substOutsideLiterals(sqlZ, compose), sqlR)
			}
		}
		// a parameter named like a variable of the query
		if len(plainVars) > 0 && len(prms) > 0 {
			cases++
			renamed := cypher.Copy(model)
			renameSymbols(renamed, nil, map[string]string{prms[0]: plainVars[0]})
			_, _, errR, panR := safeTranslate(renamed, km, nil)
			if panR != nil {
				fail("C06 a parameter named like variable %q makes %q panic: %v", plainVars[0], tc.Cypher, panR)
			} else if errR != nil {
				fail("C06 a parameter named like variable %q turns %q into an error: %v", plainVars[0], tc.Cypher, errR)
			}
		}
	}
	// ---- C05 on shapes the translator may not support: every string of the parser fixtures that parses ----
	corpus := 0
	for _, f := range []string{"positive_tests.json", "mutation_tests.json", "filtering_tests.json", "negative_tests.json"} {
		raw, err := os.ReadFile(filepath.Join("..", "..", "..", "test", "cases", f))
		if err != nil {
			fail("cannot read parser fixture %s: %v", f, err)
			continue
		}
		var doc any
		if err := json.Unmarshal(raw, &doc); err != nil {
			fail("cannot decode parser fixture %s: %v", f, err)
			continue
		}
		var visit func(v any)
		visit = func(v any) {
			switch t := v.(type) {
			case map[string]any:
				for _, c := range t {
					visit(c)
				}
			case []any:
				for _, c := range t {
					visit(c)
				}
			case string:
				model, err := frontend.ParseCypher(frontend.NewContext(), t)
				if err != nil || model == nil {
					return
				}
				corpus++
				cases++
				before := cypher.Copy(model)
				sqlA, pA, errA, pan := safeTranslate(model, km, nil)
				if pan != nil {
					fail("C05 panic translating %q: %v", t, pan)
					return
				}
				if !reflect.DeepEqual(before, model) {
					fail("C05 translation changed the caller's AST for %q", t)
				}
				sqlB, pB, errB, _ := safeTranslate(model, km, nil)
				if (errA == nil) != (errB == nil) || sqlA != sqlB || !reflect.DeepEqual(pA, pB) {
					fail("C05 repeated translation differs for %q", t)
				}
			}
		}
		visit(doc)
	}
	if corpus < 100 {
		fail("parser fixtures gave only %d parsable queries", corpus)
	}
	// the minimal collision
	cases++
	if m, err := frontend.ParseCypher(frontend.NewContext(), "match (n) where n.name = $n return n"); err == nil {
		if _, _, terr, pan := safeTranslate(m, km, nil); pan != nil || terr != nil {
			fail("C06 'match (n) where n.name = $n return n': panic=%v err=%v", pan, terr)
		}
	}
	res := map[string]any{"name": "translate", "bound": fmt.Sprintf("%d translation case queries x {repeat, 8 concurrent, %d renamings, parameter/variable collision} + %d parser fixture queries x {no panic, repeat, AST unchanged}", len(testCases), rotations+1, corpus), "cases": cases, "exhaustive": false, "failures": failures}
	out, _ := json.Marshal(res)
	fmt.Println("BOUNDED-RESULT " + strings.ReplaceAll(string(out), "\\n", " "))
	if len(failures) > 0 {
		t.Fail()
	}
}
