package test

// Bounded stand-in for C05 and C06 (labelled bounded, never counted as proved), over every query of the
// repository's translation case files (and a family of parameter/variable name collisions):
//  C05  translation never panics; translating the same AST again, and 8 times concurrently against one shared
//       kind mapper, gives byte-identical SQL and equal parameters; the caller's AST and parameter map are
//       unchanged (structural comparison with a copy taken before);
//  C06  consistently renaming user variables, aliases and parameters - to names that collide with generated
//       names (n0, e0, s0, i0, pi0, path, depth), with each other across the variable/parameter namespaces -
//       changes only output aliases and parameter keys, never the rest of the statement, and never turns a
//       translatable query into an error or a crash.
// Extended (see the comment block below the test) by: parameter values of every Go type in every position (also
// through Parameter.Value; nothing nested may change), determinism across history against reference outputs of FRESH
// PROCESSES (failing and succeeding queries mixed, Translate+Translated and FromCypher, ordered pairs and 8
// goroutines on one kind mapper), hostile spellings of user names (backticks, '$', parameter names, generated names,
// letter case) and aliases equal to generated names as ORDER BY keys, each against the twin query with fresh names.
// Deviation classes named in VERIF_KNOWN ("|"-separated) are counted under "known_deviation_hits".

import (
	"context"
	"encoding/json"
	"fmt"
	"math"
	"math/rand"
	"os"
	"os/exec"
	"path/filepath"
	"reflect"
	"regexp"
	"strconv"
	"strings"
	"sync"
	"testing"
	"time"

	"github.com/specterops/dawgs/cypher/frontend"
	"github.com/specterops/dawgs/cypher/models/cypher"
	"github.com/specterops/dawgs/cypher/models/pgsql"
	"github.com/specterops/dawgs/cypher/models/pgsql/translate"
	"github.com/specterops/dawgs/cypher/models/walk"
	"github.com/specterops/dawgs/graph"
)

func safeTranslate(model *cypher.RegularQuery, km pgsql.KindMapper, params map[string]any) (sql string, outParams map[string]any, err error, panicked any) {
	defer func() {
		if r := recover(); r != nil {
			panicked = r
		}
	}()
	res, terr := translate.Translate(context.Background(), model, km, params, translate.DefaultGraphID)
	if terr != nil {
		return "", nil, terr, nil
	}
	text, ferr := translate.Translated(res)
	return text, res.Parameters, ferr, nil
}

var userName = regexp.MustCompile(`^[a-z][a-z0-9_]*$`)

// renameSymbols consistently renames every variable symbol and parameter symbol of the model.
func renameSymbols(model *cypher.RegularQuery, vars, params map[string]string) {
	_ = walk.CypherStructural(model, walk.NewSimpleVisitor[cypher.SyntaxNode](func(node cypher.SyntaxNode, _ walk.VisitorHandler) {
		switch t := node.(type) {
		case *cypher.Variable:
			if n, ok := vars[t.Symbol]; ok {
				t.Symbol = n
			}
		case *cypher.Parameter:
			if n, ok := params[t.Symbol]; ok {
				t.Symbol = n
			}
		}
	}))
}

func collectSymbols(model *cypher.RegularQuery) (vars, params []string) {
	seenV, seenP := map[string]bool{}, map[string]bool{}
	_ = walk.CypherStructural(model, walk.NewSimpleVisitor[cypher.SyntaxNode](func(node cypher.SyntaxNode, _ walk.VisitorHandler) {
		switch t := node.(type) {
		case *cypher.Variable:
			if t.Symbol != "" && !seenV[t.Symbol] {
				seenV[t.Symbol] = true
				vars = append(vars, t.Symbol)
			}
		case *cypher.Parameter:
			if t.Symbol != "" && !seenP[t.Symbol] {
				seenP[t.Symbol] = true
				params = append(params, t.Symbol)
			}
		}
	}))
	return
}

// normalise replaces output aliases and parameter keys of the renamed symbols by placeholders so that two
// statements that differ only there compare equal.
func normalise(sql string, names []string) string {
	// every alias position is blanked (user aliases differ by construction; a user name may equal a generated
	// one, so generated aliases are blanked as well); everything else must be identical
	return regexp.MustCompile(`\bas ("[^"]*"|[A-Za-z_][A-Za-z0-9_]*)`).ReplaceAllString(sql, "as <alias>")
}

var wordToken = regexp.MustCompile(`[A-Za-z_][A-Za-z0-9_]*`)

// substOutsideLiterals renames, simultaneously, every whole-word occurrence of a user name outside string
// literals. In the statement translated from the original query user names occur only as output aliases and
// references to them (everything else is generated), so the result is the statement the renamed query must give.
func substOutsideLiterals(sql string, m map[string]string) string {
	parts := strings.Split(sql, "'")
	for i := 0; i < len(parts); i += 2 {
		parts[i] = wordToken.ReplaceAllStringFunc(parts[i], func(w string) string {
			if n, ok := m[w]; ok {
				return n
			}
			return w
		})
	}
	return strings.Join(parts, "'")
}

func composeRenaming(unique, target map[string]string) map[string]string {
	out := map[string]string{}
	for v, u := range unique {
		out[u] = target[v]
	}
	return out
}

// query shapes added to the repository's cases: bindings that cross WITH boundaries (where definitions are
// pruned), path functions, unwind, quantifiers and parameters in the same statement
var extraQueries = []string{
	"match p = (n)-[r]->(m) with collect(n) as l match p = (n)-[]->() where n in l return p",
	"match p = (n)-[r]->(m) with collect(n) as l match q = (n)-[]->() where n in l return length(q), nodes(q), relationships(q)",
	"match p = (n)-[r*1..2]->(m) with n, count(r) as c where c > 1 with collect(n) as l match q = (n)<-[]-(x) where n in l return q, x",
	"match (n) with n as a match (a)-[r]->(b) with b as c match p = (c)-[]->(d) return p, d",
	"unwind [1, 2, 3] as x match (n) where id(n) = x with n, x match (n)-[r]->(m) return n, r, m, x",
	"match (n) where any(x in n.list where x = $v) and n.name = $w return n",
	"match (n)-[r]->(m) where n.name = $a and m.name = $b and type(r) = $c return n, m",
	"match p = shortestPath((n)-[*1..]->(m)) where n.name = $a return p",
	"match (n) optional match (n)-[r]->(m) with n, collect(m) as ms return n, ms",
	// several inline properties per pattern element (map-literal order must not leak into the SQL)
	"match (n:NodeKind1 {name: 'a', objectid: 'b', domain: 'c', enabled: true})-[r:EdgeKind1 {isacl: false, source: $source, weight: 3}]->(g:NodeKind2 {name: 'admins', tier: 0}) return n, r, g",
	"match (n {a: 1, b: 2}) return n",
	"match (n {a: 1, b: 2, c: 3, d: 4, e: 5}) return n.a",
	"match ()-[r {x: 1, y: 'two', z: false}]->() return r",
	"match p = (n {k1: 'v1', k2: 'v2', k3: 'v3'})-[*1..2]->(m {k4: 4, k5: 5}) return p",
	"match (n) where n.props = {a: 1, b: 2, c: 3} return n",
	// the traversal-count shape in its variants: a predicate on the first MATCH, on the second, on both, on neither;
	// both directions; the count returned or only sorted by
	"match (u) where u.enabled = true match (u)-[*1..]->(c) where c.tier = 0 with distinct u, count(c) as hits return u as out order by hits desc limit 10",
	"match (u) where u.name = $p match (u)<-[*2..4]-(c) where c.name = $p with distinct u, count(c) as hits return u as out, hits as total order by hits desc limit 3",
	"match (u:NodeKind1) match (u)-[:EdgeKind1*1..]->(c:NodeKind2) where c.tier = 0 with u, count(c) as hits return u, hits order by hits desc limit 5",
	"match (u:NodeKind1) where u.enabled = true match (u)-[:EdgeKind1*1..]->(c:NodeKind2) with u, count(c) as hits return u, hits order by hits desc limit 5",
	"match (u:NodeKind1) match (u)<-[:EdgeKind1*1..]-(c:NodeKind2) with u, count(c) as hits return u order by hits desc limit 5",
	"match (u:NodeKind1) where u.a = 1 and u.b = 2 match (u)-[:EdgeKind1|EdgeKind2*1..3]->(c) where c.a = u.a with u, count(c) as hits return u, hits order by hits desc limit 5",
}

// names the translator itself generates (IdentifierGenerator prefixes and fixed column names)
var generatedNames = []string{"n0", "e0", "s0", "i0", "pi0", "path", "depth", "n1", "e1", "s1", "ep0", "ex0", "pc0", "root_id", "next_id", "satisfied", "is_cycle", "kind_ids", "properties", "id"}

// where a statement shows a name of the translator's own: "name." (table alias), ".name" (column), "as name", "name as ("
var ownNameSites = regexp.MustCompile(`\b([a-z_][a-z0-9_]*)\.([a-z_][a-z0-9_]*)\b|\bas ([a-z_][a-z0-9_]*)\b|\b([a-z_][a-z0-9_]*) as \(`)

var sqlWords = map[string]bool{"select": true, "from": true, "where": true, "as": true, "and": true, "or": true, "not": true, "with": true, "recursive": true, "join": true, "on": true, "in": true, "is": true, "null": true, "true": true, "false": true, "array": true, "any": true, "all": true, "exists": true, "case": true, "when": true, "then": true, "else": true, "end": true, "union": true, "order": true, "by": true, "limit": true, "offset": true, "desc": true, "asc": true, "distinct": true, "lateral": true, "unnest": true, "group": true, "having": true, "insert": true, "update": true, "delete": true, "set": true, "values": true, "returning": true, "int8": true, "int4": true, "int2": true, "text": true, "jsonb": true, "bool": true, "float8": true, "numeric": true, "materialized": true, "left": true, "outer": true, "inner": true, "cross": true, "like": true, "ilike": true, "between": true, "using": true, "coalesce": true, "row": true, "count": true}

func stripSQLStrings(sql string) string {
	var b strings.Builder
	in := false
	for i := 0; i < len(sql); i++ {
		if sql[i] == '\'' {
			in = !in
			b.WriteByte(' ')
			continue
		}
		if !in {
			b.WriteByte(sql[i])
		}
	}
	return b.String()
}

func TestVerifBoundedTranslate(t *testing.T) {
	if mode := os.Getenv(vxChildEnv); mode != "" {
		vxChildMain(mode)
		return
	}
	rotations, boundN := 3, 3
	if n, err := strconv.Atoi(os.Getenv("VERIF_BOUND")); err == nil && n > 0 {
		rotations, boundN = min(n, len(generatedNames)), n
	}
	only := os.Getenv("VERIF_PROPERTY") // "C05" / "C06": report that property's failures only
	testCases, err := ReadTranslationTestCases()
	if err != nil {
		t.Fatal(err)
	}
	for _, q := range extraQueries {
		testCases = append(testCases, &TranslationTestCase{Name: "verif extra", Cypher: q})
	}
	km := newKindMapper()
	var failures []string
	fail := func(format string, args ...any) {
		msg := fmt.Sprintf(format, args...)
		if only != "" && strings.HasPrefix(msg, "C0") && !strings.HasPrefix(msg, only) {
			return
		}
		if len(failures) < 8 {
			failures = append(failures, msg)
		}
	}
	cases := 0
	knownMain, knownMainHits, knownMainExamples := map[string]bool{}, map[string]int{}, map[string]string{}
	for _, name := range strings.Split(os.Getenv("VERIF_KNOWN"), "|") {
		if name = strings.TrimSpace(name); name != "" {
			knownMain[name] = true
		}
	}
	parse := func(tc *TranslationTestCase) *cypher.RegularQuery {
		model, err := frontend.ParseCypher(frontend.NewContext(), tc.Cypher)
		if err != nil {
			return nil
		}
		if len(tc.CypherParams) > 0 {
			_ = walk.Cypher(model, walk.NewSimpleVisitor[cypher.SyntaxNode](func(node cypher.SyntaxNode, _ walk.VisitorHandler) {
				if p, ok := node.(*cypher.Parameter); ok {
					if v, has := tc.CypherParams[p.Symbol]; has {
						p.Value = v
					}
				}
			}))
		}
		return model
	}
	for _, tc := range testCases {
		model := parse(tc)
		if model == nil {
			continue
		}
		// ---- C05 ----
		cases++
		before := cypher.Copy(model)
		params := map[string]any{"caller": "value"}
		sql1, p1, err1, pan := safeTranslate(model, km, params)
		if pan != nil {
			fail("C05 panic translating %q: %v", tc.Cypher, pan)
			continue
		}
		if !reflect.DeepEqual(before, model) {
			fail("C05 translation changed the caller's AST for %q", tc.Cypher)
		}
		if len(params) != 1 || params["caller"] != "value" {
			fail("C05 translation changed the caller's parameter map for %q", tc.Cypher)
		}
		sql2, p2, err2, _ := safeTranslate(model, km, params)
		if (err1 == nil) != (err2 == nil) || sql1 != sql2 || !reflect.DeepEqual(p1, p2) {
			fail("C05 repeated translation differs for %q", tc.Cypher)
		}
		for rep := 0; rep < 6 && err1 == nil; rep++ {
			if sqlN, pN, errN, _ := safeTranslate(model, km, params); errN != nil || sqlN != sql1 || !reflect.DeepEqual(p1, pN) {
				fail("C05 repeated translation differs for %q (repetition %d)", tc.Cypher, rep+3)
				break
			}
		}
		var wg sync.WaitGroup
		results := make([]string, 8)
		for i := range results {
			wg.Add(1)
			go func(i int) {
				defer wg.Done()
				s, _, _, _ := safeTranslate(cypher.Copy(model), km, nil)
				results[i] = s
			}(i)
		}
		wg.Wait()
		for _, s := range results {
			if s != sql1 {
				fail("C05 concurrent translation differs for %q", tc.Cypher)
				break
			}
		}
		if err1 != nil {
			continue
		}
		// ---- C06 ----
		vars, prms := collectSymbols(model)
		var plainVars []string
		for _, v := range vars {
			if userName.MatchString(v) {
				plainVars = append(plainVars, v)
			}
		}
		renamings := []func(i int, old string) string{
			func(i int, old string) string { return fmt.Sprintf("zz%dq", i) },
		}
		for rot := 0; rot < rotations; rot++ {
			rot := rot
			renamings = append(renamings, func(i int, old string) string { return generatedNames[(i+rot)%len(generatedNames)] })
		}
		sqlZ, vmZ := "", map[string]string{}
		for ri, rn := range renamings {
			cases++
			vm, pm := map[string]string{}, map[string]string{}
			back := map[string]string{}
			for i, v := range plainVars {
				vm[v] = rn(i, v)
				back[vm[v]] = v
			}
			for i, p := range prms {
				if ri == 0 {
					pm[p] = "prm" + fmt.Sprint(i)
				} else {
					// parameters get generated-looking names too, and share them with the variables
					pm[p] = generatedNames[(i+ri)%len(generatedNames)]
				}
			}
			if len(vm) == 0 && len(pm) == 0 {
				continue
			}
			renamed := cypher.Copy(model)
			renameSymbols(renamed, vm, pm)
			sqlR, _, errR, panR := safeTranslate(renamed, km, nil)
			if panR != nil {
				fail("C06 renaming %d makes %q panic: %v", ri, tc.Cypher, panR)
				continue
			}
			if errR != nil {
				fail("C06 renaming %v turns the translatable query %q into an error: %v", vm, tc.Cypher, errR)
				continue
			}
			if ri == 0 {
				sqlZ, vmZ = sqlR, vm
				// fresh names are unique: mapping them back must give exactly the original statement
				got := sqlR
				for nn, old := range back {
					got = regexp.MustCompile(`\b`+regexp.QuoteMeta(nn)+`\b`).ReplaceAllString(got, old)
				}
				if got != sql1 {
					fail("C06 renaming %v changes more than the user's names for %q:\n  %s\n  %s", vm, tc.Cypher, sql1, got)
				}
			} else if sqlZ == "" {
				continue
			} else if compose := composeRenaming(vmZ, vm); substOutsideLiterals(sqlZ, compose) != sqlR {
				fail("C06 renaming %v to generated-looking names changes more than output aliases for %q:\n  %s\n  %s", vm, tc.Cypher, substOutsideLiterals(sqlZ, compose), sqlR)
			}
		}
		// the translator's OWN names in this very statement: every table alias, CTE name and column name that occurs in
		// the statement for the fresh names (whatever lowering produced it), given to each of the first three variables
		// in turn - the statement may change in the spelling of that variable only
		if sqlZ != "" {
			taken := map[string]bool{}
			for _, nn := range vmZ {
				taken[nn] = true
			}
			for _, v := range vars { // a renaming is injective: not a name another variable of the query already has
				taken[v] = true
			}
			var own []string
			seenOwn := map[string]bool{}
			for _, m := range ownNameSites.FindAllStringSubmatch(stripSQLStrings(sqlZ), -1) {
				for _, w := range m[1:] {
					if w != "" && !taken[w] && !seenOwn[w] && !sqlWords[w] && len(own) < 40 {
						seenOwn[w] = true
						own = append(own, w)
					}
				}
			}
			for vi := 0; vi < len(plainVars) && vi < 3; vi++ {
				for _, w := range own {
					cases++
					vm := map[string]string{}
					for i, v := range plainVars {
						vm[v] = fmt.Sprintf("zz%dq", i)
					}
					vm[plainVars[vi]] = w
					renamed := cypher.Copy(model)
					pm := map[string]string{}
					for i, p := range prms {
						pm[p] = "prm" + fmt.Sprint(i)
					}
					renameSymbols(renamed, vm, pm)
					sqlR, _, errR, panR := safeTranslate(renamed, km, nil)
					switch {
					case panR != nil:
						fail("C06 naming variable %q like the translator's own %q makes %q panic: %v", plainVars[vi], w, tc.Cypher, panR)
					case errR != nil:
						fail("C06 naming variable %q like the translator's own %q turns the translatable query %q into an error: %v", plainVars[vi], w, tc.Cypher, errR)
					default:
						want := substOutsideLiterals(sqlZ, composeRenaming(vmZ, vm))
						if want != sqlR && strings.Contains(sqlZ, "terminal_hits(") && strings.ReplaceAll(sqlR, "terminal_count", w) == want {
							// the traversal-count lowering names its count column after the user's alias unless that is not
							// a plain identifier or is root_id, and terminal_count otherwise: the one difference here
							if knownMain["names-own@aggregate-count"] {
								knownMainHits["names-own@aggregate-count"]++
								if _, has := knownMainExamples["names-own@aggregate-count"]; !has {
									knownMainExamples["names-own@aggregate-count"] = fmt.Sprintf("variable %q named %q in %q", plainVars[vi], w, tc.Cypher)
								}
								continue
							}
							fail("C06 naming variable %q like the translator's own %q changes more than that name for %q (the count column of the ranked CTE is called terminal_count instead) [class names-own@aggregate-count]", plainVars[vi], w, tc.Cypher)
							continue
						}
						if want != sqlR {
							fail("C06 naming variable %q like the translator's own %q changes more than that name for %q:\n  %s\n  %s", plainVars[vi], w, tc.Cypher, want, sqlR)
						}
					}
				}
			}
		}
		// a parameter named like a variable of the query
		if len(plainVars) > 0 && len(prms) > 0 {
			cases++
			renamed := cypher.Copy(model)
			renameSymbols(renamed, nil, map[string]string{prms[0]: plainVars[0]})
			_, _, errR, panR := safeTranslate(renamed, km, nil)
			if panR != nil {
				fail("C06 a parameter named like variable %q makes %q panic: %v", plainVars[0], tc.Cypher, panR)
			} else if errR != nil {
				fail("C06 a parameter named like variable %q turns %q into an error: %v", plainVars[0], tc.Cypher, errR)
			}
		}
	}
	// ---- C05 on shapes the translator may not support: every string of the parser fixtures that parses ----
	corpus := 0
	for _, f := range []string{"positive_tests.json", "mutation_tests.json", "filtering_tests.json", "negative_tests.json"} {
		raw, err := os.ReadFile(filepath.Join("..", "..", "..", "test", "cases", f))
		if err != nil {
			fail("cannot read parser fixture %s: %v", f, err)
			continue
		}
		var doc any
		if err := json.Unmarshal(raw, &doc); err != nil {
			fail("cannot decode parser fixture %s: %v", f, err)
			continue
		}
		var visit func(v any)
		visit = func(v any) {
			switch t := v.(type) {
			case map[string]any:
				for _, c := range t {
					visit(c)
				}
			case []any:
				for _, c := range t {
					visit(c)
				}
			case string:
				model, err := frontend.ParseCypher(frontend.NewContext(), t)
				if err != nil || model == nil {
					return
				}
				corpus++
				cases++
				before := cypher.Copy(model)
				sqlA, pA, errA, pan := safeTranslate(model, km, nil)
				if pan != nil {
					fail("C05 panic translating %q: %v", t, pan)
					return
				}
				if !reflect.DeepEqual(before, model) {
					fail("C05 translation changed the caller's AST for %q", t)
				}
				sqlB, pB, errB, _ := safeTranslate(model, km, nil)
				if (errA == nil) != (errB == nil) || sqlA != sqlB || !reflect.DeepEqual(pA, pB) {
					fail("C05 repeated translation differs for %q", t)
				}
			}
		}
		visit(doc)
	}
	if corpus < 100 {
		fail("parser fixtures gave only %d parsable queries", corpus)
	}
	// the minimal collision
	cases++
	if m, err := frontend.ParseCypher(frontend.NewContext(), "match (n) where n.name = $n return n"); err == nil {
		if _, _, terr, pan := safeTranslate(m, km, nil); pan != nil || terr != nil {
			fail("C06 'match (n) where n.name = $n return n': panic=%v err=%v", pan, terr)
		}
	}
	// ---- extension classes (see the comment block below the test) ----
	// messages of the extension quote outputs: keep the result line free of (escaped) newlines
	failFlat := func(format string, args ...any) {
		msg := strings.NewReplacer("\n", " ", `\n`, " / ").Replace(fmt.Sprintf(format, args...))
		if strings.HasPrefix(format, "C0") && len(msg) >= 3 {
			fail(format[:3]+"%s", msg[3:])
		} else {
			fail("%s", msg)
		}
	}
	x := &vxState{fail: failFlat, known: map[string]bool{}, hits: map[string]int{}, examples: map[string]string{}, unknown: map[string]int{}, cases: &cases, km: km, bound: boundN, counts: map[string]int{}}
	for _, name := range strings.Split(os.Getenv("VERIF_KNOWN"), "|") {
		if name = strings.TrimSpace(name); name != "" {
			x.known[name] = true
		}
	}
	x.seed, _ = strconv.ParseInt(os.Getenv("VERIF_SEED"), 10, 64)
	extBound := vxRunExtension(x)
	for k, v := range knownMainHits {
		x.hits[k] += v
		x.examples[k] = knownMainExamples[k]
	}
	res := map[string]any{"name": "translate", "bound": fmt.Sprintf("%d translation case queries x {repeat, 8 concurrent, %d renamings, parameter/variable collision} + %d parser fixture queries x {no panic, repeat, AST unchanged} + %s", len(testCases), rotations+1, corpus, extBound), "cases": cases, "exhaustive": false, "failures": failures, "known_deviation_hits": x.hits, "known_deviation_examples": x.examples, "failure_classes": x.unknown}
	out, _ := json.Marshal(res)
	fmt.Println("BOUNDED-RESULT " + strings.ReplaceAll(string(out), "\\n", " "))
	if len(failures) > 0 {
		t.Fail()
	}
}

// =====================================================================================================================
// Extension (input classes that were blind spots of the harness above)
//
//  1. param-*     (C05) parameter values of every Go type and boundary value, through the caller's parameter map and
//                 through Parameter.Value of the AST, in comparison, IN, property-map and pattern-property positions:
//                 a result or an error, never a panic or a hang; the caller's map and every nested map/slice in it
//                 (up to the capacity of every slice, and the backing array of zero-length subslices) are unchanged;
//                 repeating the call gives the same SQL and equal parameters.
//  2. history-*   (C05) for every ordered pair (q1, q2) of a pool that mixes failing and succeeding queries and the
//                 three formatting entry points (Translate+Translated, FromCypher keeping / stripping literals) the
//                 output of q2 after q1 is byte-identical to the output of q2 run FIRST in a FRESH PROCESS (the
//                 reference outputs come from child processes of this test binary, one per pool item); the same for
//                 8 goroutines running the pool in different orders against ONE kind mapper and shared parameter maps.
//  3. names-*     (C06) variables, aliases and UNWIND targets spelled with backticks (names with '$', names equal to a
//                 parameter's name with and without '$', names equal to generated identifiers) and names that differ
//                 only in letter case: the statement must equal, up to ONE consistent spelling of every user name,
//                 the statement of the twin query with fresh harmless names.
//  4. orderby-*   (C06) aliases reused as ORDER BY keys before and after WITH, equal to generated names.
//
// Known-deviation classes (env VERIF_KNOWN, "|"-separated) are counted under "known_deviation_hits" instead of
// "failures" (first input of each under "known_deviation_examples"); nothing is suppressed in the code. Class names:
//   param-panic, param-hang, param-mutated, param-nil-slice-replaced (the only change is a nil slice that became an
//   empty one), param-nondeterministic, param-cyclic-crash (a value that contains itself kills the process);
//   history-panic, history, history-concurrent, history-params-mutated;
//   names-backtick@<shape>, names-case-variant@<shape> (the violation disappears when the names are moved apart so
//   that no two differ only in case), names-backtick-same-variable (`n` and n in one query);
//   orderby-generated-alias@<shape>.            <shape> is the tag of the query template (vxNameShapes, vxOrderByShapes)
// =====================================================================================================================

const vxCallLimit = 30 * time.Second

type vxState struct {
	fail     func(format string, args ...any)
	known    map[string]bool
	hits     map[string]int
	examples map[string]string // first input of every known class that was hit
	unknown  map[string]int    // violations per class that is not known (all of them are failures)
	cases    *int
	km       pgsql.KindMapper
	bound    int
	seed     int64
	counts   map[string]int
}

// deviation reports a violation of the oracle for an input of the named class.
// vxOutsideTheStatement: observations C05/C06 do not speak about. C06 quantifies over consistent (injective)
// renamings; `n` and n in one query are one name spelled two ways, not a renaming, and the translator rejecting that
// query with an error (it keeps the backticks in the symbol) is not a capture of a translator name. Counted as notes
// under known_deviation_hits["note:<class>"], never as failures.
var vxOutsideTheStatement = map[string]bool{"names-backtick-same-variable": true}

func (x *vxState) deviation(class, format string, args ...any) {
	if vxOutsideTheStatement[class] {
		x.hits["note:"+class]++
		return
	}
	if os.Getenv("VERIF_DEBUG") != "" {
		fmt.Printf("DEBUG deviation [%s] %s\n", class, strings.ReplaceAll(fmt.Sprintf(format, args...), "\n", " "))
	}
	if x.known[class] {
		x.hits[class]++
		if _, has := x.examples[class]; !has {
			x.examples[class] = strings.NewReplacer("\n", " ", `\n`, " / ").Replace(fmt.Sprintf(format, args...))
		}
		return
	}
	// at most two failures per class are listed, so that the few lines of the result show every class
	x.unknown[class]++
	if x.unknown[class] <= 2 {
		x.fail(format+" [class "+class+"]", args...)
	}
}

func vxTimedTranslate(model *cypher.RegularQuery, km pgsql.KindMapper, params map[string]any) (sql string, out map[string]any, err error, pan any, hung bool) {
	type result struct {
		sql string
		out map[string]any
		err error
		pan any
	}
	ch := make(chan result, 1)
	go func() {
		s, o, e, p := safeTranslate(model, km, params)
		ch <- result{s, o, e, p}
	}()
	select {
	case r := <-ch:
		return r.sql, r.out, r.err, r.pan, false
	case <-time.After(vxCallLimit):
		return "", nil, nil, nil, true
	}
}

// vxSame is reflect.DeepEqual with three differences: floating point numbers are compared by their bits (NaN equals
// itself, 0 differs from -0), slices are compared up to their CAPACITY (an append into spare capacity is a change),
// and functions / channels are compared by identity.
func vxSame(a, b any) bool {
	return vxSameValue(reflect.ValueOf(a), reflect.ValueOf(b), 0, false)
}

// vxSameButNilSlices: as vxSame, but a nil slice and an empty slice of the same type are taken for equal (used only to
// give the deviation "a nil slice was replaced by an empty one" a class of its own)
func vxSameButNilSlices(a, b any) bool {
	return vxSameValue(reflect.ValueOf(a), reflect.ValueOf(b), 0, true)
}

func vxSameValue(a, b reflect.Value, depth int, nilIsEmpty bool) bool {
	if a.IsValid() != b.IsValid() {
		return false
	}
	if !a.IsValid() {
		return true
	}
	if a.Type() != b.Type() {
		return false
	}
	if depth > 200 {
		return true // cyclic value: compared down to depth 200
	}
	switch a.Kind() {
	case reflect.Bool:
		return a.Bool() == b.Bool()
	case reflect.Int, reflect.Int8, reflect.Int16, reflect.Int32, reflect.Int64:
		return a.Int() == b.Int()
	case reflect.Uint, reflect.Uint8, reflect.Uint16, reflect.Uint32, reflect.Uint64, reflect.Uintptr:
		return a.Uint() == b.Uint()
	case reflect.Float32, reflect.Float64:
		return math.Float64bits(a.Float()) == math.Float64bits(b.Float())
	case reflect.Complex64, reflect.Complex128:
		ca, cb := a.Complex(), b.Complex()
		return math.Float64bits(real(ca)) == math.Float64bits(real(cb)) && math.Float64bits(imag(ca)) == math.Float64bits(imag(cb))
	case reflect.String:
		return a.String() == b.String()
	case reflect.Interface, reflect.Pointer:
		if a.IsNil() || b.IsNil() {
			return a.IsNil() == b.IsNil()
		}
		return vxSameValue(a.Elem(), b.Elem(), depth+1, nilIsEmpty)
	case reflect.Slice:
		if (a.IsNil() != b.IsNil() && !nilIsEmpty) || a.Len() != b.Len() {
			return false
		}
		n := min(a.Cap(), b.Cap())
		if n > a.Len() {
			a, b = a.Slice(0, n), b.Slice(0, n)
		}
		for i := 0; i < a.Len(); i++ {
			if !vxSameValue(a.Index(i), b.Index(i), depth+1, nilIsEmpty) {
				return false
			}
		}
		return true
	case reflect.Array:
		for i := 0; i < a.Len(); i++ {
			if !vxSameValue(a.Index(i), b.Index(i), depth+1, nilIsEmpty) {
				return false
			}
		}
		return true
	case reflect.Map:
		if a.IsNil() != b.IsNil() || a.Len() != b.Len() {
			return false
		}
		iter := a.MapRange()
		for iter.Next() {
			other := b.MapIndex(iter.Key())
			if !other.IsValid() || !vxSameValue(iter.Value(), other, depth+1, nilIsEmpty) {
				return false
			}
		}
		return true
	case reflect.Struct:
		for i := 0; i < a.NumField(); i++ {
			if !vxSameValue(a.Field(i), b.Field(i), depth+1, nilIsEmpty) {
				return false
			}
		}
		return true
	case reflect.Func, reflect.Chan, reflect.UnsafePointer:
		return a.Pointer() == b.Pointer()
	}
	return false
}

// ---- class 1: parameter values ----

type vxParamValue struct {
	name string
	// mk builds the value afresh on every call (the second call is the independent deep copy taken "before");
	// witness is additional state that must not change either (the backing array of a zero-length subslice)
	mk func() (val any, witness any)
}

var (
	vxChan = make(chan int)
	vxFunc = func() {}
)

func vxV(name string, f func() any) vxParamValue {
	return vxParamValue{name: name, mk: func() (any, any) { return f(), nil }}
}

func vxParamValues() []vxParamValue {
	vals := []vxParamValue{
		// nil and scalars
		vxV("nil", func() any { return nil }),
		vxV(`""`, func() any { return "" }),
		vxV(`"x"`, func() any { return "x" }),
		vxV(`"it's"`, func() any { return "it's" }),
		vxV(`"\x00"`, func() any { return "\x00" }),
		vxV(`"$p"`, func() any { return "$p" }),
		vxV("true", func() any { return true }),
		vxV("false", func() any { return false }),
		// numbers at the integer limits
		vxV("int(0)", func() any { return int(0) }),
		vxV("int(MaxInt)", func() any { return int(math.MaxInt) }),
		vxV("int(MinInt)", func() any { return int(math.MinInt) }),
		vxV("int64(MaxInt64)", func() any { return int64(math.MaxInt64) }),
		vxV("int64(MinInt64)", func() any { return int64(math.MinInt64) }),
		vxV("int32(MaxInt32)", func() any { return int32(math.MaxInt32) }),
		vxV("int32(MinInt32)", func() any { return int32(math.MinInt32) }),
		vxV("int16(MaxInt16)", func() any { return int16(math.MaxInt16) }),
		vxV("int16(MinInt16)", func() any { return int16(math.MinInt16) }),
		vxV("int8(MaxInt8)", func() any { return int8(math.MaxInt8) }),
		vxV("int8(MinInt8)", func() any { return int8(math.MinInt8) }),
		vxV("uint8(255)", func() any { return uint8(math.MaxUint8) }),
		vxV("uint16(MaxUint16)", func() any { return uint16(math.MaxUint16) }),
		vxV("uint32(MaxUint32)", func() any { return uint32(math.MaxUint32) }),
		vxV("uint64(MaxUint64)", func() any { return uint64(math.MaxUint64) }),
		vxV("uint(MaxUint)", func() any { return uint(math.MaxUint) }),
		vxV("uintptr(0)", func() any { return uintptr(0) }),
		vxV("graph.ID(0)", func() any { return graph.ID(0) }),
		vxV("graph.ID(MaxUint64)", func() any { return graph.ID(math.MaxUint64) }),
		// floats
		vxV("NaN", func() any { return math.NaN() }),
		vxV("+Inf", func() any { return math.Inf(1) }),
		vxV("-Inf", func() any { return math.Inf(-1) }),
		vxV("-0.0", func() any { return math.Copysign(0, -1) }),
		vxV("MaxFloat64", func() any { return math.MaxFloat64 }),
		vxV("SmallestNonzeroFloat64", func() any { return math.SmallestNonzeroFloat64 }),
		vxV("float32(NaN)", func() any { return float32(math.NaN()) }),
		vxV("float32(+Inf)", func() any { return float32(math.Inf(1)) }),
		vxV("float32(MaxFloat32)", func() any { return float32(math.MaxFloat32) }),
		vxV("complex128", func() any { return complex(math.NaN(), 1) }),
		// empty non-nil slices of every element type
		vxV("[]any{}", func() any { return []any{} }),
		vxV("[]string{}", func() any { return []string{} }),
		vxV("[]int{}", func() any { return []int{} }),
		vxV("[]int8{}", func() any { return []int8{} }),
		vxV("[]int16{}", func() any { return []int16{} }),
		vxV("[]int32{}", func() any { return []int32{} }),
		vxV("[]int64{}", func() any { return []int64{} }),
		vxV("[]uint{}", func() any { return []uint{} }),
		vxV("[]uint8{}", func() any { return []uint8{} }),
		vxV("[]uint16{}", func() any { return []uint16{} }),
		vxV("[]uint32{}", func() any { return []uint32{} }),
		vxV("[]uint64{}", func() any { return []uint64{} }),
		vxV("[]float32{}", func() any { return []float32{} }),
		vxV("[]float64{}", func() any { return []float64{} }),
		vxV("[]bool{}", func() any { return []bool{} }),
		vxV("[]graph.ID{}", func() any { return []graph.ID{} }),
		vxV("graph.Kinds{}", func() any { return graph.Kinds{} }),
		vxV("[]map[string]any{}", func() any { return []map[string]any{} }),
		vxV("[][]any{}", func() any { return [][]any{} }),
		vxV("[][]string{}", func() any { return [][]string{} }),
		vxV("[]time.Time{}", func() any { return []time.Time{} }),
		vxV("make([]string,0,4)", func() any { return make([]string, 0, 4) }),
		vxV("make([]any,0,4)", func() any { return make([]any, 0, 4) }),
		// nil slices
		vxV("[]any(nil)", func() any { return []any(nil) }),
		vxV("[]string(nil)", func() any { return []string(nil) }),
		vxV("[]int64(nil)", func() any { return []int64(nil) }),
		vxV("graph.Kinds(nil)", func() any { return graph.Kinds(nil) }),
		vxV("[]byte(nil)", func() any { return []byte(nil) }),
		// non-empty slices, homogeneous and not
		vxV(`[]string{"a",""}`, func() any { return []string{"a", ""} }),
		vxV("[]int64{Min,Max}", func() any { return []int64{math.MinInt64, math.MaxInt64} }),
		vxV("[]uint64{Max}", func() any { return []uint64{math.MaxUint64} }),
		vxV("[]float64{NaN,Inf}", func() any { return []float64{math.NaN(), math.Inf(1)} }),
		vxV("[]graph.ID{Max}", func() any { return []graph.ID{graph.ID(math.MaxUint64)} }),
		vxV(`[]any{"a","b"}`, func() any { return []any{"a", "b"} }),
		vxV(`[]any{int64(1),"a"}`, func() any { return []any{int64(1), "a"} }),
		vxV("[]any{nil}", func() any { return []any{nil} }),
		vxV(`[]any{nil,"a"}`, func() any { return []any{nil, "a"} }),
		vxV(`[]any{"a",nil}`, func() any { return []any{"a", nil} }),
		vxV("[]any{NaN}", func() any { return []any{math.NaN()} }),
		vxV("[]any{chan}", func() any { return []any{vxChan} }),
		// nested empty slices
		vxV("[]any{[]any{}}", func() any { return []any{[]any{}} }),
		vxV("[]any{[]any{},[]any{}}", func() any { return []any{[]any{}, []any{}} }),
		vxV("[]any{[]string{}}", func() any { return []any{[]string{}} }),
		vxV("[]any{[]any{[]any{}}}", func() any { return []any{[]any{[]any{}}} }),
		vxV("[][]any{{}}", func() any { return [][]any{{}} }),
		vxV("[][]string{{},nil}", func() any { return [][]string{{}, nil} }),
		vxV("[]any{[]any(nil)}", func() any { return []any{[]any(nil)} }),
		vxV("[]any{map[string]any{}}", func() any { return []any{map[string]any{}} }),
		vxV("[]map[string]any{nil,{}}", func() any { return []map[string]any{nil, {}} }),
		// maps
		vxV("map[string]any{}", func() any { return map[string]any{} }),
		vxV("map[string]any(nil)", func() any { return map[string]any(nil) }),
		vxV(`map[string]any{"a":nil}`, func() any { return map[string]any{"a": nil} }),
		vxV(`map[string]any{"a":map[string]any{}}`, func() any { return map[string]any{"a": map[string]any{}} }),
		vxV(`map[string]any{"a":map[string]any{"b":nil}}`, func() any { return map[string]any{"a": map[string]any{"b": nil}} }),
		vxV(`map[string]any{"a":[]any{}}`, func() any { return map[string]any{"a": []any{}} }),
		vxV(`map[string]any{"a":[]any{nil}}`, func() any { return map[string]any{"a": []any{nil}} }),
		vxV(`map[string]any{"a":[]any(nil)}`, func() any { return map[string]any{"a": []any(nil)} }),
		vxV(`map[string]any{"a":[]string(nil)}`, func() any { return map[string]any{"a": []string(nil)} }),
		vxV(`map[string]any{"a":map[string]any{"b":[]string(nil)}}`, func() any { return map[string]any{"a": map[string]any{"b": []string(nil)}} }),
		vxV(`map[string]any{"":""}`, func() any { return map[string]any{"": ""} }),
		vxV(`map[string]any{"a":NaN}`, func() any { return map[string]any{"a": math.NaN()} }),
		vxV(`map[string]any{"a":+Inf}`, func() any { return map[string]any{"a": math.Inf(1)} }),
		vxV(`map[string]any{"a":MaxUint64}`, func() any { return map[string]any{"a": uint64(math.MaxUint64)} }),
		vxV(`map[string]any{"a":chan}`, func() any { return map[string]any{"a": vxChan} }),
		vxV(`map[string]any{"a":1,"b":"x","c":[]string{"y"}}`, func() any { return map[string]any{"a": 1, "b": "x", "c": []string{"y"}} }),
		vxV("map[string]string{}", func() any { return map[string]string{} }),
		vxV(`map[string]string{"a":"b"}`, func() any { return map[string]string{"a": "b"} }),
		vxV("map[int]any{}", func() any { return map[int]any{} }),
		vxV("map[any]any{}", func() any { return map[any]any{} }),
		vxV("map[string][]any{nil}", func() any { return map[string][]any{"a": nil} }),
		// types of the graph and cypher packages
		vxV("(*graph.Properties)(nil)", func() any { return (*graph.Properties)(nil) }),
		vxV("graph.NewProperties()", func() any { return graph.NewProperties() }),
		vxV("&graph.Properties{}", func() any { return &graph.Properties{} }),
		vxV(`&graph.Properties{Map:{"a":[]string(nil)}}`, func() any { return &graph.Properties{Map: map[string]any{"a": []string(nil)}} }),
		vxV("graph.StringKind(NodeKind1)", func() any { return graph.StringKind("NodeKind1") }),
		vxV("graph.StringKind(unknown)", func() any { return graph.StringKind("VxUnknownKind") }),
		vxV("graph.Kinds{NodeKind1}", func() any { return graph.Kinds{graph.StringKind("NodeKind1")} }),
		vxV("graph.Kinds{nil}", func() any { return graph.Kinds{nil} }),
		vxV("cypher.MapLiteral{}", func() any { return cypher.MapLiteral{} }),
		vxV("cypher.MapLiteral(nil)", func() any { return cypher.MapLiteral(nil) }),
		vxV("(*cypher.ListLiteral)(nil)", func() any { return (*cypher.ListLiteral)(nil) }),
		vxV("cypher.NewListLiteral()", func() any { return cypher.NewListLiteral() }),
		vxV("(*cypher.Literal)(nil)", func() any { return (*cypher.Literal)(nil) }),
		vxV("cypher.NewLiteral(nil,true)", func() any { return cypher.NewLiteral(nil, true) }),
		vxV("(*cypher.Parameter)(nil)", func() any { return (*cypher.Parameter)(nil) }),
		// time
		vxV("time.Time{}", func() any { return time.Time{} }),
		vxV("time.Unix(0,0).UTC()", func() any { return time.Unix(0, 0).UTC() }),
		vxV("time.Duration(0)", func() any { return time.Duration(0) }),
		vxV("time.Duration(MinInt64)", func() any { return time.Duration(math.MinInt64) }),
		// everything else
		vxV("struct{}{}", func() any { return struct{}{} }),
		vxV("(*int)(nil)", func() any { return (*int)(nil) }),
		vxV("new(int)", func() any { return new(int) }),
		vxV("(*string)(nil)", func() any { return (*string)(nil) }),
		vxV("[]byte{}", func() any { return []byte{} }),
		vxV("json.Number", func() any { return json.Number("1e400") }),
		vxV("[0]int{}", func() any { return [0]int{} }),
		vxV("[2]string{}", func() any { return [2]string{} }),
		vxV("func", func() any { return vxFunc }),
		vxV("chan", func() any { return vxChan }),
		vxV("error", func() any { return fmt.Errorf("an error value") }),
		vxV("[]error{}", func() any { return []error{} }),
		vxV("rune", func() any { return 'x' }),
	}
	// zero-length subslices of non-empty arrays: the backing array is the witness
	sub := func(name string, mk func() (any, any)) { vals = append(vals, vxParamValue{name: name, mk: mk}) }
	sub(`[]string{"a","b","c"}[:0]`, func() (any, any) { b := []string{"a", "b", "c"}; return b[:0], b })
	sub(`[]string{"a","b","c"}[1:1]`, func() (any, any) { b := []string{"a", "b", "c"}; return b[1:1], b })
	sub(`[]string{"a","b","c"}[3:]`, func() (any, any) { b := []string{"a", "b", "c"}; return b[3:], b })
	sub(`[]string{"a","b","c"}[1:1:1]`, func() (any, any) { b := []string{"a", "b", "c"}; return b[1:1:1], b })
	sub("[]int64{1,2,3}[:0]", func() (any, any) { b := []int64{1, 2, 3}; return b[:0], b })
	sub("[]int64{1,2,3}[2:2]", func() (any, any) { b := []int64{1, 2, 3}; return b[2:2], b })
	sub("[]int{1,2,3}[:0]", func() (any, any) { b := []int{1, 2, 3}; return b[:0], b })
	sub("[]float64{1,2,3}[1:1]", func() (any, any) { b := []float64{1, 2, 3}; return b[1:1], b })
	sub(`[]any{"a","b","c"}[:0]`, func() (any, any) { b := []any{"a", "b", "c"}; return b[:0], b })
	sub(`[]any{"a","b","c"}[1:1]`, func() (any, any) { b := []any{"a", "b", "c"}; return b[1:1], b })
	sub(`[]any{[]any{"a"}[:0]}`, func() (any, any) { b := []any{"a"}; return []any{b[:0]}, b })
	sub(`map[string]any{"a":[]string{"a","b"}[:0]}`, func() (any, any) { b := []string{"a", "b"}; return map[string]any{"a": b[:0]}, b })
	sub(`(&[3]string{"a","b","c"})[:0]`, func() (any, any) { b := &[3]string{"a", "b", "c"}; return b[:0], b })
	sub(`(&[3]string{"a","b","c"})[1:1]`, func() (any, any) { b := &[3]string{"a", "b", "c"}; return b[1:1], b })
	sub("graph.Kinds{K1,K2}[:0]", func() (any, any) {
		b := graph.Kinds{graph.StringKind("NodeKind1"), graph.StringKind("NodeKind2")}
		return b[:0], b
	})
	return vals
}

// values that contain themselves: run in a child process (unbounded recursion is a fatal error, not a panic)
func vxCyclicValues() []vxParamValue {
	return []vxParamValue{
		vxV("cyclic map (m[\"self\"] = m)", func() any { m := map[string]any{"a": 1}; m["self"] = m; return m }),
		vxV("cyclic slice (s[0] = s)", func() any { s := make([]any, 1); s[0] = s; return s }),
		vxV("cyclic slice in a map (m[\"a\"] = s, s[0] = m)", func() any {
			s := make([]any, 1)
			m := map[string]any{"a": s}
			s[0] = m
			return m
		}),
	}
}

// positions of $p (and $q) per class of position
var vxParamPositions = []struct{ position, query string }{
	{"comparison", "match (n) where n.name = $p return n"},
	{"comparison", "match (n) where $p = n.name return n"},
	{"comparison", "match (n) where n.value > $p return n"},
	{"comparison", "match (n) where n.value <> $p and not n.other <= $p return n"},
	{"comparison", "match (n) where id(n) = $p return n"},
	{"comparison", "match (n) where n.name starts with $p or n.name contains $p or n.name ends with $p return n"},
	{"comparison", "match (n)-[r]->(m) where type(r) = $p and n.name = $q return m"},
	{"comparison", "match (n) where $p is null or $p = $q return n"},
	{"comparison", "match (n) where n.value = $p + 1 return n.value - $p"},
	{"comparison", "match (n) return n, $p as v order by v skip 1 limit 2"},
	{"in", "match (n) where n.name in $p return n"},
	{"in", "match (n) where id(n) in $p return n"},
	{"in", "match (n) where not n.name in $p and n.other in $q return n"},
	{"in", "match (n) where $p in n.list return n"},
	{"in", "match (n)-[r]->(m) where type(r) in $p return r"},
	{"in", "match (n) where any(x in $p where x = n.name) return n"},
	{"in", "match (n) where size($p) > 0 and n.name in $p + ['z'] return n"},
	{"in", "unwind $p as x return x"},
	{"in", "unwind $p as x match (n) where id(n) = x return n"},
	{"in", "match (n) where n:NodeKind1 and n.name in $p with collect(n) as l match (m) where m in l return m"},
	{"property-map", "match (n) where n.props = {k: $p} return n"},
	{"property-map", "match (n) where n.props = {k: $p, j: {i: $p}, h: [$p]} return n"},
	{"property-map", "match (n) return {k: $p} as m"},
	{"property-map", "match (n) set n.k = $p return n"},
	{"property-map", "match (n) set n += {k: $p} return n"},
	{"property-map", "match (n) set n = $p return n"},
	{"property-map", "create (n:NodeKind1 {k: $p}) return n"},
	{"property-map", "match (a), (b) create (a)-[r:EdgeKind1 {k: $p}]->(b) return r"},
	{"pattern-property", "match (n {k: $p}) return n"},
	{"pattern-property", "match (n:NodeKind1 {k: $p, j: 1}) return n"},
	{"pattern-property", "match ()-[r {k: $p}]->() return r"},
	{"pattern-property", "match (n {k: $p})-[r:EdgeKind1 {j: $p}]->(m {i: $q}) return n, r, m"},
	{"pattern-property", "match p = (n {k: $p})-[*1..2]->(m {k: $p}) return p"},
	{"pattern-property", "match p = (n:NodeKind1)-[:EdgeKind1*1..]->(m:NodeKind2) where n.name = $p and m.name in $p return p"},
	{"pattern-property", "match p = shortestPath((n {k: $p})-[*1..]->(m)) where m.name = $p return p"},
	{"pattern-property", "match p = allShortestPaths((n:NodeKind1 {k: $p})-[:EdgeKind1*1..]->(m:NodeKind2 {k: $q})) return p"},
	{"pattern-property", "match (n $p) return n"},
	{"pattern-property", "match (n) where (n)-[:EdgeKind1]->({k: $p}) return n"},
	{"pattern-property", "match (n:NodeKind1) match (n)-[:EdgeKind1*1..]->(m:NodeKind2 {k: $p}) with n, count(m) as c return n, c order by c desc limit 5"},
}

func vxSetParameterValues(model *cypher.RegularQuery, values map[string]any) {
	_ = walk.Cypher(model, walk.NewSimpleVisitor[cypher.SyntaxNode](func(node cypher.SyntaxNode, _ walk.VisitorHandler) {
		if p, ok := node.(*cypher.Parameter); ok {
			if v, has := values[p.Symbol]; has {
				p.Value = v
			}
		}
	}))
}

func vxParamClass(x *vxState) (queries, values int) {
	vals := vxParamValues()
	for _, pos := range vxParamPositions {
		if m, err := frontend.ParseCypher(frontend.NewContext(), pos.query); err != nil || m == nil {
			x.fail("C05 parameter position query does not parse: %q: %v", pos.query, err)
			continue
		}
		queries++
		for _, pv := range vals {
			*x.cases += 2
			what := fmt.Sprintf("%q with $p = %s (%s position)", pos.query, pv.name, pos.position)
			// (a) through the caller's parameter map
			model, _ := frontend.ParseCypher(frontend.NewContext(), pos.query)
			before := cypher.Copy(model)
			val, wit := pv.mk()
			refVal, refWit := pv.mk()
			params := map[string]any{"p": val, "q": "other", "zz_unused": val}
			ref := map[string]any{"p": refVal, "q": "other", "zz_unused": refVal}
			if !vxSame(params, ref) || !vxSame(wit, refWit) {
				x.fail("harness: value constructor %s is not reproducible", pv.name)
				continue
			}
			sql1, out1, err1, pan, hung := vxTimedTranslate(model, x.km, params)
			if hung {
				x.deviation("param-hang", "C05 translation did not return within %v for %s", vxCallLimit, what)
				continue
			}
			if pan != nil {
				x.deviation("param-panic", "C05 panic translating %s (value in the parameter map): %v", what, pan)
			} else {
				if !vxSame(params, ref) || !vxSame(wit, refWit) {
					class := "param-mutated"
					if vxSameButNilSlices(params, ref) && vxSame(wit, refWit) {
						class = "param-nil-slice-replaced"
					}
					x.deviation(class, "C05 translation changed the caller's parameter map (or a map/slice nested in it) for %s: before %#v, after %#v", what, ref["p"], params["p"])
				}
				if !reflect.DeepEqual(before, model) {
					x.deviation("param-mutated", "C05 translation changed the caller's AST for %s", what)
				}
				sql2, out2, err2, pan2, hung2 := vxTimedTranslate(model, x.km, params)
				if hung2 || pan2 != nil || (err1 == nil) != (err2 == nil) || sql1 != sql2 || !vxSame(out1, out2) {
					x.deviation("param-nondeterministic", "C05 repeated translation differs for %s: err %v / %v, panic %v", what, err1, err2, pan2)
				}
			}
			// (b) through Parameter.Value of the AST
			model, _ = frontend.ParseCypher(frontend.NewContext(), pos.query)
			refModel, _ := frontend.ParseCypher(frontend.NewContext(), pos.query)
			val, wit = pv.mk()
			refVal, refWit = pv.mk()
			vxSetParameterValues(model, map[string]any{"p": val, "q": "other"})
			vxSetParameterValues(refModel, map[string]any{"p": refVal, "q": "other"})
			if !vxSame(model, refModel) {
				x.fail("harness: two parses of %q differ", pos.query)
				continue
			}
			sql1, out1, err1, pan, hung = vxTimedTranslate(model, x.km, nil)
			if hung {
				x.deviation("param-hang", "C05 translation did not return within %v for %s (value in the AST)", vxCallLimit, what)
				continue
			}
			if pan != nil {
				x.deviation("param-panic", "C05 panic translating %s (value in Parameter.Value of the AST): %v", what, pan)
				continue
			}
			if !vxSame(model, refModel) || !vxSame(wit, refWit) {
				class := "param-mutated"
				if vxSameButNilSlices(model, refModel) && vxSame(wit, refWit) {
					class = "param-nil-slice-replaced"
				}
				x.deviation(class, "C05 translation changed the caller's AST (Parameter.Value or a map/slice nested in it) for %s", what)
			}
			sql2, out2, err2, pan2, hung2 := vxTimedTranslate(model, x.km, nil)
			if hung2 || pan2 != nil || (err1 == nil) != (err2 == nil) || sql1 != sql2 || !vxSame(out1, out2) {
				x.deviation("param-nondeterministic", "C05 repeated translation differs for %s (value in the AST): err %v / %v, panic %v", what, err1, err2, pan2)
			}
		}
	}
	return queries, len(vals)
}

func vxRunExtension(x *vxState) string {
	t0 := time.Now()
	lap := func(what string) {
		if os.Getenv("VERIF_DEBUG") != "" {
			fmt.Printf("DEBUG %s took %v\n", what, time.Since(t0))
		}
		t0 = time.Now()
	}
	pq, pv := vxParamClass(x)
	lap("parameter values")
	pc := vxCyclicClass(x)
	lap("self-containing values")
	names := vxNamesClass(x)
	lap("names")
	shapes := vxPatternShapeClass(x)
	lap("pattern shapes")
	shapes += " + " + vxResultAliasingClass(x)
	lap("result aliasing")
	shapes += " + " + vxExpressionSizeClass(x)
	lap("expression size")
	shapes += " + " + vxFunctionArityClass(x)
	lap("function arity")
	shapes += " + " + vxContextHistoryClass(x)
	lap("context history")
	hist := vxHistoryClass(x) // last: everything above is history for it
	lap("history")
	return fmt.Sprintf("%d parameter positions x (%d parameter values x {parameter map, Parameter.Value} x {no panic/hang, nothing nested changed, repeat} + %d self-containing values in child processes) + %s + %s + %s", pq, pv, pc, names, shapes, hist)
}

// ---- class 4: pattern shapes (totality within bounded time) ----
//
// Paths of 1..3 relationship steps; every step independently {fixed, *1.., *0.., *..2} x {->, <-} over two edge kinds;
// end nodes labelled; a property predicate on the first node, on the last node, on both or on neither; returned as a
// path or as its end nodes. The optimizer's reordering and reversal rules see every combination of bounded and
// unbounded expansions on either side. Oracle: the translation returns (a statement or an error) within the call limit,
// does not panic, and a second translation of the same model gives the same text.
func vxPatternShapeClass(x *vxState) string {
	ranges := []string{"", "*1..", "*0..", "*..2"}
	kinds := []string{"EdgeKind1", "EdgeKind2"}
	labels := []string{"NodeKind1", "NodeKind2"}
	n := 0
	for steps := 1; steps <= 3; steps++ {
		total := 1
		for i := 0; i < steps; i++ {
			total *= len(ranges) * 2
		}
		for code := 0; code < total; code++ {
			c := code
			pattern := "(s:" + labels[0] + ")"
			for i := 0; i < steps; i++ {
				r := ranges[c%len(ranges)]
				c /= len(ranges)
				right := c%2 == 0
				c /= 2
				rel := "[:" + kinds[i%2] + r + "]"
				node := fmt.Sprintf("(m%d:%s)", i, labels[(i+1)%2])
				if i == steps-1 {
					node = "(d:" + labels[(i+1)%2] + ")"
				}
				if right {
					pattern += "-" + rel + "->" + node
				} else {
					pattern += "<-" + rel + "-" + node
				}
			}
			for pred := 0; pred < 4; pred++ {
				where := []string{"", " where s.name = 'a'", " where d.name = 'b'", " where s.name = 'a' and d.name = 'b'"}[pred]
				for _, ret := range []string{"p", "s, d"} {
					q := "match p = " + pattern + where + " return " + ret
					model, err := frontend.ParseCypher(frontend.NewContext(), q)
					if err != nil {
						continue
					}
					*x.cases++
					n++
					sql1, _, err1, pan, hung := vxTimedTranslate(model, x.km, nil)
					switch {
					case hung:
						x.deviation("shape-hang", "C05 translation did not return within %v for %q", vxCallLimit, q)
						return fmt.Sprintf("pattern shapes (stopped at a hang after %d)", n)
					case pan != nil:
						x.deviation("shape-panic", "C05 panic translating %q: %v", q, pan)
					case err1 == nil:
						if again, err := frontend.ParseCypher(frontend.NewContext(), q); err == nil {
							if sql2, _, err2, _, _ := vxTimedTranslate(again, x.km, nil); err2 != nil || sql2 != sql1 {
								x.deviation("shape-nondeterministic", "C05 repeated translation differs for %q", q)
							}
						}
					}
				}
			}
		}
	}
	return fmt.Sprintf("%d path patterns of 1..3 steps x {fixed, *1.., *0.., *..2} x both directions x end-node predicates x {path, nodes}", n)
}

// ---- class 4b: expression size (totality within bounded time) ----
//
// One expression grown to 8, 16, 32, 64 and 128 terms in every way an expression nests or chains: left-deep and
// right-deep arithmetic over untyped operands (property lookups), over typed ones, mixed; string concatenation; chains
// of and / or / xor / comparisons; nested parentheses, negations, function calls and list literals; long IN lists.
// Oracle: every one returns (a statement or an error) within vxSizeLimit and does not panic. The work the translator
// does may grow with the size of the query, but a query of 128 terms that does not come back within the limit is a
// hang for the caller (nothing inside the translation observes a context).
const vxSizeLimit = 10 * time.Second

func vxExpressionSizeClass(x *vxState) string {
	type family struct {
		name  string
		build func(n int) string
	}
	chain := func(op string, term func(i int) string, leftDeep bool) func(n int) string {
		return func(n int) string {
			var b strings.Builder
			if leftDeep {
				for i := 0; i < n; i++ {
					if i > 0 {
						b.WriteString(" " + op + " ")
					}
					b.WriteString(term(i))
				}
				return b.String()
			}
			for i := 0; i < n; i++ {
				b.WriteString(term(i))
				if i < n-1 {
					b.WriteString(" " + op + " (")
				}
			}
			b.WriteString(strings.Repeat(")", n-1))
			return b.String()
		}
	}
	prop := func(i int) string { return fmt.Sprintf("n.p%d", i) }
	num := func(i int) string { return fmt.Sprint(i + 1) }
	str := func(i int) string { return fmt.Sprintf("'s%d'", i) }
	mixed := func(i int) string {
		if i%5 == 4 {
			return num(i)
		}
		return prop(i)
	}
	cmp := func(i int) string { return fmt.Sprintf("n.p%d = %d", i, i) }
	nest := func(open, close, core string) func(n int) string {
		return func(n int) string { return strings.Repeat(open, n) + core + strings.Repeat(close, n) }
	}
	where := func(f func(n int) string) func(n int) string {
		return func(n int) string { return "match (n) where " + f(n) + " return n" }
	}
	ret := func(f func(n int) string) func(n int) string {
		return func(n int) string { return "match (n) return " + f(n) + " as v" }
	}
	families := []family{
		{"sum of property lookups, left-deep", ret(chain("+", prop, true))},
		{"sum of property lookups, right-deep", ret(chain("+", prop, false))},
		{"sum of property lookups compared, in where", func(n int) string { return "match (n) where " + chain("+", prop, true)(n) + " > 1 return n" }},
		{"product and difference of property lookups", ret(func(n int) string { return chain("*", prop, true)(n/2+1) + " - " + chain("-", prop, true)(n/2+1) })},
		{"sum of numbers", ret(chain("+", num, true))},
		{"sum of lookups and numbers", ret(chain("+", mixed, true))},
		{"concatenation of strings and lookups", ret(chain("+", func(i int) string {
			if i%2 == 0 {
				return str(i)
			}
			return prop(i)
		}, true))},
		{"conjunction of comparisons", where(chain("and", cmp, true))},
		{"disjunction of comparisons, right-deep", where(chain("or", cmp, false))},
		{"exclusive disjunction of comparisons", where(chain("xor", cmp, true))},
		{"alternating and / or", where(func(n int) string {
			var b strings.Builder
			for i := 0; i < n; i++ {
				if i > 0 {
					b.WriteString([]string{" and ", " or "}[i%2])
				}
				b.WriteString(cmp(i))
			}
			return b.String()
		})},
		{"comparison chain", where(func(n int) string { return chain("<", prop, true)(n) })},
		{"nested parentheses", where(nest("(", ")", "n.a = 1"))},
		{"nested negations", where(func(n int) string { return strings.Repeat("not ", n) + "n.a = 1" })},
		{"nested function calls", ret(nest("toLower(", ")", "n.name"))},
		{"nested list literals", ret(nest("[", "]", "n.a"))},
		{"IN list of numbers", where(func(n int) string { return "n.a in [" + chain(",", num, true)(n) + "]" })},
		{"IN list of lookups", where(func(n int) string { return "n.a in [" + chain(",", prop, true)(n) + "]" })},
		{"projection items", func(n int) string { return "match (n) return " + chain(",", prop, true)(n) }},
		{"string predicates over a concatenation", where(func(n int) string { return "n.name starts with " + chain("+", prop, true)(n) })},
	}
	sizes := []int{8, 16, 32, 64, 128}
	n := 0
	for _, fam := range families {
		for _, size := range sizes {
			q := fam.build(size)
			model, err := frontend.ParseCypher(frontend.NewContext(), q)
			if err != nil {
				continue
			}
			*x.cases++
			n++
			type result struct {
				pan any
			}
			ch := make(chan result, 1)
			t0 := time.Now()
			go func() {
				_, _, _, p := safeTranslate(model, x.km, nil)
				ch <- result{p}
			}()
			select {
			case r := <-ch:
				if r.pan != nil {
					x.deviation("size-panic", "C05 panic translating %s with %d terms: %v", fam.name, size, r.pan)
				}
				if os.Getenv("VERIF_DEBUG") != "" && time.Since(t0) > 100*time.Millisecond {
					fmt.Printf("DEBUG size %s %d took %v\n", fam.name, size, time.Since(t0))
				}
			case <-time.After(vxSizeLimit):
				x.deviation("size-hang", "C05 translation of %s with %d terms did not return within %v (query: %.120s...)", fam.name, size, vxSizeLimit, q)
				return fmt.Sprintf("expression size (stopped at a hang after %d)", n)
			}
		}
	}
	return fmt.Sprintf("%d expressions of 8..128 terms in %d nesting and chaining families", n, len(families))
}

// ---- class 4c: function calls of every arity (totality) ----
//
// Every function name the model knows (cypher/models/cypher/functions.go), two it does not, with 0, 1, 2 and 3
// arguments of three kinds (property lookups, numbers, strings), in a projection, in a predicate, under an aggregate and
// next to another operand. The parser accepts every arity; the translator answers with a statement or an error.
func vxFunctionArityClass(x *vxState) string {
	names := []string{"count", "date", "time", "localtime", "datetime", "localdatetime", "duration", "id", "toLower", "toUpper", "labels", "type",
		"startNode", "endNode", "split", "toString", "toInteger", "toInt", "size", "head", "tail", "nodes", "relationships", "coalesce", "collect",
		"sum", "avg", "min", "max", "toFloat", "toBoolean", "keys", "properties", "length", "abs", "noSuchFunction", "reverse"}
	argKinds := [][]string{{"n.a", "n.b", "n.c"}, {"1", "2", "3"}, {"'x'", "'y'", "'z'"}, {"n", "r", "p"}}
	n := 0
	for _, name := range names {
		for arity := 0; arity <= 3; arity++ {
			for _, args := range argKinds {
				if arity == 0 && args[0] != "n.a" {
					continue
				}
				call := name + "(" + strings.Join(args[:arity], ", ") + ")"
				for _, q := range []string{
					"match p = (n)-[r]->(m) return " + call,
					"match p = (n)-[r]->(m) where " + call + " = 1 return n",
					"match p = (n)-[r]->(m) where n.age > 1 and " + call + " = n.x return n",
					"match p = (n)-[r]->(m) return n, count(" + call + ")",
					"match p = (n)-[r]->(m) with " + call + " as v return v",
					"match p = (n)-[r]->(m) return n.a + " + call,
					"return " + call,
				} {
					model, err := frontend.ParseCypher(frontend.NewContext(), q)
					if err != nil {
						continue
					}
					*x.cases++
					n++
					_, _, _, pan, hung := vxTimedTranslate(model, x.km, nil)
					if hung {
						x.deviation("function-hang", "C05 translation did not return within %v for %q", vxCallLimit, q)
						return fmt.Sprintf("function calls (stopped at a hang after %d)", n)
					}
					if pan != nil {
						x.deviation("function-panic", "C05 panic translating %q: %v", q, pan)
					}
				}
			}
		}
	}
	return fmt.Sprintf("%d function calls (%d names x 0..3 arguments x 4 argument kinds x 7 positions)", n, len(names))
}

// ---- class 4d: the caller's context belongs to one call ----
//
// The kind mapper is shared between calls; the context is not. A mapper that honours the context it is handed (it
// answers with ctx.Err() once the context has ended, as a mapper backed by a database does) sees, for every lookup, the
// context of the call that makes the lookup: after a translation under a context that has since been cancelled, a
// translation under a live context gives the text a fresh mapper gives, and a translation under the cancelled context
// gives an error (or the same text, when it needs no lookup) - in any order, repeatedly.
type vxCtxMapper struct {
	inner pgsql.KindMapper
	seen  map[context.Context]int
}

func (s *vxCtxMapper) MapKinds(ctx context.Context, kinds graph.Kinds) ([]int16, error) {
	s.seen[ctx]++
	if err := ctx.Err(); err != nil {
		return nil, err
	}
	return s.inner.MapKinds(ctx, kinds)
}

func (s *vxCtxMapper) AssertKinds(ctx context.Context, kinds graph.Kinds) ([]int16, error) {
	s.seen[ctx]++
	if err := ctx.Err(); err != nil {
		return nil, err
	}
	return s.inner.AssertKinds(ctx, kinds)
}

func vxContextHistoryClass(x *vxState) string {
	queries := []string{
		"match (n:NodeKind1) return n",
		"match (n:NodeKind1)-[r:EdgeKind1]->(m:NodeKind2) where n.name = 'a' return m",
		"match p = (n:NodeKind1)-[:EdgeKind1*1..]->(m) return p",
		"match (n) where n:NodeKind1 or n:NodeKind2 return n",
		"match (n) return n",
	}
	type outcome struct {
		sql string
		err string
		pan any
	}
	run := func(ctx context.Context, km pgsql.KindMapper, q string) (o outcome) {
		defer func() {
			if r := recover(); r != nil {
				o.pan = r
			}
		}()
		model, err := frontend.ParseCypher(frontend.NewContext(), q)
		if err != nil {
			return outcome{err: "parse: " + err.Error()}
		}
		res, err := translate.Translate(ctx, model, km, nil, translate.DefaultGraphID)
		if err != nil {
			return outcome{err: err.Error()}
		}
		text, err := translate.Translated(res)
		if err != nil {
			return outcome{err: err.Error()}
		}
		return outcome{sql: text}
	}
	n := 0
	for ai, qa := range queries {
		for _, qb := range queries {
			*x.cases++
			n++
			fresh := run(context.Background(), newKindMapper(), qb)
			km := &vxCtxMapper{inner: newKindMapper(), seen: map[context.Context]int{}}
			type ctxKey struct{}
			ctxA, cancelA := context.WithCancel(context.WithValue(context.Background(), ctxKey{}, "A"))
			first := run(ctxA, km, qa)
			if ai%2 == 0 {
				cancelA()
			}
			ctxB, cancelB := context.WithCancel(context.WithValue(context.Background(), ctxKey{}, "B"))
			seenA := km.seen[ctxA]
			second := run(ctxB, km, qb)
			switch {
			case first.pan != nil || second.pan != nil:
				x.deviation("context-panic", "C05 panic translating %q then %q on one context-honouring kind mapper: %v %v", qa, qb, first.pan, second.pan)
			case second != fresh:
				x.deviation("context-history", "C05 after translating %q under a context that has %s, translating %q under a live context of its own gives (%q, error %q); a fresh mapper gives (%q, error %q)", qa, map[bool]string{true: "ended", false: "not ended"}[ai%2 == 0], qb, second.sql, second.err, fresh.sql, fresh.err)
			case km.seen[ctxA] != seenA:
				x.deviation("context-history", "C05 translating %q under its own context made %d kind lookups under the context of the EARLIER call (%q)", qb, km.seen[ctxA]-seenA, qa)
			}
			cancelA()
			cancelB()
			// the ended context itself: an error or (no lookup needed) the fresh text, never a panic, never another text
			third := run(ctxB, km, qb)
			if third.pan != nil {
				x.deviation("context-panic", "C05 panic translating %q under a cancelled context: %v", qb, third.pan)
			} else if third.err == "" && third.sql != fresh.sql {
				x.deviation("context-history", "C05 translating %q under a cancelled context gives another text than a fresh call: %q versus %q", qb, third.sql, fresh.sql)
			}
		}
	}
	return fmt.Sprintf("%d ordered pairs of translations under two contexts (the first cancelled or not) on one context-honouring kind mapper", n)
}

// ---- class 5: a returned Result is a value of its own ----
//
// Side-effect free also means that what one call returned is not changed by a later call: for every ordered pair (A, B)
// of the queries of the history pool that translate, A is translated and rendered, then B is translated (and rendered),
// then the Result of A kept from before is rendered AGAIN: the two renderings of A must be the same text, and its
// parameter map must be unchanged. (A statement model that shares a slice with a package-level template, or with the
// next translation's model, shows up here and nowhere else.)
func vxResultAliasingClass(x *vxState) string {
	type kept struct {
		query string
		res   translate.Result
		text  string
		pars  string
	}
	translateKeep := func(q string) (k kept, ok bool) {
		defer func() {
			if r := recover(); r != nil {
				ok = false
			}
		}()
		model, err := frontend.ParseCypher(frontend.NewContext(), q)
		if err != nil {
			return k, false
		}
		res, err := translate.Translate(context.Background(), model, x.km, nil, translate.DefaultGraphID)
		if err != nil {
			return k, false
		}
		text, err := translate.Translated(res)
		if err != nil {
			return k, false
		}
		return kept{q, res, text, fmt.Sprintf("%#v", res.Parameters)}, true
	}
	var pool []string
	for _, hq := range vxHistQueries {
		if hq.params == 0 {
			if _, ok := translateKeep(hq.query); ok {
				pool = append(pool, hq.query)
			}
		}
	}
	pairs := 0
	for _, qa := range pool {
		for _, qb := range pool {
			a, ok := translateKeep(qa)
			if !ok {
				continue
			}
			if _, ok := translateKeep(qb); !ok {
				continue
			}
			*x.cases++
			pairs++
			again, err := translate.Translated(a.res)
			if err != nil || again != a.text || fmt.Sprintf("%#v", a.res.Parameters) != a.pars {
				x.deviation("result-changed-by-later-call", "C05 the Result of %q renders differently after %q was translated: before %q, after %q (%v)", qa, qb, a.text, again, err)
			}
		}
	}
	return fmt.Sprintf("%d ordered pairs of translatable pool queries: the first one's Result rendered before and after the second translation", pairs)
}

// ---- class 2: determinism across history ----

type vxHistItem struct {
	query  string
	entry  string // "T": Translate + Translated with the shared parameter map; "F0"/"F1": FromCypher keeping/stripping literals
	params int    // index into the shared parameter maps (entry "T")
}

// shared, read-only parameter maps (index 0 is the nil map)
func vxSharedParams() []map[string]any {
	return []map[string]any{
		nil,
		{"p": "x", "q": []string{"a", "b"}, "ids": []int64{1, 2, 3}, "m": map[string]any{"a": int64(1), "b": []string{"c"}}, "unused": 7},
		{"p": vxChan, "mixed": []any{int64(1), "a"}, "q": struct{}{}},
	}
}

var vxHistQueries = []struct {
	query  string
	params int
}{
	// expected to translate
	{"match (n) return n", 0},
	{"match (n:NodeKind1) with collect(n) as ns match (m:NodeKind2) where m in ns return m, ns", 0},
	{"match (a:NodeKind2) with collect(a) as others match (b:NodeKind1) where b in others return b", 0},
	{"match (n) with collect(n) as l match (m)-[r]->(o) where not m in l and o in l return m, r, o", 0},
	{"match (n:NodeKind1) where n.name = 'a' return n.name as name order by name limit 3", 0},
	{"match (n)-[r:EdgeKind1]->(m:NodeKind2) return n, r, m", 0},
	{"match p = (n:NodeKind1)-[:EdgeKind1*1..3]->(m) return p", 0},
	{"match p = shortestPath((n:NodeKind1)-[:EdgeKind1*1..]->(m:NodeKind2)) return p", 0},
	{"match p = allShortestPaths((n:NodeKind1)-[:EdgeKind1*1..]->(m:NodeKind2)) where n.name = 'x' return p", 0},
	{"match (n:NodeKind1) match (n)-[:EdgeKind1*1..]->(m:NodeKind2) with n, count(m) as c return n, c order by c desc limit 5", 0},
	{"match (n:NodeKind1) return count(n)", 0},
	{"match (n) where n.name = $p and n.other in $q and id(n) in $ids return n", 1},
	{"match (n) where n.props = $m return n", 1},
	{"match p = (n {name: $p})-[*1..2]->(m) where m.name in $q return p", 1},
	{"unwind [1, 2, 3] as x match (n) where id(n) = x return n, x", 0},
	{"match (n) where any(x in n.list where x = 'a') return n", 0},
	{"match (n) optional match (n)-[r]->(m) with n, collect(m) as ms return n, ms", 0},
	{"match (n:NodeKind1 {name: 'a', objectid: 'b'})-[r:EdgeKind1 {isacl: false}]->(g:NodeKind2 {tier: 0}) return n, r, g", 0},
	{"match (n) set n.name = 'x' return n", 0},
	{"match (n)-[r]->(m) delete r", 0},
	{"create (n:NodeKind1 {name: 'x'}) return n", 0},
	{"match (n) where n.props = {a: 1, b: 2, c: 3} return n", 0},
	{"match (n) with n as a match (a)-[r]->(b) with b as c match p = (c)-[]->(d) return p, d", 0},
	{"match (n) where (n)-[:EdgeKind1]->(:NodeKind2) return n", 0},
	{"match (n) return n.a + 1 as s, toLower(n.name) as l, [n.x, n.y] as arr", 0},
	// expected to fail (at different depths of the translation)
	{"match (n:VxMissingKind) return n", 0},
	{"match (n)-[:VxMissingEdge*1..]->(m) return m", 0},
	{"match (n:NodeKind1)-[r]->(m) where m:VxMissingKind return r", 0},
	{"match p = shortestPath((n:NodeKind1)-[:EdgeKind1]->(m)) return p", 0},
	{"match p = allShortestPaths((n)-[:EdgeKind1]->(m:NodeKind2)) return p", 0},
	{"merge (n:NodeKind1) return n", 0},
	{"match (x) match (y) merge (x)-[:EdgeKind1]->(y)", 0},
	{"match (n:NodeKind1 {name: undefinedvar}) return n", 0},
	{"match (n) return m", 0},
	{"match (n) with n as a return n", 0},
	{"match (n)-[r]->(m) where n.name = 'a' with n.name as x, m return y, m", 0},
	{"match (n) where n.name = $p return n", 2},
	{"match (n) where n.name in $mixed return n", 2},
	{"match p = (n {name: $q})-[*1..2]->(m) return p", 2},
	{"match (n) set n.name = m.name return n", 0},
	{"match (n) delete m", 0},
	{"match (n) where all(x in n.list where y = 1) return n", 0},
	{"match (n) where n.a = 1 return n order by q", 0},
	{"match p = (n)-[r*1..2]->(m) where unknownfn(r) return p", 0},
	{"match (n) return unknownfn(n)", 0},
	{"match (n) unwind n.list as x with x, z return x", 0},
	{"match (n) where n.name = 'a' return n order by n.name, zz.other limit 1", 0},
	{"match (n)-[r*1..2]->(m) with r as q match (q)-[]->(z) return z", 0},
}

// every query through Translate+Translated; every third one also through FromCypher (both literal modes)
func vxHistPool() []vxHistItem {
	var pool []vxHistItem
	for i, q := range vxHistQueries {
		pool = append(pool, vxHistItem{q.query, "T", q.params})
		switch i % 3 {
		case 0:
			pool = append(pool, vxHistItem{q.query, "F0", 0})
		case 1:
			pool = append(pool, vxHistItem{q.query, "F1", 0})
		}
	}
	return pool
}

// vxHistRun parses and translates one pool item and renders everything observable as one string.
func vxHistRun(it vxHistItem, km pgsql.KindMapper, shared []map[string]any) (out string) {
	defer func() {
		if r := recover(); r != nil {
			out = fmt.Sprintf("PANIC %v", r)
		}
	}()
	model, err := frontend.ParseCypher(frontend.NewContext(), it.query)
	if err != nil || model == nil {
		return "PARSE-ERROR"
	}
	switch it.entry {
	case "T":
		res, err := translate.Translate(context.Background(), model, km, shared[it.params], translate.DefaultGraphID)
		if err != nil {
			return "ERROR (translate)"
		}
		text, err := translate.Translated(res)
		if err != nil {
			return "ERROR (format)"
		}
		return fmt.Sprintf("OK\n%s\n%#v", text, res.Parameters)
	default:
		formatted, err := translate.FromCypher(context.Background(), model, km, it.entry == "F1", translate.DefaultGraphID)
		if err != nil {
			return "ERROR (FromCypher)"
		}
		return fmt.Sprintf("OK\n%s\n%#v", formatted.Statement, formatted.Parameters)
	}
}

const vxChildEnv = "VERIF_C05_CHILD"

// vxChildMain is what a child process of this test binary does (see vxChild); it never prints a BOUNDED-RESULT.
func vxChildMain(mode string) {
	kind, arg, _ := strings.Cut(mode, ":")
	idx, _ := strconv.Atoi(arg)
	switch kind {
	case "ref":
		// the reference output of pool item idx: the FIRST translation of a fresh process, fresh kind mapper
		pool := vxHistPool()
		if idx >= 0 && idx < len(pool) {
			fmt.Println("C05-CHILD " + strconv.Quote(vxHistRun(pool[idx], newKindMapper(), vxSharedParams())))
		}
	case "cyclic":
		vals := vxCyclicValues()
		if idx < 0 || idx >= len(vals) {
			return
		}
		km := newKindMapper()
		for pi, pos := range vxParamPositions {
			model, err := frontend.ParseCypher(frontend.NewContext(), pos.query)
			if err != nil {
				continue
			}
			val, _ := vals[idx].mk()
			fmt.Printf("C05-CHILD start %d\n", pi)
			_, _, err, pan, hung := vxTimedTranslate(model, km, map[string]any{"p": val, "q": "other"})
			fmt.Printf("C05-CHILD done %d hung=%v panic=%v err=%v\n", pi, hung, pan != nil, err != nil)
		}
	}
}

// vxChild runs this test binary again as a child process in the given mode and returns its C05-CHILD lines.
func vxChild(mode string) (lines []string, all string, err error) {
	cmd := exec.Command(os.Args[0], "-test.run=^TestVerifBoundedTranslate$", "-test.count=1", "-test.timeout=120s")
	cmd.Env = append(os.Environ(), vxChildEnv+"="+mode)
	raw, err := cmd.CombinedOutput()
	for _, line := range strings.Split(string(raw), "\n") {
		if rest, ok := strings.CutPrefix(line, "C05-CHILD "); ok {
			lines = append(lines, rest)
		}
	}
	return lines, string(raw), err
}

func vxFirstLineWith(text, needle string) string {
	for _, line := range strings.Split(text, "\n") {
		if strings.Contains(line, needle) {
			return strings.TrimSpace(line)
		}
	}
	return ""
}

// vxCyclicClass: values that contain themselves, each in a child process over every parameter position.
func vxCyclicClass(x *vxState) int {
	vals := vxCyclicValues()
	for vi, pv := range vals {
		*x.cases += len(vxParamPositions)
		lines, all, err := vxChild(fmt.Sprintf("cyclic:%d", vi))
		started, failedAt := -1, -1
		for _, l := range lines {
			f := strings.Fields(l)
			if len(f) >= 2 && f[0] == "start" {
				started, _ = strconv.Atoi(f[1])
				failedAt = started
			}
			if len(f) >= 2 && f[0] == "done" {
				failedAt = -1
				if strings.Contains(l, "hung=true") {
					x.deviation("param-hang", "C05 translation did not return within %v for %q with $p = %s", vxCallLimit, vxParamPositions[started].query, pv.name)
				}
				if strings.Contains(l, "panic=true") {
					x.deviation("param-panic", "C05 panic translating %q with $p = %s", vxParamPositions[started].query, pv.name)
				}
			}
		}
		if failedAt >= 0 {
			x.deviation("param-cyclic-crash", "C05 the whole process dies (%s; a fatal error, not a recoverable panic) translating %q with $p = %s", vxFirstLineWith(all, "fatal error"), vxParamPositions[failedAt].query, pv.name)
		} else if err != nil || started != len(vxParamPositions)-1 {
			x.fail("harness: child process for %s ended early without a crash being visible: %v / %d lines", pv.name, err, len(lines))
		}
	}
	return len(vals)
}

func vxHistoryClass(x *vxState) string {
	pool := vxHistPool()
	shared, sharedRef := vxSharedParams(), vxSharedParams()
	// reference outputs: one fresh process per item, 8 at a time
	refs := make([]string, len(pool))
	var (
		wg   sync.WaitGroup
		mu   sync.Mutex
		gate = make(chan struct{}, 8)
	)
	for i := range pool {
		wg.Add(1)
		gate <- struct{}{}
		go func(i int) {
			defer wg.Done()
			defer func() { <-gate }()
			lines, all, err := vxChild(fmt.Sprintf("ref:%d", i))
			if len(lines) != 1 {
				mu.Lock()
				x.fail("harness: no reference output from the child process for pool item %d (%v): %.300s", i, err, all)
				mu.Unlock()
				return
			}
			refs[i], _ = strconv.Unquote(lines[0])
		}(i)
	}
	wg.Wait()
	okQ, errQ := map[string]bool{}, map[string]bool{}
	for i, r := range refs {
		switch {
		case r == "":
			return "history: no reference outputs"
		case strings.HasPrefix(r, "OK\n"):
			okQ[pool[i].query] = true
		case strings.HasPrefix(r, "ERROR"):
			errQ[pool[i].query] = true
		case strings.HasPrefix(r, "PANIC"):
			x.deviation("history-panic", "C05 %s for %q (entry %s) as the first call of a fresh process", strings.SplitN(r, "\n", 2)[0], pool[i].query, pool[i].entry)
		default:
			x.fail("harness: history pool query %q: %s", pool[i].query, r)
		}
	}
	if os.Getenv("VERIF_DEBUG") != "" {
		for i, r := range refs {
			fmt.Printf("DEBUG ref %d %s %q -> %.60q\n", i, pool[i].entry, pool[i].query, r)
		}
	}
	if len(okQ) < 15 || len(errQ) < 15 {
		x.fail("harness: the history pool must mix at least 15 failing and 15 succeeding queries, has %d / %d", len(errQ), len(okQ))
	}
	check := func(class, when string, j int, got string) {
		if got != refs[j] {
			x.deviation(class, "C05 output for %q (entry %s) %s differs from its output as the first call of a fresh process:\n  fresh: %.400q\n  now:   %.400q", pool[j].query, pool[j].entry, when, refs[j], got)
		}
	}
	// the whole run of this test is history as well
	for j := range pool {
		*x.cases++
		check("history", "after everything this test ran before", j, vxHistRun(pool[j], x.km, shared))
	}
	// every ordered pair, then every ordered pair again in reverse order
	type pair struct{ i, j int }
	var pairs []pair
	for i := range pool {
		for j := range pool {
			pairs = append(pairs, pair{i, j})
		}
	}
	for pass := 0; pass < 2; pass++ {
		for k := range pairs {
			pr := pairs[k]
			if pass == 1 {
				pr = pairs[len(pairs)-1-k]
			}
			*x.cases++
			first := vxHistRun(pool[pr.i], x.km, shared)
			check("history", fmt.Sprintf("run as the first of a pair, before %q (entry %s)", pool[pr.j].query, pool[pr.j].entry), pr.i, first)
			check("history", fmt.Sprintf("run after %q (entry %s)", pool[pr.i].query, pool[pr.i].entry), pr.j, vxHistRun(pool[pr.j], x.km, shared))
		}
	}
	// 8 goroutines, each running the pool in its own order, against the one kind mapper and the shared maps
	const workers = 8
	// a memo in the kind mapper that is written without synchronisation (two fields, last request and its answer)
	// gave about 9 wrong statements in the 60000 concurrent translations of 100 rounds when tried (two runs), so
	// such a defect is missed with probability about e^-9
	rounds := min(100+50*(x.bound-1), 600)
	type mismatch struct {
		j   int
		got string
	}
	found, wrong := make([][]mismatch, workers), make([]int, workers)
	start := make(chan struct{})
	for w := 0; w < workers; w++ {
		wg.Add(1)
		go func(w int) {
			defer wg.Done()
			rng := rand.New(rand.NewSource(x.seed*1000 + int64(w)))
			<-start
			for r := 0; r < rounds; r++ {
				for _, j := range rng.Perm(len(pool)) {
					if got := vxHistRun(pool[j], x.km, shared); got != refs[j] {
						wrong[w]++
						if len(found[w]) < 3 {
							found[w] = append(found[w], mismatch{j, got})
						}
					}
				}
			}
		}(w)
	}
	close(start)
	wg.Wait()
	*x.cases += workers * rounds * len(pool)
	for w := range found {
		for _, m := range found[w] {
			check("history-concurrent", fmt.Sprintf("in goroutine %d of %d running the pool concurrently against one kind mapper (%d of its %d outputs differ)", w, workers, wrong[w], rounds*len(pool)), m.j, m.got)
		}
	}
	if !vxSame(shared, sharedRef) {
		x.deviation("history-params-mutated", "C05 the shared parameter maps changed: before %#v, after %#v", sharedRef, shared)
	}
	return fmt.Sprintf("history pool of %d items (%d failing + %d succeeding queries x entry points Translate+Translated / FromCypher) x {after the whole run, all %d ordered pairs forwards and backwards, %d goroutines x %d rounds x %d items concurrently on one kind mapper} against reference outputs of fresh processes", len(pool), len(errQ), len(okQ), len(pairs), workers, rounds, len(pool))
}

// ---- classes 3 and 4: hygiene under hostile spellings of user names ----

// vxInstantiate replaces the slots {0}, {1}, ... of a query template by names.
func vxInstantiate(tmpl string, names []string) string {
	for i, n := range names {
		tmpl = strings.ReplaceAll(tmpl, "{"+strconv.Itoa(i)+"}", n)
	}
	return tmpl
}

// vxSpellings: the ways a user name may consistently appear in the statement: as written, without its backticks, or
// as a quoted SQL identifier.
func vxSpellings(name string) []string {
	inner := name
	if len(name) >= 2 && strings.HasPrefix(name, "`") && strings.HasSuffix(name, "`") {
		inner = strings.ReplaceAll(name[1:len(name)-1], "``", "`")
	}
	out := []string{`"` + strings.ReplaceAll(inner, `"`, `""`) + `"`, inner}
	if inner != name {
		out = append(out, name)
	}
	return out
}

// vxDiff shows where two statements part.
func vxDiff(want, got string) string {
	i := 0
	for i < len(want) && i < len(got) && want[i] == got[i] {
		i++
	}
	from := max(0, i-60)
	return fmt.Sprintf("at byte %d: expected ...%s, got ...%s", i, want[from:min(len(want), i+100)], got[from:min(len(got), i+100)])
}

// vxTwinCheck: the query with the given names against its twin with fresh harmless names; "" when the property holds.
func vxTwinCheck(x *vxState, tmpl string, names []string) string {
	twinNames := make([]string, len(names))
	for i := range names {
		twinNames[i] = fmt.Sprintf("zzq%d", i)
	}
	query, twin := vxInstantiate(tmpl, names), vxInstantiate(tmpl, twinNames)
	twinModel, err := frontend.ParseCypher(frontend.NewContext(), twin)
	if err != nil || twinModel == nil {
		x.fail("harness: twin query %q does not parse: %v", twin, err)
		return ""
	}
	model, err := frontend.ParseCypher(frontend.NewContext(), query)
	if err != nil || model == nil {
		x.counts["names-not-parsed"]++ // the parser's business, not the translator's
		return ""
	}
	params := map[string]any{"p": "x", "pi0": "y", "n0": []string{"z"}}
	sqlT, pT, errT, panT, hungT := vxTimedTranslate(twinModel, x.km, params)
	sqlW, pW, errW, panW, hungW := vxTimedTranslate(model, x.km, params)
	switch {
	case hungT || hungW:
		return fmt.Sprintf("C06 translation did not return within %v for %q", vxCallLimit, query)
	case panW != nil:
		return fmt.Sprintf("C06 panic translating %q (its twin %q: %v): %v", query, twin, panT, panW)
	case panT != nil:
		return fmt.Sprintf("C06 panic translating %q: %v", twin, panT)
	case errT != nil && errW != nil:
		return ""
	case errT != nil:
		return fmt.Sprintf("C06 %q translates although its twin with fresh names %q does not (%v): distinct names were taken for one variable", query, twin, errT)
	case errW != nil:
		return fmt.Sprintf("C06 the names of %q turn the translatable query %q into an error: %v", query, twin, errW)
	}
	// one consistent spelling per name
	choice := make([]int, len(names))
	for {
		m := map[string]string{}
		for i, n := range names {
			m[twinNames[i]] = vxSpellings(n)[choice[i]]
		}
		if substOutsideLiterals(sqlT, m) == sqlW {
			break
		}
		k := 0
		for k < len(names) {
			choice[k]++
			if choice[k] < len(vxSpellings(names[k])) {
				break
			}
			choice[k] = 0
			k++
		}
		if k == len(names) {
			m := map[string]string{}
			for i, n := range names {
				m[twinNames[i]] = vxSpellings(n)[0]
				if userName.MatchString(n) {
					m[twinNames[i]] = n
				}
			}
			return fmt.Sprintf("C06 %q differs from its twin %q in more than the user's names, %s", query, twin, vxDiff(substOutsideLiterals(sqlT, m), sqlW))
		}
	}
	if !vxSame(pT, pW) {
		return fmt.Sprintf("C06 %q and its twin %q give different parameters: %#v / %#v", query, twin, pW, pT)
	}
	return ""
}

type vxShape struct{ tag, tmpl string }

// shapes for class 3; a slot is a variable, an alias or an UNWIND target
var vxNameShapes = []vxShape{
	{"match-return", "match ({0}) return {0}"},
	{"two-names", "match ({0}) return {1}"}, // two names: must fail, as its twin does
	{"pattern", "match ({0}:NodeKind1)-[{1}:EdgeKind1]->({2}) where {0}.name = $p return {0}, {1}, {2}"},
	{"param-alias", "match ({0}) where {0}.name = $p and {0}.other = $pi0 and {0}.third in $n0 return {0}, $p as {1}"},
	{"with-rename-match", "match ({0}) with {0} as {1} match ({1})-[{2}]->() return {1}, {2}"},
	{"with-alias-where", "match ({0}) with {0}, {0}.name as {1} where {1} = $p return {0}, {1}"},
	{"unwind-match", "unwind [1, 2, 3] as {0} match ({1}) where id({1}) = {0} return {1}, {0}"},
	{"unwind-param", "unwind $n0 as {0} return {0}"},
	{"unwind-twice", "unwind $n0 as {0} unwind $n0 as {1} return {0}, {1}"},
	{"collect-unwind", "match ({0}) with collect({0}) as {1} unwind {1} as {2} return {2}"},
	{"two-matches", "match ({0}) match ({1}) where {0}.name = {1}.name return {0}, {1}"},
	{"with-match", "match ({0})-[]->({1}) with {0}, {1} match ({1})-[]->({2}) return {0}, {1}, {2}"},
	{"with-with", "match ({0}) with {0} match ({1}) with {0}, {1} return {0}.name, {1}.name"},
	{"path-expansion", "match {3} = ({0})-[{1}*1..2]->({2}) return {3}, {0}, {2}"},
	{"shortest-path", "match {2} = shortestPath(({0}:NodeKind1)-[:EdgeKind1*1..]->({1}:NodeKind2)) return {2}"},
	{"quantifier", "match ({0}) where any({1} in {0}.list where {1} = $p) return {0}"},
	{"optional-collect", "match ({0}) optional match ({0})-[{1}]->({2}) with {0}, collect({2}) as {3} return {0}, {3}"},
	// the aggregate shape, and its variant in which the second MATCH starts from another name
	{"aggregate-count", "match ({0}:NodeKind1) match ({0})-[:EdgeKind1*1..]->({1}:NodeKind2) with {0}, count({1}) as {2} return {0}, {2} order by {2} desc limit 5"},
	{"aggregate-count-other-start", "match ({0}:NodeKind1) match ({1})-[:EdgeKind1*1..]->({2}:NodeKind2) with {0}, count({2}) as {3} return {0}, {3} order by {3} desc limit 5"},
	{"aggregate-count-other-start-grouped", "match ({0}:NodeKind1) match ({1})-[:EdgeKind1*1..]->({2}:NodeKind2) with {1}, count({2}) as {3} return {1}, {3} order by {3} desc limit 5"},
}

// names for class 3: every window of consecutive names is used for consecutive slots, so case twins are neighbours
var vxHostileNames = []string{
	"n", "N", "a", "A", "m", "M", "c", "C",
	"`n`", "`N`", "`a`", "`A`",
	"`a$b`", "`$`", "`$p`", "`p`", "`$pi0`", "`pi0`", "`@pi0`", "`$n0`", "`n0`", "`N0`",
	"`e0`", "`s0`", "`i0`", "`n1`", "`s1`", "`path`", "`depth`", "`root_id`", "`a b`", "`a.b`", "`1`", "`select`", "`a``b`", "`a\"b`", "`x`", "`X`",
}

// shapes for class 4: aliases reused as ORDER BY keys before and after WITH
var vxOrderByShapes = []vxShape{
	{"return", "match (n) return n.name as {0} order by {0}"},
	{"return-entity", "match (n) return n as {0} order by {0}.name desc"},
	{"return-two", "match (n) return n.name as {0}, n.other as {1} order by {1}, {0} desc skip 1 limit 2"},
	{"with-orderby", "match (n) with n.name as {0} order by {0} return {0}"},
	{"with-return-orderby", "match (n) with n.name as {0} return {0} order by {0}"},
	{"with-limit-return", "match (n) with n.name as {0} order by {0} limit 10 return {0} as {1} order by {1} desc"},
	{"with-entity", "match (n) with n as {0} order by {0}.name return {0}.name as {1} order by {1} desc"},
	{"with-limit-match", "match (n) with n as {0} order by {0}.name limit 3 match ({0})-[r]->(m) return m as {1} order by {1}.name"},
	{"count", "match (n)-[r]->(m) with n as {0}, count(r) as {1} order by {1} return {0}, {1} order by {1} desc limit 5"},
	{"count-where", "match (n)-[r]->(m) with n as {0}, count(r) as {1} where {1} > 1 return {0}.name as {2}, {1} order by {2}, {1}"},
	{"collect-unwind", "match (n) with collect(n) as {0} unwind {0} as {1} return {1} order by id({1})"},
	{"variable", "match ({0}) return {0}.name as {1} order by {1}"},
	{"variable-with", "match ({0}) with {0} order by {0}.name return {0} as {1} order by {1}.name"},
	{"aggregate-count", "match ({0}:NodeKind1) match ({0})-[:EdgeKind1*1..]->({1}:NodeKind2) with {0}, count({1}) as {2} return {0}, {2} order by {2} desc limit 5"},
	{"aggregate-count-with", "match ({0}:NodeKind1) match ({0})-[:EdgeKind1*1..]->({1}:NodeKind2) with {0}, count({1}) as {2} order by {2} desc limit 5 return {0} as {3}, {2} order by {2}"},
	{"unwind", "unwind [3, 1, 2] as {0} with {0} order by {0} return {0} as {1} order by {1} desc"},
}

var vxOrderByNames = []string{"n0", "n1", "s0", "e0", "i0", "pi0"}

func vxSlots(tmpl string) int {
	n := 0
	for strings.Contains(tmpl, "{"+strconv.Itoa(n)+"}") {
		n++
	}
	return n
}

func vxNamesClass(x *vxState) string {
	cyclic := func(list []string, from, n int) []string {
		out := make([]string, n)
		for i := range out {
			out[i] = list[(from+i)%len(list)]
		}
		return out
	}
	caseTwins := func(names []string) bool {
		lower := map[string]bool{}
		for _, n := range names {
			l := strings.ToLower(n)
			if lower[l] {
				return true
			}
			lower[l] = true
		}
		return false
	}
	// apart: the same names, but letters appended so that no two differ only in case
	apart := func(names []string) []string {
		out := make([]string, len(names))
		for i, n := range names {
			suffix := strings.Repeat("x", i+1)
			if strings.HasSuffix(n, "`") {
				out[i] = n[:len(n)-1] + suffix + "`"
			} else {
				out[i] = n + suffix
			}
		}
		return out
	}
	one := func(shape vxShape, names []string) {
		*x.cases++
		msg := vxTwinCheck(x, shape.tmpl, names)
		if msg == "" {
			return
		}
		// a violation counts as one of letter case only if it goes away when the names are moved apart
		class := "names-backtick@" + shape.tag
		if caseTwins(names) && vxTwinCheck(x, shape.tmpl, apart(names)) == "" {
			class = "names-case-variant@" + shape.tag
		}
		x.deviation(class, "%s", msg)
	}
	for _, shape := range vxNameShapes {
		k := vxSlots(shape.tmpl)
		for from := range vxHostileNames {
			names := cyclic(vxHostileNames, from, k)
			one(shape, names)
			if k > 1 { // and the same names in the opposite order
				rev := make([]string, k)
				for i := range names {
					rev[k-1-i] = names[i]
				}
				one(shape, rev)
			}
		}
	}
	// one variable written with and without backticks is still one variable
	for _, tmpl := range []string{"match ({0}) return {1}", "match ({0}) where {1}.name = 'a' with {0} as {2} return {2}, {1}.name"} {
		for _, n := range []string{"n", "N", "n0", "a_b"} {
			names := []string{"`" + n + "`", n, "x"}
			query := vxInstantiate(tmpl, names)
			twin := vxInstantiate(tmpl, []string{"zzq0", "zzq0", "zzq2"})
			twinModel, err1 := frontend.ParseCypher(frontend.NewContext(), twin)
			model, err2 := frontend.ParseCypher(frontend.NewContext(), query)
			if err1 != nil || err2 != nil {
				x.fail("harness: %q / %q do not parse: %v %v", query, twin, err1, err2)
				continue
			}
			*x.cases++
			sqlT, _, errT, _, _ := vxTimedTranslate(twinModel, x.km, nil)
			sqlW, _, errW, panW, _ := vxTimedTranslate(model, x.km, nil)
			want := substOutsideLiterals(sqlT, map[string]string{"zzq0": n})
			want2 := substOutsideLiterals(sqlT, map[string]string{"zzq0": `"` + n + `"`})
			if panW != nil || (errT == nil) != (errW == nil) || (errT == nil && sqlW != want && sqlW != want2) {
				x.deviation("names-backtick-same-variable", "C06 %q (one variable, spelled with and without backticks) is not translated like its twin %q: panic %v, error %v / %v\n  expected: %s\n  got:      %s", query, twin, panW, errW, errT, want, sqlW)
			}
		}
	}
	for _, shape := range vxOrderByShapes {
		k := vxSlots(shape.tmpl)
		for from := range vxOrderByNames {
			*x.cases++
			if msg := vxTwinCheck(x, shape.tmpl, cyclic(vxOrderByNames, from, k)); msg != "" {
				x.deviation("orderby-generated-alias@"+shape.tag, "%s", msg)
			}
		}
	}
	return fmt.Sprintf("%d name shapes x %d windows (and their reversals) of %d hostile names (backticks, '$', parameter names, generated names, case variants; %d instances rejected by the parser) + %d ORDER BY shapes x %d rotations of the generated names %v, each against its twin with fresh names", len(vxNameShapes), len(vxHostileNames), len(vxHostileNames), x.counts["names-not-parsed"], len(vxOrderByShapes), len(vxOrderByNames), vxOrderByNames)
}
