package walk_test

// Bounded stand-in for C11 (labelled bounded, never counted as proved): for every query of the
// repository's positive and mutation parser fixtures, and every prefix length of the walk,
//   * Copy yields a reflect.DeepEqual model that shares no pointer, slice or map with the original;
//   * the structural walk visits every modelled child (found by reflection over the model types) exactly
//     once, with properly nested Enter/Exit on the same node;
//   * the semantic walk visits a subset of what the structural walk visits;
//   * a visitor that asks to stop at its k-th Enter receives no further notification;
//   * a nil entry in a branch slice is reported as an error, not skipped.

import (
	"encoding/json"
	"fmt"
	"reflect"
	"testing"

	"github.com/specterops/dawgs/cypher/frontend"
	"github.com/specterops/dawgs/cypher/models/cypher"
	"github.com/specterops/dawgs/cypher/models/walk"
	"github.com/specterops/dawgs/cypher/test"
)

var syntaxNodeType = reflect.TypeOf((*cypher.SyntaxNode)(nil)).Elem()

// reflectChildren enumerates, by reflection, every model node reachable from v (v included when it is a
// pointer to a model struct or a model collection type).
func reflectNodes(v reflect.Value, out map[uintptr]int, shared map[uintptr]bool) {
	switch v.Kind() {
	case reflect.Interface:
		if !v.IsNil() {
			reflectNodes(v.Elem(), out, shared)
		}
	case reflect.Pointer:
		if v.IsNil() {
			return
		}
		if v.Elem().Kind() == reflect.Struct && v.Type().PkgPath() == "" && v.Elem().Type().PkgPath() == "github.com/specterops/dawgs/cypher/models/cypher" {
			out[v.Pointer()]++
			shared[v.Pointer()] = true
		}
		reflectNodes(v.Elem(), out, shared)
	case reflect.Struct:
		for i := 0; i < v.NumField(); i++ {
			f := v.Field(i)
			if v.Type().Field(i).Name == "errors" {
				continue
			}
			reflectNodes(f, out, shared)
		}
	case reflect.Slice:
		if !v.IsNil() && v.Len() > 0 {
			shared[v.Pointer()] = true
		}
		for i := 0; i < v.Len(); i++ {
			reflectNodes(v.Index(i), out, shared)
		}
	case reflect.Map:
		if !v.IsNil() {
			shared[v.Pointer()] = true
		}
		for _, k := range v.MapKeys() {
			reflectNodes(v.MapIndex(k), out, shared)
		}
	}
}

type recorder struct {
	walk.Visitor[cypher.SyntaxNode]
	events  []string
	open    []cypher.SyntaxNode
	entered map[uintptr]int
	stopAt  int
	enters  int
	after   int
	bad     []string
}

func ptrOf(n cypher.SyntaxNode) uintptr {
	v := reflect.ValueOf(n)
	if v.Kind() == reflect.Pointer && !v.IsNil() {
		return v.Pointer()
	}
	return 0
}

func (r *recorder) Enter(n cypher.SyntaxNode) {
	if r.Done() {
		r.after++
	}
	r.enters++
	r.open = append(r.open, n)
	// map entries are presented as synthetic *MapItem nodes created by the cursor; they are not part of the model
	if _, synthetic := n.(*cypher.MapItem); !synthetic {
		if p := ptrOf(n); p != 0 && reflect.ValueOf(n).Elem().Kind() == reflect.Struct {
			r.entered[p]++
		}
	}
	if r.stopAt > 0 && r.enters == r.stopAt {
		r.SetDone()
	}
}

func (r *recorder) Visit(n cypher.SyntaxNode) {
	if r.Done() {
		r.after++
	}
}

func (r *recorder) Exit(n cypher.SyntaxNode) {
	if r.Done() {
		r.after++
	}
	if len(r.open) == 0 {
		r.bad = append(r.bad, "Exit without Enter")
		return
	}
	top := r.open[len(r.open)-1]
	if ptrOf(top) != ptrOf(n) || reflect.TypeOf(top) != reflect.TypeOf(n) {
		r.bad = append(r.bad, fmt.Sprintf("Exit(%T) does not match innermost Enter(%T)", n, top))
	}
	r.open = r.open[:len(r.open)-1]
}

func newRecorder(stopAt int) *recorder {
	return &recorder{Visitor: walk.NewVisitor[cypher.SyntaxNode](), entered: map[uintptr]int{}, stopAt: stopAt}
}

func TestVerifBoundedWalk(t *testing.T) {
	var queries []string
	for _, fixture := range []string{test.PositiveTestCases, test.MutationTestCases} {
		for _, testCase := range test.LoadFixture(t, fixture).RunnableCases() {
			if testCase.Type == test.TypeStringMatch {
				if details, err := test.UnmarshallTestCaseDetails[test.StringMatchTest](testCase); err == nil {
					queries = append(queries, details.Query)
				}
			}
		}
	}
	var failures []string
	fail := func(format string, args ...any) {
		if len(failures) < 5 {
			failures = append(failures, fmt.Sprintf(format, args...))
		}
	}
	models, cases := 0, 0
	for _, q := range queries {
		model, err := frontend.ParseCypher(frontend.NewContext(), q)
		if err != nil {
			continue
		}
		models++
		// deep copy: equal and disjoint
		cases++
		cp := cypher.Copy(model)
		if !reflect.DeepEqual(cp, model) {
			fail("Copy is not structurally equal for %q", q)
		}
		a, b := map[uintptr]int{}, map[uintptr]int{}
		sa, sb := map[uintptr]bool{}, map[uintptr]bool{}
		reflectNodes(reflect.ValueOf(model), a, sa)
		reflectNodes(reflect.ValueOf(cp), b, sb)
		for p := range sa {
			if sb[p] {
				fail("Copy shares a pointer/slice/map with the original for %q", q)
				break
			}
		}
		// structural walk: every modelled node exactly once, nested
		cases++
		rec := newRecorder(0)
		if err := walk.CypherStructural(model, rec); err != nil {
			fail("structural walk error %v for %q", err, q)
		}
		if len(rec.open) != 0 || len(rec.bad) > 0 {
			fail("structural walk not properly nested (%v) for %q", rec.bad, q)
		}
		for p, n := range a {
			if rec.entered[p] != n {
				fail("structural walk entered a node %d times, reflection finds it %d times, for %q", rec.entered[p], n, q)
				break
			}
		}
		for p := range rec.entered {
			if _, ok := a[p]; !ok {
				fail("structural walk entered a node reflection does not find for %q", q)
				break
			}
		}
		// semantic walk is a subset
		cases++
		sem := newRecorder(0)
		if err := walk.Cypher(model, sem); err != nil {
			fail("semantic walk error %v for %q", err, q)
		}
		for p, n := range sem.entered {
			if rec.entered[p] < n {
				fail("semantic walk visits a node the structural walk does not, for %q", q)
				break
			}
		}
		if len(sem.open) != 0 || len(sem.bad) > 0 {
			fail("semantic walk not properly nested (%v) for %q", sem.bad, q)
		}
		// stop at every prefix
		for k := 1; k <= rec.enters && k <= 40; k++ {
			cases++
			st := newRecorder(k)
			if err := walk.CypherStructural(model, st); err != nil {
				fail("stopped walk returned error %v for %q", err, q)
			}
			if st.after > 0 || st.enters != k {
				fail("visitor stopped at Enter %d still received %d notifications (%d enters) for %q", k, st.after, st.enters, q)
			}
		}
	}
	// nil entries in branch slices are reported
	cases++
	withNil := &cypher.RegularQuery{SingleQuery: &cypher.SingleQuery{SinglePartQuery: &cypher.SinglePartQuery{ReadingClauses: []*cypher.ReadingClause{nil}}}}
	if err := walk.CypherStructural(withNil, newRecorder(0)); err == nil {
		fail("a nil reading clause in the branch list was skipped instead of reported")
	}
	if err := walk.CypherStructural(nil, newRecorder(0)); err == nil {
		fail("a nil root was accepted")
	}
	res := map[string]any{"name": "walk", "bound": fmt.Sprintf("%d parsed fixture queries, every stop position up to 40", models), "models": models, "cases": cases, "exhaustive": false, "failures": failures}
	out, _ := json.Marshal(res)
	fmt.Println("BOUNDED-RESULT " + string(out))
	if len(failures) > 0 {
		t.Fail()
	}
}
