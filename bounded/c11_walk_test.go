package walk_test

// Bounded stand-in for C11 (labelled bounded, never counted as proved): for every query of the
// repository's positive and mutation parser fixtures, and every prefix length of the walk,
//   * Copy yields a reflect.DeepEqual model that shares no pointer, slice or map with the original;
//   * the structural walk visits every modelled child (found by reflection over the model types) exactly
//     once, with properly nested Enter/Exit on the same node;
//   * the semantic walk visits a subset of what the structural walk visits;
//   * a visitor that asks to stop at its k-th Enter receives no further notification;
//   * a nil entry in a branch slice is reported as an error, not skipped.
//
// EXTENSIONS (three further input classes; the oracle of each comes from the property statement and from
// docs/cypher_walker_semantics.md, never from the code under test):
//
// (1) present-but-EMPTY collections. Fixtures: parsed queries with empty map / list literals
//     (`match (n {}) return n`, `return {}`, `return []`, ...), models built through the model API (Properties with
//     an empty non-nil Map, Match with Pattern make([]*PatternPart,0,4), emptied expression lists, empty
//     non-nil Kinds, ...), and, systematically, every fixture model with every slice / map valued location
//     (found by reflection) replaced in turn by: empty cap 0, empty cap 4, nil. For each of them
//       - Copy is reflect.DeepEqual to the original AND has the same rendering in an independent dump that
//         distinguishes nil from empty (a copy must not turn empty into nil or vice versa);
//       - Copy shares no pointer / backing array (also of zero-length slices with spare capacity) / map;
//       - behavioural disjointness: every scalar of the copy is changed, every slice of the copy gets its first
//         element replaced and one element appended, every map gets a key inserted and one overwritten: the dump
//         of the original is unchanged; then the same is done to the original (with other values, so a shared
//         spare-capacity slot would be overwritten): the dump of the (already changed) copy is unchanged;
//       - the structural and the semantic walk of the copy produce the same sequence of (callback, node type,
//         map key / string value / collection length+nil-ness) as the walk of the original;
//       - the structural walk enters every non-nil MapLiteral, every non-nil Kinds, every *ListLiteral exactly once
//         and one MapItem per map entry (counted by reflection).
//
// (2) typed-nil roots and branches. The pointer types are collected by reflection while walking the fixtures
//     (types handed to Enter, and types of pointer valued locations of the fixtures). Documented semantics
//     (docs/cypher_walker_semantics.md, "Nil handling is part of the contract"):
//       - a nil traversal root (typed or untyped) => an error, and no notification;
//       - a nil entry of a branch COLLECTION (slice element, map value) => an error ("nil branches should surface
//         cursor negotiation errors, not successful no-op walks"); required of the structural walk always (it
//         visits all modelled children); of the semantic walk when it visited the former occupant of that entry;
//       - a nil pointer in an optional single-valued field of that pointer type is an absent child => skipped
//         ("Optional nil pointer children should be skipped by the cursor constructor that owns the optional field"):
//         no error, and the event sequence is the one of the unchanged model with that child's block (and the
//         parent's Visit between siblings) removed;
//       - a typed-nil pointer held in an INTERFACE typed single-valued field (Expression): the document does not
//         decide between the two readings, so the harness accepts exactly two outcomes: an error, or a walk
//         identical to the walk with that field absent (nil interface). Which one happened is counted per field
//         in "typed_nil_iface_field_outcomes".
//       - never a panic, and the visitor is never handed a nil node.
//
// (3) the cancellation handler contract, for walk.Cypher, walk.CypherStructural and walk.PgSQL (SQL models: the
//     translations of the fixture queries that translate and can be walked): with `full` the event sequence of an
//     undisturbed walk and k every position in it (every Enter, Visit and Exit callback),
//       - SetError(nil) (the value of an error-typed helper returning nil) at EVERY position: same events as full, nil;
//       - SetError(e) at position k: events == full[:k], the returned error Is e;
//       - SetDone at position k: events == full[:k], nil is returned;
//       - Consume at position k: events == full without the events strictly between position k and the Exit of the
//         node that callback was for (exactly that node's remaining children are skipped; at an Exit nothing is), nil.
//
// VERIF_BOUND "1" (quick): stop/handler positions up to 40 / 96 per model, one rotating extra type per interface
// location. "2": every position, every collected type at every interface location, SetErrorf as well.
// VERIF_SEED only permutes the order in which the fixtures are visited. VERIF_KNOWN: "|"-separated deviation class
// names (the bracketed prefix of a failure); inputs of such a class are counted in known_deviation_hits instead of
// failures. Nothing is suppressed in the file.

import (
	"context"
	"encoding/json"
	"errors"
	"fmt"
	"math/rand"
	"os"
	"reflect"
	"sort"
	"strconv"
	"strings"
	"testing"

	"github.com/specterops/dawgs/cypher/frontend"
	"github.com/specterops/dawgs/cypher/models/cypher"
	"github.com/specterops/dawgs/cypher/models/pgsql"
	"github.com/specterops/dawgs/cypher/models/pgsql/translate"
	"github.com/specterops/dawgs/cypher/models/walk"
	"github.com/specterops/dawgs/cypher/test"
	"github.com/specterops/dawgs/graph"
)

var syntaxNodeType = reflect.TypeOf((*cypher.SyntaxNode)(nil)).Elem()

const cypherPkgPath = "github.com/specterops/dawgs/cypher/models/cypher"

// reflectChildren enumerates, by reflection, every model node reachable from v (v included when it is a
// pointer to a model struct or a model collection type).
func reflectNodes(v reflect.Value, out map[uintptr]int, shared map[uintptr]bool) {
	switch v.Kind() {
	case reflect.Interface:
		if !v.IsNil() {
			reflectNodes(v.Elem(), out, shared)
		}
	case reflect.Pointer:
		if v.IsNil() {
			return
		}
		if v.Elem().Kind() == reflect.Struct && v.Type().PkgPath() == "" && v.Elem().Type().PkgPath() == cypherPkgPath {
			out[v.Pointer()]++
			shared[v.Pointer()] = true
		}
		reflectNodes(v.Elem(), out, shared)
	case reflect.Struct:
		for i := 0; i < v.NumField(); i++ {
			f := v.Field(i)
			if v.Type().Field(i).Name == "errors" {
				continue
			}
			reflectNodes(f, out, shared)
		}
	case reflect.Slice:
		// a backing array exists as soon as there is capacity: an empty slice with spare capacity can be aliased too
		if !v.IsNil() && v.Cap() > 0 && v.Type().Elem().Size() > 0 {
			shared[v.Pointer()] = true
		}
		for i := 0; i < v.Len(); i++ {
			reflectNodes(v.Index(i), out, shared)
		}
	case reflect.Map:
		if !v.IsNil() {
			shared[v.Pointer()] = true
		}
		for _, k := range v.MapKeys() {
			reflectNodes(v.MapIndex(k), out, shared)
		}
	}
}

type recorder struct {
	walk.Visitor[cypher.SyntaxNode]
	events  []string
	open    []cypher.SyntaxNode
	entered map[uintptr]int
	stopAt  int
	enters  int
	after   int
	bad     []string
	// extension: value nodes (no pointer identity) and pointer types seen
	maps, kinds, lists, mapItems int
	types                        map[reflect.Type]bool
}

func ptrOf(n cypher.SyntaxNode) uintptr {
	v := reflect.ValueOf(n)
	if v.Kind() == reflect.Pointer && !v.IsNil() {
		return v.Pointer()
	}
	return 0
}

func (r *recorder) Enter(n cypher.SyntaxNode) {
	if r.Done() {
		r.after++
	}
	r.enters++
	r.open = append(r.open, n)
	// map entries are presented as synthetic *MapItem nodes created by the cursor; they are not part of the model
	if _, synthetic := n.(*cypher.MapItem); !synthetic {
		if p := ptrOf(n); p != 0 && reflect.ValueOf(n).Elem().Kind() == reflect.Struct {
			r.entered[p]++
		}
	}
	switch n.(type) {
	case cypher.MapLiteral:
		r.maps++
	case graph.Kinds:
		r.kinds++
	case *cypher.ListLiteral:
		r.lists++
	case *cypher.MapItem:
		r.mapItems++
	}
	if r.types != nil && n != nil {
		if t := reflect.TypeOf(n); t.Kind() == reflect.Pointer {
			r.types[t] = true
		}
	}
	if r.stopAt > 0 && r.enters == r.stopAt {
		r.SetDone()
	}
}

func (r *recorder) Visit(n cypher.SyntaxNode) {
	if r.Done() {
		r.after++
	}
}

func (r *recorder) Exit(n cypher.SyntaxNode) {
	if r.Done() {
		r.after++
	}
	if len(r.open) == 0 {
		r.bad = append(r.bad, "Exit without Enter")
		return
	}
	top := r.open[len(r.open)-1]
	if ptrOf(top) != ptrOf(n) || reflect.TypeOf(top) != reflect.TypeOf(n) {
		r.bad = append(r.bad, fmt.Sprintf("Exit(%T) does not match innermost Enter(%T)", n, top))
	}
	r.open = r.open[:len(r.open)-1]
}

func newRecorder(stopAt int) *recorder {
	return &recorder{Visitor: walk.NewVisitor[cypher.SyntaxNode](), entered: map[uintptr]int{}, stopAt: stopAt}
}

// ---------------------------------------------------------------------------------------------------------------
// extension: result bookkeeping

type harness struct {
	failures   []string
	nfail      int
	known      map[string]bool
	hits       map[string]int
	classCases map[string]int
	cases      int
	thorough   bool
	stopCap    int
	posCap     int
	types      map[reflect.Type]bool
	ifaceOut   map[string]int
	// interface typed single fields in which a typed-nil pointer is treated as an absent child (not as an error)
	ifaceSkipped map[string]int
}

func (h *harness) fail(format string, args ...any) {
	h.nfail++
	if len(h.failures) < 8 {
		h.failures = append(h.failures, fmt.Sprintf(format, args...))
	}
}

// deviate: a violation of one of the extension classes; switchable through VERIF_KNOWN.
func (h *harness) deviate(class, format string, args ...any) {
	if h.known[class] {
		h.hits[class]++
		return
	}
	h.fail("["+class+"] "+format, args...)
}

func (h *harness) count(class string) {
	h.cases++
	h.classCases[class]++
}

type fixture struct {
	name string
	root cypher.SyntaxNode
}

// ---------------------------------------------------------------------------------------------------------------
// extension: event logs (generic over the node type, so the same code drives walk.PgSQL)

type ev struct {
	kind byte // 'E', 'V', 'X'
	t    reflect.Type
	p    uintptr
	s    string
}

func isNilAny(n any) bool {
	if n == nil {
		return true
	}
	v := reflect.ValueOf(n)
	switch v.Kind() {
	case reflect.Pointer, reflect.Interface, reflect.Chan, reflect.Func:
		return v.IsNil()
	}
	return false
}

func evOf(kind byte, n any, usePtr bool) ev {
	e := ev{kind: kind}
	if n == nil {
		e.s = "<nil>"
		return e
	}
	v := reflect.ValueOf(n)
	e.t = v.Type()
	switch v.Kind() {
	case reflect.Pointer:
		if v.IsNil() {
			e.s = "<nil>"
		} else if mi, ok := n.(*cypher.MapItem); ok {
			e.s = "key=" + mi.Key // synthetic node, allocated by the cursor: no stable identity
		} else if usePtr {
			e.p = v.Pointer()
		}
	case reflect.String:
		e.s = v.String()
	case reflect.Slice, reflect.Map:
		if v.IsNil() {
			e.s = "nil"
		} else {
			e.s = "len=" + strconv.Itoa(v.Len())
		}
	}
	return e
}

func (e ev) String() string {
	t := "<nil>"
	if e.t != nil {
		t = e.t.String()
	}
	if e.s != "" {
		t += "(" + e.s + ")"
	}
	return string(e.kind) + ":" + t
}

type evLog[N any] struct {
	walk.Visitor[N]
	usePtr    bool
	events    []ev
	actAt     int // 0 never, -1 at every position, k at the k-th callback
	act       func(h walk.VisitorHandler)
	nilSeen   int
	afterDone int
}

func (r *evLog[N]) on(kind byte, n N) {
	if r.Done() {
		r.afterDone++
	}
	if isNilAny(any(n)) {
		r.nilSeen++
	}
	r.events = append(r.events, evOf(kind, any(n), r.usePtr))
	if r.act != nil && (r.actAt == -1 || r.actAt == len(r.events)) {
		r.act(r)
	}
}

func (r *evLog[N]) Enter(n N) { r.on('E', n) }
func (r *evLog[N]) Visit(n N) { r.on('V', n) }
func (r *evLog[N]) Exit(n N)  { r.on('X', n) }

type walker[N any] struct {
	name   string
	run    func(root N, v walk.Visitor[N]) error
	usePtr bool
}

var (
	structuralWalker = walker[cypher.SyntaxNode]{name: "CypherStructural", run: walk.CypherStructural, usePtr: true}
	semanticWalker   = walker[cypher.SyntaxNode]{name: "Cypher", run: walk.Cypher, usePtr: true}
	// SQL nodes are mostly values: identity is the type (and the string value / length)
	pgsqlWalker   = walker[pgsql.SyntaxNode]{name: "PgSQL", run: walk.PgSQL, usePtr: false}
	cypherWalkers = []walker[cypher.SyntaxNode]{structuralWalker, semanticWalker}
)

func runLog[N any](w walker[N], root N, actAt int, act func(walk.VisitorHandler)) (l *evLog[N], err error, panicked any) {
	l = &evLog[N]{Visitor: walk.NewVisitor[N](), usePtr: w.usePtr, actAt: actAt, act: act}
	defer func() {
		if r := recover(); r != nil {
			panicked = r
		}
	}()
	err = w.run(root, l)
	return
}

// ---- hand-built SQL nodes (class "sql_children") ----------------------------------------------------------------
//
// The translator makes most SQL nodes by value and only well-formed ones; walk.PgSQL also takes the pointer forms and
// whatever a caller builds. For every node below, as the root and as the only child of a *pgsql.Parenthetical:
//   - what Enter / Visit / Exit are handed for a child IS the child the parent holds: the same dynamic type and, for
//     a pointer, the same pointer (a copy of what a pointer points at is not part of the model);
//   - every modelled child (the Expression-typed fields and slice elements listed per node) is entered exactly once
//     and in field order, or the walk returns an error (a malformed node is reported, not walked in part).
type sqlIdentityVisitor struct {
	walk.Visitor[pgsql.SyntaxNode]
	entered []pgsql.SyntaxNode
	exited  []pgsql.SyntaxNode
}

func (s *sqlIdentityVisitor) Enter(n pgsql.SyntaxNode) { s.entered = append(s.entered, n) }
func (s *sqlIdentityVisitor) Visit(n pgsql.SyntaxNode) {}
func (s *sqlIdentityVisitor) Exit(n pgsql.SyntaxNode)  { s.exited = append(s.exited, n) }

func sqlSameNode(a, b pgsql.SyntaxNode) bool {
	va, vb := reflect.ValueOf(a), reflect.ValueOf(b)
	if !va.IsValid() || !vb.IsValid() {
		return va.IsValid() == vb.IsValid()
	}
	if va.Type() != vb.Type() {
		return false
	}
	if va.Kind() == reflect.Pointer {
		return va.Pointer() == vb.Pointer()
	}
	return reflect.DeepEqual(a, b)
}

func sqlHandBuilt(h *harness) {
	lit := func(i int) pgsql.Expression { return pgsql.NewLiteral(i, pgsql.Int8) }
	id := func(name string) pgsql.Expression { return pgsql.Identifier(name) }
	type built struct {
		name     string
		node     pgsql.SyntaxNode
		children []pgsql.SyntaxNode // the modelled children in order; nil with malformed set: an error is expected
		malformed bool
	}
	var nodes []built
	for _, lower := range []pgsql.Expression{nil, lit(1)} {
		for _, upper := range []pgsql.Expression{nil, lit(2)} {
			children := []pgsql.SyntaxNode{id("a")}
			if lower != nil {
				children = append(children, lower)
			}
			if upper != nil {
				children = append(children, upper)
			}
			name := fmt.Sprintf("ArraySlice{a, lower=%v, upper=%v}", lower != nil, upper != nil)
			nodes = append(nodes, built{"pgsql." + name, pgsql.ArraySlice{Expression: id("a"), Lower: lower, Upper: upper}, children, false})
			nodes = append(nodes, built{"*pgsql." + name, &pgsql.ArraySlice{Expression: id("a"), Lower: lower, Upper: upper}, children, false})
		}
	}
	for conditions := 0; conditions <= 2; conditions++ {
		for thens := 0; thens <= 3; thens++ {
			for _, operand := range []pgsql.Expression{nil, id("o")} {
				for _, orElse := range []pgsql.Expression{nil, lit(9)} {
					c := pgsql.Case{Operand: operand, Else: orElse}
					var children []pgsql.SyntaxNode
					if operand != nil {
						children = append(children, operand)
					}
					for i := 0; i < conditions; i++ {
						c.Conditions = append(c.Conditions, id(fmt.Sprintf("w%d", i)))
					}
					for i := 0; i < thens; i++ {
						c.Then = append(c.Then, lit(10+i))
					}
					for i := 0; i < conditions && i < thens; i++ {
						children = append(children, c.Conditions[i], c.Then[i])
					}
					if orElse != nil {
						children = append(children, orElse)
					}
					name := fmt.Sprintf("Case{operand=%v, %d WHEN, %d THEN, else=%v}", operand != nil, conditions, thens, orElse != nil)
					cp := c
					nodes = append(nodes, built{"pgsql." + name, c, children, conditions != thens})
					nodes = append(nodes, built{"*pgsql." + name, &cp, children, conditions != thens})
				}
			}
		}
	}
	nodes = append(nodes,
		built{"*pgsql.ArrayIndex", &pgsql.ArrayIndex{Expression: id("a"), Indexes: []pgsql.Expression{lit(1), lit(2)}}, nil, false},
		built{"pgsql.ArrayIndex", pgsql.ArrayIndex{Expression: id("a"), Indexes: []pgsql.Expression{lit(1)}}, nil, false},
		built{"*pgsql.UnaryExpression", &pgsql.UnaryExpression{Operator: pgsql.OperatorNot, Operand: id("a")}, nil, false},
		built{"*pgsql.BinaryExpression", &pgsql.BinaryExpression{Operator: pgsql.OperatorEquals, LOperand: id("a"), ROperand: lit(1)}, nil, false},
		built{"pgsql.BinaryExpression", pgsql.BinaryExpression{Operator: pgsql.OperatorEquals, LOperand: id("a"), ROperand: lit(1)}, nil, false},
		built{"*pgsql.FunctionCall", &pgsql.FunctionCall{Function: pgsql.FunctionToLower, Parameters: []pgsql.Expression{id("a")}}, nil, false},
		built{"*pgsql.AnyExpression", &pgsql.AnyExpression{Expression: id("a")}, nil, false},
		built{"*pgsql.AllExpression", &pgsql.AllExpression{Expression: id("a")}, nil, false},
		built{"*pgsql.Parenthetical", &pgsql.Parenthetical{Expression: id("a")}, []pgsql.SyntaxNode{id("a")}, false},
		built{"pgsql.TypeCast", pgsql.TypeCast{Expression: id("a"), CastType: pgsql.Text}, nil, false},
	)
	run := func(root pgsql.SyntaxNode) (v *sqlIdentityVisitor, err error, pv any) {
		v = &sqlIdentityVisitor{Visitor: walk.NewVisitor[pgsql.SyntaxNode]()}
		defer func() {
			if r := recover(); r != nil {
				pv = r
			}
		}()
		err = walk.PgSQL(root, v)
		return
	}
	for _, b := range nodes {
		for _, wrapped := range []bool{false, true} {
			h.count("sql_children")
			root, skip, name := b.node, 0, b.name
			if wrapped {
				expr, isExpr := b.node.(pgsql.Expression)
				if !isExpr {
					continue
				}
				root, skip, name = &pgsql.Parenthetical{Expression: expr}, 1, "*pgsql.Parenthetical{"+b.name+"}"
			}
			v, err, pv := run(root)
			if pv != nil {
				h.deviate("sql_children", "walk.PgSQL panics on %s: %v", name, pv)
				continue
			}
			if b.malformed {
				if err == nil {
					h.deviate("sql_children", "walk.PgSQL walks the malformed %s without an error (entered %d nodes): some of its WHEN / THEN expressions are left out silently", name, len(v.entered))
				}
				continue
			}
			if err != nil {
				h.deviate("sql_children", "walk.PgSQL fails on %s: %v", name, err)
				continue
			}
			if len(v.entered) <= skip || !sqlSameNode(v.entered[0], root) || !sqlSameNode(v.entered[skip], b.node) {
				got := "nothing"
				if len(v.entered) > skip {
					got = fmt.Sprintf("%T", v.entered[skip])
				}
				h.deviate("sql_children", "walk.PgSQL on %s: the visitor is handed %s where the model holds the %T itself", name, got, b.node)
				continue
			}
			if len(v.exited) != len(v.entered) {
				h.deviate("sql_children", "walk.PgSQL on %s: %d Enter and %d Exit notifications", name, len(v.entered), len(v.exited))
			}
			if b.children != nil {
				got := v.entered[skip+1:]
				ok := len(got) == len(b.children)
				for i := 0; ok && i < len(got); i++ {
					ok = sqlSameNode(got[i], b.children[i])
				}
				if !ok {
					h.deviate("sql_children", "walk.PgSQL on %s enters the children %v, the node holds %v", name, got, b.children)
				}
			}
		}
	}
}

func sameEvents(a, b []ev, withPtr bool) int {
	n := len(a)
	if len(b) < n {
		n = len(b)
	}
	for i := 0; i < n; i++ {
		x, y := a[i], b[i]
		if !withPtr {
			x.p, y.p = 0, 0
		}
		if x != y {
			return i
		}
	}
	if len(a) != len(b) {
		return n
	}
	return -1
}

func describeDiff(got, want []ev, at int) string {
	g, w := "<end>", "<end>"
	if at < len(got) {
		g = got[at].String()
	}
	if at < len(want) {
		w = want[at].String()
	}
	return fmt.Sprintf("event %d is %s, expected %s (got %d events, expected %d)", at+1, g, w, len(got), len(want))
}

// ---------------------------------------------------------------------------------------------------------------
// extension: an independent rendering of a model that distinguishes nil from empty, ignores addresses and capacity

func dumpVal(b *strings.Builder, v reflect.Value, depth int) {
	if depth > 400 {
		b.WriteString("<deep>")
		return
	}
	switch v.Kind() {
	case reflect.Invalid:
		b.WriteString("<invalid>")
	case reflect.Interface:
		if v.IsNil() {
			b.WriteString("<nil-iface>")
		} else {
			b.WriteString("(" + v.Elem().Type().String() + ")")
			dumpVal(b, v.Elem(), depth+1)
		}
	case reflect.Pointer:
		if v.IsNil() {
			b.WriteString("<nil " + v.Type().String() + ">")
		} else {
			b.WriteString("&")
			dumpVal(b, v.Elem(), depth+1)
		}
	case reflect.Struct:
		b.WriteString(v.Type().String() + "{")
		for i := 0; i < v.NumField(); i++ {
			b.WriteString(v.Type().Field(i).Name + ":")
			dumpVal(b, v.Field(i), depth+1)
			b.WriteString(";")
		}
		b.WriteString("}")
	case reflect.Slice:
		if v.IsNil() {
			b.WriteString("nil" + v.Type().String())
		} else {
			b.WriteString(v.Type().String() + "[len " + strconv.Itoa(v.Len()) + ":")
			for i := 0; i < v.Len(); i++ {
				dumpVal(b, v.Index(i), depth+1)
				b.WriteString(",")
			}
			b.WriteString("]")
		}
	case reflect.Map:
		if v.IsNil() {
			b.WriteString("nil" + v.Type().String())
		} else {
			keys := v.MapKeys()
			sort.Slice(keys, func(i, j int) bool { return fmt.Sprint(keys[i]) < fmt.Sprint(keys[j]) })
			b.WriteString(v.Type().String() + "{len " + strconv.Itoa(v.Len()) + ":")
			for _, k := range keys {
				b.WriteString(strconv.Quote(fmt.Sprint(k)) + "=")
				dumpVal(b, v.MapIndex(k), depth+1)
				b.WriteString(",")
			}
			b.WriteString("}")
		}
	case reflect.String:
		b.WriteString(strconv.Quote(v.String()))
	case reflect.Bool:
		b.WriteString(strconv.FormatBool(v.Bool()))
	case reflect.Int, reflect.Int8, reflect.Int16, reflect.Int32, reflect.Int64:
		b.WriteString(strconv.FormatInt(v.Int(), 10))
	case reflect.Uint, reflect.Uint8, reflect.Uint16, reflect.Uint32, reflect.Uint64, reflect.Uintptr:
		b.WriteString(strconv.FormatUint(v.Uint(), 10))
	case reflect.Float32, reflect.Float64:
		b.WriteString(strconv.FormatFloat(v.Float(), 'g', -1, 64))
	default:
		b.WriteString("<" + v.Kind().String() + ">")
	}
}

func dump(root any) string {
	var b strings.Builder
	dumpVal(&b, reflect.ValueOf(root), 0)
	return b.String()
}

func firstDiff(a, b string) string {
	n := len(a)
	if len(b) < n {
		n = len(b)
	}
	i := 0
	for i < n && a[i] == b[i] {
		i++
	}
	cut := func(s string) string {
		lo, hi := i-50, i+50
		if lo < 0 {
			lo = 0
		}
		if hi > len(s) {
			hi = len(s)
		}
		return s[lo:hi]
	}
	return fmt.Sprintf("...%s... versus ...%s...", cut(a), cut(b))
}

// ---------------------------------------------------------------------------------------------------------------
// extension: locations of a model, by reflection

type slot struct {
	path    string
	v       reflect.Value // the settable location (struct field, slice element, target of a pointer) ...
	mapV    reflect.Value // ... or a map value: mapV[key]
	key     reflect.Value
	inSlice bool   // element of a slice
	owner   string // "Struct.Field" of the field (for elements: of the field holding the collection)
}

func (s slot) typ() reflect.Type {
	if s.mapV.IsValid() {
		return s.mapV.Type().Elem()
	}
	return s.v.Type()
}

func (s slot) get() reflect.Value {
	if s.mapV.IsValid() {
		return s.mapV.MapIndex(s.key)
	}
	old := reflect.New(s.v.Type()).Elem()
	old.Set(s.v)
	return old
}

func (s slot) set(x reflect.Value) {
	if s.mapV.IsValid() {
		s.mapV.SetMapIndex(s.key, x)
	} else {
		s.v.Set(x)
	}
}

func (s slot) inCollection() bool { return s.inSlice || s.mapV.IsValid() }

type slots struct {
	refs    []slot // pointer / interface valued locations
	colls   []slot // slice / map valued locations (v possibly not settable: then only elements / entries can change)
	scalars []slot
	// value nodes of the model (no pointer identity), counted for the structural walk
	maps, kinds, lists, mapEntries int
}

// opaque payloads (assumption of the property): never entered, never changed
func opaqueField(t reflect.Type, name string) bool {
	return t.PkgPath() == cypherPkgPath && name == "Value" && (t.Name() == "Literal" || t.Name() == "Parameter")
}

var (
	mapLiteralType  = reflect.TypeOf(cypher.MapLiteral(nil))
	kindsType       = reflect.TypeOf(graph.Kinds(nil))
	listLiteralType = reflect.TypeOf(cypher.ListLiteral(nil))
)

func (c *slots) visit(v reflect.Value, path string, inSlice bool, owner string) {
	switch v.Kind() {
	case reflect.Interface:
		if v.CanSet() {
			c.refs = append(c.refs, slot{path: path, v: v, inSlice: inSlice, owner: owner})
		}
		if !v.IsNil() {
			c.visit(v.Elem(), path, false, owner)
		}
	case reflect.Pointer:
		if v.CanSet() {
			c.refs = append(c.refs, slot{path: path, v: v, inSlice: inSlice, owner: owner})
		}
		if v.IsNil() {
			return
		}
		et := v.Type().Elem()
		switch {
		case et.PkgPath() == cypherPkgPath:
			if et == listLiteralType {
				c.lists++
			}
			c.visit(v.Elem(), path, false, owner)
		case et.Kind() == reflect.Int64 && et.PkgPath() == "":
			c.visit(v.Elem(), path+"*", false, owner)
		}
		// anything else (interned kinds, ...) is an opaque shared value
	case reflect.Struct:
		t := v.Type()
		if t.PkgPath() != cypherPkgPath {
			return
		}
		for i := 0; i < v.NumField(); i++ {
			sf := t.Field(i)
			if sf.Name == "errors" || opaqueField(t, sf.Name) {
				continue
			}
			c.visit(v.Field(i), path+"."+sf.Name, false, t.Name()+"."+sf.Name)
		}
	case reflect.Slice:
		if v.Type() == kindsType && !v.IsNil() {
			c.kinds++
		}
		c.colls = append(c.colls, slot{path: path, v: v, owner: owner})
		for i := 0; i < v.Len(); i++ {
			c.visit(v.Index(i), path+"["+strconv.Itoa(i)+"]", true, owner)
		}
	case reflect.Map:
		if v.Type() == mapLiteralType && (!v.IsNil() || !v.CanSet()) {
			// a MapLiteral held in an interface is a present node even when the map is nil
			c.maps++
			c.mapEntries += v.Len()
		}
		c.colls = append(c.colls, slot{path: path, v: v, owner: owner})
		keys := v.MapKeys()
		sort.Slice(keys, func(i, j int) bool { return fmt.Sprint(keys[i]) < fmt.Sprint(keys[j]) })
		for _, k := range keys {
			p := path + "[" + strconv.Quote(fmt.Sprint(k)) + "]"
			c.refs = append(c.refs, slot{path: p, mapV: v, key: k, owner: owner})
			c.visit(v.MapIndex(k), p, false, owner)
		}
	case reflect.String, reflect.Bool, reflect.Int, reflect.Int8, reflect.Int16, reflect.Int32, reflect.Int64,
		reflect.Uint, reflect.Uint8, reflect.Uint16, reflect.Uint32, reflect.Uint64, reflect.Float32, reflect.Float64:
		if v.CanSet() {
			c.scalars = append(c.scalars, slot{path: path, v: v, owner: owner})
		}
	}
}

func collectSlots(root any) *slots {
	c := &slots{}
	c.visit(reflect.ValueOf(root), "root", false, "")
	return c
}

// markStruct makes a fresh struct recognisable in a dump: the tag is stored in the first field that can carry it
// (a string, or, below a pointer / interface / slice field, a fresh child that carries it)
func markStruct(v reflect.Value, tag string, depth int) bool {
	if depth > 6 {
		return false
	}
	for i := 0; i < v.NumField(); i++ {
		f := v.Field(i)
		if !f.CanSet() || opaqueField(v.Type(), v.Type().Field(i).Name) {
			continue
		}
		switch f.Kind() {
		case reflect.String:
			f.SetString(tag)
			return true
		case reflect.Interface:
			if f.Type().NumMethod() == 0 {
				f.Set(reflect.ValueOf(&cypher.Variable{Symbol: tag}))
				return true
			}
		case reflect.Pointer:
			if et := f.Type().Elem(); et.Kind() == reflect.Struct && et.PkgPath() == cypherPkgPath {
				child := reflect.New(et)
				if markStruct(child.Elem(), tag, depth+1) {
					f.Set(child)
					return true
				}
			}
		case reflect.Slice:
			if et := f.Type().Elem(); et.Kind() == reflect.Interface && et.NumMethod() == 0 {
				f.Set(reflect.Append(f, reflect.ValueOf(&cypher.Variable{Symbol: tag})))
				return true
			} else if et.Kind() == reflect.Pointer && et.Elem().Kind() == reflect.Struct && et.Elem().PkgPath() == cypherPkgPath {
				child := reflect.New(et.Elem())
				if markStruct(child.Elem(), tag, depth+1) {
					f.Set(reflect.Append(f, child))
					return true
				}
			}
		}
	}
	return false
}

// freshElem: a new value that can be stored in a collection with element type t
func freshElem(t reflect.Type, tag string) reflect.Value {
	switch t.Kind() {
	case reflect.Pointer:
		if t.Elem().PkgPath() == cypherPkgPath && t.Elem().Kind() == reflect.Struct {
			p := reflect.New(t.Elem())
			markStruct(p.Elem(), tag, 0)
			return p
		}
	case reflect.Interface:
		for _, cand := range []any{&cypher.Variable{Symbol: tag}, graph.StringKind(tag), errors.New(tag)} {
			if cv := reflect.ValueOf(cand); cv.Type().AssignableTo(t) {
				return cv
			}
		}
	case reflect.String:
		return reflect.ValueOf(tag).Convert(t)
	}
	return reflect.Value{}
}

// mutateAll changes everything mutable below root: every scalar and, with replace false, one appended element per
// settable slice (into the spare capacity when there is some) and one inserted entry per map; with replace true,
// the first element of every slice and one entry of every map are overwritten (this detaches the former
// occupants, which is why it is a separate round). It returns the undo function.
func mutateAll(root any, tag string, replace bool) func() {
	c := collectSlots(root)
	var undo []func()
	for _, s := range c.scalars {
		s, old := s, s.get()
		undo = append(undo, func() { s.v.Set(old) })
		switch s.v.Kind() {
		case reflect.String:
			s.v.SetString(s.v.String() + "~" + tag)
		case reflect.Bool:
			s.v.SetBool(!s.v.Bool())
		case reflect.Int, reflect.Int8, reflect.Int16, reflect.Int32, reflect.Int64:
			s.v.SetInt(s.v.Int() + int64(len(tag)))
		case reflect.Uint, reflect.Uint8, reflect.Uint16, reflect.Uint32, reflect.Uint64:
			s.v.SetUint(s.v.Uint() + uint64(len(tag)))
		case reflect.Float32, reflect.Float64:
			s.v.SetFloat(s.v.Float() + float64(len(tag)))
		}
	}
	for _, s := range c.colls {
		s := s
		switch s.v.Kind() {
		case reflect.Slice:
			fresh := freshElem(s.v.Type().Elem(), tag+"/set")
			if !fresh.IsValid() {
				continue
			}
			if replace && s.v.Len() > 0 {
				e0 := s.v.Index(0)
				old := reflect.New(e0.Type()).Elem()
				old.Set(e0)
				undo = append(undo, func() { e0.Set(old) })
				e0.Set(fresh)
			}
			if !replace && s.v.CanSet() {
				old := s.get()
				undo = append(undo, func() { s.v.Set(old) })
				s.v.Set(reflect.Append(s.v, freshElem(s.v.Type().Elem(), tag+"/append")))
			}
		case reflect.Map:
			if s.v.IsNil() {
				continue
			}
			fresh := freshElem(s.v.Type().Elem(), tag+"/set")
			if !fresh.IsValid() || s.v.Type().Key().Kind() != reflect.String {
				continue
			}
			keys := s.v.MapKeys()
			sort.Slice(keys, func(i, j int) bool { return keys[i].String() < keys[j].String() })
			if replace {
				if len(keys) > 0 {
					k, old := keys[0], s.v.MapIndex(keys[0])
					undo = append(undo, func() { s.v.SetMapIndex(k, old) })
					s.v.SetMapIndex(k, fresh)
				}
				continue
			}
			nk := reflect.ValueOf("verif~" + tag).Convert(s.v.Type().Key())
			undo = append(undo, func() { s.v.SetMapIndex(nk, reflect.Value{}) })
			s.v.SetMapIndex(nk, freshElem(s.v.Type().Elem(), tag+"/insert"))
		}
	}
	return func() {
		for i := len(undo) - 1; i >= 0; i-- {
			undo[i]()
		}
	}
}

func safeCopy(root cypher.SyntaxNode) (cp cypher.SyntaxNode, panicked any) {
	defer func() {
		if r := recover(); r != nil {
			panicked = r
		}
	}()
	return cypher.Copy(root), nil
}

// ---------------------------------------------------------------------------------------------------------------
// class 1: the copy of a model (with present-but-empty collections) is equal including nil-vs-empty, disjoint, and
// walks the same

func (h *harness) checkCopyAndWalk(name string, root cypher.SyntaxNode, behavioural bool) {
	h.count("empty_collections")
	before := dump(root)
	cp, pv := safeCopy(root)
	if pv != nil {
		h.deviate("copy_panic", "Copy panicked (%v) for %s", pv, name)
		return
	}
	if dc := dump(cp); dc != before {
		h.deviate("copy_nil_vs_empty", "Copy differs from the original (nil versus empty included) for %s: original %s", name, firstDiff(before, dc))
	} else if !reflect.DeepEqual(cp, root) {
		h.deviate("copy_nil_vs_empty", "Copy is not reflect.DeepEqual to the original for %s", name)
	}
	a, b := map[uintptr]int{}, map[uintptr]int{}
	sa, sb := map[uintptr]bool{}, map[uintptr]bool{}
	reflectNodes(reflect.ValueOf(root), a, sa)
	reflectNodes(reflect.ValueOf(cp), b, sb)
	for p := range sa {
		if sb[p] {
			h.deviate("copy_shares_mutable", "Copy shares a pointer / backing array / map with the original for %s", name)
			break
		}
	}
	// the walks of the copy and of the original agree
	expect := collectSlots(root)
	for _, w := range cypherWalkers {
		lo, errO, pvO := runLog(w, root, 0, nil)
		lc, errC, pvC := runLog(w, cp, 0, nil)
		if pvO != nil || pvC != nil {
			h.deviate("walk_panic", "walk.%s panicked (%v / %v) for %s", w.name, pvO, pvC, name)
			continue
		}
		if (errO == nil) != (errC == nil) {
			h.deviate("copy_walk_differs", "walk.%s returns %v for the original and %v for its copy, for %s", w.name, errO, errC, name)
			continue
		}
		if errO != nil {
			h.deviate("copy_walk_differs", "walk.%s fails with %v for %s", w.name, errO, name)
			continue
		}
		if at := sameEvents(lc.events, lo.events, false); at >= 0 {
			h.deviate("copy_walk_differs", "walk.%s of the copy differs from the walk of the original for %s: %s", w.name, name, describeDiff(lc.events, lo.events, at))
		}
		if w.name == structuralWalker.name {
			var maps, kinds, lists, items int
			for _, e := range lo.events {
				if e.kind != 'E' {
					continue
				}
				switch e.t {
				case mapLiteralType:
					maps++
				case kindsType:
					kinds++
				case reflect.PointerTo(listLiteralType):
					lists++
				case reflect.TypeOf((*cypher.MapItem)(nil)):
					items++
				}
			}
			if maps != expect.maps || kinds != expect.kinds || lists != expect.lists || items != expect.mapEntries {
				h.deviate("structural_value_nodes", "structural walk entered %d map literals, %d kind lists, %d list literals, %d map items; the model has %d, %d, %d, %d (present, possibly empty) for %s",
					maps, kinds, lists, items, expect.maps, expect.kinds, expect.lists, expect.mapEntries, name)
			}
		}
	}
	if !behavioural {
		return
	}
	// behavioural disjointness, both directions; the second change uses other values so that a slot of a shared
	// backing array (also one beyond len, in the spare capacity) would be overwritten
	for _, replace := range []bool{false, true} {
		what := "scalars, append, map insert"
		if replace {
			what = "scalars, first element of every slice, an entry of every map"
		}
		mutateAll(cp, "c", replace)
		if after := dump(root); after != before {
			h.deviate("copy_shares_mutable", "changing the copy (%s) changed the original for %s: %s", what, name, firstDiff(before, after))
		}
		changedCopy := dump(cp)
		undo := mutateAll(root, "orig", replace)
		if after := dump(cp); after != changedCopy {
			h.deviate("copy_shares_mutable", "changing the original (%s) changed the copy for %s: %s", what, name, firstDiff(changedCopy, after))
		}
		undo()
	}
	if after := dump(root); after != before {
		h.fail("harness error: original not restored for %s", name)
	}
}

// every slice / map valued location of the model replaced by: empty without capacity, empty with spare capacity, nil
func (h *harness) emptiedVariants(f fixture) {
	before := dump(f.root)
	for _, s := range collectSlots(f.root).colls {
		if !s.v.CanSet() {
			continue
		}
		old := s.get()
		var variants []reflect.Value
		var labels []string
		switch s.v.Kind() {
		case reflect.Slice:
			variants = []reflect.Value{reflect.MakeSlice(s.v.Type(), 0, 0), reflect.MakeSlice(s.v.Type(), 0, 4), reflect.Zero(s.v.Type())}
			labels = []string{"empty cap 0", "empty cap 4", "nil"}
		case reflect.Map:
			variants = []reflect.Value{reflect.MakeMap(s.v.Type()), reflect.Zero(s.v.Type())}
			labels = []string{"empty map", "nil map"}
		}
		for i, variant := range variants {
			s.v.Set(variant)
			h.checkCopyAndWalk(fmt.Sprintf("%s with %s := %s (%s)", f.name, s.path, labels[i], s.v.Type()), f.root, true)
		}
		s.v.Set(old)
	}
	if dump(f.root) != before {
		h.fail("harness error: %s not restored after the emptied variants", f.name)
	}
}

func emptyCollectionQueries() []string {
	return []string{
		"match (n {}) return n",
		"return {}",
		"return []",
		"match ()-[r {}]->() return r",
		"match (n) where n.a = {} return n",
		"match (n {a: {}}) return n",
		"match (n {a: []}) return n",
		"match (n) return n.x = []",
		"create (n {}) return n",
		"merge (n {}) return n",
		"match (n) set n += {} return n",
		"match (n) set n = {} return n",
		"with {} as m return m",
		"unwind [] as x return x",
		"match (n $p) return n",
		"match (n {a: {b: {}, c: []}, d: [{}]}) return [[], {}]",
	}
}

// models with present-but-empty (and nil) collections, built through the model API
func builtFixtures() []fixture {
	var out []fixture
	add := func(name string, root cypher.SyntaxNode) {
		out = append(out, fixture{name: "built: " + name, root: root})
	}
	v := func(s string) *cypher.Variable { return cypher.NewVariableWithSymbol(s) }

	{
		rq, spq := cypher.NewRegularQueryWithSingleQuery()
		props := cypher.NewProperties()
		props.Map = cypher.NewMapLiteral()
		spq.NewMatch(false).NewPatternPart().AddPatternElements(&cypher.NodePattern{Variable: v("n"), Kinds: graph.Kinds{}, Properties: props})
		spq.NewProjection(false).AddItem(cypher.NewProjectionItemWithExpr(v("n")))
		add("match (n {}) with Properties{Map: empty non-nil}, Kinds empty non-nil", rq)
	}
	{
		rq, spq := cypher.NewRegularQueryWithSingleQuery()
		relProps := cypher.NewProperties()
		relProps.Map = cypher.MapLiteral{}
		spq.NewMatch(false).NewPatternPart().AddPatternElements(
			&cypher.NodePattern{Properties: cypher.MapLiteral{}},
			&cypher.RelationshipPattern{Variable: v("r"), Kinds: graph.Kinds{}, Direction: graph.DirectionOutbound, Properties: relProps},
			&cypher.NodePattern{Kinds: make(graph.Kinds, 0, 3)})
		spq.NewProjection(false).AddItem(cypher.NewProjectionItemWithExpr(cypher.NewMapLiteral()))
		add("bare empty MapLiteral as node properties, empty relationship Properties.Map, return {}", rq)
	}
	{
		m := cypher.NewMatch(false)
		m.Pattern = make([]*cypher.PatternPart, 0, 4)
		w := m.NewWhere()
		x := v("x")
		w.Add(x)
		w.Remove(x)
		add("Match{Pattern: make([]*PatternPart,0,4)} with an emptied Where", m)
	}
	{
		m := cypher.NewMatch(true)
		m.Pattern = append(make([]*cypher.PatternPart, 0, 4), cypher.NewPatternPart().AddPatternElements(&cypher.NodePattern{Variable: v("n")}))
		w := m.NewWhere()
		w.AddSlice(append(make([]cypher.Expression, 0, 8), v("a"), v("b")))
		add("Match with one pattern part in a cap 4 slice, Where with 2 expressions in a cap 8 slice", m)
	}
	{
		c := cypher.NewConjunction(v("a"), v("b"))
		for c.Len() > 0 {
			c.Remove(c.Get(0))
		}
		add("emptied Conjunction", c)
		add("Disjunction without operands (nil list)", cypher.NewDisjunction())
		x := cypher.NewExclusiveDisjunction()
		x.AddSlice([]cypher.Expression{})
		add("ExclusiveDisjunction after AddSlice(empty)", x)
		d := cypher.NewDisjunction(make([]cypher.Expression, 0, 4)...)
		add("Disjunction over an empty cap 4 slice", d)
		add("Negation of an emptied Conjunction", cypher.NewNegation(cypher.NewParenthetical(c)))
	}
	{
		p := cypher.NewProjection(true)
		p.Items = make([]cypher.Expression, 0, 2)
		p.Order = &cypher.Order{Items: []*cypher.SortItem{}}
		add("Projection{Items: make(0,2), Order{Items: empty}}", &cypher.Return{Projection: p})
		with := cypher.NewWith()
		with.Projection = cypher.NewProjection(false)
		with.Projection.Items = []cypher.Expression{}
		with.Where = cypher.NewWhere()
		add("With{Projection{Items: empty}, Where: nil list}", with)
	}
	{
		f := cypher.NewSimpleFunctionInvocation("f", []cypher.Expression{}...)
		f.Namespace = []string{}
		add("FunctionInvocation{Arguments: empty, Namespace: empty}", f)
		g := cypher.NewSimpleFunctionInvocation("g")
		add("FunctionInvocation without arguments (nil)", g)
		k := cypher.NewSimpleFunctionInvocation("h", cypher.NewMapLiteral(), cypher.NewListLiteral())
		k.Namespace = append(make([]string, 0, 4), "ns")
		add("FunctionInvocation({}, []) with a cap 4 namespace", k)
	}
	{
		spq := cypher.NewSinglePartQuery()
		spq.ReadingClauses = []*cypher.ReadingClause{}
		spq.UpdatingClauses = []cypher.Expression{}
		add("SinglePartQuery with empty clause lists", &cypher.RegularQuery{SingleQuery: &cypher.SingleQuery{SinglePartQuery: spq}})
		mpq := cypher.NewMultiPartQuery()
		mpq.Parts = []*cypher.MultiPartQueryPart{}
		add("MultiPartQuery{Parts: empty}", &cypher.RegularQuery{SingleQuery: &cypher.SingleQuery{MultiPartQuery: mpq}})
		mpq2 := cypher.NewMultiPartQuery()
		mpq2.AppendPart()
		mpq2.CurrentPart().ReadingClauses = make([]*cypher.ReadingClause, 0, 2)
		mpq2.CurrentPart().UpdatingClauses = []*cypher.UpdatingClause{}
		mpq2.SinglePartQuery = cypher.NewSinglePartQuery()
		add("MultiPartQueryPart with empty clause lists", &cypher.RegularQuery{SingleQuery: &cypher.SingleQuery{MultiPartQuery: mpq2}})
	}
	{
		spq := cypher.NewSinglePartQuery()
		spq.AddUpdatingClause(cypher.NewUpdatingClause(cypher.NewSet([]*cypher.SetItem{})))
		spq.AddUpdatingClause(cypher.NewUpdatingClause(cypher.NewRemove([]*cypher.RemoveItem{})))
		spq.AddUpdatingClause(cypher.NewUpdatingClause(cypher.NewDelete(true, []cypher.Expression{})))
		cr := cypher.NewCreate()
		cr.Pattern = make([]*cypher.PatternPart, 0, 1)
		spq.AddUpdatingClause(cypher.NewUpdatingClause(cr))
		spq.AddUpdatingClause(cypher.NewUpdatingClause(&cypher.Merge{PatternPart: &cypher.PatternPart{PatternElements: []*cypher.PatternElement{}}, MergeActions: []*cypher.MergeAction{}}))
		spq.AddUpdatingClause(cypher.NewUpdatingClause(&cypher.Merge{PatternPart: cypher.NewPatternPart(), MergeActions: []*cypher.MergeAction{{OnCreate: true, Set: cypher.NewSet(nil)}}}))
		add("updating clauses with empty item lists", &cypher.RegularQuery{SingleQuery: &cypher.SingleQuery{SinglePartQuery: spq}})
	}
	{
		add("Comparison{Partials: empty}", &cypher.Comparison{Left: v("a"), Partials: []*cypher.PartialComparison{}})
		add("ArithmeticExpression{Partials: empty cap 2}", &cypher.ArithmeticExpression{Left: v("a"), Partials: make([]*cypher.PartialArithmeticExpression, 0, 2)})
		add("PatternPredicate without elements", cypher.NewPatternPredicate())
		add("PatternPredicate{PatternElements: empty}", &cypher.PatternPredicate{PatternElements: []*cypher.PatternElement{}})
		add("KindMatcher{Kinds: empty}", cypher.NewKindMatcher(v("n"), graph.Kinds{}, false))
		add("KindMatcher{Kinds: nil}", cypher.NewKindMatcher(v("n"), nil, true))
		add("RemoveItem by an empty kind matcher", cypher.RemoveKindsByMatcher(cypher.NewKindMatcher(v("n"), graph.Kinds{}, false)))
	}
	{
		add("empty list literal", cypher.NewListLiteral())
		add("nil list literal", new(cypher.ListLiteral))
		l := cypher.NewStringListLiteral([]string{"a", "b"})
		*l = (*l)[:0]
		add("emptied list literal (capacity kept)", l)
		l2 := cypher.NewListLiteral()
		*l2 = append(make(cypher.ListLiteral, 0, 8), cypher.NewMapLiteral(), cypher.NewListLiteral(), cypher.NewLiteral(1, false))
		add("list literal [{}, [], 1] with spare capacity", l2)
		add("empty map literal root", cypher.NewMapLiteral())
		add("nil map literal root", cypher.MapLiteral(nil))
		add("map literal {a: {}, b: []}", cypher.MapLiteral{"a": cypher.MapLiteral{}, "b": cypher.NewListLiteral()})
		add("empty kinds root", graph.Kinds{})
		props := cypher.NewProperties()
		add("Properties with neither map nor parameter", props)
		props2 := cypher.NewProperties()
		props2.Map = cypher.MapLiteral{}
		add("Properties{Map: empty non-nil}", props2)
	}
	return out
}

// ---------------------------------------------------------------------------------------------------------------
// class 3: the cancellation handler contract

func noError() error { return nil }

func handlerContract[N any](h *harness, w walker[N], name string, root N) {
	full, err, pv := runLog(w, root, 0, nil)
	if pv != nil {
		h.deviate("walk_panic", "walk.%s panicked (%v) for %s", w.name, pv, name)
		return
	}
	if err != nil {
		return // reported by the other checks (cypher) / filtered before (SQL)
	}
	n := len(full.events)
	// the Exit that closes the node a callback was for
	closeIdx, ownerE, exitOf := make([]int, n), make([]int, n), make([]int, n)
	var stack []int
	for i, e := range full.events {
		switch e.kind {
		case 'E':
			stack = append(stack, i)
			ownerE[i] = i
		case 'V', 'X':
			if len(stack) == 0 {
				h.deviate("handler_nesting", "walk.%s: %s outside of any Enter for %s", w.name, e, name)
				return
			}
			top := stack[len(stack)-1]
			if o := full.events[top]; o.t != e.t || o.p != e.p || o.s != e.s {
				h.deviate("handler_nesting", "walk.%s: %s does not match the innermost %s for %s", w.name, e, o, name)
				return
			}
			ownerE[i] = top
			if e.kind == 'X' {
				exitOf[top] = i
				stack = stack[:len(stack)-1]
			}
		}
	}
	if len(stack) != 0 {
		h.deviate("handler_nesting", "walk.%s: %d Enter without Exit in an undisturbed walk for %s", w.name, len(stack), name)
		return
	}
	for i := range closeIdx {
		closeIdx[i] = exitOf[ownerE[i]]
	}
	check := func(class, what string, l *evLog[N], err error, pv any, want []ev, wantErr error, anyErr bool) {
		switch {
		case pv != nil:
			h.deviate("walk_panic", "walk.%s panicked (%v) with %s for %s", w.name, pv, what, name)
		case wantErr != nil && !errors.Is(err, wantErr):
			h.deviate(class, "walk.%s returned %v with %s for %s", w.name, err, what, name)
		case anyErr && err == nil:
			h.deviate(class, "walk.%s returned no error with %s for %s", w.name, what, name)
		case wantErr == nil && !anyErr && err != nil:
			h.deviate(class, "walk.%s returned %v with %s for %s", w.name, err, what, name)
		default:
			if at := sameEvents(l.events, want, true); at >= 0 {
				h.deviate(class, "walk.%s with %s for %s: %s", w.name, what, name, describeDiff(l.events, want, at))
			}
		}
	}
	// SetError(nil) everywhere does not stop anything
	h.count("handler")
	l, err, pv := runLog(w, root, -1, func(vh walk.VisitorHandler) { vh.SetError(noError()) })
	check("handler_seterror_nil", "SetError(nil) at every position", l, err, pv, full.events, nil, false)
	if l != nil && l.Error() != nil {
		h.deviate("handler_seterror_nil", "walk.%s: Error() is %v after SetError(nil) only, for %s", w.name, l.Error(), name)
	}
	for k := 1; k <= n && k <= h.posCap; k++ {
		at := fmt.Sprintf("position %d of %d (%s)", k, n, full.events[k-1])
		h.count("handler")
		stop := fmt.Errorf("verif stop %d", k)
		l, err, pv = runLog(w, root, k, func(vh walk.VisitorHandler) { vh.SetError(stop) })
		check("handler_seterror", "SetError(e) at "+at, l, err, pv, full.events[:k], stop, false)

		h.count("handler")
		l, err, pv = runLog(w, root, k, func(vh walk.VisitorHandler) { vh.SetDone() })
		check("handler_setdone", "SetDone at "+at, l, err, pv, full.events[:k], nil, false)

		h.count("handler")
		want := full.events
		if c := closeIdx[k-1]; c > k-1 {
			want = append(append([]ev{}, full.events[:k]...), full.events[c:]...)
		}
		l, err, pv = runLog(w, root, k, func(vh walk.VisitorHandler) { vh.Consume() })
		check("handler_consume", "Consume at "+at, l, err, pv, want, nil, false)

		if h.thorough {
			h.count("handler")
			l, err, pv = runLog(w, root, k, func(vh walk.VisitorHandler) { vh.SetErrorf("verif stop %d", k) })
			check("handler_seterror", "SetErrorf at "+at, l, err, pv, full.events[:k], nil, true)
			h.count("handler")
			l, err, pv = runLog(w, root, k, func(vh walk.VisitorHandler) { vh.SetError(noError()) })
			check("handler_seterror_nil", "SetError(nil) at "+at, l, err, pv, full.events, nil, false)
		}
	}
}

type verifKindMapper struct{ ids map[string]int16 }

func (k *verifKindMapper) MapKinds(_ context.Context, kinds graph.Kinds) ([]int16, error) {
	out := make([]int16, 0, len(kinds))
	for _, kind := range kinds {
		id, ok := k.ids[kind.String()]
		if !ok {
			id = int16(len(k.ids) + 1)
			k.ids[kind.String()] = id
		}
		out = append(out, id)
	}
	return out, nil
}

func (k *verifKindMapper) AssertKinds(ctx context.Context, kinds graph.Kinds) ([]int16, error) {
	return k.MapKinds(ctx, kinds)
}

func translateSafely(query *cypher.RegularQuery) (root pgsql.SyntaxNode, err error) {
	defer func() {
		if r := recover(); r != nil {
			err = fmt.Errorf("translator panicked: %v", r)
		}
	}()
	result, err := translate.Translate(context.Background(), query, &verifKindMapper{ids: map[string]int16{}}, nil, 0)
	if err != nil {
		return nil, err
	}
	return result.Statement, nil
}

// ---------------------------------------------------------------------------------------------------------------
// class 2: typed-nil roots and typed-nil branches

// removeChild: the events of an undisturbed walk without the block of the child entered at index i0, and without
// the parent's Visit that separated it from a sibling
func removeChild(full []ev, i0 int) []ev {
	depth, i1 := 0, -1
	for i := i0; i < len(full); i++ {
		if full[i].kind == 'E' {
			depth++
		} else if full[i].kind == 'X' {
			depth--
			if depth == 0 {
				i1 = i
				break
			}
		}
	}
	if i1 < 0 {
		return nil
	}
	lo, hi := i0, i1+1
	if lo > 0 && full[lo-1].kind == 'V' {
		lo--
	} else if hi < len(full) && full[hi].kind == 'V' {
		hi++
	}
	return append(append([]ev{}, full[:lo]...), full[hi:]...)
}

func enterIndex(full []ev, p uintptr) int {
	found := -1
	for i, e := range full {
		if e.kind == 'E' && e.p == p && p != 0 {
			if found >= 0 {
				return -2 // entered more than once: no unique block
			}
			found = i
		}
	}
	return found
}

func occupantPointer(v reflect.Value) uintptr {
	for v.IsValid() && v.Kind() == reflect.Interface && !v.IsNil() {
		v = v.Elem()
	}
	if v.IsValid() && v.Kind() == reflect.Pointer && !v.IsNil() {
		return v.Pointer()
	}
	return 0
}

func (h *harness) typedNilRoots(types []reflect.Type) {
	for _, t := range types {
		for _, w := range cypherWalkers {
			h.count("typed_nil")
			l, err, pv := runLog(w, cypher.SyntaxNode(reflect.Zero(t).Interface()), 0, nil)
			switch {
			case pv != nil:
				h.deviate("typed_nil_panic", "walk.%s panicked (%v) on the typed-nil root (%s)(nil)", w.name, pv, t)
			case err == nil:
				h.deviate("typed_nil_root", "walk.%s accepted the typed-nil root (%s)(nil) (%d notifications)", w.name, t, len(l.events))
			case len(l.events) > 0:
				h.deviate("typed_nil_root", "walk.%s notified the visitor %d times (%s first) for the typed-nil root (%s)(nil)", w.name, len(l.events), l.events[0], t)
			}
		}
	}
}

func (h *harness) typedNilBranches(f fixture, types []reflect.Type, rotate *int) {
	work, pv := safeCopy(f.root)
	if pv != nil {
		return // reported by class 1
	}
	fulls := make([]*evLog[cypher.SyntaxNode], len(cypherWalkers))
	for i, w := range cypherWalkers {
		l, err, pv := runLog(w, work, 0, nil)
		if err != nil || pv != nil {
			return // reported by the other checks
		}
		fulls[i] = l
	}
	before := dump(work)
	for _, s := range collectSlots(work).refs {
		st := s.typ()
		if st.Kind() == reflect.Interface && st.NumMethod() != 0 {
			continue // not a branch of the model (e.g. the graph.Kind entries of a kind list are opaque values)
		}
		old := s.get()
		occ := occupantPointer(old)
		type candidate struct {
			v     reflect.Value
			label string
		}
		var cands []candidate
		switch st.Kind() {
		case reflect.Pointer:
			if h.types[st] && !old.IsNil() {
				cands = append(cands, candidate{reflect.Zero(st), "(" + st.String() + ")(nil)"})
			}
		case reflect.Interface:
			seen := map[reflect.Type]bool{}
			addType := func(t reflect.Type) {
				if !seen[t] && t.AssignableTo(st) {
					seen[t] = true
					cands = append(cands, candidate{reflect.Zero(t), "(" + t.String() + ")(nil)"})
				}
			}
			if !old.IsNil() && old.Elem().Kind() == reflect.Pointer && h.types[old.Elem().Type()] {
				addType(old.Elem().Type())
			}
			if h.thorough {
				for _, t := range types {
					addType(t)
				}
			} else if len(types) > 0 {
				addType(types[*rotate%len(types)])
				*rotate++
			}
			if s.inSlice && !old.IsNil() {
				cands = append(cands, candidate{reflect.Zero(st), "untyped nil"})
			}
		}
		for _, cand := range cands {
			// the reference for an interface typed single field: the same model with that field absent
			var absent [2]*evLog[cypher.SyntaxNode]
			singleIface := st.Kind() == reflect.Interface && !s.inCollection()
			if singleIface {
				s.set(reflect.Zero(st))
				for i, w := range cypherWalkers {
					if l, err, pv := runLog(w, work, 0, nil); err == nil && pv == nil {
						absent[i] = l
					}
				}
			}
			s.set(cand.v)
			for i, w := range cypherWalkers {
				h.count("typed_nil")
				full := fulls[i].events
				l, err, pv := runLog(w, work, 0, nil)
				what := fmt.Sprintf("%s := %s in (a copy of) %s", s.path, cand.label, f.name)
				if s.owner != "" {
					what = s.owner + " at " + what
				}
				switch {
				case pv != nil:
					h.deviate("typed_nil_panic", "walk.%s panicked (%v) with %s", w.name, pv, what)
				case l.nilSeen > 0:
					h.deviate("typed_nil_visited", "walk.%s handed a nil node to the visitor with %s", w.name, what)
				case s.inCollection():
					// an entry of a branch collection: reported
					visited := enterIndex(full, occ) >= 0
					if err == nil && (w.name == structuralWalker.name || visited) {
						h.deviate("typed_nil_branch", "walk.%s skipped the nil entry instead of reporting it: %s", w.name, what)
					} else if err == nil {
						if at := sameEvents(l.events, full, true); at >= 0 {
							h.deviate("typed_nil_branch", "walk.%s neither reports nor ignores %s: %s", w.name, what, describeDiff(l.events, full, at))
						}
					}
				case st.Kind() == reflect.Pointer:
					// an optional child that is absent: skipped, the rest of the walk is unaffected
					if err != nil {
						h.deviate("typed_nil_optional_child", "walk.%s fails (%v) on an absent optional child: %s", w.name, err, what)
						break
					}
					want := full
					if i0 := enterIndex(full, occ); i0 == -2 {
						break
					} else if i0 >= 0 {
						want = removeChild(full, i0)
					}
					if at := sameEvents(l.events, want, true); at >= 0 {
						h.deviate("typed_nil_optional_child", "walk.%s with %s: %s", w.name, what, describeDiff(l.events, want, at))
					}
				default:
					// typed nil in an interface typed single field: an error, or exactly the walk with the field absent
					outcome := "error"
					if err == nil {
						if absent[i] == nil {
							h.deviate("typed_nil_iface_field", "walk.%s accepts %s but fails when that field is absent", w.name, what)
							break
						}
						if at := sameEvents(l.events, absent[i].events, true); at >= 0 {
							h.deviate("typed_nil_iface_field", "walk.%s neither reports nor treats as absent %s: %s", w.name, what, describeDiff(l.events, absent[i].events, at))
							break
						}
						outcome = "skipped"
						if sameEvents(absent[i].events, full, true) < 0 {
							outcome = "not walked"
						}
					}
					h.ifaceOut[outcome]++
					if outcome == "skipped" {
						h.ifaceSkipped["walk."+w.name+" "+s.owner]++
					}
				}
			}
			s.set(old)
		}
	}
	if dump(work) != before {
		h.fail("harness error: working copy of %s not restored after the typed-nil placements", f.name)
	}
}

// ---------------------------------------------------------------------------------------------------------------


// ---------------------------------------------------------------------------------------------------------------
// extension (4): optional single-valued children the parser left unset. The statement quantifies over "optional
// fields set and unset": for every node of a fixture and every nil field whose type is a pointer to a model struct,
// the field is set to a new zero-valued node (one field at a time, restored afterwards) and the structural walk of the
// root must enter that node exactly once - or report an error; a walk that returns nil and never shows the child has
// dropped a modelled child silently. Each (parent type, field) pair is tried on the first fixture that offers it
// (bound "2": on every fixture).
func (h *harness) optionalFieldsSet(f fixture, tried map[string]bool) {
	seen := map[uintptr]bool{}
	var visit func(v reflect.Value)
	visit = func(v reflect.Value) {
		switch v.Kind() {
		case reflect.Interface:
			if !v.IsNil() {
				visit(v.Elem())
			}
		case reflect.Pointer:
			if v.IsNil() || seen[v.Pointer()] {
				return
			}
			seen[v.Pointer()] = true
			if v.Elem().Kind() != reflect.Struct || v.Elem().Type().PkgPath() != cypherPkgPath {
				return
			}
			st := v.Elem()
			for i := 0; i < st.NumField(); i++ {
				fld := st.Field(i)
				ft := fld.Type()
				if fld.Kind() == reflect.Pointer && fld.IsNil() && fld.CanSet() && ft.Elem().Kind() == reflect.Struct && ft.Elem().PkgPath() == cypherPkgPath {
					key := st.Type().String() + "." + st.Type().Field(i).Name
					if tried[key] && !h.thorough {
						continue
					}
					tried[key] = true
					h.count("optional-set")
					child := reflect.New(ft.Elem())
					fld.Set(child)
					rec := newRecorder(0)
					var err error
					var pv any
					func() {
						defer func() { pv = recover() }()
						err = walk.CypherStructural(f.root, rec)
					}()
					switch {
					case pv != nil:
						h.deviate("optional-set-panic", "structural walk panicked (%v) with %s set to a new %s, fixture %s", pv, key, ft.Elem().Name(), f.name)
					case err != nil:
						h.hits["note:optional-set-rejected"]++
					case rec.entered[child.Pointer()] != 1:
						h.deviate("optional-set-dropped", "structural walk returned nil but entered the child %d times: %s set to a new %s (the parser left it nil), fixture %s", rec.entered[child.Pointer()], key, ft.Elem().Name(), f.name)
					}
					fld.Set(reflect.Zero(ft))
				}
			}
			for i := 0; i < st.NumField(); i++ {
				if st.Field(i).CanInterface() {
					visit(st.Field(i))
				}
			}
		case reflect.Slice:
			for i := 0; i < v.Len(); i++ {
				visit(v.Index(i))
			}
		case reflect.Map:
			for _, k := range v.MapKeys() {
				visit(v.MapIndex(k))
			}
		}
	}
	visit(reflect.ValueOf(f.root))
}

func TestVerifBoundedWalk(t *testing.T) {
	h := &harness{known: map[string]bool{}, hits: map[string]int{}, classCases: map[string]int{}, types: map[reflect.Type]bool{}, ifaceOut: map[string]int{}, ifaceSkipped: map[string]int{}}
	bound := os.Getenv("VERIF_BOUND")
	if bound == "" {
		bound = "1"
	}
	if n, err := strconv.Atoi(bound); err == nil && n >= 2 {
		h.thorough = true
	}
	h.stopCap, h.posCap = 40, 96
	if h.thorough {
		h.stopCap, h.posCap = 1<<30, 1<<30
	}
	for _, class := range strings.Split(os.Getenv("VERIF_KNOWN"), "|") {
		if class = strings.TrimSpace(class); class != "" {
			h.known[class] = true
		}
	}
	seed, _ := strconv.ParseInt(os.Getenv("VERIF_SEED"), 10, 64)

	var queries []string
	for _, fixture := range []string{test.PositiveTestCases, test.MutationTestCases} {
		for _, testCase := range test.LoadFixture(t, fixture).RunnableCases() {
			if testCase.Type == test.TypeStringMatch {
				if details, err := test.UnmarshallTestCaseDetails[test.StringMatchTest](testCase); err == nil {
					queries = append(queries, details.Query)
				}
			}
		}
	}
	fixtureQueries := len(queries)
	queries = append(queries, emptyCollectionQueries()...)
	fail := h.fail

	// the fixtures: parsed queries, then models built through the model API
	var fixtures []fixture
	var sqlRoots []fixture2
	sqlUnwalkable, sqlUntranslatable := 0, 0
	models := 0
	for i, q := range queries {
		model, err := frontend.ParseCypher(frontend.NewContext(), q)
		if err != nil {
			if i >= fixtureQueries {
				fail("harness error: %q does not parse: %v", q, err)
			}
			continue
		}
		if i < fixtureQueries {
			models++
		}
		fixtures = append(fixtures, fixture{name: strconv.Quote(q), root: model})
		// SQL model of the query, from a separate parse (the translator may rewrite its input)
		if again, err := frontend.ParseCypher(frontend.NewContext(), q); err == nil {
			if sqlRoot, err := translateSafely(again); err != nil {
				sqlUntranslatable++
			} else if _, err, pv := runLog(pgsqlWalker, sqlRoot, 0, nil); err != nil || pv != nil {
				sqlUnwalkable++
			} else {
				sqlRoots = append(sqlRoots, fixture2{name: "SQL translation of " + strconv.Quote(q), root: sqlRoot})
			}
		}
	}
	parsed := len(fixtures)
	fixtures = append(fixtures, builtFixtures()...)
	order := make([]int, len(fixtures))
	for i := range order {
		order[i] = i
	}
	if seed != 0 {
		rand.New(rand.NewSource(seed)).Shuffle(len(order), func(i, j int) { order[i], order[j] = order[j], order[i] })
	}

	optionalTried := map[string]bool{}
	for _, fi := range order {
		f := fixtures[fi]
		model, q := f.root, f.name
		h.optionalFieldsSet(f, optionalTried)
		// deep copy: equal and disjoint
		h.count("base")
		cp, pv := safeCopy(model)
		if pv != nil {
			fail("Copy panicked (%v) for %s", pv, q)
			continue
		}
		if !reflect.DeepEqual(cp, model) {
			fail("Copy is not structurally equal for %s", q)
		}
		a, b := map[uintptr]int{}, map[uintptr]int{}
		sa, sb := map[uintptr]bool{}, map[uintptr]bool{}
		reflectNodes(reflect.ValueOf(model), a, sa)
		reflectNodes(reflect.ValueOf(cp), b, sb)
		for p := range sa {
			if sb[p] {
				fail("Copy shares a pointer/slice/map with the original for %s", q)
				break
			}
		}
		// structural walk: every modelled node exactly once, nested
		h.count("base")
		rec := newRecorder(0)
		rec.types = h.types
		if err := walk.CypherStructural(model, rec); err != nil {
			fail("structural walk error %v for %s", err, q)
		}
		if len(rec.open) != 0 || len(rec.bad) > 0 {
			fail("structural walk not properly nested (%v) for %s", rec.bad, q)
		}
		for p, n := range a {
			if rec.entered[p] != n {
				fail("structural walk entered a node %d times, reflection finds it %d times, for %s", rec.entered[p], n, q)
				break
			}
		}
		for p := range rec.entered {
			if _, ok := a[p]; !ok {
				fail("structural walk entered a node reflection does not find for %s", q)
				break
			}
		}
		// semantic walk is a subset
		h.count("base")
		sem := newRecorder(0)
		sem.types = h.types
		if err := walk.Cypher(model, sem); err != nil {
			fail("semantic walk error %v for %s", err, q)
		}
		for p, n := range sem.entered {
			if rec.entered[p] < n {
				fail("semantic walk visits a node the structural walk does not, for %s", q)
				break
			}
		}
		if sem.maps > rec.maps || sem.kinds > rec.kinds || sem.lists > rec.lists || sem.mapItems > rec.mapItems {
			fail("semantic walk visits more map literals / kind lists / list literals / map items (%d/%d/%d/%d) than the structural walk (%d/%d/%d/%d), for %s",
				sem.maps, sem.kinds, sem.lists, sem.mapItems, rec.maps, rec.kinds, rec.lists, rec.mapItems, q)
		}
		if len(sem.open) != 0 || len(sem.bad) > 0 {
			fail("semantic walk not properly nested (%v) for %s", sem.bad, q)
		}
		// stop at every prefix
		for k := 1; k <= rec.enters && k <= h.stopCap; k++ {
			h.count("base")
			st := newRecorder(k)
			if err := walk.CypherStructural(model, st); err != nil {
				fail("stopped walk returned error %v for %s", err, q)
			}
			if st.after > 0 || st.enters != k {
				fail("visitor stopped at Enter %d still received %d notifications (%d enters) for %s", k, st.after, st.enters, q)
			}
		}
		// pointer types of the fixture (for the typed-nil class)
		for _, s := range collectSlots(model).refs {
			if st := s.typ(); st.Kind() == reflect.Pointer && st.Elem().PkgPath() == cypherPkgPath {
				h.types[st] = true
			} else if old := s.get(); st.Kind() == reflect.Interface && !old.IsNil() && old.Elem().Kind() == reflect.Pointer && old.Elem().Type().Elem().PkgPath() == cypherPkgPath {
				h.types[old.Elem().Type()] = true
			}
		}

		// class 1
		h.checkCopyAndWalk(q, model, true)
		h.emptiedVariants(f)
		// class 3
		handlerContract(h, structuralWalker, q, model)
		handlerContract(h, semanticWalker, q, model)
	}
	for _, sf := range sqlRoots {
		handlerContract(h, pgsqlWalker, sf.name, sf.root)
	}
	sqlHandBuilt(h)

	// class 2 (needs the types of all fixtures)
	types := make([]reflect.Type, 0, len(h.types))
	for t := range h.types {
		types = append(types, t)
	}
	sort.Slice(types, func(i, j int) bool { return types[i].String() < types[j].String() })
	h.typedNilRoots(types)
	for _, fi := range order {
		// the rotation of the extra type depends on the fixture only, not on the order of the visit
		rotate := fi * 7
		h.typedNilBranches(fixtures[fi], types, &rotate)
	}

	// nil entries in branch slices are reported
	h.count("base")
	withNil := &cypher.RegularQuery{SingleQuery: &cypher.SingleQuery{SinglePartQuery: &cypher.SinglePartQuery{ReadingClauses: []*cypher.ReadingClause{nil}}}}
	if err := walk.CypherStructural(withNil, newRecorder(0)); err == nil {
		fail("a nil reading clause in the branch list was skipped instead of reported")
	}
	if err := walk.CypherStructural(nil, newRecorder(0)); err == nil {
		fail("a nil root was accepted")
	}
	for _, w := range cypherWalkers {
		if l, err, pv := runLog(w, nil, 0, nil); pv != nil || err == nil || len(l.events) > 0 {
			h.deviate("typed_nil_root", "walk.%s on an untyped nil root: error %v, panic %v, %d notifications", w.name, err, pv, len(l.events))
		}
	}
	if l, err, pv := runLog(pgsqlWalker, nil, 0, nil); pv != nil || err == nil || len(l.events) > 0 {
		h.deviate("typed_nil_root", "walk.PgSQL on an untyped nil root: error %v, panic %v, %d notifications", err, pv, len(l.events))
	}

	failures := h.failures
	if failures == nil {
		failures = []string{}
	}
	caps := "every position"
	if !h.thorough {
		caps = fmt.Sprintf("stop positions up to %d, handler positions up to %d", h.stopCap, h.posCap)
	}
	res := map[string]any{"name": "walk",
		"bound": fmt.Sprintf("%d parsed fixture queries, %d parsed empty-collection queries, %d models built through the API, every slice/map location of each emptied 3 ways; typed nil of %d pointer types as root and at every pointer/interface location; handler contract (SetError(nil)/SetError/SetDone/Consume) for Cypher, CypherStructural and PgSQL (%d translated queries); hand-built SQL nodes (ArraySlice and CASE in value and pointer form with every combination of optional parts and 0..2 WHEN x 0..3 THEN, 10 other pointer/value nodes; as root and under a parenthetical): node identity and children; %s; VERIF_BOUND=%s",
			models, parsed-models, len(fixtures)-parsed, len(types), len(sqlRoots), caps, bound),
		"models": models, "cases": h.cases, "exhaustive": false, "failures": failures, "failure_count": h.nfail,
		"class_cases": h.classCases, "known_deviation_hits": h.hits,
		"typed_nil_types": len(types), "typed_nil_iface_field_outcomes": h.ifaceOut, "typed_nil_iface_fields_skipped": h.ifaceSkipped,
		"pgsql_models": len(sqlRoots), "pgsql_not_translated": sqlUntranslatable, "pgsql_not_walkable": sqlUnwalkable}
	out, _ := json.Marshal(res)
	fmt.Println("BOUNDED-RESULT " + string(out))
	if len(failures) > 0 {
		t.Fail()
	}
}

type fixture2 struct {
	name string
	root pgsql.SyntaxNode
}
