package neo4j_test

// Bounded stand-in for C10 (labelled bounded, never counted as proved): every criteria tree of depth <= 2 built
// with the public combinators And / Or / Xor / Not over three comparison atoms (and the kind matchers) is
// placed in a query, emitted as Cypher text, parsed back, and the operator tree of the re-parsed predicate is
// compared with the operator tree of the built model (grouping preserved, Parenthetical nodes ignored).
// Kind matchers must keep their all-of / any-of meaning; literals their type and value.

import (
	"encoding/json"
	"fmt"
	"os"
	"path/filepath"
	"regexp"
	"sort"
	"strings"
	"testing"

	"github.com/specterops/dawgs/cypher/frontend"
	"github.com/specterops/dawgs/cypher/models/cypher"
	"github.com/specterops/dawgs/cypher/models/cypher/format"
	queryNeo4j "github.com/specterops/dawgs/query/neo4j"
	"github.com/specterops/dawgs/graph"
	"github.com/specterops/dawgs/query"
)

// unquoteCypher decodes a quoted Cypher string token (backslash escapes of the openCypher grammar).
func unquoteCypher(tok string) string {
	body := tok[1 : len(tok)-1]
	var b strings.Builder
	for i := 0; i < len(body); i++ {
		if body[i] == '\\' && i+1 < len(body) {
			i++
			switch body[i] {
			case 'n':
				b.WriteByte('\n')
			case 't':
				b.WriteByte('\t')
			case 'r':
				b.WriteByte('\r')
			case 'b':
				b.WriteByte('\b')
			case 'f':
				b.WriteByte('\f')
			default:
				b.WriteByte(body[i])
			}
			continue
		}
		b.WriteByte(body[i])
	}
	return b.String()
}

// propertyKeys: EVERY keyword token of the grammar (read from Cypher.g4: the lexer rules spelled letter by letter) in
// lower case, upper case and capitalised, plus names that are not identifiers at all. The emitter decides per key
// whether it can be written bare; whatever it decides, the text has to parse again and carry the same key.
func propertyKeys() ([]string, error) {
	data, err := os.ReadFile(filepath.Join("..", "..", "cypher", "grammar", "Cypher.g4"))
	if err != nil {
		return nil, err
	}
	rule := regexp.MustCompile(`(?m)^([A-Z_]+) : ((?:\( '[^']' \| '[^']' \) ?)+);`)
	letter := regexp.MustCompile(`\( '([^'])' \|`)
	var out []string
	seen := map[string]bool{}
	for _, m := range rule.FindAllStringSubmatch(string(data), -1) {
		word := ""
		for _, l := range letter.FindAllStringSubmatch(m[2], -1) {
			word += l[1]
		}
		if len(word) < 2 || seen[word] {
			continue
		}
		seen[word] = true
		out = append(out, strings.ToLower(word), strings.ToUpper(word), strings.ToUpper(word[:1])+strings.ToLower(word[1:]))
	}
	if len(out) < 150 {
		return nil, fmt.Errorf("only %d keyword spellings found in the grammar", len(out))
	}
	return append(out, "name", "a b", "1a", "é", "a`b", "`a`", "a.b", "a-b", "$a", "a'b", "_", "a1_"), nil
}

// shape renders the operator tree of an expression, dropping parentheses and flattening nothing.
func shape(e cypher.Expression) string {
	switch t := e.(type) {
	case *cypher.Parenthetical:
		return shape(t.Expression)
	case *cypher.Conjunction:
		return nary("and", t.Expressions)
	case *cypher.Disjunction:
		return nary("or", t.Expressions)
	case *cypher.ExclusiveDisjunction:
		return nary("xor", t.Expressions)
	case *cypher.Negation:
		return "not(" + shape(t.Expression) + ")"
	case *cypher.Comparison:
		s := shape(t.Left)
		for _, p := range t.Partials {
			s += " " + p.Operator.String() + " " + shape(p.Right)
		}
		return "cmp[" + s + "]"
	case *cypher.PropertyLookup:
		return "prop(" + shape(t.Atom) + "." + t.Symbol + ")"
	case *cypher.Variable:
		return "var(" + t.Symbol + ")"
	case *cypher.Literal:
		return fmt.Sprintf("lit(%T:%v)", t.Value, t.Value)
	case cypher.MapLiteral:
		keys := make([]string, 0, len(t))
		for k := range t {
			keys = append(keys, k)
		}
		sort.Strings(keys)
		out := "map{"
		for _, k := range keys {
			out += fmt.Sprintf("%q: %s, ", k, shape(t[k]))
		}
		return out + "}"
	case *cypher.Parameter:
		return "value"
	case *cypher.KindMatcher:
		var ks []string
		for _, k := range t.Kinds {
			ks = append(ks, k.String())
		}
		if t.IsExclusive || len(t.Kinds) <= 1 {
			return "kinds(all:" + shape(t.Reference) + ":" + strings.Join(ks, ",") + ")"
		}
		// any-of over several kinds means the same as a disjunction of single-kind tests
		var parts []string
		for _, k := range ks {
			parts = append(parts, "kinds(all:"+shape(t.Reference)+":"+k+")")
		}
		return "or(" + strings.Join(parts, ",") + ")"
	case nil:
		return "nil"
	}
	return fmt.Sprintf("%T", e)
}

// and / or / xor are associative: nested applications of the same operator are flattened before comparing
func operands(op string, e cypher.Expression) []cypher.Expression {
	switch t := e.(type) {
	case *cypher.Parenthetical:
		return operands(op, t.Expression)
	case *cypher.Conjunction:
		if op == "and" {
			return flatten(op, t.Expressions)
		}
	case *cypher.Disjunction:
		if op == "or" {
			return flatten(op, t.Expressions)
		}
	case *cypher.ExclusiveDisjunction:
		if op == "xor" {
			return flatten(op, t.Expressions)
		}
	}
	return []cypher.Expression{e}
}

func flatten(op string, es []cypher.Expression) []cypher.Expression {
	var out []cypher.Expression
	for _, e := range es {
		out = append(out, operands(op, e)...)
	}
	return out
}

func nary(op string, es []cypher.Expression) string {
	es = flatten(op, es)
	if len(es) == 1 {
		return shape(es[0])
	}
	var parts []string
	for _, e := range es {
		parts = append(parts, shape(e))
	}
	return op + "(" + strings.Join(parts, ",") + ")"
}

func TestVerifBoundedBuilder(t *testing.T) {
	atoms := func() []graph.Criteria {
		return []graph.Criteria{
			query.Equals(query.NodeProperty("a"), 1),
			query.Equals(query.NodeProperty("b"), "x"),
			query.Equals(query.NodeProperty("c"), true),
		}
	}
	type mk func() graph.Criteria
	var level0 []mk
	for i := range atoms() {
		i := i
		level0 = append(level0, func() graph.Criteria { return atoms()[i] })
	}
	level0 = append(level0,
		func() graph.Criteria { return query.Kind(query.Node(), graph.StringKind("A")) },
		func() graph.Criteria { return query.KindIn(query.Node(), graph.StringKind("A"), graph.StringKind("B")) },
		func() graph.Criteria {
			return cypher.NewKindMatcher(query.Node(), graph.Kinds{graph.StringKind("A"), graph.StringKind("B")}, true)
		},
	)
	combine := func(in []mk) []mk {
		var out []mk
		for _, a := range in {
			a := a
			out = append(out, func() graph.Criteria { return query.Not(a()) })
			for _, b := range in {
				b := b
				out = append(out,
					func() graph.Criteria { return query.And(a(), b()) },
					func() graph.Criteria { return query.Or(a(), b()) },
					func() graph.Criteria { return query.Xor(a(), b()) },
				)
			}
		}
		return out
	}
	level1 := combine(level0[:4])
	var level2 []mk
	// second level: combine every level-1 tree with an atom on either side
	for _, a := range level1 {
		a := a
		for _, b := range level0[:2] {
			b := b
			level2 = append(level2,
				func() graph.Criteria { return query.And(a(), b()) },
				func() graph.Criteria { return query.And(b(), a()) },
				func() graph.Criteria { return query.Or(a(), b()) },
				func() graph.Criteria { return query.Xor(a(), b()) },
				func() graph.Criteria { return query.Xor(b(), a()) },
				func() graph.Criteria { return query.Not(query.And(a(), b())) },
			)
		}
	}
	all := append(append(append([]mk{}, level0...), level1...), level2...)
	var failures []string
	fail := func(format string, args ...any) {
		if len(failures) < 6 {
			failures = append(failures, fmt.Sprintf(format, args...))
		}
	}
	cases := 0
	for _, make := range all {
		cases++
		criteria := make()
		builder := query.NewBuilderWithCriteria(query.Where(criteria), query.Returning(query.Node()))
		model, err := builder.Build(false)
		if err != nil {
			fail("build failed: %v", err)
			continue
		}
		// what the PostgreSQL backend is asked: the model itself
		want := shape(model.SingleQuery.SinglePartQuery.ReadingClauses[0].Match.Where.Expressions[0])
		// what the Neo4j backend is asked: the text rendered by the neo4j query builder from the same criteria
		nb := queryNeo4j.NewEmptyQueryBuilder()
		nb.Apply(query.Where(make()))
		nb.Apply(query.Returning(query.Node()))
		if err := nb.Prepare(); err != nil {
			fail("neo4j prepare failed: %v", err)
			continue
		}
		text, err := nb.Render()
		if err != nil {
			fail("emit failed: %v", err)
			continue
		}
		parsed, err := frontend.ParseCypher(frontend.NewContext(), text)
		if err != nil {
			fail("emitted text does not parse: %q: %v", text, err)
			continue
		}
		where := parsed.SingleQuery.SinglePartQuery.ReadingClauses[0].Match.Where
		if where == nil || len(where.Expressions) != 1 {
			fail("re-parsed query has no single where expression: %q", text)
			continue
		}
		if got := shape(where.Expressions[0]); got != want {
			fail("emitted text %q parses as %s, the model is %s", text, got, want)
		}
	}
	// ---- literals keep their type and value through emit -> parse ----
	literalValues := []any{0, 1, -1, int64(1) << 40, 1.0, 2.0, 1000.0, -3.0, 0.5, 1.25e-7, 1e21, float32(2), "", "x", "it's", "a\\b", "say \"hi\"", true, false}
	findLiteral := func(q *cypher.RegularQuery) (any, bool) {
		where := q.SingleQuery.SinglePartQuery.ReadingClauses[0].Match.Where
		if where == nil || len(where.Expressions) != 1 {
			return nil, false
		}
		e := where.Expressions[0]
		for {
			if p, ok := e.(*cypher.Parenthetical); ok {
				e = p.Expression
				continue
			}
			break
		}
		cmp, ok := e.(*cypher.Comparison)
		if !ok || len(cmp.Partials) != 1 {
			return nil, false
		}
		right := cmp.Partials[0].Right
		neg := false
		if u, ok := right.(*cypher.UnaryAddOrSubtractExpression); ok {
			neg = u.Operator == cypher.OperatorSubtract
			right = u.Right
		}
		if a, ok := right.(*cypher.ArithmeticExpression); ok && len(a.Partials) == 0 {
			right = a.Left
		}
		lit, ok := right.(*cypher.Literal)
		if !ok {
			return nil, false
		}
		v := lit.Value
		if neg {
			switch n := v.(type) {
			case int64:
				v = -n
			case float64:
				v = -n
			}
		}
		return v, true
	}
	for _, v := range literalValues {
		cases++
		var operand graph.Criteria = query.Literal(v)
		if str, isString := v.(string); isString {
			operand = cypher.NewStringLiteral(str)
		}
		model, err := query.NewBuilderWithCriteria(query.Where(cypher.NewComparison(query.NodeProperty("p"), cypher.OperatorEquals, operand)), query.Returning(query.Node())).Build(false)
		if err != nil {
			fail("build failed for literal %#v: %v", v, err)
			continue
		}
		text, err := format.RegularQuery(model, false)
		if err != nil {
			fail("emit failed for literal %#v: %v", v, err)
			continue
		}
		parsed, err := frontend.ParseCypher(frontend.NewContext(), text)
		if err != nil {
			fail("literal %#v is emitted as text that does not parse: %q: %v", v, text, err)
			continue
		}
		got, ok := findLiteral(parsed)
		if !ok {
			fail("literal %#v: no literal in the re-parsed %q", v, text)
			continue
		}
		var want any
		switch n := v.(type) {
		case int:
			want = int64(n)
		case int64:
			want = n
		case float32:
			want = float64(n)
		case float64:
			want = n
		case string:
			want = "'" + n + "'"
			if s, isString := got.(string); isString && len(s) >= 2 {
				// the parser keeps the quoted token; compare the decoded content
				got = s
				want = s[:1] + n + s[len(s)-1:]
				if unq := unquoteCypher(s); unq != n {
					fail("string literal %q is emitted as %q, which denotes %q", n, text, unq)
				}
				continue
			}
		default:
			want = v
		}
		if fmt.Sprintf("%T", got) != fmt.Sprintf("%T", want) || got != want {
			fail("literal %#v (%T) is emitted as %q, which denotes %#v (%T)", v, v, text, got, got)
		}
	}
	// ---- property keys keep their name through emit -> parse, in every position a key can be built into ----
	keys, kerr := propertyKeys()
	if kerr != nil {
		fail("harness cannot read the keyword tokens of the grammar: %v", kerr)
	}
	for _, key := range keys {
		type position struct {
			name  string
			build func() (*cypher.RegularQuery, error)
			// pick the expressions that carry the key out of a query
			pick func(q *cypher.RegularQuery) []cypher.Expression
		}
		wherePick := func(q *cypher.RegularQuery) []cypher.Expression {
			part := q.SingleQuery.SinglePartQuery
			var out []cypher.Expression
			if len(part.ReadingClauses) > 0 && part.ReadingClauses[0].Match.Where != nil {
				out = append(out, part.ReadingClauses[0].Match.Where.Expressions...)
			}
			if part.Return != nil {
				for _, item := range part.Return.Projection.Items {
					if pi, ok := item.(*cypher.ProjectionItem); ok {
						out = append(out, pi.Expression)
					}
				}
			}
			for _, uc := range part.UpdatingClauses {
				if u, ok := uc.(*cypher.UpdatingClause); ok {
					switch c := u.Clause.(type) {
					case *cypher.Set:
						for _, it := range c.Items {
							out = append(out, it.Left)
						}
					case *cypher.Remove:
						for _, it := range c.Items {
							out = append(out, it.Property)
						}
					}
				}
			}
			return out
		}
		positions := []position{
			{"lookup in a predicate and in the projection", func() (*cypher.RegularQuery, error) {
				return query.NewBuilderWithCriteria(query.Where(cypher.NewComparison(query.NodeProperty(key), cypher.OperatorEquals, query.Literal(int64(1)))), query.Returning(query.NodeProperty(key))).Build(false)
			}, wherePick},
			{"map literal key", func() (*cypher.RegularQuery, error) {
				return query.NewBuilderWithCriteria(query.Where(cypher.NewComparison(query.NodeProperty("p"), cypher.OperatorEquals, cypher.MapLiteral{key: query.Literal(int64(1)), "z": query.Literal(int64(2))})), query.Returning(query.Node())).Build(false)
			}, wherePick},
			{"set and remove", func() (*cypher.RegularQuery, error) {
				set := cypher.NewUpdatingClause(&cypher.Set{Items: []*cypher.SetItem{{Left: query.NodeProperty(key), Operator: cypher.OperatorAssignment, Right: query.Literal(int64(1))}}})
				return query.NewBuilderWithCriteria(query.Where(cypher.NewComparison(query.NodeProperty("p"), cypher.OperatorEquals, query.Literal(int64(1)))), query.Update(set, query.DeleteProperties(query.Node(), key)), query.Returning(query.Node())).Build(false)
			}, wherePick},
		}
		for _, pos := range positions {
			cases++
			model, err := pos.build()
			if err != nil {
				continue // a key the builder refuses is not emitted at all
			}
			text, err := format.RegularQuery(model, false)
			if err != nil {
				continue // refused by the emitter: allowed
			}
			parsed, err := frontend.ParseCypher(frontend.NewContext(), text)
			if err != nil {
				fail("property key %q, %s: the emitted text does not parse: %q: %v", key, pos.name, text, err)
				continue
			}
			want, got := pos.pick(model), pos.pick(parsed)
			if len(want) == 0 {
				fail("harness: property key %q, %s: nothing picked from the model", key, pos.name)
				continue
			}
			if len(want) != len(got) {
				fail("property key %q, %s: the emitted text %q parses to %d key-carrying expressions, the model has %d", key, pos.name, text, len(got), len(want))
				continue
			}
			for i := range want {
				if shape(want[i]) != shape(got[i]) {
					fail("property key %q, %s: the emitted text %q parses as %s, the model is %s", key, pos.name, text, shape(got[i]), shape(want[i]))
					break
				}
			}
		}
		// the neo4j builder path: what the Neo4j backend is sent
		cases++
		nb := queryNeo4j.NewEmptyQueryBuilder()
		nb.Apply(query.Where(query.Equals(query.NodeProperty(key), 1)))
		nb.Apply(query.Returning(query.NodeProperty(key)))
		if err := nb.Prepare(); err == nil {
			if text, err := nb.Render(); err == nil {
				if parsed, err := frontend.ParseCypher(frontend.NewContext(), text); err != nil {
					fail("property key %q, neo4j builder: the rendered text does not parse: %q: %v", key, text, err)
				} else {
					want := "prop(var(n)." + key + ")"
					for _, e := range wherePick(parsed) {
						if s := shape(e); !strings.Contains(s, want) {
							fail("property key %q, neo4j builder: the rendered text %q parses as %s, which does not read that key", key, text, s)
							break
						}
					}
				}
			}
		}
	}
	res := map[string]any{"name": "builder", "bound": fmt.Sprintf("%d criteria trees of depth <= 2 over And/Or/Xor/Not, 3 comparisons and 3 kind matchers; %d literal values through emit/parse; %d property keys (every keyword token of the grammar in three spellings + %d odd names) in lookup, map-literal, SET/REMOVE position and through the neo4j builder", len(all), len(literalValues), len(keys), 12), "cases": cases, "exhaustive": true, "failures": failures}
	out, _ := json.Marshal(res)
	fmt.Println("BOUNDED-RESULT " + string(out))
	if len(failures) > 0 {
		t.Fail()
	}
}
