package retriever

// Bounded stand-in for C20 (labelled bounded, never counted as proved): hostile input to Load / UnpackTar /
// Unpack / UnpackEncryptedCollectionArchive, run in-package against the REAL code through go test -overlay.
//
// WHAT IS ENUMERATED (VERIF_BOUND "1" = quick, "2" = thorough; VERIF_SEED only permutes execution order)
//   A. LOAD. One tiny dump per codec, written with the real writers (writeCompressedJSONLines + writeManifest):
//      per graph 3 nodes in two node fragments, 2 edges in one edge fragment. Bound 1: one graph, codecs none
//      and gzip. Bound 2: two graphs, codecs none, gzip and zstd, more masks.
//        A1 every fragment file: EVERY single-byte substitution (xor masks 0x01,0x20,0xFF; bound 2 also 0x80,0x04),
//           EVERY truncation length, appended garbage (several lengths and byte patterns, the file doubled),
//           the file replaced by another valid fragment (same record count, other record order / other fragment),
//           the file deleted.
//        A2 manifest.json: EVERY single-byte substitution (same masks), EVERY truncation length, appended bytes.
//        A3 manifest field edits (re-encoded manifests): counts (consistent and inconsistent totals), sha256,
//           compressed_bytes, path swaps, phase changes, codec / format / id_strategy changes, count 0 with
//           consistent totals, duplicated / dropped / reordered file entries, entries substituted by other entries.
//      Every case is a retriever.Load on a working copy with a fake graph.Database that logs every mutating call.
//   B. TAR. A table of hostile tar streams built by a raw USTAR/PAX/GNU block writer in this file (not
//      archive/tar.Writer, so that names, sizes and type flags are unconstrained), each alone, after and before
//      the entries of a valid collection, fed to UnpackTar (force=false into a missing directory, force=true into
//      a populated one), to Unpack (encrypted with the real NewEncryptedArchiveWriter, populated destination,
//      Force) and to the stream entry point UnpackEncryptedCollectionArchive.
//   C. ENCRYPTED ARCHIVE of the tiny dump (real WriteEncryptedCollectionArchive, fresh ML-KEM key pair): EVERY
//      single-byte substitution (masks as above), EVERY truncation length, appended garbage of 1..16 bytes, frame
//      swaps / duplications / drops / cross-archive splices, header re-encodings, wrong / foreign-KEM / nil private
//      keys and EVERY single-byte substitution and truncation of the private key envelope; each through Unpack
//      (Force, populated destination) and (truncations, frame operations, keys, one mask) through Unpack into a
//      missing destination and through Load(ArchiveReader).
//
// ORACLE (from the property statement, not from the code)
//   A1/A3 (strict): Load returns an error AND the fake database saw zero mutating calls.
//   A2 and the A3 edits marked lenient (fields nothing can vouch for, entry order): Load returns an error with zero
//      mutating calls, OR it succeeds and the multiset of written entities is identical to the one of the
//      unmodified dump (counted as "benign", broken down by manifest key in the result).
//   B: (a) a snapshot (lstat type, size, content hash, mtime, link target) of everything under the scratch root
//      except the requested output directory is identical before and after, whatever the result; (b) every stream
//      that contains an entry that is not a plain regular file with a safe relative name (or a size that disagrees
//      with the data, or two entries naming the same file) makes the call fail; for Unpack the populated
//      destination is byte-for-byte unchanged after a failure and its parent holds no staging leftovers.
//   C: the call fails, the destination tree is exactly as before (or still missing), the parent directory listing is
//      unchanged, Load(ArchiveReader) performs zero mutating calls and leaves nothing in $TMPDIR.
//   The unmodified inputs are checked to load / unpack successfully with the expected content (oracle not vacuous).
//   The stream entry points (UnpackTar, UnpackEncryptedCollectionArchive) extract in place: files left behind after a
//   failure are not failures here, they are listed under "partial_output_after_failure".

import (
	"bytes"
	"context"
	"crypto/ecdh"
	"crypto/hpke"
	"crypto/sha256"
	"encoding/json"
	"errors"
	"fmt"
	"io"
	"log/slog"
	"math/rand"
	"os"
	"path/filepath"
	"runtime"
	"sort"
	"strconv"
	"strings"
	"sync"
	"testing"
	"time"

	"github.com/specterops/dawgs/graph"
)

// knownDeviations: inputs for which the UNCHANGED tree violates the property (see the final report). A case whose
// description starts with one of these prefixes is still executed; a violation is then listed under
// "known_deviations_observed" instead of "failures". Every other input is checked normally.
var vhKnownDeviations = vhKnownFromEnv()

// vhKnownFromEnv: the deviation patterns come from /verif/known_findings.json through VERIF_KNOWN ("|"-separated
// substrings of case descriptions); nothing is suppressed that the committed findings file does not list.
func vhKnownFromEnv() []string {
	var out []string
	for _, p := range strings.Split(os.Getenv("VERIF_KNOWN"), "|") {
		if p = strings.TrimSpace(p); p != "" {
			out = append(out, p)
		}
	}
	return out
}

func vhIsKnownDeviation(desc string) bool {
	for _, p := range vhKnownDeviations {
		if strings.Contains(desc, p) {
			return true
		}
	}
	return false
}

// ---------------------------------------------------------------------------------------------------------------
// generic helpers

// vhGuard runs fn with recover and a timeout; abnormal is non-empty on panic or timeout.
func vhGuard(timeout time.Duration, fn func() error) (err error, abnormal string) {
	done := make(chan struct{})
	var rerr error
	var pan string
	go func() {
		defer close(done)
		defer func() {
			if r := recover(); r != nil {
				pan = fmt.Sprintf("panic: %v", r)
			}
		}()
		rerr = fn()
	}()
	timer := time.NewTimer(timeout)
	defer timer.Stop()
	select {
	case <-done:
		return rerr, pan
	case <-timer.C:
		return nil, "timeout after " + timeout.String()
	}
}

// vhParallel runs run(state, i) for every i in [0,n) on a pool of workers, in an order permuted by seed.
func vhParallel[S any](n int, seed int64, newState func(worker int) S, run func(st S, i int)) {
	order := make([]int, n)
	for i := range order {
		order[i] = i
	}
	if seed != 0 {
		rand.New(rand.NewSource(seed)).Shuffle(n, func(i, j int) { order[i], order[j] = order[j], order[i] })
	}
	workers := runtime.NumCPU()
	if workers > 16 {
		workers = 16
	}
	if workers < 1 {
		workers = 1
	}
	jobs := make(chan int, 256)
	var wg sync.WaitGroup
	for w := 0; w < workers; w++ {
		wg.Add(1)
		go func(w int) {
			defer wg.Done()
			st := newState(w)
			for i := range jobs {
				run(st, i)
			}
		}(w)
	}
	for _, i := range order {
		jobs <- i
	}
	close(jobs)
	wg.Wait()
}

// vhSnapshot describes every path under root (lstat, never following links), skipping the subtree skip.
func vhSnapshot(root, skip string) map[string]string {
	out := map[string]string{}
	_ = filepath.Walk(root, func(p string, info os.FileInfo, err error) error {
		rel, _ := filepath.Rel(root, p)
		if err != nil {
			out[rel] = "ERR"
			return nil
		}
		if skip != "" && p == skip {
			if info.IsDir() {
				return filepath.SkipDir
			}
			return nil
		}
		switch {
		case info.Mode()&os.ModeSymlink != 0:
			target, _ := os.Readlink(p)
			out[rel] = "symlink->" + target
		case info.IsDir():
			out[rel] = "dir"
		case info.Mode().IsRegular():
			b, _ := os.ReadFile(p)
			sum := sha256.Sum256(b)
			out[rel] = fmt.Sprintf("file:%d:%x:%d", len(b), sum[:8], info.ModTime().UnixNano())
		default:
			out[rel] = "special:" + info.Mode().String()
		}
		return nil
	})
	return out
}

func vhSnapshotDiff(before, after map[string]string) string {
	var diffs []string
	for k, v := range before {
		if w, ok := after[k]; !ok {
			diffs = append(diffs, "removed "+k)
		} else if w != v {
			diffs = append(diffs, "changed "+k+" ("+v+" -> "+w+")")
		}
	}
	for k, v := range after {
		if _, ok := before[k]; !ok {
			diffs = append(diffs, "created "+k+" ("+v+")")
		}
	}
	sort.Strings(diffs)
	if len(diffs) > 4 {
		diffs = append(diffs[:4], fmt.Sprintf("... %d more", len(diffs)-4))
	}
	return strings.Join(diffs, "; ")
}

// vhListTree lists regular files (and anything else, tagged) below dir, relative, sorted.
func vhListTree(dir string) []string {
	var out []string
	_ = filepath.Walk(dir, func(p string, info os.FileInfo, err error) error {
		if err != nil || p == dir {
			return nil
		}
		rel, _ := filepath.Rel(dir, p)
		switch {
		case info.Mode().IsRegular():
			out = append(out, rel)
		case info.IsDir():
		default:
			out = append(out, rel+"["+info.Mode().String()+"]")
		}
		return nil
	})
	sort.Strings(out)
	return out
}

func vhWriteTree(root string, files map[string][]byte) error {
	for rel, content := range files {
		p := filepath.Join(root, filepath.FromSlash(rel))
		if err := os.MkdirAll(filepath.Dir(p), 0o755); err != nil {
			return err
		}
		if err := os.WriteFile(p, content, 0o600); err != nil {
			return err
		}
	}
	return nil
}

func vhShort(s string, n int) string {
	if len(s) <= n {
		return s
	}
	return s[:n] + "..."
}

// ---------------------------------------------------------------------------------------------------------------
// fake graph.Database: logs every mutating call

type vhDB struct {
	graph.Database
	mu            sync.Mutex
	writes        []string
	nodes         map[graph.ID]string
	next          graph.ID
	graphNodes    map[string]int64
	graphEdges    map[string]int64
	schemaAsserts int
}

func vhNewDB() *vhDB {
	return &vhDB{nodes: map[graph.ID]string{}, next: 1000, graphNodes: map[string]int64{}, graphEdges: map[string]int64{}}
}

func (s *vhDB) logWrite(w string) {
	s.mu.Lock()
	s.writes = append(s.writes, w)
	s.mu.Unlock()
}

func (s *vhDB) snapshotWrites() []string {
	s.mu.Lock()
	defer s.mu.Unlock()
	return append([]string(nil), s.writes...)
}

func (s *vhDB) SetWriteFlushSize(int) {}
func (s *vhDB) SetBatchWriteSize(int) {}
func (s *vhDB) ReadTransaction(ctx context.Context, delegate graph.TransactionDelegate, _ ...graph.TransactionOption) error {
	if err := ctx.Err(); err != nil {
		return err
	}
	return delegate(&vhTx{db: s})
}
func (s *vhDB) WriteTransaction(context.Context, graph.TransactionDelegate, ...graph.TransactionOption) error {
	s.logWrite("WriteTransaction")
	return errors.New("vh: WriteTransaction is not expected from Load")
}
func (s *vhDB) BatchOperation(ctx context.Context, delegate graph.BatchDelegate, _ ...graph.BatchOption) error {
	if err := ctx.Err(); err != nil {
		return err
	}
	return delegate(&vhBatch{db: s})
}
func (s *vhDB) AssertSchema(context.Context, graph.Schema) error {
	s.mu.Lock()
	s.schemaAsserts++
	s.mu.Unlock()
	return nil
}
func (s *vhDB) SetDefaultGraph(context.Context, graph.Graph) error { return nil }
func (s *vhDB) Run(_ context.Context, query string, _ map[string]any) error {
	s.logWrite("Run:" + query)
	return nil
}
func (s *vhDB) Close(context.Context) error                     { return nil }
func (s *vhDB) FetchKinds(context.Context) (graph.Kinds, error) { return nil, nil }
func (s *vhDB) RefreshKinds(context.Context) error              { return nil }
func (s *vhDB) OptimizeStorage(context.Context) error           { return nil }

type vhTx struct {
	graph.Transaction
	db    *vhDB
	graph string
}

func (s *vhTx) WithGraph(g graph.Graph) graph.Transaction { s.graph = g.Name; return s }
func (s *vhTx) Nodes() graph.NodeQuery                    { return &vhNodeQuery{db: s.db, graph: s.graph} }
func (s *vhTx) Relationships() graph.RelationshipQuery {
	return &vhRelQuery{db: s.db, graph: s.graph}
}

type vhNodeQuery struct {
	graph.NodeQuery
	db    *vhDB
	graph string
	batch bool
}

func (s *vhNodeQuery) Count() (int64, error) {
	s.db.mu.Lock()
	defer s.db.mu.Unlock()
	return s.db.graphNodes[s.graph], nil
}
func (s *vhNodeQuery) Delete() error                  { s.db.logWrite("Nodes().Delete"); return nil }
func (s *vhNodeQuery) Update(*graph.Properties) error { s.db.logWrite("Nodes().Update"); return nil }

type vhRelQuery struct {
	graph.RelationshipQuery
	db    *vhDB
	graph string
}

func (s *vhRelQuery) Count() (int64, error) {
	s.db.mu.Lock()
	defer s.db.mu.Unlock()
	return s.db.graphEdges[s.graph], nil
}
func (s *vhRelQuery) Delete() error { s.db.logWrite("Relationships().Delete"); return nil }
func (s *vhRelQuery) Update(*graph.Properties) error {
	s.db.logWrite("Relationships().Update")
	return nil
}

type vhBatch struct {
	db    *vhDB
	graph string
}

func vhProps(p *graph.Properties) string {
	if p == nil || len(p.Map) == 0 {
		return "{}"
	}
	b, _ := json.Marshal(p.Map)
	return string(b)
}

func (s *vhBatch) WithGraph(g graph.Graph) graph.Batch { s.graph = g.Name; return s }
func (s *vhBatch) createNode(node *graph.Node) graph.ID {
	s.db.mu.Lock()
	defer s.db.mu.Unlock()
	id := s.db.next
	s.db.next++
	canon := "(" + strings.Join(node.Kinds.Strings(), ":") + " " + vhProps(node.Properties) + ")"
	s.db.nodes[id] = canon
	s.db.graphNodes[s.graph]++
	s.db.writes = append(s.db.writes, "N|"+s.graph+"|"+canon)
	return id
}
func (s *vhBatch) CreateNodes(nodes []*graph.Node) ([]graph.ID, error) {
	ids := make([]graph.ID, 0, len(nodes))
	for _, n := range nodes {
		ids = append(ids, s.createNode(n))
	}
	return ids, nil
}
func (s *vhBatch) CreateNode(node *graph.Node) error { s.createNode(node); return nil }
func (s *vhBatch) DeleteNode(graph.ID) error         { s.db.logWrite("DeleteNode"); return nil }
func (s *vhBatch) Nodes() graph.NodeQuery {
	s.db.logWrite("Batch.Nodes()")
	return &vhNodeQuery{db: s.db, graph: s.graph, batch: true}
}
func (s *vhBatch) Relationships() graph.RelationshipQuery {
	s.db.logWrite("Batch.Relationships()")
	return &vhRelQuery{db: s.db, graph: s.graph}
}
func (s *vhBatch) UpdateNodeBy(graph.NodeUpdate) error { s.db.logWrite("UpdateNodeBy"); return nil }
func (s *vhBatch) UpdateNodes([]*graph.Node) error     { s.db.logWrite("UpdateNodes"); return nil }
func (s *vhBatch) CreateRelationship(r *graph.Relationship) error {
	return s.CreateRelationshipByIDs(r.StartID, r.EndID, r.Kind, r.Properties)
}
func (s *vhBatch) CreateRelationshipByIDs(start, end graph.ID, kind graph.Kind, properties *graph.Properties) error {
	s.db.mu.Lock()
	defer s.db.mu.Unlock()
	a, okA := s.db.nodes[start]
	b, okB := s.db.nodes[end]
	if !okA {
		a = fmt.Sprintf("(unknown id %d)", start)
	}
	if !okB {
		b = fmt.Sprintf("(unknown id %d)", end)
	}
	kindName := ""
	if kind != nil {
		kindName = kind.String()
	}
	s.db.graphEdges[s.graph]++
	s.db.writes = append(s.db.writes, "E|"+s.graph+"|"+a+"-["+kindName+" "+vhProps(properties)+"]->"+b)
	return nil
}
func (s *vhBatch) DeleteRelationship(graph.ID) error { s.db.logWrite("DeleteRelationship"); return nil }
func (s *vhBatch) UpdateRelationshipBy(graph.RelationshipUpdate) error {
	s.db.logWrite("UpdateRelationshipBy")
	return nil
}
func (s *vhBatch) Commit() error { return nil }

func vhWriteSignature(writes []string) string {
	sorted := append([]string(nil), writes...)
	sort.Strings(sorted)
	return strings.Join(sorted, "\n")
}

// ---------------------------------------------------------------------------------------------------------------
// result collection (deterministic whatever the execution order: notes are sorted by case key)

type vhNote struct {
	key  int64
	text string
}

// vhPartial: a failing input after which a stream entry point left files in the directory it was given.
type vhPartial struct {
	key        int64
	entryPoint string
	input      string
	left       string
}

type vhReport struct {
	mu          sync.Mutex
	cases       int
	sections    map[string]int
	failures    []vhNote
	known       []vhNote
	partial     []vhPartial
	benign      int
	benignByKey map[string]int
}

func (r *vhReport) count(section string, n int) {
	r.mu.Lock()
	r.cases += n
	r.sections[section] += n
	r.mu.Unlock()
}

func (r *vhReport) fail(key int64, desc string, format string, args ...any) {
	text := desc + ": " + fmt.Sprintf(format, args...)
	r.mu.Lock()
	if vhIsKnownDeviation(desc) {
		r.known = append(r.known, vhNote{key, text})
	} else {
		r.failures = append(r.failures, vhNote{key, text})
	}
	r.mu.Unlock()
}

func (r *vhReport) notePartial(key int64, entryPoint, input string, left []string) {
	r.mu.Lock()
	r.partial = append(r.partial, vhPartial{key, entryPoint, input, vhShort(strings.Join(left, " "), 160)})
	r.mu.Unlock()
}

// partialGroups groups the recorded inputs by entry point and by what was left behind (deterministic order).
func (r *vhReport) partialGroups() []map[string]any {
	sort.Slice(r.partial, func(i, j int) bool {
		if r.partial[i].key != r.partial[j].key {
			return r.partial[i].key < r.partial[j].key
		}
		return r.partial[i].input < r.partial[j].input
	})
	index := map[string]int{}
	groups := []map[string]any{}
	for _, p := range r.partial {
		id := p.entryPoint + "\x00" + p.left
		at, ok := index[id]
		if !ok {
			at = len(groups)
			index[id] = at
			groups = append(groups, map[string]any{"entry_point": p.entryPoint, "left_in_output_dir": p.left, "inputs": []string{}})
		}
		groups[at]["inputs"] = append(groups[at]["inputs"].([]string), p.input)
	}
	return groups
}

func (r *vhReport) noteBenign(manifestKey string) {
	r.mu.Lock()
	r.benign++
	r.benignByKey[manifestKey]++
	r.mu.Unlock()
}

func vhSortedNotes(notes []vhNote, limit int) []string {
	sort.Slice(notes, func(i, j int) bool {
		if notes[i].key != notes[j].key {
			return notes[i].key < notes[j].key
		}
		return notes[i].text < notes[j].text
	})
	out := []string{}
	for _, n := range notes {
		if limit > 0 && len(out) >= limit {
			break
		}
		out = append(out, n.text)
	}
	return out
}

// ---------------------------------------------------------------------------------------------------------------
// A. the tiny dump

type vhFrag struct {
	graphIndex int
	fileIndex  int
	phase      Phase
	path       string
	count      int
	orig       []byte
	alt        []byte // a valid fragment of the same codec, phase and record count with other content
}

type vhDump struct {
	codec    CompressionCodec
	manifest Manifest
	files    map[string][]byte // manifest.json and every fragment, slash-separated relative paths
	frags    []vhFrag
}

func vhReverse[T any](in []T) []T {
	out := make([]T, len(in))
	for i, v := range in {
		out[len(in)-1-i] = v
	}
	return out
}

func vhBuildDump(dir, scratch string, codec CompressionCodec, graphs int) (*vhDump, error) {
	ext, err := compressionExtension(codec)
	if err != nil {
		return nil, err
	}
	m := newManifest("pg", codec, DefaultZstdLevel, ScrubMetadata{Mode: ScrubNone, NodeActionCounts: map[string]int{}, EdgeActionCounts: map[string]int{}}, graphs)
	m.GeneratedAt = time.Date(2026, 1, 2, 3, 4, 5, 0, time.UTC)
	d := &vhDump{codec: codec, files: map[string][]byte{}}
	altSeq := 0
	writeFrag := func(gi int, rel string, phase Phase, nodes []FragmentNode, edges []FragmentEdge) (FileManifest, error) {
		var entry FileManifest
		var err error
		altSeq++
		altPath := filepath.Join(scratch, fmt.Sprintf("alt-%s-%d", codec, altSeq))
		count := 0
		if phase == PhaseNodes {
			entry, err = writeCompressedJSONLines(filepath.Join(dir, filepath.FromSlash(rel)), codec, DefaultZstdLevel, nodes)
			if err != nil {
				return entry, err
			}
			alt := vhReverse(nodes)
			if len(alt) == 1 {
				alt = []FragmentNode{{ID: alt[0].ID, Kinds: alt[0].Kinds, Properties: map[string]any{"name": "substituted"}}}
			}
			if _, err = writeCompressedJSONLines(altPath, codec, DefaultZstdLevel, alt); err != nil {
				return entry, err
			}
			count = len(nodes)
		} else {
			entry, err = writeCompressedJSONLines(filepath.Join(dir, filepath.FromSlash(rel)), codec, DefaultZstdLevel, edges)
			if err != nil {
				return entry, err
			}
			if _, err = writeCompressedJSONLines(altPath, codec, DefaultZstdLevel, vhReverse(edges)); err != nil {
				return entry, err
			}
			count = len(edges)
		}
		entry.Phase = phase
		entry.Path = rel
		entry.ActionCounts = map[string]int{}
		orig, err := os.ReadFile(filepath.Join(dir, filepath.FromSlash(rel)))
		if err != nil {
			return entry, err
		}
		alt, err := os.ReadFile(altPath)
		if err != nil {
			return entry, err
		}
		if bytes.Equal(orig, alt) {
			return entry, fmt.Errorf("alternative fragment for %s is identical to the original", rel)
		}
		d.frags = append(d.frags, vhFrag{graphIndex: gi, phase: phase, path: rel, count: count, orig: orig, alt: alt})
		return entry, nil
	}
	for gi := 0; gi < graphs; gi++ {
		name := fmt.Sprintf("g%d", gi+1)
		prefix := "graphs/" + name + "/"
		nodesA := []FragmentNode{
			{ID: "1", Kinds: []string{"User"}, Properties: map[string]any{"name": name + "-alice"}},
			{ID: "n-b", Kinds: []string{"User", "Admin"}, Properties: map[string]any{"name": name + "-bob", "age": 42}},
		}
		nodesB := []FragmentNode{{ID: "3", Kinds: []string{"Computer"}, Properties: map[string]any{"name": name + "-c1"}}}
		edges := []FragmentEdge{
			{StartID: "1", EndID: "n-b", Kind: "MemberOf", Properties: map[string]any{"in": name}},
			{StartID: "n-b", EndID: "3", Kind: "AdminTo", Properties: map[string]any{"w": 1}},
		}
		var files []FileManifest
		for fi, spec := range []struct {
			rel   string
			phase Phase
			nodes []FragmentNode
			edges []FragmentEdge
		}{
			{prefix + "nodes-000001.jsonl" + ext, PhaseNodes, nodesA, nil},
			{prefix + "nodes-000002.jsonl" + ext, PhaseNodes, nodesB, nil},
			{prefix + "edges-000001.jsonl" + ext, PhaseEdges, nil, edges},
		} {
			entry, err := writeFrag(gi, spec.rel, spec.phase, spec.nodes, spec.edges)
			if err != nil {
				return nil, err
			}
			d.frags[len(d.frags)-1].fileIndex = fi
			files = append(files, entry)
		}
		m.Schema.Graphs = append(m.Schema.Graphs, GraphSchemaMetadata{Name: name, NodeKinds: []string{"Admin", "Computer", "User"}, EdgeKinds: []string{"AdminTo", "MemberOf"}})
		m.Graphs = append(m.Graphs, GraphManifest{Name: name, NodeCount: 3, EdgeCount: 2, NodeActionCounts: map[string]int{}, EdgeActionCounts: map[string]int{}, Files: files})
	}
	if err := writeManifest(dir, m); err != nil {
		return nil, err
	}
	d.manifest = m
	mb, err := os.ReadFile(filepath.Join(dir, manifestFileName))
	if err != nil {
		return nil, err
	}
	d.files[manifestFileName] = mb
	for _, f := range d.frags {
		d.files[f.path] = f.orig
	}
	return d, nil
}

func vhCloneManifest(m Manifest) Manifest {
	b, _ := json.Marshal(m)
	var out Manifest
	_ = json.Unmarshal(b, &out)
	return out
}

func vhEncodeManifest(m Manifest) []byte {
	b, _ := json.MarshalIndent(m, "", "  ")
	return append(b, '\n')
}

// vhManifestKeyAt names the manifest line a byte offset falls into (the JSON key of that line).
func vhManifestKeyAt(manifest []byte, pos int) string {
	if pos >= len(manifest) {
		return "(end)"
	}
	start := bytes.LastIndexByte(manifest[:pos], '\n') + 1
	end := bytes.IndexByte(manifest[pos:], '\n')
	if end < 0 {
		end = len(manifest)
	} else {
		end += pos
	}
	line := strings.TrimSpace(string(manifest[start:end]))
	if strings.HasPrefix(line, "\"") {
		if i := strings.Index(line[1:], "\""); i >= 0 {
			if strings.HasPrefix(line[i+2:], ":") {
				return line[1 : i+1]
			}
			return "(array element)"
		}
	}
	return "(structure)"
}

type vhLoadCase struct {
	desc    string
	lenient bool
	mkey    string // manifest key for the benign breakdown
	changes func() map[string][]byte
}

var vhDeleted = []byte(nil)

type vhLoadRun struct {
	err      error
	abnormal string
	writes   []string
	result   LoadResult
}

func vhLoadDir(dir string) vhLoadRun {
	db := vhNewDB()
	var res LoadResult
	err, abnormal := vhGuard(30*time.Second, func() error {
		var e error
		res, e = Load(context.Background(), db, "pg", LoadOptions{InputDir: dir, BatchSize: 2})
		return e
	})
	return vhLoadRun{err: err, abnormal: abnormal, writes: db.snapshotWrites(), result: res}
}

func vhMasks(bound int) []byte {
	if bound >= 2 {
		return []byte{0x01, 0x20, 0xFF, 0x80, 0x04}
	}
	return []byte{0x01, 0x20, 0xFF}
}

func vhLoadCases(d *vhDump, bound int) []vhLoadCase {
	var cases []vhLoadCase
	tag := "load codec=" + string(d.codec) + " "
	one := func(path string, content []byte) func() map[string][]byte {
		return func() map[string][]byte { return map[string][]byte{path: content} }
	}
	subst := func(path string, orig []byte, pos int, mask byte) func() map[string][]byte {
		return func() map[string][]byte {
			c := append([]byte(nil), orig...)
			c[pos] ^= mask
			return map[string][]byte{path: c}
		}
	}
	// A1 fragment files
	for fi, f := range d.frags {
		for pos := range f.orig {
			for _, mask := range vhMasks(bound) {
				cases = append(cases, vhLoadCase{desc: fmt.Sprintf("%sfile=%s subst pos=%d xor=0x%02x", tag, f.path, pos, mask), changes: subst(f.path, f.orig, pos, mask)})
			}
		}
		for n := 0; n < len(f.orig); n++ {
			cases = append(cases, vhLoadCase{desc: fmt.Sprintf("%sfile=%s truncated to %d of %d bytes", tag, f.path, n, len(f.orig)), changes: one(f.path, append([]byte{}, f.orig[:n]...))})
		}
		lastLine := f.orig
		if d.codec == CompressionNone {
			trimmed := bytes.TrimRight(f.orig, "\n")
			lastLine = append([]byte(nil), f.orig[bytes.LastIndexByte(trimmed, '\n')+1:]...)
		}
		for _, g := range []struct {
			name string
			data []byte
		}{
			{"1x00", []byte{0}}, {"2x00", []byte{0, 0}}, {"16x00", make([]byte, 16)}, {"newline", []byte("\n")}, {"space", []byte(" ")},
			{"3xff", []byte{0xff, 0xff, 0xff}}, {"{}line", []byte("{}\n")}, {"own last record (codec none) or whole file again", lastLine}, {"file doubled", f.orig},
		} {
			cases = append(cases, vhLoadCase{desc: fmt.Sprintf("%sfile=%s appended %s", tag, f.path, g.name), changes: one(f.path, append(append([]byte(nil), f.orig...), g.data...))})
		}
		cases = append(cases, vhLoadCase{desc: fmt.Sprintf("%sfile=%s replaced by valid fragment with same record count, other record order/content", tag, f.path), changes: one(f.path, f.alt)})
		cases = append(cases, vhLoadCase{desc: fmt.Sprintf("%sfile=%s deleted", tag, f.path), changes: one(f.path, vhDeleted)})
		for fj, other := range d.frags {
			if fi != fj && !bytes.Equal(f.orig, other.orig) {
				cases = append(cases, vhLoadCase{desc: fmt.Sprintf("%sfile=%s replaced by the bytes of %s", tag, f.path, other.path), changes: one(f.path, other.orig)})
			}
		}
	}
	for i := 0; i < len(d.frags); i++ {
		for j := i + 1; j < len(d.frags); j++ {
			a, b := d.frags[i], d.frags[j]
			if bytes.Equal(a.orig, b.orig) {
				continue
			}
			cases = append(cases, vhLoadCase{desc: fmt.Sprintf("%sfiles %s and %s exchanged on disk", tag, a.path, b.path), changes: func() map[string][]byte {
				return map[string][]byte{a.path: b.orig, b.path: a.orig}
			}})
		}
	}
	// A2 manifest bytes
	mb := d.files[manifestFileName]
	for pos := range mb {
		for _, mask := range vhMasks(bound) {
			cases = append(cases, vhLoadCase{desc: fmt.Sprintf("%smanifest.json subst pos=%d xor=0x%02x (line key %q)", tag, pos, mask, vhManifestKeyAt(mb, pos)), lenient: true, mkey: vhManifestKeyAt(mb, pos), changes: subst(manifestFileName, mb, pos, mask)})
		}
	}
	for n := 0; n < len(mb); n++ {
		cases = append(cases, vhLoadCase{desc: fmt.Sprintf("%smanifest.json truncated to %d of %d bytes", tag, n, len(mb)), lenient: true, mkey: "(truncation)", changes: one(manifestFileName, append([]byte{}, mb[:n]...))})
	}
	for _, g := range []struct {
		name string
		data []byte
	}{{"1x00", []byte{0}}, {"newline", []byte("\n")}, {"{}", []byte("{}")}, {"}", []byte("}")}, {"newline and a word", []byte("\ntrailer")}, {"16xff", bytes.Repeat([]byte{0xff}, 16)}, {"manifest doubled", mb}} {
		// bytes after the closing brace of the manifest document: only JSON white space can be argued to leave the
		// input "as produced"; anything else is an extended manifest and must be refused (strict)
		onlySpace := len(bytes.Trim(g.data, " \t\r\n")) == 0
		cases = append(cases, vhLoadCase{desc: fmt.Sprintf("%smanifest.json appended %s", tag, g.name), lenient: onlySpace, mkey: "(appended)", changes: one(manifestFileName, append(append([]byte(nil), mb...), g.data...))})
	}
	cases = append(cases, vhLoadCase{desc: tag + "manifest.json deleted", changes: one(manifestFileName, vhDeleted)})
	cases = append(cases, vhLoadCase{desc: tag + "manifest.json empty", changes: one(manifestFileName, []byte{})})
	// A3 manifest field edits
	edit := func(desc string, lenient bool, f func(m *Manifest)) {
		cases = append(cases, vhLoadCase{desc: tag + "manifest edit: " + desc, lenient: lenient, mkey: "(edit) " + strings.SplitN(desc, " ", 2)[0], changes: func() map[string][]byte {
			m := vhCloneManifest(d.manifest)
			f(&m)
			return map[string][]byte{manifestFileName: vhEncodeManifest(m)}
		}})
	}
	retotal := func(m *Manifest) {
		for gi := range m.Graphs {
			var n, e int64
			for _, f := range m.Graphs[gi].Files {
				if f.Phase == PhaseNodes {
					n += int64(f.Count)
				} else if f.Phase == PhaseEdges {
					e += int64(f.Count)
				}
			}
			m.Graphs[gi].NodeCount, m.Graphs[gi].EdgeCount = n, e
		}
		m.Source.GraphCount = len(m.Graphs)
	}
	edit("identity (re-encoded, unchanged)", true, func(m *Manifest) {})
	for _, f := range d.frags {
		gi, fi := f.graphIndex, f.fileIndex
		at := fmt.Sprintf("graphs[%d].files[%d](%s)", gi, fi, f.path)
		file := func(m *Manifest) *FileManifest { return &m.Graphs[gi].Files[fi] }
		for _, delta := range []int{1, -1, 2} {
			delta := delta
			edit(fmt.Sprintf("count%+d totals-inconsistent %s", delta, at), false, func(m *Manifest) { file(m).Count += delta })
			edit(fmt.Sprintf("count%+d totals-consistent %s", delta, at), false, func(m *Manifest) { file(m).Count += delta; retotal(m) })
		}
		edit("count=0 totals-consistent "+at, false, func(m *Manifest) { file(m).Count = 0; retotal(m) })
		edit("count=-1 totals-consistent "+at, false, func(m *Manifest) { file(m).Count = -1; retotal(m) })
		edit("sha256 first-hex-digit-changed "+at, false, func(m *Manifest) {
			s := []byte(file(m).SHA256)
			if s[0] == '0' {
				s[0] = '1'
			} else {
				s[0] = '0'
			}
			file(m).SHA256 = string(s)
		})
		edit("sha256 uppercased "+at, false, func(m *Manifest) {
			up := strings.ToUpper(file(m).SHA256)
			if up == file(m).SHA256 {
				up = "X" + up
			}
			file(m).SHA256 = up
		})
		edit("sha256 emptied "+at, false, func(m *Manifest) { file(m).SHA256 = "" })
		edit("sha256 truncated "+at, false, func(m *Manifest) { file(m).SHA256 = file(m).SHA256[:62] })
		for _, delta := range []int64{1, -1} {
			delta := delta
			edit(fmt.Sprintf("compressed_bytes%+d %s", delta, at), false, func(m *Manifest) { file(m).CompressedBytes += delta })
		}
		edit("compressed_bytes=0 "+at, false, func(m *Manifest) { file(m).CompressedBytes = 0 })
		edit("compressed_bytes=-1 "+at, false, func(m *Manifest) { file(m).CompressedBytes = -1 })
		edit("uncompressed_bytes+1 "+at, true, func(m *Manifest) { file(m).UncompressedBytes++ })
		edit("action_counts changed "+at, true, func(m *Manifest) { file(m).ActionCounts = map[string]int{"kept": 7} })
		edit("path nonexistent "+at, false, func(m *Manifest) { file(m).Path += ".missing" })
		edit("path emptied "+at, false, func(m *Manifest) { file(m).Path = "" })
		edit("phase flipped totals-inconsistent "+at, false, func(m *Manifest) {
			if file(m).Phase == PhaseNodes {
				file(m).Phase = PhaseEdges
			} else {
				file(m).Phase = PhaseNodes
			}
		})
		edit("phase flipped totals-consistent "+at, false, func(m *Manifest) {
			if file(m).Phase == PhaseNodes {
				file(m).Phase = PhaseEdges
			} else {
				file(m).Phase = PhaseNodes
			}
			retotal(m)
		})
		edit("phase unknown "+at, false, func(m *Manifest) { file(m).Phase = "vertices" })
		edit("entry duplicated totals-inconsistent "+at, false, func(m *Manifest) {
			files := m.Graphs[gi].Files
			dup := append(append(append([]FileManifest(nil), files[:fi+1]...), files[fi]), files[fi+1:]...)
			m.Graphs[gi].Files = dup
		})
		edit("entry duplicated totals-consistent "+at, false, func(m *Manifest) {
			files := m.Graphs[gi].Files
			dup := append(append(append([]FileManifest(nil), files[:fi+1]...), files[fi]), files[fi+1:]...)
			m.Graphs[gi].Files = dup
			retotal(m)
		})
		for _, spelling := range []string{"./", "x/../", ".//"} {
			spelling := spelling
			edit("entry duplicated under another spelling ("+spelling+") totals-consistent "+at, false, func(m *Manifest) {
				files := m.Graphs[gi].Files
				again := files[fi]
				again.Path = spelling + again.Path
				dup := append(append(append([]FileManifest(nil), files[:fi+1]...), again), files[fi+1:]...)
				m.Graphs[gi].Files = dup
				retotal(m)
			})
		}
		edit("entry dropped totals-inconsistent "+at, false, func(m *Manifest) {
			files := m.Graphs[gi].Files
			m.Graphs[gi].Files = append(append([]FileManifest(nil), files[:fi]...), files[fi+1:]...)
		})
		edit("entry dropped totals-consistent "+at, false, func(m *Manifest) {
			files := m.Graphs[gi].Files
			m.Graphs[gi].Files = append(append([]FileManifest(nil), files[:fi]...), files[fi+1:]...)
			retotal(m)
		})
		for _, other := range d.frags {
			if other.path == f.path {
				continue
			}
			oi, of := other.graphIndex, other.fileIndex
			with := fmt.Sprintf(" with graphs[%d].files[%d](%s)", oi, of, other.path)
			edit := edit
			if oi != gi {
				inner := edit
				edit = func(desc string, lenient bool, f func(m *Manifest)) { inner("cross-graph "+desc, lenient, f) }
			}
			if f.path < other.path {
				edit("path swapped "+at+with, false, func(m *Manifest) {
					m.Graphs[gi].Files[fi].Path, m.Graphs[oi].Files[of].Path = m.Graphs[oi].Files[of].Path, m.Graphs[gi].Files[fi].Path
				})
				edit("entries reordered (whole entries exchanged) "+at+with, true, func(m *Manifest) {
					m.Graphs[gi].Files[fi], m.Graphs[oi].Files[of] = m.Graphs[oi].Files[of], m.Graphs[gi].Files[fi]
					retotal(m)
				})
			}
			edit("path redirected to other fragment "+at+with, false, func(m *Manifest) { m.Graphs[gi].Files[fi].Path = m.Graphs[oi].Files[of].Path })
			edit("entry substituted keeping path/phase (sha256, sizes, count taken) "+at+with, false, func(m *Manifest) {
				src := m.Graphs[oi].Files[of]
				dst := &m.Graphs[gi].Files[fi]
				dst.SHA256, dst.CompressedBytes, dst.UncompressedBytes, dst.Count = src.SHA256, src.CompressedBytes, src.UncompressedBytes, src.Count
				retotal(m)
			})
			edit("entry substituted wholesale totals-consistent "+at+with, false, func(m *Manifest) {
				m.Graphs[gi].Files[fi] = m.Graphs[oi].Files[of]
				retotal(m)
			})
		}
	}
	for _, codec := range []CompressionCodec{CompressionNone, CompressionGzip, CompressionZstd, CompressionDisabled, "lz4", "GZIP"} {
		codec := codec
		if codec != d.codec {
			edit(fmt.Sprintf("compression changed to %q", codec), false, func(m *Manifest) { m.Compression = codec })
		}
	}
	edit("compression_level changed", true, func(m *Manifest) { m.CompressionLevel = 19 })
	edit("generated_at changed", true, func(m *Manifest) { m.GeneratedAt = m.GeneratedAt.Add(time.Hour) })
	edit("driver changed", true, func(m *Manifest) { m.Driver = "neo4j" })
	edit("retriever_version changed", true, func(m *Manifest) { m.RetrieverVersion = "v9.9.9" })
	edit("warnings added", true, func(m *Manifest) { m.Warnings = []string{"tampered"} })
	edit("format changed", false, func(m *Manifest) { m.Format = "retriever-jsonl-collection-v2" })
	edit("id_strategy changed", false, func(m *Manifest) { m.IDStrategy = "other" })
	edit("scrub mode unknown", false, func(m *Manifest) { m.Scrub.Mode = "partial" })
	edit("graph_count+1", false, func(m *Manifest) { m.Source.GraphCount++ })
	edit("graph_count=0", false, func(m *Manifest) { m.Source.GraphCount = 0 })
	edit("graphs emptied graph_count consistent", false, func(m *Manifest) { m.Graphs = nil; m.Source.GraphCount = 0 })
	for gi := range d.manifest.Graphs {
		gi := gi
		at := fmt.Sprintf("graphs[%d]", gi)
		edit("node_count+1 "+at, false, func(m *Manifest) { m.Graphs[gi].NodeCount++ })
		edit("node_count-1 "+at, false, func(m *Manifest) { m.Graphs[gi].NodeCount-- })
		edit("edge_count+1 "+at, false, func(m *Manifest) { m.Graphs[gi].EdgeCount++ })
		edit("edge_count=0 "+at, false, func(m *Manifest) { m.Graphs[gi].EdgeCount = 0 })
		edit("graph name changed (schema entry kept) "+at, false, func(m *Manifest) { m.Graphs[gi].Name += "x" })
		edit("graph name emptied "+at, false, func(m *Manifest) { m.Graphs[gi].Name = "" })
		edit("schema entry dropped "+at, false, func(m *Manifest) {
			m.Schema.Graphs = append(append([]GraphSchemaMetadata(nil), m.Schema.Graphs[:gi]...), m.Schema.Graphs[gi+1:]...)
		})
		edit("graph entry duplicated "+at, false, func(m *Manifest) { m.Graphs = append(m.Graphs, m.Graphs[gi]); retotal(m) })
		edit("graph files emptied totals-consistent "+at, false, func(m *Manifest) { m.Graphs[gi].Files = nil; retotal(m) })
		edit("graph entry dropped graph_count consistent "+at, false, func(m *Manifest) {
			m.Graphs = append(append([]GraphManifest(nil), m.Graphs[:gi]...), m.Graphs[gi+1:]...)
			retotal(m)
		})
	}
	if len(d.manifest.Graphs) > 1 {
		edit("graph entries reordered", true, func(m *Manifest) { m.Graphs[0], m.Graphs[1] = m.Graphs[1], m.Graphs[0] })
		edit("cross-graph file lists exchanged", false, func(m *Manifest) { m.Graphs[0].Files, m.Graphs[1].Files = m.Graphs[1].Files, m.Graphs[0].Files })
	}
	return cases
}

func vhLoadSection(base string, bound int, seed int64, rep *vhReport, sectionKey int64) {
	codecs := []CompressionCodec{CompressionNone, CompressionGzip}
	graphs := 1
	if bound >= 2 {
		codecs = append(codecs, CompressionZstd)
		graphs = 2
	}
	for ci, codec := range codecs {
		keyBase := sectionKey + int64(ci)*10_000_000
		pristine := filepath.Join(base, "load-"+string(codec), "pristine")
		scratch := filepath.Join(base, "load-"+string(codec), "scratch")
		_ = os.MkdirAll(scratch, 0o755)
		d, err := vhBuildDump(pristine, scratch, codec, graphs)
		if err != nil {
			rep.fail(keyBase, "load codec="+string(codec)+" setup", "cannot build the dump with the real writers: %v", err)
			continue
		}
		// sanity: the unmodified dump loads and writes exactly its entities
		baseline := vhLoadDir(pristine)
		rep.count("load", 1)
		wantWrites := graphs * 5
		if baseline.err != nil || baseline.abnormal != "" || len(baseline.writes) != wantWrites || baseline.result.NodeCount != int64(3*graphs) || baseline.result.EdgeCount != int64(2*graphs) {
			rep.fail(keyBase, "load codec="+string(codec)+" unmodified dump", "expected success with %d writes, got err=%v abnormal=%q writes=%d result=%+v", wantWrites, baseline.err, baseline.abnormal, len(baseline.writes), baseline.result)
			continue
		}
		baselineSig := vhWriteSignature(baseline.writes)
		cases := vhLoadCases(d, bound)
		type state struct{ dir string }
		vhParallel(len(cases), seed, func(w int) state {
			dir := filepath.Join(base, "load-"+string(codec), fmt.Sprintf("work-%d", w))
			if err := vhWriteTree(dir, d.files); err != nil {
				rep.fail(keyBase, "load setup", "cannot create working copy: %v", err)
			}
			return state{dir}
		}, func(st state, i int) {
			c := cases[i]
			key := keyBase + int64(i) + 1
			changes := c.changes()
			for rel, content := range changes {
				p := filepath.Join(st.dir, filepath.FromSlash(rel))
				if content == nil {
					_ = os.Remove(p)
				} else {
					_ = os.WriteFile(p, content, 0o600)
				}
			}
			run := vhLoadDir(st.dir)
			for rel := range changes {
				p := filepath.Join(st.dir, filepath.FromSlash(rel))
				if orig, ok := d.files[rel]; ok {
					_ = os.WriteFile(p, orig, 0o600)
				} else {
					_ = os.Remove(p)
				}
			}
			rep.count("load", 1)
			switch {
			case run.abnormal != "":
				rep.fail(key, c.desc, "Load did not return normally: %s", run.abnormal)
			case run.err != nil && len(run.writes) > 0:
				rep.fail(key, c.desc, "Load failed (%s) only AFTER %d mutating calls, first %q; expected zero writes before the error", vhShort(run.err.Error(), 120), len(run.writes), run.writes[0])
			case run.err != nil:
			case !c.lenient:
				rep.fail(key, c.desc, "Load ACCEPTED the modified input (nil error, %d mutating calls, result %+v); expected an error and zero writes", len(run.writes), run.result)
			case vhWriteSignature(run.writes) == baselineSig && run.result == baseline.result:
				rep.noteBenign(c.mkey)
			default:
				rep.fail(key, c.desc, "Load accepted a manifest that changes what is written: %d mutating calls, result %+v; expected an error or writes identical to the unmodified dump", len(run.writes), run.result)
			}
		})
	}
}

// ---------------------------------------------------------------------------------------------------------------
// B. raw tar writer (USTAR blocks written by hand: no validation of names, sizes or type flags)

type vhTarEntry struct {
	name        string
	typeflag    byte
	linkname    string
	data        []byte
	declSize    int64  // size written into the header; <0 means len(data)
	pax         string // body of a preceding 'x' extended header, if non-empty
	gnuLongName string // body of a preceding 'L' entry, if non-empty
	gnuLongLink string // body of a preceding 'K' entry, if non-empty
	devmajor    int64
	devminor    int64
}

func vhTarHeader(name string, typeflag byte, linkname string, size, devmajor, devminor int64) []byte {
	h := make([]byte, 512)
	octal := func(b []byte, v int64) {
		s := fmt.Sprintf("%0*o", len(b)-1, v)
		copy(b, s)
	}
	copy(h[0:100], name)
	octal(h[100:108], 0o600)
	octal(h[108:116], 0)
	octal(h[116:124], 0)
	octal(h[124:136], size)
	octal(h[136:148], 0)
	h[156] = typeflag
	copy(h[157:257], linkname)
	copy(h[257:263], "ustar\x00")
	copy(h[263:265], "00")
	octal(h[329:337], devmajor)
	octal(h[337:345], devminor)
	for i := 148; i < 156; i++ {
		h[i] = ' '
	}
	var sum int64
	for _, b := range h {
		sum += int64(b)
	}
	copy(h[148:156], fmt.Sprintf("%06o\x00 ", sum))
	return h
}

func vhPaxRecord(key, value string) string {
	body := " " + key + "=" + value + "\n"
	n := len(body) + 1
	for len(fmt.Sprint(n))+len(body) != n {
		n = len(fmt.Sprint(n)) + len(body)
	}
	return fmt.Sprint(n) + body
}

func vhTarBlock(header []byte, data []byte) []byte {
	out := append([]byte(nil), header...)
	out = append(out, data...)
	if pad := len(data) % 512; pad != 0 {
		out = append(out, make([]byte, 512-pad)...)
	}
	return out
}

func vhTarBytes(entries []vhTarEntry, terminate bool) []byte {
	var out []byte
	for i, e := range entries {
		if e.gnuLongName != "" {
			body := []byte(e.gnuLongName + "\x00")
			out = append(out, vhTarBlock(vhTarHeader("././@LongLink", 'L', "", int64(len(body)), 0, 0), body)...)
		}
		if e.gnuLongLink != "" {
			body := []byte(e.gnuLongLink + "\x00")
			out = append(out, vhTarBlock(vhTarHeader("././@LongLink", 'K', "", int64(len(body)), 0, 0), body)...)
		}
		pax := e.pax
		if len(e.name) > 100 && pax == "" && e.gnuLongName == "" {
			pax = vhPaxRecord("path", e.name)
		}
		if pax != "" {
			out = append(out, vhTarBlock(vhTarHeader("PaxHeaders.0/x", 'x', "", int64(len(pax)), 0, 0), []byte(pax))...)
		}
		size := e.declSize
		if size < 0 {
			size = int64(len(e.data))
		}
		name := e.name
		if len(name) > 100 {
			name = name[:100]
		}
		if !terminate && i == len(entries)-1 {
			out = append(append(out, vhTarHeader(name, e.typeflag, e.linkname, size, e.devmajor, e.devminor)...), e.data...)
		} else {
			out = append(out, vhTarBlock(vhTarHeader(name, e.typeflag, e.linkname, size, e.devmajor, e.devminor), e.data)...)
		}
	}
	if terminate {
		out = append(out, make([]byte, 1024)...)
	}
	return out
}

const (
	vhMustFail    = 0
	vhEither      = 1
	vhMustSucceed = 2
)

type vhTarCase struct {
	desc    string
	entries []vhTarEntry
	expect  int
	noTerm  bool // the stream ends right after the last data byte: no padding, no end marker
	// sizeCase: the declared size disagrees with the data that follows; when more entries follow (layout "before
	// the valid entries") the stream can be self-consistent again, so only containment is required there
	sizeCase bool
}

func vhReg(name string) vhTarEntry {
	return vhTarEntry{name: name, typeflag: '0', data: []byte("evil"), declSize: -1}
}

// vhTarCases builds the hostile table; root is the scratch root holding out/ and outside/ (absolute names point into
// root/outside so that the snapshot sees them); descriptions use <tmp> for root.
func vhTarCases(root string, bound int) []vhTarCase {
	abs := filepath.ToSlash(filepath.Join(root, "outside"))
	var cases []vhTarCase
	add := func(expect int, desc string, entries ...vhTarEntry) {
		cases = append(cases, vhTarCase{desc: desc, entries: entries, expect: expect})
	}
	name := func(expect int, n string) {
		shown := fmt.Sprintf("%q", strings.ReplaceAll(n, abs, "<tmp>/outside"))
		if len(n) > 80 {
			shown = fmt.Sprintf("%q... (%d bytes, the same pattern repeated)", n[:36], len(n))
		}
		add(expect, "regular entry named "+shown, vhReg(n))
	}
	// sanity
	add(vhMustSucceed, "no hostile entry", vhTarEntry{name: "zz-plain.txt", typeflag: '0', data: []byte("plain"), declSize: -1})
	add(vhMustSucceed, "no hostile entry (nested)", vhTarEntry{name: "zz-dir/zz-sub/plain.txt", typeflag: '0', data: []byte("plain"), declSize: -1})
	// names that must be refused
	for _, n := range []string{
		abs + "/abs_evil", "/", "//" + strings.TrimPrefix(abs, "/") + "/abs_evil2", "/../x",
		"../outside/evil", "../outside/sentinel.txt", "..", "../", "a/..", "a/../..", "a/../../outside/evil", "a/b/../../../outside/evil",
		"./../outside/evil", "../out/../outside/evil", "../out2/evil",
		".", "./", "", " ", "\t",
		"C:/x", "C:x", "c:\\x", "C:\\Windows\\evil", "a\\b", "\\\\server\\share\\x", "..\\outside\\evil", "a/b\\..\\..\\c", "\\x",
		" ../outside/evil", "../outside/evil ", "\t../outside/evil", " /" + strings.TrimPrefix(abs, "/") + "/abs_evil3", "\n../outside/evil",
	} {
		name(vhMustFail, n)
	}
	// unusual but contained names: only containment is required
	long255 := strings.Repeat("a", 255)
	long300 := strings.Repeat("b", 300)
	deep := strings.TrimSuffix(strings.Repeat("d/", 120), "/") + "/leaf"
	veryDeep := strings.TrimSuffix(strings.Repeat("dddddddddddddddddddddddddddddd/", 150), "/") + "/leaf"
	for _, n := range []string{"x ", " x", "a /b", ".. /x", "...", ".../x", "a/./b", "./x", "a//b", "a/", "a/../b", "..a/b", "a../b", "a/..b",
		long255, long300, "p/" + long255, deep, veryDeep, "-rf", "~/x", "$HOME/x", "a\x7fb", "caf\xc3\xa9", "\xff\xfe"} {
		name(vhEither, n)
	}
	add(vhMustFail, "deep path ending in parent traversal (pax path)", vhReg(strings.Repeat("d/", 60)+strings.Repeat("../", 61)+"outside/evil"))
	add(vhMustFail, "long name with parent traversal prefix (pax path)", vhReg("../outside/"+long255))
	// entry types
	typed := func(expect int, desc string, e vhTarEntry) {
		e.declSize = -1
		add(expect, desc, e)
	}
	typed(vhMustFail, "symlink t -> ../outside", vhTarEntry{name: "t", typeflag: '2', linkname: "../outside"})
	typed(vhMustFail, "symlink t -> <tmp>/outside (absolute)", vhTarEntry{name: "t", typeflag: '2', linkname: abs})
	typed(vhMustFail, "symlink t -> manifest.json (inside)", vhTarEntry{name: "t", typeflag: '2', linkname: "manifest.json"})
	typed(vhMustFail, "symlink ../outside/evil-link -> /etc/passwd", vhTarEntry{name: "../outside/evil-link", typeflag: '2', linkname: "/etc/passwd"})
	add(vhMustFail, "symlink lnk -> ../outside then regular lnk/evil", vhTarEntry{name: "lnk", typeflag: '2', linkname: "../outside", declSize: -1}, vhReg("lnk/evil"))
	add(vhMustFail, "symlink lnk -> <tmp>/outside then regular lnk/sentinel.txt", vhTarEntry{name: "lnk", typeflag: '2', linkname: abs, declSize: -1}, vhReg("lnk/sentinel.txt"))
	typed(vhMustFail, "hard link h -> ../outside/sentinel.txt", vhTarEntry{name: "h", typeflag: '1', linkname: "../outside/sentinel.txt"})
	typed(vhMustFail, "hard link h -> <tmp>/outside/sentinel.txt (absolute)", vhTarEntry{name: "h", typeflag: '1', linkname: abs + "/sentinel.txt"})
	add(vhMustFail, "regular first.txt then hard link h -> first.txt", vhReg("first.txt"), vhTarEntry{name: "h", typeflag: '1', linkname: "first.txt", declSize: -1})
	typed(vhMustFail, "character device", vhTarEntry{name: "cdev", typeflag: '3', devmajor: 1, devminor: 3})
	typed(vhMustFail, "block device", vhTarEntry{name: "bdev", typeflag: '4', devmajor: 8, devminor: 0})
	typed(vhMustFail, "fifo", vhTarEntry{name: "fifo", typeflag: '6'})
	typed(vhMustFail, "directory d", vhTarEntry{name: "d", typeflag: '5'})
	typed(vhMustFail, "directory d/", vhTarEntry{name: "d/", typeflag: '5'})
	typed(vhMustFail, "directory ../outside/newdir/", vhTarEntry{name: "../outside/newdir/", typeflag: '5'})
	typed(vhMustFail, "directory <tmp>/outside/absdir/", vhTarEntry{name: abs + "/absdir/", typeflag: '5'})
	typed(vhMustFail, "contiguous file type 7", vhTarEntry{name: "cont", typeflag: '7', data: []byte("evil")})
	typed(vhMustFail, "GNU sparse type S", vhTarEntry{name: "sparse", typeflag: 'S', data: []byte("evil")})
	typed(vhMustFail, "unknown type Z", vhTarEntry{name: "zed", typeflag: 'Z', data: []byte("evil")})
	typed(vhMustFail, "GNU dumpdir type D", vhTarEntry{name: "dump", typeflag: 'D', data: []byte("evil")})
	typed(vhMustFail, "GNU multi-volume type M", vhTarEntry{name: "multi", typeflag: 'M', data: []byte("evil")})
	typed(vhMustFail, "pax global header g carrying path=../outside/evil then regular", vhTarEntry{name: "glob", typeflag: 'g', data: []byte(vhPaxRecord("path", "../outside/evil"))})
	typed(vhEither, "old-style regular type NUL", vhTarEntry{name: "olda", typeflag: 0, data: []byte("data")})
	typed(vhEither, "regular type 0 with trailing slash name", vhTarEntry{name: "sl/", typeflag: '0'})
	// smuggled names
	add(vhMustFail, "pax path=../outside/evil over safe ustar name", vhTarEntry{name: "safe.txt", typeflag: '0', data: []byte("evil"), declSize: -1, pax: vhPaxRecord("path", "../outside/evil")})
	add(vhMustFail, "pax path=<tmp>/outside/abs_evil over safe ustar name", vhTarEntry{name: "safe.txt", typeflag: '0', data: []byte("evil"), declSize: -1, pax: vhPaxRecord("path", abs+"/abs_evil")})
	add(vhMustFail, "pax linkpath=../outside on symlink", vhTarEntry{name: "pl", typeflag: '2', linkname: "inside", declSize: -1, pax: vhPaxRecord("linkpath", "../outside")})
	add(vhMustFail, "GNU long name ../outside/evil over safe ustar name", vhTarEntry{name: "safe.txt", typeflag: '0', data: []byte("evil"), declSize: -1, gnuLongName: "../outside/evil"})
	add(vhMustFail, "GNU long link ../outside/sentinel.txt on hard link", vhTarEntry{name: "gh", typeflag: '1', linkname: "x", declSize: -1, gnuLongLink: "../outside/sentinel.txt"})
	add(vhEither, "pax size=1 over 4 data bytes (pax overrides: a consistent 1-byte file)", vhTarEntry{name: "sz.txt", typeflag: '0', data: []byte("evil"), declSize: -1, pax: vhPaxRecord("size", "1")})
	add(vhMustFail, "pax size=9999 over 4 data bytes", vhTarEntry{name: "sz.txt", typeflag: '0', data: []byte("evil"), declSize: -1, pax: vhPaxRecord("size", "9999")})
	cases[len(cases)-1].sizeCase = true
	// sizes
	add(vhMustFail, "declared size 5 over 4 data bytes, stream ends", vhTarEntry{name: "big.txt", typeflag: '0', data: []byte("evil"), declSize: 5})
	cases[len(cases)-1].noTerm, cases[len(cases)-1].sizeCase = true, true
	add(vhMustFail, "declared size 1024 over 4 data bytes, stream ends", vhTarEntry{name: "big.txt", typeflag: '0', data: []byte("evil"), declSize: 1024})
	cases[len(cases)-1].noTerm, cases[len(cases)-1].sizeCase = true, true
	add(vhMustFail, "declared size 8 GiB-1 over 4 data bytes", vhTarEntry{name: "huge.bin", typeflag: '0', data: []byte("evil"), declSize: 0o77777777777})
	cases[len(cases)-1].sizeCase = true
	add(vhEither, "declared size 2000 over 600 data bytes (swallows the end marker: a consistent 2000-byte file)", vhTarEntry{name: "big.txt", typeflag: '0', data: bytes.Repeat([]byte("x"), 600), declSize: 2000})
	embedded := vhTarBlock(vhTarHeader("../outside/evil", '0', "", 4, 0, 0), []byte("evil"))
	add(vhMustFail, "declared size 0 over data that is itself a tar entry named ../outside/evil", vhTarEntry{name: "small.txt", typeflag: '0', data: embedded, declSize: 0})
	add(vhMustFail, "declared size 1 over 1024 bytes of 'x'", vhTarEntry{name: "small.txt", typeflag: '0', data: bytes.Repeat([]byte("x"), 1024), declSize: 1})
	add(vhMustFail, "declared size 3 over 4 data bytes then another entry", vhTarEntry{name: "short.txt", typeflag: '0', data: []byte("evil"), declSize: 3}, vhReg("after.txt"))
	cases[len(cases)-1].expect = vhEither // both sizes fit in one padded block: the stream is self-consistent, 3 bytes are extracted
	// duplicates
	add(vhMustFail, "duplicate entries dup.txt, dup.txt", vhReg("dup.txt"), vhReg("dup.txt"))
	add(vhMustFail, "duplicate entries dup.txt, ./dup.txt", vhReg("dup.txt"), vhReg("./dup.txt"))
	add(vhMustFail, "duplicate entries d/x, d//x", vhReg("d/x"), vhReg("d//x"))
	add(vhMustFail, "duplicate entries d/x, d/./x", vhReg("d/x"), vhReg("d/./x"))
	add(vhEither, "entries dup.txt and 'dup.txt ' (trailing space)", vhReg("dup.txt"), vhReg("dup.txt "))
	add(vhEither, "file a then a/b", vhReg("a"), vhReg("a/b"))
	add(vhEither, "a/b then file a", vhReg("a/b"), vhReg("a"))
	add(vhMustFail, "garbage instead of a header", vhTarEntry{})
	cases[len(cases)-1].entries = nil
	return cases
}

// vhTarStream renders case c in one of three layouts around the valid collection entries.
func vhTarStream(c vhTarCase, layout int, valid []vhTarEntry) []byte {
	var entries []vhTarEntry
	switch layout {
	case 0:
		entries = c.entries
	case 1:
		entries = append(append([]vhTarEntry(nil), valid...), c.entries...)
	default:
		entries = append(append([]vhTarEntry(nil), c.entries...), valid...)
	}
	out := vhTarBytes(entries, !c.noTerm)
	if c.entries == nil {
		garbage := bytes.Repeat([]byte("not a tar header "), 31)[:512]
		if layout == 1 {
			v := vhTarBytes(valid, true)
			out = append(v[:len(v)-1024:len(v)-1024], append(garbage, make([]byte, 1024)...)...)
		} else {
			out = append(append([]byte(nil), garbage...), out...)
		}
	}
	return out
}

func vhEncrypt(payload []byte, pub hpke.PublicKey) ([]byte, error) {
	var buf bytes.Buffer
	w, err := NewEncryptedArchiveWriter(&buf, pub)
	if err != nil {
		return nil, err
	}
	// written in pieces so that the archive has several frames
	for off := 0; off < len(payload); off += 512 {
		end := off + 512
		if end > len(payload) {
			end = len(payload)
		}
		if _, err := w.Write(payload[off:end]); err != nil {
			return nil, err
		}
	}
	if err := w.Close(); err != nil {
		return nil, err
	}
	return buf.Bytes(), nil
}

var vhLayoutNames = []string{"alone", "after the valid collection entries", "before the valid collection entries"}
var vhSentinels = map[string][]byte{"sentinel.txt": []byte("sentinel"), "sub/keep.txt": []byte("keep")}

func vhTarSection(base string, bound int, seed int64, rep *vhReport, sectionKey int64, d *vhDump, priv hpke.PrivateKey, pub hpke.PublicKey) {
	var valid []vhTarEntry
	var validNames []string
	for rel := range d.files {
		validNames = append(validNames, rel)
	}
	sort.Strings(validNames)
	for _, rel := range validNames {
		valid = append(valid, vhTarEntry{name: rel, typeflag: '0', data: d.files[rel], declSize: -1})
	}
	nCases := len(vhTarCases(filepath.Join(base, "tar", "w0"), bound))
	const entryPoints = 4
	total := nCases * 3 * entryPoints
	type state struct {
		root  string
		cases []vhTarCase
	}
	vhParallel(total, seed, func(w int) state {
		root := filepath.Join(base, "tar", fmt.Sprintf("w%d", w))
		_ = os.MkdirAll(root, 0o755)
		return state{root: root, cases: vhTarCases(root, bound)}
	}, func(st state, i int) {
		ci, layout, ep := i/(3*entryPoints), (i/entryPoints)%3, i%entryPoints
		c := st.cases[ci]
		key := sectionKey + int64(i)
		out := filepath.Join(st.root, "out")
		outside := filepath.Join(st.root, "outside")
		_ = os.RemoveAll(st.root)
		_ = os.MkdirAll(st.root, 0o755)
		_ = vhWriteTree(outside, vhSentinels)
		stream := vhTarStream(c, layout, valid)
		expect := c.expect
		if c.sizeCase && layout == 2 && expect == vhMustFail {
			expect = vhEither
		}
		epName := ""
		populated := ep == 1 || ep == 2
		if populated {
			_ = vhWriteTree(out, map[string][]byte{"old.txt": []byte("old"), "olddir/old2.txt": []byte("old2")})
		}
		var outBefore map[string]string
		if ep == 2 {
			outBefore = vhSnapshot(out, "")
		}
		before := vhSnapshot(st.root, out)
		var err error
		var abnormal string
		switch ep {
		case 0:
			epName = "UnpackTar(force=false, missing output dir)"
			err, abnormal = vhGuard(30*time.Second, func() error { return UnpackTar(bytes.NewReader(stream), out, false) })
		case 1:
			epName = "UnpackTar(force=true, populated output dir)"
			err, abnormal = vhGuard(30*time.Second, func() error { return UnpackTar(bytes.NewReader(stream), out, true) })
		case 2:
			epName = "Unpack(encrypted, Force, populated output dir)"
			enc, encErr := vhEncrypt(stream, pub)
			if encErr != nil {
				rep.fail(key, "tar setup", "cannot encrypt: %v", encErr)
				return
			}
			err, abnormal = vhGuard(30*time.Second, func() error {
				return Unpack(UnpackOptions{ArchiveReader: bytes.NewReader(enc), ArchiveIdentity: priv, OutputDir: out, Force: true})
			})
			// no stream of the table is exactly the collection, so none is a valid collection archive
			expect = vhMustFail
		default:
			epName = "UnpackEncryptedCollectionArchive(stream, missing output dir)"
			enc, encErr := vhEncrypt(stream, pub)
			if encErr != nil {
				rep.fail(key, "tar setup", "cannot encrypt: %v", encErr)
				return
			}
			err, abnormal = vhGuard(30*time.Second, func() error { return UnpackEncryptedCollectionArchive(bytes.NewReader(enc), out, priv) })
			expect = vhMustFail
		}
		desc := fmt.Sprintf("tar %s | %s, %s", epName, c.desc, vhLayoutNames[layout])
		rep.count("tar", 1)
		if abnormal != "" {
			rep.fail(key, desc, "did not return normally: %s", abnormal)
			return
		}
		after := vhSnapshot(st.root, out)
		if diff := vhSnapshotDiff(before, after); diff != "" {
			rep.fail(key, desc, "something OUTSIDE the output directory changed (err=%v): %s", err, diff)
		}
		for _, left := range vhListTree(out) {
			if strings.Contains(left, "[") {
				rep.fail(key, desc, "a non-regular file was created in the output directory: %s (err=%v)", left, err)
			}
		}
		switch {
		case expect == vhMustFail && err == nil:
			rep.fail(key, desc, "call SUCCEEDED; expected an error. output dir now holds %v", vhListTree(out))
		case expect == vhMustSucceed && err != nil:
			rep.fail(key, desc, "sanity: expected success, got %v", err)
		case expect == vhMustSucceed:
			want := map[string][]byte{}
			for _, e := range c.entries {
				want[e.name] = e.data
			}
			if layout != 0 {
				for rel, content := range d.files {
					want[rel] = content
				}
			}
			got := vhListTree(out)
			if len(got) != len(want) {
				rep.fail(key, desc, "sanity: extracted files %v, expected %d files", got, len(want))
			}
			for rel, content := range want {
				if b, readErr := os.ReadFile(filepath.Join(out, filepath.FromSlash(rel))); readErr != nil || !bytes.Equal(b, content) {
					rep.fail(key, desc, "sanity: extracted file %s differs from the archive entry (%v)", rel, readErr)
				}
			}
		}
		if err != nil {
			switch ep {
			case 2:
				if diff := vhSnapshotDiff(outBefore, vhSnapshot(out, "")); diff != "" {
					rep.fail(key, desc, "Unpack failed (%s) but the destination directory was modified: %s", vhShort(err.Error(), 100), diff)
				}
			default:
				if left := vhListTree(out); len(left) > 0 {
					rep.notePartial(key, epName, c.desc+", "+vhLayoutNames[layout], left)
					rep.fail(key, desc, "stream-partial-output: the call failed (%s) but left extracted files in the output directory: %v", vhShort(err.Error(), 80), left)
				}
			}
		}
	})
	rep.count("tar", 0)
}

// ---------------------------------------------------------------------------------------------------------------
// C. encrypted archive

type vhFrame struct {
	off, end int
	typ      byte
}

// vhParseArchive: magic, 4-byte big-endian header length, header JSON, frames of [type][4-byte length][ciphertext].
func vhParseArchive(b []byte) (headerStart, headerEnd int, frames []vhFrame, err error) {
	magic := "RTRV-PQ-ARCHIVE-v1"
	if len(b) < len(magic)+4 || string(b[:len(magic)]) != magic {
		return 0, 0, nil, errors.New("bad magic")
	}
	headerStart = len(magic) + 4
	hl := int(b[len(magic)])<<24 | int(b[len(magic)+1])<<16 | int(b[len(magic)+2])<<8 | int(b[len(magic)+3])
	headerEnd = headerStart + hl
	if headerEnd > len(b) {
		return 0, 0, nil, errors.New("bad header length")
	}
	for off := headerEnd; off < len(b); {
		if off+5 > len(b) {
			return 0, 0, nil, errors.New("short frame header")
		}
		n := int(b[off+1])<<24 | int(b[off+2])<<16 | int(b[off+3])<<8 | int(b[off+4])
		if off+5+n > len(b) {
			return 0, 0, nil, errors.New("short frame")
		}
		frames = append(frames, vhFrame{off: off, end: off + 5 + n, typ: b[off]})
		off += 5 + n
	}
	return headerStart, headerEnd, frames, nil
}

func vhWithHeader(orig []byte, headerEnd int, header []byte) []byte {
	magic := "RTRV-PQ-ARCHIVE-v1"
	out := append([]byte(nil), magic...)
	out = append(out, byte(len(header)>>24), byte(len(header)>>16), byte(len(header)>>8), byte(len(header)))
	out = append(out, header...)
	return append(out, orig[headerEnd:]...)
}

const (
	vhModePopulated = 1 << iota // Unpack, Force, destination holds files
	vhModeMissing               // Unpack, destination does not exist
	vhModeLoad                  // Load(ArchiveReader)
	vhModeStream                // UnpackEncryptedCollectionArchive, in place (failure required, leftovers recorded)
)

type vhArcCase struct {
	desc        string
	build       func() []byte
	identity    hpke.PrivateKey
	nilIdentity bool
	modes       int
}

func vhArchiveCases(arc, arc2 []byte, bound int, priv hpke.PrivateKey, rep *vhReport, sectionKey int64) []vhArcCase {
	var cases []vhArcCase
	all := vhModePopulated | vhModeMissing | vhModeLoad | vhModeStream
	headerStart, headerEnd, frames, err := vhParseArchive(arc)
	_, headerEnd2, frames2, err2 := vhParseArchive(arc2)
	if err != nil || err2 != nil || len(frames) < 3 || frames[len(frames)-1].typ != 1 {
		rep.fail(sectionKey, "archive setup", "cannot parse the archive written by the real writer: %v %v frames=%d", err, err2, len(frames))
		return nil
	}
	boundary := map[int]bool{headerStart: true, headerEnd: true}
	for _, f := range frames {
		boundary[f.off], boundary[f.end], boundary[f.off+5], boundary[f.end-1] = true, true, true, true
	}
	where := func(pos int) string {
		switch {
		case pos < 18:
			return "magic"
		case pos < headerStart:
			return "header length"
		case pos < headerEnd:
			return "header json"
		}
		for i, f := range frames {
			if pos < f.end {
				if pos < f.off+5 {
					return fmt.Sprintf("frame %d header", i)
				}
				return fmt.Sprintf("frame %d ciphertext", i)
			}
		}
		return "end"
	}
	for pos := range arc {
		for mi, mask := range vhMasks(bound) {
			pos, mask := pos, mask
			modes := vhModePopulated
			if mi == 0 || bound >= 2 {
				modes |= vhModeMissing | vhModeLoad
			}
			cases = append(cases, vhArcCase{desc: fmt.Sprintf("archive subst pos=%d xor=0x%02x (%s)", pos, mask, where(pos)), modes: modes, build: func() []byte {
				c := append([]byte(nil), arc...)
				c[pos] ^= mask
				return c
			}})
		}
	}
	for n := 0; n < len(arc); n++ {
		n := n
		modes := vhModePopulated | vhModeMissing | vhModeLoad
		if boundary[n] {
			modes |= vhModeStream
		}
		cases = append(cases, vhArcCase{desc: fmt.Sprintf("archive truncated to %d of %d bytes (%s)", n, len(arc), where(n)), modes: modes, build: func() []byte { return append([]byte{}, arc[:n]...) }})
	}
	for n := 1; n <= 16; n++ {
		for _, fill := range []byte{0x00, 0xFF} {
			n, fill := n, fill
			if fill == 0xFF && bound < 2 && n > 2 {
				continue
			}
			modes := vhModePopulated | vhModeMissing | vhModeLoad
			if n == 1 || n == 16 {
				modes |= vhModeStream
			}
			cases = append(cases, vhArcCase{desc: fmt.Sprintf("archive appended %d x 0x%02x", n, fill), modes: modes, build: func() []byte {
				return append(append([]byte(nil), arc...), bytes.Repeat([]byte{fill}, n)...)
			}})
		}
	}
	frameBytes := func(src []byte, f vhFrame) []byte { return src[f.off:f.end] }
	assemble := func(header []byte, parts ...[]byte) []byte {
		out := append([]byte(nil), header...)
		for _, p := range parts {
			out = append(out, p...)
		}
		return out
	}
	reorder := func(desc string, order []int) {
		order = append([]int(nil), order...)
		cases = append(cases, vhArcCase{desc: "archive frames " + desc, modes: all, build: func() []byte {
			var parts [][]byte
			for _, i := range order {
				parts = append(parts, frameBytes(arc, frames[i]))
			}
			return assemble(arc[:headerEnd], parts...)
		}})
	}
	identity := make([]int, len(frames))
	for i := range identity {
		identity[i] = i
	}
	last := len(frames) - 1
	for i := 0; i < len(frames); i++ {
		for j := i + 1; j < len(frames); j++ {
			order := append([]int(nil), identity...)
			order[i], order[j] = order[j], order[i]
			reorder(fmt.Sprintf("%d and %d exchanged (of %d, last is the final frame)", i, j, len(frames)), order)
		}
		dup := append(append(append([]int(nil), identity[:i+1]...), i), identity[i+1:]...)
		reorder(fmt.Sprintf("frame %d duplicated in place", i), dup)
		if i != last {
			reorder(fmt.Sprintf("frame %d duplicated just before the final frame", i), append(append(append([]int(nil), identity[:last]...), i), last))
			reorder(fmt.Sprintf("frame %d appended after the final frame", i), append(append([]int(nil), identity...), i))
		}
		reorder(fmt.Sprintf("frame %d dropped", i), append(append([]int(nil), identity[:i]...), identity[i+1:]...))
	}
	reorder("final frame moved to the front", append([]int{last}, identity[:last]...))
	reorder("reversed", vhReverse(identity))
	reorder("all dropped (header only)", nil)
	reorder("only the final frame kept", []int{last})
	// cross-archive substitution (same dump, same recipient key, other encryption session)
	cases = append(cases, vhArcCase{desc: "archive header of a second archive of the same dump, frames of the first", modes: all, build: func() []byte {
		return assemble(arc2[:headerEnd2], arc[headerEnd:])
	}})
	cases = append(cases, vhArcCase{desc: "archive header of the first, frames of a second archive of the same dump", modes: all, build: func() []byte {
		return assemble(arc[:headerEnd], arc2[headerEnd2:])
	}})
	if len(frames2) == len(frames) {
		for i := range frames {
			i := i
			cases = append(cases, vhArcCase{desc: fmt.Sprintf("archive frame %d substituted by frame %d of a second archive of the same dump", i, i), modes: all, build: func() []byte {
				return assemble(arc[:frames[i].off], frameBytes(arc2, frames2[i]), arc[frames[i].end:])
			}})
		}
	}
	// header re-encodings (same meaning or small field edits, different bytes)
	header := arc[headerStart:headerEnd]
	reencode := func(desc string, f func(m map[string]any)) {
		cases = append(cases, vhArcCase{desc: "archive header " + desc, modes: all, build: func() []byte {
			var m map[string]any
			dec := json.NewDecoder(bytes.NewReader(header))
			dec.UseNumber()
			_ = dec.Decode(&m)
			f(m)
			b, _ := json.MarshalIndent(m, "", " ")
			return vhWithHeader(arc, headerEnd, b)
		}})
	}
	reencode("re-encoded with indentation and sorted keys (same meaning)", func(m map[string]any) {})
	reencode("with an extra field", func(m map[string]any) { m["comment"] = "x" })
	reencode("chunk_size 1048577", func(m map[string]any) { m["chunk_size"] = 1048577 })
	reencode("format changed", func(m map[string]any) { m["format"] = "retriever-encrypted-tar-v2" })
	reencode("archive.compression gzip", func(m map[string]any) { m["archive"].(map[string]any)["compression"] = "gzip" })
	reencode("crypto.aead ChaCha20Poly1305", func(m map[string]any) { m["crypto"].(map[string]any)["aead"] = "ChaCha20Poly1305" })
	reencode("crypto.kem ML-KEM-768", func(m map[string]any) { m["crypto"].(map[string]any)["kem"] = "ML-KEM-768" })
	reencode("encapsulated_key emptied", func(m map[string]any) { m["crypto"].(map[string]any)["encapsulated_key"] = "" })
	reencode("encapsulated_key not base64", func(m map[string]any) { m["crypto"].(map[string]any)["encapsulated_key"] = "@@@@" })
	reencode("encapsulated_key truncated", func(m map[string]any) {
		c := m["crypto"].(map[string]any)
		c["encapsulated_key"] = c["encapsulated_key"].(string)[:64]
	})
	cases = append(cases, vhArcCase{desc: "archive header followed by a space (length field adjusted)", modes: all, build: func() []byte {
		return vhWithHeader(arc, headerEnd, append(append([]byte(nil), header...), ' '))
	}})
	cases = append(cases, vhArcCase{desc: "archive empty", modes: all, build: func() []byte { return []byte{} }})
	cases = append(cases, vhArcCase{desc: "archive replaced by 1024 zero bytes", modes: all, build: func() []byte { return bytes.Repeat([]byte{0}, 1024) }})
	// keys
	whole := func() []byte { return arc }
	if wrong, err := defaultArchiveKEM().GenerateKey(); err == nil {
		cases = append(cases, vhArcCase{desc: "key: another freshly generated ML-KEM-1024 private key", modes: all, build: whole, identity: wrong})
	}
	if k, err := hpke.MLKEM768().GenerateKey(); err == nil {
		cases = append(cases, vhArcCase{desc: "key: ML-KEM-768 private key (foreign KEM)", modes: all, build: whole, identity: k})
	}
	if k, err := hpke.DHKEM(ecdh.X25519()).GenerateKey(); err == nil {
		cases = append(cases, vhArcCase{desc: "key: DHKEM X25519 private key (foreign KEM)", modes: all, build: whole, identity: k})
	}
	if k, err := hpke.MLKEM1024P384().GenerateKey(); err == nil {
		cases = append(cases, vhArcCase{desc: "key: hybrid ML-KEM-1024+P-384 private key (foreign KEM)", modes: all, build: whole, identity: k})
	}
	cases = append(cases, vhArcCase{desc: "key: nil identity", modes: all, build: whole, nilIdentity: true})
	// private key envelope: every single-byte substitution and truncation of the key file
	var envelope bytes.Buffer
	origKeyBytes, _ := priv.Bytes()
	if err := WriteArchivePrivateKey(&envelope, priv); err != nil {
		rep.fail(sectionKey, "archive setup", "cannot write the private key envelope: %v", err)
		return cases
	}
	env := envelope.Bytes()
	if k, err := ReadArchivePrivateKey(bytes.NewReader(env)); err != nil {
		rep.fail(sectionKey, "key envelope unmodified", "sanity: cannot read back the private key envelope: %v", err)
	} else if kb, _ := k.Bytes(); !bytes.Equal(kb, origKeyBytes) {
		rep.fail(sectionKey, "key envelope unmodified", "sanity: envelope round trip changed the key")
	}
	tryKey := func(desc string, mutated []byte) {
		var key hpke.PrivateKey
		err, abnormal := vhGuard(10*time.Second, func() error {
			var e error
			key, e = ReadArchivePrivateKey(bytes.NewReader(mutated))
			return e
		})
		rep.count("archive", 1)
		switch {
		case abnormal != "":
			rep.fail(sectionKey, desc, "ReadArchivePrivateKey did not return normally: %s", abnormal)
		case err != nil || key == nil:
			// malformed key refused at parse time
		default:
			// "the matching private key" is any private key whose public key is the recipient the archive was
			// sealed to (an ML-KEM seed is d||z; z, the implicit-rejection secret, does not enter the public key)
			if key.KEM().ID() == priv.KEM().ID() && bytes.Equal(key.PublicKey().Bytes(), priv.PublicKey().Bytes()) {
				if kb, bytesErr := key.Bytes(); bytesErr == nil && bytes.Equal(kb, origKeyBytes) {
					rep.noteBenign("(key envelope, same key material)")
				} else {
					rep.noteBenign("(key envelope, other private bytes but same public key)")
				}
				return
			}
			cases = append(cases, vhArcCase{desc: desc + " (parses to a key with a different public key)", modes: vhModePopulated, build: whole, identity: key})
		}
	}
	for pos := range env {
		for _, mask := range vhMasks(bound) {
			c := append([]byte(nil), env...)
			c[pos] ^= mask
			tryKey(fmt.Sprintf("key envelope subst pos=%d xor=0x%02x", pos, mask), c)
		}
	}
	for n := 0; n < len(env); n++ {
		tryKey(fmt.Sprintf("key envelope truncated to %d of %d bytes", n, len(env)), env[:n])
	}
	return cases
}

func vhArchiveSection(base string, bound int, seed int64, rep *vhReport, sectionKey int64, d *vhDump, priv hpke.PrivateKey, pub hpke.PublicKey) {
	dumpDir := filepath.Join(base, "archive", "dump")
	if err := vhWriteTree(dumpDir, d.files); err != nil {
		rep.fail(sectionKey, "archive setup", "cannot write dump: %v", err)
		return
	}
	var buf, buf2 bytes.Buffer
	if err := WriteEncryptedCollectionArchive(&buf, dumpDir, pub); err != nil {
		rep.fail(sectionKey, "archive setup", "real writer failed: %v", err)
		return
	}
	if err := WriteEncryptedCollectionArchive(&buf2, dumpDir, pub); err != nil {
		rep.fail(sectionKey, "archive setup", "real writer failed: %v", err)
		return
	}
	arc, arc2 := buf.Bytes(), buf2.Bytes()
	tag := "archive codec=" + string(d.codec) + " "
	keep := map[string][]byte{"keep.txt": []byte("keep me"), "sub/keep2.txt": []byte("keep me too")}
	loadArchive := func(data []byte, id hpke.PrivateKey) (error, string, []string, LoadResult) {
		db := vhNewDB()
		var res LoadResult
		err, abnormal := vhGuard(30*time.Second, func() error {
			var e error
			res, e = Load(context.Background(), db, "pg", LoadOptions{ArchiveReader: bytes.NewReader(data), ArchiveIdentity: id, BatchSize: 2})
			return e
		})
		return err, abnormal, db.snapshotWrites(), res
	}
	sameAsDump := func(dir string) string {
		got := vhListTree(dir)
		if len(got) != len(d.files) {
			return fmt.Sprintf("files %v, expected %d files", got, len(d.files))
		}
		for rel, content := range d.files {
			if b, err := os.ReadFile(filepath.Join(dir, filepath.FromSlash(rel))); err != nil || !bytes.Equal(b, content) {
				return "file " + rel + " differs"
			}
		}
		return ""
	}
	// sanity: the unmodified archive opens through every entry point
	{
		root := filepath.Join(base, "archive", "sanity")
		rep.count("archive", 4)
		out := filepath.Join(root, "populated", "out")
		_ = vhWriteTree(out, keep)
		if err, ab := vhGuard(30*time.Second, func() error {
			return Unpack(UnpackOptions{ArchiveReader: bytes.NewReader(arc), ArchiveIdentity: priv, OutputDir: out, Force: true})
		}); err != nil || ab != "" {
			rep.fail(sectionKey, tag+"unmodified", "sanity: Unpack(Force, populated) failed: %v %s", err, ab)
		} else if diff := sameAsDump(out); diff != "" {
			rep.fail(sectionKey, tag+"unmodified", "sanity: Unpack(Force, populated) result: %s", diff)
		} else if left := vhListTree(filepath.Join(root, "populated")); len(left) != len(d.files) {
			rep.fail(sectionKey, tag+"unmodified", "sanity: Unpack left extra files beside the destination: %v", left)
		}
		out = filepath.Join(root, "missing", "out")
		_ = os.MkdirAll(filepath.Dir(out), 0o755)
		if err, ab := vhGuard(30*time.Second, func() error {
			return Unpack(UnpackOptions{ArchiveReader: bytes.NewReader(arc), ArchiveIdentity: priv, OutputDir: out})
		}); err != nil || ab != "" {
			rep.fail(sectionKey, tag+"unmodified", "sanity: Unpack(missing destination) failed: %v %s", err, ab)
		} else if diff := sameAsDump(out); diff != "" {
			rep.fail(sectionKey, tag+"unmodified", "sanity: Unpack(missing destination) result: %s", diff)
		}
		out = filepath.Join(root, "stream", "out")
		if err, ab := vhGuard(30*time.Second, func() error { return UnpackEncryptedCollectionArchive(bytes.NewReader(arc), out, priv) }); err != nil || ab != "" {
			rep.fail(sectionKey, tag+"unmodified", "sanity: UnpackEncryptedCollectionArchive failed: %v %s", err, ab)
		} else if diff := sameAsDump(out); diff != "" {
			rep.fail(sectionKey, tag+"unmodified", "sanity: UnpackEncryptedCollectionArchive result: %s", diff)
		}
		if err, ab, writes, res := loadArchive(arc, priv); err != nil || ab != "" || len(writes) != 5*len(d.manifest.Graphs) {
			rep.fail(sectionKey, tag+"unmodified", "sanity: Load(ArchiveReader) err=%v %s writes=%d result=%+v", err, ab, len(writes), res)
		}
	}
	cases := vhArchiveCases(arc, arc2, bound, priv, rep, sectionKey)
	type eval struct{ c, mode int }
	var evals []eval
	for ci, c := range cases {
		for _, mode := range []int{vhModePopulated, vhModeMissing, vhModeLoad, vhModeStream} {
			if c.modes&mode != 0 {
				evals = append(evals, eval{ci, mode})
			}
		}
	}
	type state struct {
		root     string
		popBase  map[string]string
		missBase map[string]string
	}
	resetPopulated := func(st *state) {
		p := filepath.Join(st.root, "populated")
		_ = os.RemoveAll(p)
		_ = vhWriteTree(filepath.Join(p, "out"), keep)
		st.popBase = vhSnapshot(p, "")
	}
	resetMissing := func(st *state) {
		p := filepath.Join(st.root, "missing")
		_ = os.RemoveAll(p)
		_ = os.MkdirAll(p, 0o755)
		st.missBase = vhSnapshot(p, "")
	}
	vhParallel(len(evals), seed, func(w int) *state {
		st := &state{root: filepath.Join(base, "archive", fmt.Sprintf("w%d", w))}
		resetPopulated(st)
		resetMissing(st)
		return st
	}, func(st *state, i int) {
		ev := evals[i]
		c := cases[ev.c]
		key := sectionKey + 1 + int64(i)
		data := c.build()
		id := priv
		if c.identity != nil {
			id = c.identity
		}
		if c.nilIdentity {
			id = nil
		}
		rep.count("archive", 1)
		switch ev.mode {
		case vhModePopulated, vhModeMissing:
			parent := filepath.Join(st.root, "populated")
			baseSnap := st.popBase
			epName := "Unpack(Force, populated destination)"
			force := true
			if ev.mode == vhModeMissing {
				parent, baseSnap, epName, force = filepath.Join(st.root, "missing"), st.missBase, "Unpack(missing destination)", false
			}
			desc := tag + epName + " | " + c.desc
			out := filepath.Join(parent, "out")
			err, abnormal := vhGuard(30*time.Second, func() error {
				return Unpack(UnpackOptions{ArchiveReader: bytes.NewReader(data), ArchiveIdentity: id, OutputDir: out, Force: force})
			})
			dirty := false
			if abnormal != "" {
				rep.fail(key, desc, "did not return normally: %s", abnormal)
				dirty = true
			} else if err == nil {
				rep.fail(key, desc, "archive OPENED (nil error); expected an error. destination now holds %v", vhListTree(out))
				dirty = true
			}
			if diff := vhSnapshotDiff(baseSnap, vhSnapshot(parent, "")); diff != "" {
				if err != nil {
					rep.fail(key, desc, "failed (%s) but the destination or its parent directory changed: %s", vhShort(err.Error(), 100), diff)
				}
				dirty = true
			}
			if dirty {
				if ev.mode == vhModeMissing {
					resetMissing(st)
				} else {
					resetPopulated(st)
				}
			}
		case vhModeLoad:
			desc := tag + "Load(ArchiveReader) | " + c.desc
			err, abnormal, writes, res := loadArchive(data, id)
			switch {
			case abnormal != "":
				rep.fail(key, desc, "did not return normally: %s", abnormal)
			case err == nil:
				rep.fail(key, desc, "Load ACCEPTED the archive (nil error, %d mutating calls, result %+v)", len(writes), res)
			case len(writes) > 0:
				rep.fail(key, desc, "Load failed (%s) only AFTER %d mutating calls, first %q", vhShort(err.Error(), 100), len(writes), writes[0])
			}
		case vhModeStream:
			parent := filepath.Join(st.root, "stream")
			_ = os.RemoveAll(parent)
			_ = vhWriteTree(filepath.Join(parent, "outside"), vhSentinels)
			out := filepath.Join(parent, "out")
			before := vhSnapshot(parent, out)
			desc := tag + "UnpackEncryptedCollectionArchive(stream, in place) | " + c.desc
			err, abnormal := vhGuard(30*time.Second, func() error { return UnpackEncryptedCollectionArchive(bytes.NewReader(data), out, id) })
			switch {
			case abnormal != "":
				rep.fail(key, desc, "did not return normally: %s", abnormal)
			case err == nil:
				rep.fail(key, desc, "archive OPENED (nil error); expected an error. output dir holds %v", vhListTree(out))
			default:
				if left := vhListTree(out); len(left) > 0 {
					rep.notePartial(key, "UnpackEncryptedCollectionArchive(stream, in place) codec="+string(d.codec), c.desc, left)
					rep.fail(key, desc, "stream-partial-output: the call failed (%s) but left extracted files in the output directory: %v", vhShort(err.Error(), 80), left)
				}
			}
			if diff := vhSnapshotDiff(before, vhSnapshot(parent, out)); diff != "" {
				rep.fail(key, desc, "something outside the output directory changed: %s", diff)
			}
		}
	})
	// Load(ArchiveReader) unpacks into $TMPDIR: nothing may be left behind
	rep.count("archive", 1)
	if entries, err := os.ReadDir(os.TempDir()); err == nil && len(entries) > 0 {
		var names []string
		for _, e := range entries {
			names = append(names, e.Name())
		}
		if len(names) > 5 {
			names = append(names[:5], fmt.Sprintf("... %d more", len(names)-5))
		}
		rep.fail(sectionKey+int64(len(evals))+2, tag+"Load(ArchiveReader) sweep", "temporary directories left behind in $TMPDIR after the failed loads: %v", names)
	}
}

// ---------------------------------------------------------------------------------------------------------------

func TestVerifBoundedHostileInput(t *testing.T) {
	bound := 1
	if os.Getenv("VERIF_BOUND") == "2" {
		bound = 2
	}
	seed, _ := strconv.ParseInt(os.Getenv("VERIF_SEED"), 10, 64)
	previous := slog.Default()
	slog.SetDefault(slog.New(slog.NewTextHandler(io.Discard, &slog.HandlerOptions{Level: slog.Level(100)})))
	defer slog.SetDefault(previous)

	// scratch space: tmpfs when there is one (the sweeps are dominated by mkdir/rename/unlink), else t.TempDir()
	base := t.TempDir()
	if shm, err := os.MkdirTemp("/dev/shm", "verif-c20-*"); err == nil {
		base = shm
		defer os.RemoveAll(shm)
	}
	systmp := filepath.Join(base, "systmp")
	_ = os.MkdirAll(systmp, 0o755)
	t.Setenv("TMPDIR", systmp)

	rep := &vhReport{sections: map[string]int{}, benignByKey: map[string]int{}}
	started := time.Now()
	timings := map[string]string{}

	// A
	sectionStart := time.Now()
	vhLoadSection(base, bound, seed, rep, 1_000_000_000)
	timings["load"] = time.Since(sectionStart).Round(time.Millisecond).String()

	// B and C share a key pair and the gzip dump (bound 2: C for every codec)
	// the recipient key pair is derived from a fixed seed (so that the key-envelope sweep is the same on every run);
	// encapsulation stays random, the archive bytes differ from run to run but not their structure or size
	keySeed := make([]byte, 64)
	for i := range keySeed {
		keySeed[i] = byte(7*i + 3)
	}
	priv, err := defaultArchiveKEM().NewPrivateKey(keySeed)
	if err != nil {
		rep.fail(0, "setup", "derive ML-KEM-1024 key pair: %v", err)
	} else {
		pub := priv.PublicKey()
		graphs := 1
		codecs := []CompressionCodec{CompressionGzip}
		if bound >= 2 {
			graphs = 2
			codecs = []CompressionCodec{CompressionGzip, CompressionNone, CompressionZstd}
		}
		for ci, codec := range codecs {
			dir := filepath.Join(base, "arcdump-"+string(codec))
			_ = os.MkdirAll(filepath.Join(dir, "scratch"), 0o755)
			d, err := vhBuildDump(filepath.Join(dir, "dump"), filepath.Join(dir, "scratch"), codec, graphs)
			if err != nil {
				rep.fail(0, "setup", "cannot build dump for the archive sections: %v", err)
				continue
			}
			if ci == 0 {
				sectionStart = time.Now()
				vhTarSection(base, bound, seed, rep, 2_000_000_000, d, priv, pub)
				timings["tar"] = time.Since(sectionStart).Round(time.Millisecond).String()
			}
			sectionStart = time.Now()
			vhArchiveSection(filepath.Join(base, "c-"+string(codec)), bound, seed, rep, 3_000_000_000+int64(ci)*100_000_000, d, priv, pub)
			timings["archive-"+string(codec)] = time.Since(sectionStart).Round(time.Millisecond).String()
		}
	}

	failures := vhSortedNotes(rep.failures, 5)
	boundText := "codecs none+gzip, 1 graph (3 nodes in 2 fragments, 2 edges in 1 fragment), xor masks 01/20/ff: every byte substitution and truncation of every fragment, of manifest.json, of the encrypted archive (gzip dump) and of the private key envelope; manifest field edits; hostile tar table x 3 layouts x 4 entry points; archive frame swaps/duplications/drops/splices, header re-encodings, wrong keys"
	if bound >= 2 {
		boundText = "codecs none+gzip+zstd, 2 graphs (each 3 nodes in 2 fragments, 2 edges in 1 fragment), xor masks 01/20/ff/80/04: every byte substitution and truncation of every fragment, of manifest.json, of the encrypted archive of each codec's dump (every mask also into a missing destination and through Load(ArchiveReader)) and of the private key envelope; manifest field edits; hostile tar table x 3 layouts x 4 entry points; archive frame swaps/duplications/drops/splices, header re-encodings, wrong keys"
	}
	res := map[string]any{
		"name":                               "hostile-input",
		"bound":                              boundText,
		"cases":                              rep.cases,
		"exhaustive":                         true,
		"failures":                           failures,
		"failure_count":                      len(rep.failures),
		"sections":                           rep.sections,
		"benign":                             rep.benign,
		"benign_by_manifest_key":             rep.benignByKey,
		"known_deviations_observed":          vhSortedNotes(rep.known, 40),
		"known_deviations_observed_count":    len(rep.known),
		"known_deviation_hits":               vhKnownHits(rep.known),
		"partial_output_after_failure":       rep.partialGroups(),
		"partial_output_after_failure_count": len(rep.partial),
	}
	out, _ := json.Marshal(res)
	fmt.Println("BOUNDED-RESULT " + string(out))
	if os.Getenv("VERIF_C20_ALL") != "" { // triage aid: every failure and known deviation, one per line
		for _, line := range vhSortedNotes(rep.failures, 0) {
			fmt.Println("VH-FAILURE " + line)
		}
		for _, line := range vhSortedNotes(rep.known, 0) {
			fmt.Println("VH-KNOWN " + line)
		}
	}
	t.Logf("wall %s, sections %v", time.Since(started).Round(time.Millisecond), timings)
	if len(rep.failures) > 0 {
		t.Fail()
	}
}

func vhKnownHits(notes []vhNote) map[string]int {
	out := map[string]int{}
	for _, n := range notes {
		for _, p := range vhKnownDeviations {
			if strings.Contains(n.text, p) {
				out[p]++
				break
			}
		}
	}
	return out
}
