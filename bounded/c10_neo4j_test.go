package neo4j

// Bounded stand-in for C10 on the Neo4j query-builder path (labelled bounded, never counted as proved).
//
// WHAT IS ENUMERATED. Criteria trees assembled with the public combinators query.And / query.Or / query.Xor /
// query.Not (every operator with 1..3 operands - 1..4 at bound 2 -, every nesting, Not around every node) up to
// depth 3 (depth = number of combinator nodes on the longest path from the root to a leaf):
//
//	N1  every shape with <= 3 leaves (<= 4 at bound 2), leaves labelled left to right with distinct plain
//	    comparison atoms (n.a = 1, n.b = "x", n.a > 2, n.c <= 2.5).
//	N2  shapes with few leaves x labellings from a palette of 17 atoms that the prepare-time rewriters touch:
//	    query.Kind / KindIn with one and several kinds, the all-of matcher cypher.NewKindMatcher(.., true), the
//	    string predicates StringContains / StartsWith / EndsWith / CaseInsensitiveStringContains (whose negation
//	    the string negation rewrite guards with "is null"), In, InIDs, IsNull, IsNotNull.
//	N3  the same shapes with two more node constructors taken from the cypher model: a bare
//	    cypher.NewDisjunction(...) and an explicit &cypher.Parenthetical{...} (nested parentheticals).
//	R   relationship queries: trees over r.a = 1, s.b = "x", e.c = true, r.s contains "x" and the kind matchers
//	    query.Kind(query.Relationship(), ..) / KindIn(..), query.Kind(query.Start(), ..) - the rewriter hoists
//	    relationship kind matchers out of the predicate into the match pattern.
//
// For every tree the query `match (n) where <criteria> return n` (`return r` in family R) is built exactly as the
// package's own tests do - NewQueryBuilder(query.SinglePartQuery(query.Where(c), query.Returning(..))) - then
// Prepare() and Render(); the text is parsed with frontend.ParseCypher.
//
// ORACLE (from the property statement, not from the code): the text Neo4j receives must ask the question the
// model built by the caller asks. Both sides are evaluated as boolean functions over ALL assignments of the atoms
// and the two truth tables must be equal:
//   - built side: this file's own evaluator over this file's own tree (And = all, Or = any, Xor = parity,
//     Not = complement; Kind/KindIn = any-of, NewKindMatcher(.., true) = all-of);
//   - parsed side: walk of the parsed model (Conjunction / Disjunction / ExclusiveDisjunction / Negation /
//     Parenthetical / Comparison / KindMatcher, plus the kinds of the match pattern, which constrain the row just
//     like a conjunct); every comparison is mapped back to an atom by operand, operator and the VALUE its $pN
//     parameter is bound to in QueryBuilder.Parameters; every kind test by variable and kind.
//
// Assignments: one boolean per comparison atom, one per (variable, kind), and one "is null" flag per property
// that occurs in a string predicate or null test. A string predicate on a null property is false, `p is null`
// is the flag (this is what makes `not (p contains x)` and `(not (p contains x) or p is null)` the same
// question, and nothing else). A relationship has exactly one type: assignments giving r two kinds are skipped.
//
// Also checked for every tree: the text parses; it has the single match / single where / return shape and its
// pattern binds every variable that is used; every $pN of the text is bound in Parameters, every bound parameter
// is used exactly once and the bound values are exactly the values handed to the constructors; Prepare + Render
// twice give the same text; a second builder fed the same criteria through NewEmptyQueryBuilder + Apply gives
// the same text; the criteria tree handed in is not changed (compared with reflect.DeepEqual against an
// independently built twin).
//
// VERIF_BOUND: "1" (default, quick) or "2" (thorough: 4 leaves / 4 operands in N1, full palettes in N2 and R).
// VERIF_SEED only permutes the enumeration order.

import (
	"encoding/json"
	"fmt"
	"math/bits"
	"math/rand"
	"os"
	"reflect"
	"runtime"
	"sort"
	"strconv"
	"strings"
	"sync"
	"sync/atomic"
	"testing"
	"time"

	"github.com/specterops/dawgs/cypher/frontend"
	"github.com/specterops/dawgs/cypher/models/cypher"
	"github.com/specterops/dawgs/graph"
	"github.com/specterops/dawgs/query"
)

// knownDeviations lists classes of inputs for which the UNCHANGED code violates the truth-table oracle. The check
// is not weakened: inputs of these classes are still evaluated, a mismatch is counted under "known_deviations" in
// the result line instead of "failures", and every other check still applies to them. Every input outside these
// classes is fully checked. (Reported for triage as candidate genuine defects.)
//
//	rel-kind-hoisted-from-disjunction: a relationship kind matcher (query.Kind(query.Relationship(), K)) that is
//	    not below a Not but is an operand - at any depth - of an Or / Xor / bare Disjunction with two or more
//	    operands. ExpressionListRewriter moves it into the match pattern, which turns "K or x" into "K and x":
//	    query.Or(query.Kind(query.Relationship(), A), query.Equals(query.RelationshipProperty("a"), 1)) renders
//	    as `match ()-[r:A]->() where (r.a = $p0) return r`.
//	rel-kinds-merged: two or more relationship kind matchers that are not below a Not. All hoisted matchers are
//	    appended to ONE pattern kind list, which means any-of: query.And(query.Kind(r, A), query.Kind(r, B))
//	    (no relationship satisfies it) renders as `match ()-[r:A|B]->() return r` (type A or type B).
var knownClassNames = []string{
	"rel-kind-hoisted-from-disjunction",
	"rel-kinds-merged",
}

// the classes that are actually suppressed come from /verif/known_findings.json through VERIF_KNOWN
var knownDeviations = func() []string {
	out := []string{"", ""}
	for _, p := range strings.Split(os.Getenv("VERIF_KNOWN"), "|") {
		for i, n := range knownClassNames {
			if strings.TrimSpace(p) == n {
				out[i] = n
			}
		}
	}
	return out
}()

// ---------------------------------------------------------------------------------------------------------------
// atoms

type nbSem int

const (
	nbPlain   nbSem = iota // value = its own boolean
	nbString               // value = its own boolean and the operand is not null
	nbIsNull               // value = the null flag of the operand
	nbNotNull              // value = complement of the null flag
	nbKindAny              // any of the kinds
	nbKindAll              // all of the kinds
)

type nbAtom struct {
	src     string   // Go source, for replay
	sem     nbSem    //
	vars    []string // nbPlain/nbString: [key]; kinds: one per kind "<var>:<kind>"
	null    string   // nbString / nbIsNull / nbNotNull: "null:<property>"
	param   string   // "%T:%v" of the parameter value handed in ("" when the atom has no parameter)
	relKind bool     // kind matcher on the relationship variable
	mk      func() graph.Criteria
}

var (
	nbA = graph.StringKind("A")
	nbB = graph.StringKind("B")
	nbC = graph.StringKind("C")
)

func nbVal(v any) string { return fmt.Sprintf("%T:%v", v, v) }

func nbCmpAtom(src, lhs, op string, value any, mk func() graph.Criteria) nbAtom {
	return nbAtom{src: src, sem: nbPlain, vars: []string{lhs + " " + op + " " + nbVal(value)}, param: nbVal(value), mk: mk}
}

func nbStrAtom(src, lhs, prop, op string, value string, mk func() graph.Criteria) nbAtom {
	return nbAtom{src: src, sem: nbString, vars: []string{lhs + " " + op + " " + nbVal(value)}, null: "null:" + prop, param: nbVal(value), mk: mk}
}

func nbKindAtom(src, ref string, sem nbSem, mk func() graph.Criteria, kinds ...string) nbAtom {
	a := nbAtom{src: src, sem: sem, relKind: ref == "r", mk: mk}
	for _, k := range kinds {
		a.vars = append(a.vars, ref+":"+k)
	}
	return a
}

// palette of the node family; 0..3 are the plain atoms
var nbNodePalette = []nbAtom{
	nbCmpAtom(`query.Equals(query.NodeProperty("a"), 1)`, "n.a", "=", 1, func() graph.Criteria { return query.Equals(query.NodeProperty("a"), 1) }),
	nbCmpAtom(`query.Equals(query.NodeProperty("b"), "x")`, "n.b", "=", "x", func() graph.Criteria { return query.Equals(query.NodeProperty("b"), "x") }),
	nbCmpAtom(`query.GreaterThan(query.NodeProperty("a"), 2)`, "n.a", ">", 2, func() graph.Criteria { return query.GreaterThan(query.NodeProperty("a"), 2) }),
	nbCmpAtom(`query.LessThanOrEquals(query.NodeProperty("c"), 2.5)`, "n.c", "<=", 2.5, func() graph.Criteria { return query.LessThanOrEquals(query.NodeProperty("c"), 2.5) }),
	// 4..8 kinds
	nbKindAtom(`query.Kind(query.Node(), A)`, "n", nbKindAny, func() graph.Criteria { return query.Kind(query.Node(), nbA) }, "A"),
	nbKindAtom(`query.Kind(query.Node(), A, B)`, "n", nbKindAny, func() graph.Criteria { return query.Kind(query.Node(), nbA, nbB) }, "A", "B"),
	nbKindAtom(`query.KindIn(query.Node(), B)`, "n", nbKindAny, func() graph.Criteria { return query.KindIn(query.Node(), nbB) }, "B"),
	nbKindAtom(`query.KindIn(query.Node(), B, C)`, "n", nbKindAny, func() graph.Criteria { return query.KindIn(query.Node(), nbB, nbC) }, "B", "C"),
	nbKindAtom(`cypher.NewKindMatcher(query.Node(), graph.Kinds{A, C}, true)`, "n", nbKindAll, func() graph.Criteria { return cypher.NewKindMatcher(query.Node(), graph.Kinds{nbA, nbC}, true) }, "A", "C"),
	// 9..12 string predicates
	nbStrAtom(`query.StringContains(query.NodeProperty("s"), "x")`, "n.s", "n.s", "contains", "x", func() graph.Criteria { return query.StringContains(query.NodeProperty("s"), "x") }),
	nbStrAtom(`query.StringStartsWith(query.NodeProperty("s"), "y")`, "n.s", "n.s", "starts with", "y", func() graph.Criteria { return query.StringStartsWith(query.NodeProperty("s"), "y") }),
	nbStrAtom(`query.StringEndsWith(query.NodeProperty("t"), "z")`, "n.t", "n.t", "ends with", "z", func() graph.Criteria { return query.StringEndsWith(query.NodeProperty("t"), "z") }),
	nbStrAtom(`query.CaseInsensitiveStringContains(query.NodeProperty("s"), "q")`, "toLower(n.s)", "n.s", "contains", "q", func() graph.Criteria { return query.CaseInsensitiveStringContains(query.NodeProperty("s"), "q") }),
	// 13..14 in-list
	nbCmpAtom(`query.In(query.NodeProperty("d"), []int{1, 2})`, "n.d", "in", []int{1, 2}, func() graph.Criteria { return query.In(query.NodeProperty("d"), []int{1, 2}) }),
	nbCmpAtom(`query.InIDs(query.Node(), 1, 2)`, "id(n)", "in", []graph.ID{1, 2}, func() graph.Criteria { return query.InIDs(query.Node(), 1, 2) }),
	// 15..16 null tests
	{src: `query.IsNull(query.NodeProperty("s"))`, sem: nbIsNull, null: "null:n.s", mk: func() graph.Criteria { return query.IsNull(query.NodeProperty("s")) }},
	{src: `query.IsNotNull(query.NodeProperty("t"))`, sem: nbNotNull, null: "null:n.t", mk: func() graph.Criteria { return query.IsNotNull(query.NodeProperty("t")) }},
}

// palette of the relationship family; 0..3 are the reduced palette
var nbRelPalette = []nbAtom{
	nbCmpAtom(`query.Equals(query.RelationshipProperty("a"), 1)`, "r.a", "=", 1, func() graph.Criteria { return query.Equals(query.RelationshipProperty("a"), 1) }),
	nbKindAtom(`query.Kind(query.Relationship(), A)`, "r", nbKindAny, func() graph.Criteria { return query.Kind(query.Relationship(), nbA) }, "A"),
	nbKindAtom(`query.KindIn(query.Relationship(), A, B)`, "r", nbKindAny, func() graph.Criteria { return query.KindIn(query.Relationship(), nbA, nbB) }, "A", "B"),
	nbKindAtom(`query.Kind(query.Start(), C)`, "s", nbKindAny, func() graph.Criteria { return query.Kind(query.Start(), nbC) }, "C"),
	nbKindAtom(`query.Kind(query.Relationship(), B)`, "r", nbKindAny, func() graph.Criteria { return query.Kind(query.Relationship(), nbB) }, "B"),
	nbCmpAtom(`query.Equals(query.StartProperty("b"), "x")`, "s.b", "=", "x", func() graph.Criteria { return query.Equals(query.StartProperty("b"), "x") }),
	nbCmpAtom(`query.Equals(query.EndProperty("c"), true)`, "e.c", "=", true, func() graph.Criteria { return query.Equals(query.EndProperty("c"), true) }),
	nbStrAtom(`query.StringContains(query.RelationshipProperty("s"), "x")`, "r.s", "r.s", "contains", "x", func() graph.Criteria { return query.StringContains(query.RelationshipProperty("s"), "x") }),
	nbKindAtom(`query.KindIn(query.End(), A, B)`, "e", nbKindAny, func() graph.Criteria { return query.KindIn(query.End(), nbA, nbB) }, "A", "B"),
}

// ---------------------------------------------------------------------------------------------------------------
// shapes

const (
	nbLeaf  = 'L'
	nbNot   = '!'
	nbAnd   = '&'
	nbOr    = '|'
	nbXor   = '^'
	nbRawOr = 'o' // cypher.NewDisjunction
	nbParen = '(' // &cypher.Parenthetical{}
)

type nbShape struct {
	op   byte
	kids []*nbShape
	n    int  // leaves
	raw  bool // contains a raw model constructor
}

type nbShapes struct {
	unary  []byte
	nary   []byte
	arity  int
	memo   map[[2]int][]*nbShape
	leaf   *nbShape
	random *rand.Rand
}

func nbNewShapes(unary, nary []byte, arity int, seed int64) *nbShapes {
	return &nbShapes{unary: unary, nary: nary, arity: arity, memo: map[[2]int][]*nbShape{}, leaf: &nbShape{op: nbLeaf, n: 1}, random: rand.New(rand.NewSource(seed))}
}

// compositions of k into m positive parts
func nbCompositions(k, m int) [][]int {
	if m == 1 {
		return [][]int{{k}}
	}
	var out [][]int
	for first := 1; first <= k-(m-1); first++ {
		for _, rest := range nbCompositions(k-first, m-1) {
			out = append(out, append([]int{first}, rest...))
		}
	}
	return out
}

// each calls f for every shape of depth <= d with exactly k leaves (the lists of depth d-1 are materialised, the
// top level is streamed)
func (s *nbShapes) each(d, k int, f func(*nbShape)) {
	if k == 1 {
		f(s.leaf)
	}
	if d == 0 {
		return
	}
	for _, op := range s.unary {
		for _, kid := range s.list(d-1, k) {
			f(&nbShape{op: op, kids: []*nbShape{kid}, n: k, raw: kid.raw || op == nbParen})
		}
	}
	for _, op := range s.nary {
		for m := 1; m <= s.arity && m <= k; m++ {
			for _, comp := range nbCompositions(k, m) {
				lists := make([][]*nbShape, m)
				empty := false
				for i, part := range comp {
					lists[i] = s.list(d-1, part)
					empty = empty || len(lists[i]) == 0
				}
				if empty {
					continue
				}
				idx := make([]int, m)
				for {
					kids := make([]*nbShape, m)
					raw := op == nbRawOr
					for i := range idx {
						kids[i] = lists[i][idx[i]]
						raw = raw || kids[i].raw
					}
					f(&nbShape{op: op, kids: kids, n: k, raw: raw})
					pos := m - 1
					for pos >= 0 {
						idx[pos]++
						if idx[pos] < len(lists[pos]) {
							break
						}
						idx[pos] = 0
						pos--
					}
					if pos < 0 {
						break
					}
				}
			}
		}
	}
}

func (s *nbShapes) list(d, k int) []*nbShape {
	key := [2]int{d, k}
	if l, ok := s.memo[key]; ok {
		return l
	}
	var out []*nbShape
	s.each(d, k, func(sh *nbShape) { out = append(out, sh) })
	// VERIF_SEED: permute the order only
	s.random.Shuffle(len(out), func(i, j int) { out[i], out[j] = out[j], out[i] })
	s.memo[key] = out
	return out
}

// ---------------------------------------------------------------------------------------------------------------
// building, describing and evaluating a labelled shape

func nbBuild(sh *nbShape, palette []nbAtom, labels []int, pos *int) graph.Criteria {
	switch sh.op {
	case nbLeaf:
		c := palette[labels[*pos]].mk()
		*pos++
		return c
	case nbNot:
		return query.Not(nbBuild(sh.kids[0], palette, labels, pos))
	case nbParen:
		return &cypher.Parenthetical{Expression: nbBuild(sh.kids[0], palette, labels, pos)}
	}
	kids := make([]graph.Criteria, len(sh.kids))
	for i, kid := range sh.kids {
		kids[i] = nbBuild(kid, palette, labels, pos)
	}
	switch sh.op {
	case nbAnd:
		return query.And(kids...)
	case nbOr:
		return query.Or(kids...)
	case nbXor:
		return query.Xor(kids...)
	default:
		exprs := make([]cypher.Expression, len(kids))
		for i, kid := range kids {
			exprs[i] = kid
		}
		return cypher.NewDisjunction(exprs...)
	}
}

func nbDescribe(sh *nbShape, palette []nbAtom, labels []int, pos *int, b *strings.Builder) {
	switch sh.op {
	case nbLeaf:
		b.WriteString(palette[labels[*pos]].src)
		*pos++
		return
	case nbNot:
		b.WriteString("query.Not(")
	case nbParen:
		b.WriteString("&cypher.Parenthetical{Expression: ")
	case nbAnd:
		b.WriteString("query.And(")
	case nbOr:
		b.WriteString("query.Or(")
	case nbXor:
		b.WriteString("query.Xor(")
	case nbRawOr:
		b.WriteString("cypher.NewDisjunction(")
	}
	for i, kid := range sh.kids {
		if i > 0 {
			b.WriteString(", ")
		}
		nbDescribe(kid, palette, labels, pos, b)
	}
	if sh.op == nbParen {
		b.WriteString("}")
	} else {
		b.WriteString(")")
	}
}

// nbEval is the common evaluator form; the built tree and the parsed model are both compiled into it
type nbEval struct {
	op   byte // nbLeaf, nbNot, nbAnd, nbOr, nbXor (nbParen / nbRawOr are compiled to identity / nbOr)
	kids []*nbEval
	sem  nbSem
	bits []uint // variable indices
	null uint   // index of the null flag
}

func (e *nbEval) eval(m uint32) bool {
	switch e.op {
	case nbLeaf:
		switch e.sem {
		case nbPlain:
			return m&(1<<e.bits[0]) != 0
		case nbString:
			return m&(1<<e.bits[0]) != 0 && m&(1<<e.null) == 0
		case nbIsNull:
			return m&(1<<e.null) != 0
		case nbNotNull:
			return m&(1<<e.null) == 0
		case nbKindAny:
			for _, b := range e.bits {
				if m&(1<<b) != 0 {
					return true
				}
			}
			return false
		default: // nbKindAll
			for _, b := range e.bits {
				if m&(1<<b) == 0 {
					return false
				}
			}
			return true
		}
	case nbNot:
		return !e.kids[0].eval(m)
	case nbAnd:
		for _, k := range e.kids {
			if !k.eval(m) {
				return false
			}
		}
		return true
	case nbOr:
		for _, k := range e.kids {
			if k.eval(m) {
				return true
			}
		}
		return false
	default: // nbXor: a xor b xor c ... = parity
		r := false
		for _, k := range e.kids {
			if k.eval(m) {
				r = !r
			}
		}
		return r
	}
}

type nbEnv struct {
	vars     []string
	index    map[string]uint
	params   map[string]any // QueryBuilder.Parameters
	used     map[string]int // parameter symbol -> number of uses in the parsed text
	given    []string       // parameter values handed to the constructors
	symbols  map[string]bool
	relMask  uint32
	hoisted  bool // class rel-kind-hoisted-from-disjunction
	relKinds int  // relationship kind matchers not below a Not
}

func (env *nbEnv) variable(name string) uint {
	if i, ok := env.index[name]; ok {
		return i
	}
	i := uint(len(env.vars))
	env.vars = append(env.vars, name)
	env.index[name] = i
	if strings.HasPrefix(name, "r:") {
		env.relMask |= 1 << i
	}
	return i
}

// the oracle side: compile this file's own tree
func nbCompileBuilt(sh *nbShape, palette []nbAtom, labels []int, pos *int, env *nbEnv, negated, disjunctive bool) *nbEval {
	switch sh.op {
	case nbLeaf:
		a := palette[labels[*pos]]
		*pos++
		e := &nbEval{op: nbLeaf, sem: a.sem}
		for _, v := range a.vars {
			e.bits = append(e.bits, env.variable(v))
		}
		if a.null != "" {
			e.null = env.variable(a.null)
		}
		if a.param != "" {
			env.given = append(env.given, a.param)
		}
		if a.relKind && !negated {
			env.relKinds++
			if disjunctive {
				env.hoisted = true
			}
		}
		return e
	case nbParen:
		return nbCompileBuilt(sh.kids[0], palette, labels, pos, env, negated, disjunctive)
	case nbNot:
		return &nbEval{op: nbNot, kids: []*nbEval{nbCompileBuilt(sh.kids[0], palette, labels, pos, env, true, disjunctive)}}
	}
	e := &nbEval{op: sh.op}
	if sh.op == nbRawOr {
		e.op = nbOr
	}
	if e.op != nbAnd && len(sh.kids) > 1 {
		disjunctive = true
	}
	for _, kid := range sh.kids {
		e.kids = append(e.kids, nbCompileBuilt(kid, palette, labels, pos, env, negated, disjunctive))
	}
	return e
}

// operand of a comparison as text: n.a, id(n), toLower(n.s)
func nbOperand(e cypher.Expression, env *nbEnv) (string, error) {
	switch t := e.(type) {
	case *cypher.Variable:
		if t == nil {
			return "", fmt.Errorf("nil variable")
		}
		env.symbols[t.Symbol] = true
		return t.Symbol, nil
	case *cypher.PropertyLookup:
		atom, err := nbOperand(t.Atom, env)
		return atom + "." + t.Symbol, err
	case *cypher.FunctionInvocation:
		var args []string
		for _, a := range t.Arguments {
			s, err := nbOperand(a, env)
			if err != nil {
				return "", err
			}
			args = append(args, s)
		}
		if t.Distinct || len(t.Namespace) > 0 {
			return "", fmt.Errorf("unexpected function form %+v", t)
		}
		return t.Name + "(" + strings.Join(args, ", ") + ")", nil
	case *cypher.Parenthetical:
		return nbOperand(t.Expression, env)
	}
	return "", fmt.Errorf("unexpected operand %T", e)
}

func (env *nbEnv) known(name string) (uint, error) {
	if i, ok := env.index[name]; ok {
		return i, nil
	}
	return 0, fmt.Errorf("the text tests %q, which no atom of the built criteria tests (atoms: %v)", name, env.vars)
}

func nbKinds(ref cypher.Expression, kinds graph.Kinds, all bool, env *nbEnv) (*nbEval, error) {
	variable, ok := ref.(*cypher.Variable)
	if !ok || variable == nil {
		return nil, fmt.Errorf("kind matcher on %T", ref)
	}
	env.symbols[variable.Symbol] = true
	e := &nbEval{op: nbLeaf, sem: nbKindAny}
	if all {
		e.sem = nbKindAll
	}
	if len(kinds) == 0 {
		return nil, fmt.Errorf("kind matcher without kinds")
	}
	for _, k := range kinds {
		i, err := env.known(variable.Symbol + ":" + k.String())
		if err != nil {
			return nil, err
		}
		e.bits = append(e.bits, i)
	}
	return e, nil
}

// the side under test: compile the parsed model
func nbCompileParsed(expr cypher.Expression, env *nbEnv) (*nbEval, error) {
	list := func(op byte, exprs []cypher.Expression) (*nbEval, error) {
		if len(exprs) == 0 {
			return nil, fmt.Errorf("empty operand list")
		}
		e := &nbEval{op: op}
		for _, x := range exprs {
			k, err := nbCompileParsed(x, env)
			if err != nil {
				return nil, err
			}
			e.kids = append(e.kids, k)
		}
		return e, nil
	}
	switch t := expr.(type) {
	case *cypher.Parenthetical:
		return nbCompileParsed(t.Expression, env)
	case *cypher.Conjunction:
		return list(nbAnd, t.Expressions)
	case *cypher.Disjunction:
		return list(nbOr, t.Expressions)
	case *cypher.ExclusiveDisjunction:
		return list(nbXor, t.Expressions)
	case *cypher.Negation:
		return list(nbNot, []cypher.Expression{t.Expression})
	case *cypher.KindMatcher:
		return nbKinds(t.Reference, t.Kinds, t.IsExclusive, env)
	case *cypher.Comparison:
		if len(t.Partials) != 1 || t.Partials[0] == nil {
			return nil, fmt.Errorf("comparison with %d right-hand sides", len(t.Partials))
		}
		lhs, err := nbOperand(t.Left, env)
		if err != nil {
			return nil, err
		}
		op := t.Partials[0].Operator.String()
		prop := lhs
		if strings.HasPrefix(lhs, "toLower(") && strings.HasSuffix(lhs, ")") {
			prop = lhs[len("toLower(") : len(lhs)-1]
		}
		switch right := t.Partials[0].Right.(type) {
		case *cypher.Parameter:
			value, bound := env.params[right.Symbol]
			if !bound {
				return nil, fmt.Errorf("$%s is not bound in Parameters %v", right.Symbol, env.params)
			}
			env.used[right.Symbol]++
			e := &nbEval{op: nbLeaf, sem: nbPlain}
			i, err := env.known(lhs + " " + op + " " + nbVal(value))
			if err != nil {
				return nil, err
			}
			e.bits = []uint{i}
			switch op {
			case "contains", "starts with", "ends with":
				e.sem = nbString
				if e.null, err = env.known("null:" + prop); err != nil {
					return nil, err
				}
			}
			return e, nil
		case *cypher.Literal:
			if !right.Null {
				return nil, fmt.Errorf("unexpected literal %#v", right.Value)
			}
			e := &nbEval{op: nbLeaf}
			switch op {
			case "is":
				e.sem = nbIsNull
			case "is not":
				e.sem = nbNotNull
			default:
				return nil, fmt.Errorf("null compared with %q", op)
			}
			if e.null, err = env.known("null:" + prop); err != nil {
				return nil, err
			}
			return e, nil
		default:
			return nil, fmt.Errorf("unexpected right-hand side %T", right)
		}
	}
	return nil, fmt.Errorf("unexpected expression %T in the parsed predicate", expr)
}

// ---------------------------------------------------------------------------------------------------------------
// one case

type nbFamily struct {
	name    string
	palette []nbAtom
	ret     string // symbol returned
}

type nbResult struct {
	failure string
	known   string // name of the known deviation class that explains a truth-table mismatch
}

func nbRender(b *QueryBuilder) (text string, err error) {
	defer func() {
		if r := recover(); r != nil {
			err = fmt.Errorf("panic: %v", r)
		}
	}()
	if err = b.Prepare(); err != nil {
		return "", fmt.Errorf("Prepare: %w", err)
	}
	if text, err = b.Render(); err != nil {
		return "", fmt.Errorf("Render: %w", err)
	}
	return text, nil
}

// ParseCypher is a function of the text alone: texts already parsed are not parsed again (many shapes that differ
// only in one-operand combinators render to the same text). The parsed model is only read.
var (
	nbParsed      sync.Map
	nbParseStored int64
)

type nbParseResult struct {
	query *cypher.RegularQuery
	err   error
}

func nbParse(text string) (*cypher.RegularQuery, error) {
	if cached, ok := nbParsed.Load(text); ok {
		r := cached.(nbParseResult)
		return r.query, r.err
	}
	parsed, err := frontend.ParseCypher(frontend.NewContext(), text)
	if atomic.AddInt64(&nbParseStored, 1) <= 200000 { // bounded memory
		nbParsed.Store(text, nbParseResult{parsed, err})
	}
	return parsed, err
}

func nbReturning(fam *nbFamily) *cypher.Return {
	if fam.ret == "r" {
		return query.Returning(query.Relationship())
	}
	return query.Returning(query.Node())
}

func nbRunCase(fam *nbFamily, sh *nbShape, labels []int) (res nbResult) {
	var src string
	describe := func() string {
		if src == "" {
			var b strings.Builder
			pos := 0
			nbDescribe(sh, fam.palette, labels, &pos, &b)
			src = b.String()
		}
		return src
	}
	fail := func(format string, args ...any) nbResult {
		return nbResult{failure: "criteria " + describe() + ": " + fmt.Sprintf(format, args...)}
	}
	defer func() {
		if r := recover(); r != nil {
			res = fail("panic: %v", r)
		}
	}()

	// the tree handed in, and an independently built twin that nothing else ever sees
	pos := 0
	criteria := nbBuild(sh, fam.palette, labels, &pos)
	pos = 0
	twin := nbBuild(sh, fam.palette, labels, &pos)

	builder := NewQueryBuilder(query.SinglePartQuery(query.Where(criteria), nbReturning(fam)))
	text, err := nbRender(builder)
	if err != nil {
		return fail("%v", err)
	}
	// prepare / render again
	if again, err := nbRender(builder); err != nil || again != text {
		return fail("second Prepare+Render gives %q (%v), the first gave %q", again, err, text)
	}
	if !reflect.DeepEqual(criteria, twin) {
		return fail("the criteria tree handed to the builder was changed by Prepare/Render (text %q)", text)
	}
	// a second builder on the SAME criteria (already used once), through the Apply route
	applied := NewEmptyQueryBuilder()
	applied.Apply(query.Where(criteria))
	applied.Apply(nbReturning(fam))
	if viaApply, err := nbRender(applied); err != nil || viaApply != text {
		return fail("NewEmptyQueryBuilder+Apply gives %q (%v), NewQueryBuilder gave %q", viaApply, err, text)
	}
	if !reflect.DeepEqual(criteria, twin) {
		return fail("the criteria tree handed to the builder was changed (text %q)", text)
	}

	// oracle side
	env := &nbEnv{index: map[string]uint{}, params: builder.Parameters, used: map[string]int{}, symbols: map[string]bool{}}
	pos = 0
	want := nbCompileBuilt(sh, fam.palette, labels, &pos, env, false, false)
	if len(env.vars) > 20 {
		return fail("harness: too many variables")
	}

	// the text must parse
	parsed, err := nbParse(text)
	if err != nil {
		return fail("the rendered text %q does not parse: %v", text, err)
	}
	if parsed == nil || parsed.SingleQuery == nil || parsed.SingleQuery.SinglePartQuery == nil || parsed.SingleQuery.MultiPartQuery != nil {
		return fail("the rendered text %q is not a single part query", text)
	}
	spq := parsed.SingleQuery.SinglePartQuery
	if len(spq.ReadingClauses) != 1 || spq.ReadingClauses[0].Match == nil || spq.ReadingClauses[0].Match.Optional || len(spq.UpdatingClauses) != 0 {
		return fail("the rendered text %q is not a single plain match", text)
	}
	if spq.Return == nil || spq.Return.Projection == nil || len(spq.Return.Projection.Items) != 1 || spq.Return.Projection.Distinct ||
		spq.Return.Projection.Order != nil || spq.Return.Projection.Skip != nil || spq.Return.Projection.Limit != nil {
		return fail("the rendered text %q does not have the plain `return %s`", text, fam.ret)
	}
	if item, ok := spq.Return.Projection.Items[0].(*cypher.ProjectionItem); !ok || item.Alias != nil {
		return fail("the rendered text %q does not have the plain `return %s`", text, fam.ret)
	} else if variable, ok := item.Expression.(*cypher.Variable); !ok || variable.Symbol != fam.ret {
		return fail("the rendered text %q does not return %s", text, fam.ret)
	}
	match := spq.ReadingClauses[0].Match

	// pattern: binds variables, and its kinds constrain the row like a conjunct
	got := &nbEval{op: nbAnd}
	bound := map[string]bool{}
	if len(match.Pattern) != 1 || match.Pattern[0] == nil || match.Pattern[0].Variable != nil || match.Pattern[0].ShortestPathPattern || match.Pattern[0].AllShortestPathsPattern {
		return fail("the rendered text %q does not have one plain pattern", text)
	}
	elements := match.Pattern[0].PatternElements
	if (fam.ret == "n" && len(elements) != 1) || (fam.ret == "r" && len(elements) != 3) {
		return fail("the rendered text %q has a pattern of %d elements", text, len(elements))
	}
	for i, element := range elements {
		if node, ok := element.AsNodePattern(); ok && i%2 == 0 {
			if node.Properties != nil {
				return fail("the rendered text %q has pattern properties", text)
			}
			if node.Variable != nil {
				bound[node.Variable.Symbol] = true
			}
			if len(node.Kinds) > 0 {
				k, err := nbKinds(node.Variable, node.Kinds, true, env)
				if err != nil {
					return fail("text %q: node pattern: %v", text, err)
				}
				got.kids = append(got.kids, k)
			}
		} else if rel, ok := element.AsRelationshipPattern(); ok && i%2 == 1 {
			if rel.Properties != nil || rel.Range != nil || rel.Direction != graph.DirectionOutbound {
				return fail("the rendered text %q does not have a plain outbound relationship pattern", text)
			}
			if rel.Variable != nil {
				bound[rel.Variable.Symbol] = true
			}
			if len(rel.Kinds) > 0 {
				// [r:A|B] is any-of; the pattern variable may be absent when only kinds are tested
				ref := rel.Variable
				if ref == nil {
					ref = &cypher.Variable{Symbol: "r"}
				}
				k, err := nbKinds(ref, rel.Kinds, false, env)
				if err != nil {
					return fail("text %q: relationship pattern: %v", text, err)
				}
				got.kids = append(got.kids, k)
			}
		} else {
			return fail("the rendered text %q has an unexpected pattern element %T at %d", text, element.Element, i)
		}
	}
	env.symbols = map[string]bool{fam.ret: true}
	if match.Where != nil {
		if len(match.Where.Expressions) != 1 {
			return fail("the where clause of %q has %d expressions", text, len(match.Where.Expressions))
		}
		k, err := nbCompileParsed(match.Where.Expressions[0], env)
		if err != nil {
			return fail("text %q: %v", text, err)
		}
		got.kids = append(got.kids, k)
	}
	for symbol := range env.symbols {
		if !bound[symbol] {
			return fail("the rendered text %q uses variable %s, which its pattern does not bind", text, symbol)
		}
	}

	// parameters: every $pN bound (checked while compiling), every bound parameter used exactly once, and the bound
	// values are the values given
	var boundValues []string
	for symbol, value := range builder.Parameters {
		if env.used[symbol] != 1 {
			return fail("parameter %s=%v is used %d times in the text %q", symbol, value, env.used[symbol], text)
		}
		boundValues = append(boundValues, nbVal(value))
	}
	sort.Strings(boundValues)
	given := append([]string{}, env.given...)
	sort.Strings(given)
	if !reflect.DeepEqual(boundValues, given) && (len(boundValues) > 0 || len(given) > 0) {
		return fail("text %q: parameters are bound to %v, the values given are %v", text, boundValues, given)
	}

	// truth tables
	for m := uint32(0); m < 1<<uint(len(env.vars)); m++ {
		if bits.OnesCount32(m&env.relMask) > 1 {
			continue // a relationship has exactly one type
		}
		if w, g := want.eval(m), got.eval(m); w != g {
			var assignment []string
			for i, v := range env.vars {
				assignment = append(assignment, fmt.Sprintf("{%s} is %v", v, m&(1<<uint(i)) != 0))
			}
			class := ""
			if env.hoisted {
				class = knownDeviations[0]
			} else if env.relKinds > 1 {
				class = knownDeviations[1]
			}
			res = fail("the rendered text %q means %v where the built criteria mean %v, for the assignment %s", text, g, w, strings.Join(assignment, ", "))
			if class != "" {
				return nbResult{known: class}
			}
			return res
		}
	}
	return nbResult{}
}

// ---------------------------------------------------------------------------------------------------------------
// enumeration plan

type nbJob struct {
	fam       *nbFamily
	shape     *nbShape
	labelings [][]int
}

// all labellings of k leaves from the given palette indices
func nbProduct(choices []int, k int) [][]int {
	out := [][]int{{}}
	for i := 0; i < k; i++ {
		var next [][]int
		for _, prefix := range out {
			for _, c := range choices {
				next = append(next, append(append([]int{}, prefix...), c))
			}
		}
		out = next
	}
	return out
}

// one special atom at one position, the plain atoms 0,1,2.. elsewhere
func nbOneSpecial(specials []int, k int) [][]int {
	var out [][]int
	for at := 0; at < k; at++ {
		for _, s := range specials {
			labels := make([]int, k)
			plain := 0
			for i := range labels {
				if i == at {
					labels[i] = s
				} else {
					labels[i] = plain
					plain++
				}
			}
			out = append(out, labels)
		}
	}
	return out
}

func nbRange(from, to int) []int {
	var out []int
	for i := from; i < to; i++ {
		out = append(out, i)
	}
	return out
}

func TestVerifBoundedNeo4jBuilder(t *testing.T) {
	bound := 1
	if v, err := strconv.Atoi(os.Getenv("VERIF_BOUND")); err == nil && v >= 2 {
		bound = 2
	}
	seed, _ := strconv.ParseInt(os.Getenv("VERIF_SEED"), 10, 64)

	var (
		nodeFam = &nbFamily{name: "n", palette: nbNodePalette, ret: "n"}
		relFam  = &nbFamily{name: "r", palette: nbRelPalette, ret: "r"}
		public  = nbNewShapes([]byte{nbNot}, []byte{nbAnd, nbOr, nbXor}, 2+bound, seed)
		mixed   = nbNewShapes([]byte{nbNot, nbParen}, []byte{nbAnd, nbOr, nbXor, nbRawOr}, 3, seed)
		all     = nbRange(0, len(nbNodePalette))
		special = nbRange(4, len(nbNodePalette))
		relAll  = nbRange(0, len(nbRelPalette))
		relFew  = nbRange(0, 4)
	)
	canonical := func(k int) [][]int { return [][]int{nbRange(0, k)} }

	var (
		cases     int64
		knownHits int64
		hitMu     sync.Mutex
		hitsByClass = map[string]int{}
		mu        sync.Mutex
		failures  []string
		failCount int
		stuck     atomic.Bool
	)
	record := func(msg string) {
		mu.Lock()
		defer mu.Unlock()
		failCount++
		failures = append(failures, msg)
		// keep the five smallest (shortest first, then lexicographic): independent of scheduling
		sort.Slice(failures, func(i, j int) bool {
			if len(failures[i]) != len(failures[j]) {
				return len(failures[i]) < len(failures[j])
			}
			return failures[i] < failures[j]
		})
		if len(failures) > 5 {
			failures = failures[:5]
		}
	}

	workers := runtime.GOMAXPROCS(0)
	if workers > 16 {
		workers = 16
	}
	type nbProgress struct {
		job    nbJob
		labels []int
		start  time.Time
	}
	current := make([]atomic.Pointer[nbProgress], workers)
	jobs := make(chan nbJob, 256)
	var wg sync.WaitGroup
	for w := 0; w < workers; w++ {
		wg.Add(1)
		go func(w int) {
			defer wg.Done()
			for job := range jobs {
				for _, labels := range job.labelings {
					if stuck.Load() {
						return
					}
					current[w].Store(&nbProgress{job: job, labels: labels, start: time.Now()})
					res := nbRunCase(job.fam, job.shape, labels)
					atomic.AddInt64(&cases, 1)
					if res.known != "" {
						atomic.AddInt64(&knownHits, 1)
						hitMu.Lock()
						hitsByClass[res.known]++
						hitMu.Unlock()
					} else if res.failure != "" {
						record(res.failure)
					}
				}
				current[w].Store(nil)
			}
		}(w)
	}

	var plan []string
	emit := func(what string, fam *nbFamily, shapes *nbShapes, depth, leaves int, labelings [][]int, rawOnly bool) {
		count := 0
		shapes.each(depth, leaves, func(sh *nbShape) {
			if rawOnly && !sh.raw {
				return
			}
			count++
			if !stuck.Load() {
				jobs <- nbJob{fam: fam, shape: sh, labelings: labelings}
			}
		})
		plan = append(plan, fmt.Sprintf("%s: %d shapes (depth<=%d, %d leaves) x %d labellings", what, count, depth, leaves, len(labelings)))
	}

	done := make(chan struct{})
	go func() {
		defer close(done)
		defer close(jobs)
		// N1: every shape, canonical plain atoms
		for k := 1; k <= 2+bound; k++ {
			emit("N1", nodeFam, public, 3, k, canonical(k), false)
		}
		// N2: atoms the rewriters touch
		emit("N2", nodeFam, public, 3, 1, nbProduct(all, 1), false)
		if bound == 1 {
			emit("N2", nodeFam, public, 2, 2, nbProduct(all, 2), false)
			emit("N2", nodeFam, public, 3, 2, nbOneSpecial(special, 2), false)
			emit("N2", nodeFam, public, 2, 3, nbOneSpecial(special, 3), false)
		} else {
			emit("N2", nodeFam, public, 3, 2, nbProduct(all, 2), false)
			emit("N2", nodeFam, public, 2, 3, nbProduct([]int{0, 4, 5, 8, 9, 10, 12, 15}, 3), false)
		}
		// N3: cypher model constructors mixed in (only shapes that contain one)
		emit("N3", nodeFam, mixed, 3, 1, canonical(1), true)
		emit("N3", nodeFam, mixed, 3, 2, canonical(2), true)
		emit("N3", nodeFam, mixed, 2, 3, canonical(3), true)
		if bound == 2 {
			emit("N3", nodeFam, mixed, 2, 2, nbProduct(all, 2), true)
		}
		// R: relationship queries
		emit("R", relFam, public, 3, 1, nbProduct(relAll, 1), false)
		if bound == 1 {
			emit("R", relFam, public, 2, 2, nbProduct(relAll, 2), false)
			emit("R", relFam, public, 3, 2, nbProduct(relFew, 2), false)
		} else {
			emit("R", relFam, public, 3, 2, nbProduct(relAll, 2), false)
		}
		emit("R", relFam, public, 2, 3, nbProduct(relFew, 3), false)
	}()

	// watchdog: no single case may take longer than 30 s
	finished := make(chan struct{})
	go func() {
		<-done
		wg.Wait()
		close(finished)
	}()
	ticker := time.NewTicker(time.Second)
	defer ticker.Stop()
wait:
	for {
		select {
		case <-finished:
			break wait
		case <-ticker.C:
			for w := range current {
				if p := current[w].Load(); p != nil && time.Since(p.start) > 30*time.Second {
					var b strings.Builder
					pos := 0
					nbDescribe(p.job.shape, p.job.fam.palette, p.labels, &pos, &b)
					record("criteria " + b.String() + ": Prepare/Render/ParseCypher did not return within 30s")
					stuck.Store(true)
				}
			}
			if stuck.Load() {
				// drain so that the producer can finish; the hung worker is abandoned
				go func() {
					for range jobs {
					}
				}()
				<-done
				break wait
			}
		}
	}

	// FAMILY "modifiers": skip / limit / order applied as criteria of their own. The text, parsed back, must carry exactly
	// the modifiers that were applied - in particular the value 0 (limit 0 selects no rows; no limit selects all).
	modifierCases := 0
	for _, skip := range []int{-1, 0, 1, 7} { // -1: not applied
		for _, limit := range []int{-1, 0, 1, 7} {
			for _, ordered := range []bool{false, true} {
				modifierCases++
				b := NewEmptyQueryBuilder()
				b.Apply(query.Where(query.Kind(query.Node(), graph.StringKind("KindA"))))
				b.Apply(query.Returning(query.Node()))
				desc := ""
				if ordered {
					b.Apply(query.OrderBy(query.Order(query.NodeProperty("name"), query.Descending())))
					desc += " order by n.name desc"
				}
				if skip >= 0 {
					b.Apply(query.Offset(skip))
					desc += fmt.Sprintf(" skip %d", skip)
				}
				if limit >= 0 {
					b.Apply(query.Limit(limit))
					desc += fmt.Sprintf(" limit %d", limit)
				}
				text, err := nbRender(b)
				if err != nil {
					record(fmt.Sprintf("modifiers%s: Prepare/Render failed: %v", desc, err))
					continue
				}
				model, err := frontend.ParseCypher(frontend.NewContext(), text)
				if err != nil || model.SingleQuery == nil || model.SingleQuery.SinglePartQuery == nil || model.SingleQuery.SinglePartQuery.Return == nil || model.SingleQuery.SinglePartQuery.Return.Projection == nil {
					record(fmt.Sprintf("modifiers%s: emitted text %q does not parse to a single part query with a projection: %v", desc, text, err))
					continue
				}
				proj := model.SingleQuery.SinglePartQuery.Return.Projection
				lit := func(e cypher.Expression) string {
					if l, ok := e.(*cypher.Literal); ok {
						return fmt.Sprint(l.Value)
					}
					return fmt.Sprintf("%T", e)
				}
				got := ""
				if proj.Order != nil && len(proj.Order.Items) > 0 {
					got += " order"
				}
				if proj.Skip != nil {
					got += " skip " + lit(proj.Skip.Value)
				}
				if proj.Limit != nil {
					got += " limit " + lit(proj.Limit.Value)
				}
				want := ""
				if ordered {
					want += " order"
				}
				if skip >= 0 {
					want += fmt.Sprintf(" skip %d", skip)
				}
				if limit >= 0 {
					want += fmt.Sprintf(" limit %d", limit)
				}
				if got != want {
					record(fmt.Sprintf("modifiers applied:%s; the emitted text %q carries:%s", desc, text, got))
				}
			}
		}
	}
	cases += int64(modifierCases)

	mu.Lock()
	out := append([]string{}, failures...)
	total := failCount
	mu.Unlock()
	if out == nil {
		out = []string{}
	}
	res := map[string]any{
		"name": "neo4j-builder",
		"bound": fmt.Sprintf("criteria trees of depth <= 3 over And/Or/Xor/Not (1..%d operands), <= %d leaves, through neo4j.QueryBuilder Prepare+Render and ParseCypher, truth tables over all atom assignments; %s",
			2+bound, 2+bound, strings.Join(plan, "; ")),
		"cases":            atomic.LoadInt64(&cases),
		"exhaustive":       !stuck.Load(),
		"failures":         out,
		"failures_total":   total,
		"known_deviations": map[string]any{"classes": knownDeviations, "cases": atomic.LoadInt64(&knownHits)},
		"known_deviation_hits": hitsByClass,
	}
	line, _ := json.Marshal(res)
	fmt.Println("BOUNDED-RESULT " + string(line))
	if total > 0 {
		t.Fail()
	}
}
