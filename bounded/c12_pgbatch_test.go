package query

// Bounded stand-in for C12, the PostgreSQL driver's batch assembly (labelled bounded, never counted as proved).
// NodeUpdateBatch.Add folds every update of a batch that has the same identity key into one node by Node.Merge; the
// node that is finally written carries its kinds in AddedKinds/DeletedKinds (the upsert writes the added kinds, the
// update statement removes the deleted ones). C12 for this path: the change sets of the folded node are disjoint and
// say exactly what the sequence of updates asked for, the last update of a kind winning.
//
// INPUTS: every sequence of 1..3 updates with the same identity key; each update is a node built with
// graph.PrepareNode over a subset of the kinds {A, B, C} (3 kinds: 8 subsets) and then edited by at most one
// DeleteKinds(k) or AddKinds(k) for one kind k (7 edit choices incl. none): (8*7)^1 + (8*7)^2 + (8*7)^3 sequences at
// bound "2"; bound "1" uses the kinds {A, B} (4 subsets, 5 edit choices: 20 + 400 + 8000 sequences).
//
// ORACLE (from the statement): replay the updates in order over an initially unknown target; an update ADDS every kind
// in its Kinds and REMOVES every kind in its DeletedKinds; a later update's word on a kind overrides an earlier one.
// The folded node must have: AddedKinds == the kinds whose last word is "add"; DeletedKinds == the kinds whose last word
// is "remove"; the two disjoint; AddedKinds a subset of Kinds and DeletedKinds disjoint from Kinds; no duplicates.

import (
	"encoding/json"
	"fmt"
	"os"
	"sort"
	"strings"
	"testing"

	"github.com/specterops/dawgs/graph"
)

func TestVerifBoundedPgBatch(t *testing.T) {
	names := []string{"A", "B"}
	if os.Getenv("VERIF_BOUND") == "2" {
		names = []string{"A", "B", "C"}
	}
	kinds := make([]graph.Kind, len(names))
	for i, n := range names {
		kinds[i] = graph.StringKind(n)
	}
	type spec struct {
		subset uint
		edit   int // 0 none; 1+2k delete kind k; 2+2k add kind k
	}
	var specs []spec
	for subset := uint(0); subset < 1<<uint(len(kinds)); subset++ {
		for edit := 0; edit <= 2*len(kinds); edit++ {
			specs = append(specs, spec{subset, edit})
		}
	}
	describe := func(s spec) string {
		var ks []string
		for i, n := range names {
			if s.subset&(1<<uint(i)) != 0 {
				ks = append(ks, n)
			}
		}
		d := "node(" + strings.Join(ks, ",") + ")"
		if s.edit > 0 {
			k := names[(s.edit-1)/2]
			if s.edit%2 == 1 {
				d += ".DeleteKinds(" + k + ")"
			} else {
				d += ".AddKinds(" + k + ")"
			}
		}
		return d
	}
	build := func(s spec) *graph.Node {
		var ks []graph.Kind
		for i := range kinds {
			if s.subset&(1<<uint(i)) != 0 {
				ks = append(ks, kinds[i])
			}
		}
		n := graph.PrepareNode(graph.NewProperties().Set("objectid", "same-key"), ks...)
		if s.edit > 0 {
			k := kinds[(s.edit-1)/2]
			if s.edit%2 == 1 {
				n.DeleteKinds(k)
			} else {
				n.AddKinds(k)
			}
		}
		return n
	}
	setOf := func(ks graph.Kinds) (map[string]bool, bool) {
		out := map[string]bool{}
		dup := false
		for _, k := range ks {
			if out[k.String()] {
				dup = true
			}
			out[k.String()] = true
		}
		return out, dup
	}
	show := func(m map[string]bool) string {
		var ks []string
		for k := range m {
			ks = append(ks, k)
		}
		sort.Strings(ks)
		return "[" + strings.Join(ks, " ") + "]"
	}
	var failures []string
	cases := 0
	var run func(seq []spec)
	run = func(seq []spec) {
		if len(seq) > 0 {
			cases++
			batch := NewNodeUpdateBatch()
			word := map[string]string{} // kind -> "add" / "remove": the last word of the sequence
			var descs []string
			panicked := ""
			func() {
				defer func() {
					if r := recover(); r != nil {
						panicked = fmt.Sprint(r)
					}
				}()
				for _, s := range seq {
					n := build(s)
					descs = append(descs, describe(s))
					// what this update asks for, read off the node before it is handed over
					for _, k := range n.Kinds {
						word[k.String()] = "add"
					}
					for _, k := range n.DeletedKinds {
						word[k.String()] = "remove"
					}
					if _, err := batch.Add(graph.NodeUpdate{Node: n, IdentityProperties: []string{"objectid"}}); err != nil {
						panicked = "Add returned " + err.Error()
						return
					}
				}
			}()
			where := "updates [" + strings.Join(descs, "; ") + "]"
			switch {
			case panicked != "":
				if len(failures) < 6 {
					failures = append(failures, where+": "+panicked)
				}
			case len(batch.Updates) != 1:
				if len(failures) < 6 {
					failures = append(failures, fmt.Sprintf("%s: the batch holds %d nodes for one identity key", where, len(batch.Updates)))
				}
			default:
				for _, u := range batch.Updates {
					added, d1 := setOf(u.Node.AddedKinds)
					deleted, d2 := setOf(u.Node.DeletedKinds)
					current, d3 := setOf(u.Node.Kinds)
					wantAdded, wantDeleted := map[string]bool{}, map[string]bool{}
					for k, w := range word {
						if w == "add" {
							wantAdded[k] = true
						} else {
							wantDeleted[k] = true
						}
					}
					bad := d1 || d2 || d3 || show(added) != show(wantAdded) || show(deleted) != show(wantDeleted)
					for k := range added {
						if !current[k] || deleted[k] {
							bad = true
						}
					}
					for k := range deleted {
						if current[k] {
							bad = true
						}
					}
					if bad && len(failures) < 6 {
						failures = append(failures, fmt.Sprintf("%s: the folded node has Kinds=%s AddedKinds=%s DeletedKinds=%s (duplicates: %v); the updates ask for added %s and removed %s", where, show(current), show(added), show(deleted), d1 || d2 || d3, show(wantAdded), show(wantDeleted)))
					}
				}
			}
		}
		if len(seq) == 3 {
			return
		}
		for _, s := range specs {
			run(append(append([]spec{}, seq...), s))
		}
	}
	run(nil)
	res := map[string]any{"name": "pg-batch", "bound": fmt.Sprintf("every sequence of 1..3 updates with one identity key; each update a prepared node over a subset of %v with at most one AddKinds/DeleteKinds edit (%d node shapes)", names, len(specs)), "cases": cases, "exhaustive": true, "failures": failures}
	data, _ := json.Marshal(res)
	fmt.Println("BOUNDED-RESULT " + string(data))
	if len(failures) > 0 {
		t.Fail()
	}
}
